#!/usr/bin/env python3
"""Regenerate the 'As built — index' table of DESIGN.md §5 from coq/theories/Props/Cxx.v and bin/props.py."""
import re, os, sys
ROOT = os.path.join(os.path.dirname(os.path.abspath(__file__)), "..")
sys.path.insert(0, os.path.join(ROOT, "bin"))
import props  # noqa: E402

P = getattr(props, "PROPS", None) or getattr(props, "props", None)
rows = []
for i in range(1, 21):
    pid = "C%02d" % i
    src = open(os.path.join(ROOT, "coq/theories/Props/%s.v" % pid)).read()
    names = re.findall(r"^(?:Theorem|Example|Lemma|Corollary)\s+%s_(\w+)" % pid, src, re.M)
    mods = set()
    for m in re.finditer(r"From AG Require Import ([^.]*(?:\.[A-Za-z][^.\s]*)*)\.", src):
        pass
    for m in re.finditer(r"From AG Require Import\s+(.*?)\.\s*$", src, re.M | re.S):
        mods.update(m.group(1).split())
    entry = P[pid] if isinstance(P, dict) else [p for p in P if p["id"] == pid][0]
    streams = entry.get("streams", [])
    rows.append("| %s | %d | %s | %s | %s |" % (pid, len(names), ", ".join(names), ", ".join(sorted(mods)), ", ".join(streams)))
d = open(os.path.join(ROOT, "DESIGN.md")).read().split("\n")
mark = [k for k, l in enumerate(d) if l.startswith("*As built — index.*")][0]
a = [k for k, l in enumerate(d) if l.startswith("| C01 | ") and k > mark][0]
b = a
while d[b].startswith("| C"):
    b += 1
d[a:b] = rows
open(os.path.join(ROOT, "DESIGN.md"), "w").write("\n".join(d))
print("index table: %d rows" % len(rows))
