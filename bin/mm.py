#!/usr/bin/env python3
"""debug helper: explain MISMATCH lines of a model_driver run (mm.txt) against cases.tsv"""
import json,sys
d=sys.argv[1]
lines=open(d+'/cases.tsv').read().split('\n')
def items(s):
    out=[];dep=0;cur=''
    for ch in s[1:-1]:
        if ch=='(':dep+=1
        if ch==')':dep-=1
        if ch==' ' and dep==0:
            out.append(cur);cur=''
        else: cur+=ch
    if cur: out.append(cur)
    return out
for l in open(d+'/mm.txt'):
    if not l.startswith('MISMATCH'): continue
    _,ln,fid,got=l.rstrip('\n').split('\t',3)
    parts=lines[int(ln)-1].split('\t')
    exp=parts[2]; human=parts[3]
    a=items(exp); b=items(got)
    diffs=[i for i,(x,y) in enumerate(zip(a,b)) if x!=y]
    try:
        rule=json.loads(human.split(' rule=')[1].split(' source=')[0]).replace('\n',' | ')
    except Exception:
        rule=human[:300]
    print('LINE',ln,'fid',fid,'diffpos',diffs[:8],'impl',[a[i][:70] for i in diffs[:2]],'model',[b[i][:70] for i in diffs[:2]])
    print('   ',rule[:int(sys.argv[2]) if len(sys.argv)>2 else 500])
