#!/usr/bin/env python3
"""Regenerate MANIFEST.json from bin/props.py (single source of truth for what is claimed)."""
import json, os, sys, subprocess
ROOT = os.path.dirname(os.path.dirname(os.path.abspath(__file__)))
sys.path.insert(0, os.path.join(ROOT, "bin"))
from props import PROPS, NOT_CLAIMED  # noqa: E402

ALL = [f"C{i:02d}" for i in range(1, 21)]


def repo_hook_commits():
    try:
        out = subprocess.run(["git", "-C", "/repo", "log", "--format=%H %s"], stdout=subprocess.PIPE).stdout.decode()
    except Exception:
        return []
    return [l.split()[0] for l in out.splitlines() if " verif-hook:" in l or l.split(" ", 1)[1].startswith("verif hook")]


def main():
    claimed = [p for p in ALL if p in PROPS and PROPS[p].get("claimed", True)]
    checks = []
    for p in claimed:
        c = PROPS[p]
        checks.append({
            "property_id": p,
            "quick_cmd": f"bin/check {p} --tier quick",
            "thorough_cmd": f"bin/check {p} --tier thorough",
            "evidence_file": f"/verif/evidence/{p}.json",
            "replay_cmd_template": f"bin/check {p} --replay {{path}}",
            "engine": "coq-model+tie",
            "level_claimed": {"category": "proof", "text": c["level_text"], "design_ref": f"DESIGN.md §5 {p}"},
            "level_note": c["level_note"],
            "technique": c.get("technique", "Coq proof (unbounded) over a Gallina model + extracted-model/implementation differential tie + direct oracle on the implementation"),
        })
    na = []
    for p in ALL:
        if p not in claimed:
            na.append({"property_id": p, "reason": NOT_CLAIMED.get(p, "check not built yet (planned: proof + tie, DESIGN.md §5); listed so the manifest stays truthful")})
    m = {
        "version": 1,
        "setup_cmd": "bin/setup",
        "hooks": {
            "guard": "ast_grep_verif",
            "enable": "RUSTFLAGS=\"--cfg ast_grep_verif\" (set by harness/.cargo/config.toml and by bin/check for the CLI build); no hook is currently needed: everything is observed through public API, the CLI and the LSP service",
            "baseline_off_cmd": "cd /repo && cargo test --workspace --no-fail-fast --offline",
            "source_commits": repo_hook_commits(),
            "add_only": True,
        },
        "engines": [{
            "name": "coq-model+tie",
            "path": "/verif/bin/check",
            "serves_properties": claimed,
            "kind_free_text": "Coq 8.16.1 theorems over a hand-written Gallina model; model extracted to OCaml and run against the Rust implementation (harness crate with path deps on /repo/crates, plus the ast-grep binary built from /repo) on generated inputs; a direct property oracle on the implementation searches for failing inputs",
        }],
        "checks": checks,
        "notes": "see DESIGN.md; known findings in known_findings.txt; seeded changes in seeded/",
        "not_applicable": na,
    }
    with open(os.path.join(ROOT, "MANIFEST.json"), "w", encoding="utf-8") as f:
        json.dump(m, f, indent=1, ensure_ascii=False)
        f.write("\n")
    print("claimed:", " ".join(claimed))


if __name__ == "__main__":
    main()
