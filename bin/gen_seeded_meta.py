#!/usr/bin/env python3
"""Write seeded/<id>/meta.json from the author's report (meta.agent.json), my confirmation (confirm.log)
and the last sweep (seeded/RESULTS.tsv)."""
import json, os, re
ROOT = os.path.dirname(os.path.dirname(os.path.abspath(__file__)))
res = {}
p = os.path.join(ROOT, "seeded", "RESULTS.tsv")
if os.path.exists(p):
    for line in open(p, encoding="utf-8"):
        f = line.rstrip("\n").split("\t")
        if len(f) >= 6:
            res[f[0]] = {"detected": f[2], "patch_used": f[3], "violation_line": f[4], "summary_line": f[5]}
for d in sorted(os.listdir(os.path.join(ROOT, "seeded"))):
    dd = os.path.join(ROOT, "seeded", d)
    if not re.match(r"C\d\d-m\d+$", d) or not os.path.isdir(dd):
        continue
    a = {}
    ap = os.path.join(dd, "meta.agent.json")
    if os.path.exists(ap):
        a = json.load(open(ap, encoding="utf-8"))
    confirm = open(os.path.join(dd, "confirm.log"), encoding="utf-8").read().strip().split("\n") if os.path.exists(os.path.join(dd, "confirm.log")) else []
    files = sorted(os.listdir(dd))
    demo = [f for f in files if f.startswith("demo")]
    meta = {
        "id": d,
        "property": d.split("-")[0],
        "what_changes": a.get("summary", ""),
        "needs_to_manifest": a.get("needs", ""),
        "written_by": "independent sub-agent given only the property text and a scratch git worktree of /repo (nothing from /verif)",
        "author_ran": a.get("ran", []),
        "confirmed_by_me": {
            "how": "bin/confirm_mutant: scratch worktree at the then-current /repo HEAD; patch applied; `cargo test --workspace --no-fail-fast --offline` (all baseline tests pass, no compile error); demonstration fails with the patch and passes without it",
            "log": confirm,
        },
        "files": {"patch": "patch.diff", "patch_for_current_head": "patch.rebased.diff" if "patch.rebased.diff" in files else "patch.diff", "demonstration": demo},
        "apply": "git -C /repo apply /verif/seeded/%s/%s ; bin/check %s --tier quick ; git -C /repo checkout -- ." % (d, "patch.rebased.diff" if "patch.rebased.diff" in files else "patch.diff", d.split("-")[0]),
        "quick_check_result": res.get(d, {"detected": "not swept yet"}),
    }
    json.dump(meta, open(os.path.join(dd, "meta.json"), "w", encoding="utf-8"), indent=1, ensure_ascii=False)
print("meta.json written for", len([x for x in os.listdir(os.path.join(ROOT, 'seeded')) if re.match(r'C\d\d-m\d+$', x)]), "seeded changes")
