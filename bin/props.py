"""Per-property configuration of bin/check."""

COMMON_TRUSTED = [
    "Coq 8.16.1 kernel (coqc, full .vo build; vm_compute used in witness lemmas and finite table sweeps; no native_compute)",
    "axioms: none — every theorem in Props/ is 'Closed under the global context' (checked on every run against an empty allow-list)",
    "hand-written Gallina model of the anchored Rust functions; its agreement with the code is exactly the correspondence run of this check",
    "extraction: Coq Extraction + ExtrOcamlBasic only (no Extract Constant / Extract Inductive of our own), OCaml 4.13.1, coq/extract/driver.ml (wire reader/printer)",
    "Rust harness /verif/harness (generators, dumps, canonicalisation, independent oracle functions) built against /repo's working tree",
    "bin/gen_tables.py (regex scraper producing Gen/Tables.v from the Rust sources)",
]

PROPS = {
    "C02": {
        "streams": ["c02"],
        "cli": False,
        "trusted": ["tree-sitter re-parses the holed text to the same tree shape: decided per case on the real re-parsed pattern (skipped cases are counted), not proved"],
        "assumptions": ["trees are the real tree-sitter parses, dumped per case; node text is the byte slice of its range"],
    },
    "C03": {
        "streams": ["c03"],
        "cli": False,
        "trusted": ["the alignment relation in Match/Align.v is the reading of the property text (unnamed tokens are compared by kind only, as the code documents)"],
        "assumptions": ["trees are the real tree-sitter parses, dumped per case"],
    },
    "C07": {
        "streams": ["c07"],
        "cli": False,
        "trusted": ["tree-sitter parse of the corpus sources (node ranges are taken from the real parse)"],
        "assumptions": ["the sigil is the single byte '$'; captured ranges are byte ranges of the document; the indentation clause is checked only for captures without blank or under-indented continuation lines (the property's own restriction)"],
    },
    "C20": {
        "streams": ["c20"],
        "cli": False,
        "trusted": ["tree-sitter grammars deliver each spelling to extract_meta_var as one leaf (validated by the pattern-shape stream, not proved)"],
        "assumptions": ["strings are sequences of Unicode scalar values; the sigil is '$' (no built-in language overrides meta_var_char)"],
    },
}
