"""Per-property configuration of bin/check."""

COMMON_TRUSTED = [
    "Coq 8.16.1 kernel (coqc, full .vo build; vm_compute used in witness lemmas and finite table sweeps; no native_compute)",
    "axioms: none — every theorem in Props/ is 'Closed under the global context' (checked on every run against an empty allow-list)",
    "hand-written Gallina model of the anchored Rust functions; its agreement with the code is exactly the correspondence run of this check",
    "extraction: Coq Extraction + ExtrOcamlBasic only (no Extract Constant / Extract Inductive of our own), OCaml 4.13.1, coq/extract/driver.ml (wire reader/printer)",
    "Rust harness /verif/harness (generators, dumps, canonicalisation, independent oracle functions) built against /repo's working tree",
    "bin/gen_tables.py (regex scraper producing Gen/Tables.v from the Rust sources)",
]

PROPS = {
    "C01": {
        "level_text": "Coq theorems (axiom-free) over Gallina models of the three accelerations: node-kind dispatch (potential_kinds is sound for EVERY rule: whatever a rule matches has one of its potential kinds, hence FindAllNodes, RuleCore::do_match's kind pre-check and CombinedScan's kind table never drop a match), the pre-order traversal (find_all = the nodes the matcher matches individually, in document order; the overlap-free visitor keeps exactly the outermost matches) and CombinedScan (the findings attributed to a rule are those of the rule alone, whatever other rules are scanned together), plus the literal prefilter (Pattern::fixed_string, strictness-aware after a fix). Tied on every run: potential_kinds, find_all, both visitors, CombinedScan and fixed_string of the implementation vs the extracted model on real trees of 23 languages; direct oracle: all of them against matching each node individually; the CLI (sg run / sg scan, with and without --strictness, --stdin) against the library on the same files",
        "level_note": "trusted: Coq kernel, extraction + driver, Rust harness; CLI argument parsing, file walking and printing are tied (correspondence), not proved; the construction-time caching of potential kinds in All/Any is not modelled (a stale lookup can only widen the set); unnamed tokens are compared by kind only, so the prefilter theorem assumes their text is determined by their kind",
        "streams": ["c01", "c01cli"],
        "cli": True,
        "stream_timeout": 2400,
        "trusted": ["the matcher enters the traversal/scan models as the set of nodes it matches individually (computed by the implementation per node): exactly the quantity the property compares against"],
        "assumptions": ["node ids unique within a document"],
    },
    "C02": {
        "level_text": "Coq theorems (axiom-free) over a Gallina model of Pattern::match_node_with_env / convert_node_to_pattern: for EVERY tree, every recogniser of meta-variable spellings, every set of non-overlapping holes and trailing ellipsis runs and all five strictness levels the cut pattern matches the code it was cut from and the resulting environment is exactly the recorded bindings (C02_cut_matches, C02_self_match). The model is tied to the code on every run: real tree-sitter parses of 23 languages are dumped, the implementation and the extracted model are run on the same (pattern, node) pairs and outcomes + environments are diffed; the direct oracle runs the property itself on the implementation (cut, re-parse, match at 5 levels, compare bound ranges)",
        "level_note": "trusted: Coq kernel, extraction (ExtrOcamlBasic only) + OCaml driver, Rust harness; the precondition that the holed text re-parses to the same tree shape is decided per case on the real re-parsed pattern and skipped cases are counted, not proved",
        "streams": ["c02"],
        "cli": False,
        "trusted": ["tree-sitter re-parses the holed text to the same tree shape: decided per case on the real re-parsed pattern (skipped cases are counted), not proved"],
        "assumptions": ["trees are the real tree-sitter parses, dumped per case; node text is the byte slice of its range"],
    },
    "C03": {
        "level_text": "Coq theorems over the same matcher model as C02 (tied to the code on every run by outcome/environment/length diff on near-miss pairs): soundness of a reported match w.r.t. an independent alignment relation, with the reported prefix length bounded by the node and ending on a descendant boundary. The direct oracle re-checks every match the implementation reports against an independent alignment decision procedure written in Rust from the property text",
        "level_note": "trusted: Coq kernel, extraction + driver, Rust harness incl. its independent alignment checker; unnamed tokens are compared by kind only (documented behaviour of the code)",
        "streams": ["c03"],
        "cli": False,
        "trusted": ["the alignment relation in Match/Align.v is the reading of the property text (unnamed tokens are compared by kind only, as the code documents)"],
        "assumptions": ["trees are the real tree-sitter parses, dumped per case"],
    },
    "C04": {
        "level_text": "Coq theorems (axiom-free) over a Gallina model of the rule evaluator (Rule::match_node_with_env for all 13 operators, ops::All/Any/Not, relational rules with stopBy/field, nthChild.ofRule, matches, RuleCore constraints) in which the environment is threaded exactly as the Rust threads it and is returned on failure too: a rejected rule leaves the environment untouched, the reported candidate of a relational rule / the winning `any` branch was evaluated from the original environment, `all` is the left-to-right union, and the pattern matcher only re-binds a name to structurally identical code. Tied on every run: random rule objects sharing variable names across all operators are loaded by the real loader and evaluated on every node of real trees; outcome, returned node and the full environment are diffed against the extracted model",
        "level_note": "trusted: Coq kernel, extraction + driver, Rust harness (rule generator, wire encoding of rules); regex is an oracle (node ids the regex matches); the ellipsis look-ahead inside ONE pattern can leave a binding made for a rejected alignment (known finding, see known_findings.txt)",
        "streams": ["c04", "c04x", "c04g"],
        "cli": False,
        "stream_timeout": 2400,
        "trusted": ["regex atoms enter the model as the set of nodes whose text the real regex matches"],
        "assumptions": ["rules reach the model as the serialised rule object plus the dumped PatternNode of every pattern string"],
    },
    "C05": {
        "level_text": "Coq theorems over the same evaluator model as C04 and an independent, environment-free reference semantics `sem` written from the rule reference (conjunction/disjunction/negation; inside/has/precedes/follows as quantification over ancestors/descendants/later/earlier siblings within the stopBy window and field; kind/regex/range/nthChild on the node itself; matches = the utility): the evaluator decides exactly `sem` on well-formed documents. Tied on every run: random rule trees over all 13 operators evaluated with the real RuleCore::match_node on every node (root included) of real trees vs the extracted evaluator (tie) and vs the extracted `sem` (direct oracle: a disagreement is a failing input)",
        "level_note": "trusted: Coq kernel, extraction + driver, Rust harness; regex is an oracle; zero-width recovery nodes and non-unique fields are outside the property",
        "streams": ["c05"],
        "cli": False,
        "stream_timeout": 2400,
        "trusted": ["regex atoms enter the model as the set of nodes whose text the real regex matches"],
        "assumptions": ["documents without zero-width nodes (counted in the evidence)", "variable-disjoint rules for the reference-semantics oracle"],
    },
    "C07": {
        "level_text": "Coq theorems (axiom-free) over a byte-level Gallina model of create_template / split_first_meta_var / replace_fixer / get_indent_at_offset / extract_with_deindent / indent_lines / remove_indent for ALL byte strings: the template scanner is characterised by an independent tokenizer and round-trips, substitution is verbatim, the indentation law and the self-rewrite identity hold under the property's own restriction. Tied on every run: implementation's generate_replacement / used_vars / insert_transformation vs the extracted model on generated templates, layouts and real captures; direct oracle: self-rewrite is a no-op on the implementation",
        "level_note": "trusted: Coq kernel, extraction + driver, Rust harness; convert (string_case) and regex replace are not modelled",
        "streams": ["c07"],
        "cli": False,
        "trusted": ["tree-sitter parse of the corpus sources (node ranges are taken from the real parse)"],
        "assumptions": ["the sigil is the single byte '$'; captured ranges are byte ranges of the document; the indentation clause is checked only for captures without blank or under-indented continuation lines (the property's own restriction)"],
    },
    "C14": {
        "level_text": "Coq theorems (axiom-free) over a Gallina model of CombinedScan's two passes (suppression collection keyed by the governed line, matching pass, used/unused bookkeeping) and of parse_suppression_set: a finding is dropped iff a suppression comment governs the line where it starts and lists the rule id or lists nothing (the declarative side is written from the property text, independently of the table), every other finding is reported, a comment is reported unused iff it silenced nothing, and the id-list syntax is parsed exactly. Tied on every run: CombinedScan on generated sources of 16 languages (own-line / trailing comments, irregular id lists, several findings and several comments per line, overlapping rules) vs the extracted model on the dumped tree; direct oracle: a line-based expectation computed from the generator's own record of the comments",
        "level_note": "trusted: Coq kernel, extraction + driver, Rust harness; str::trim is modelled for ASCII white space only; tree-sitter recognising each comment as one comment node is checked per source (skipped sources are counted)",
        "streams": ["c14"],
        "cli": False,
        "trusted": ["each rule enters the model as the set of nodes it matches individually"],
        "assumptions": ["well-formed suppression comments on single-line statements, as the property says"],
    },
    "C16": {
        "level_text": "Coq theorems (axiom-free) over Gallina models of the JSON printer automaton (before_print / process with its separator state / after_print / print_docs: for every sequence of buffers, empty ones included, the output is the JSON array — or one document per line — of exactly the documents received), of Node::display_context (`lines` is the whole lines covering the match plus context, clipped at the text's ends; the leading text holds exactly the reported number of lines) and of get_char_column / position (line = newlines before the offset, column = characters since the line start). Tied on every run: the raw documents of the CLI's output through the model's automaton must reproduce the CLI's bytes, display_context of every match through the library vs the model; direct oracle: every field of every JSON record (text, byteOffset, start/end, lines, charCount, every meta-variable and label, replacementOffsets) and every path:line:text entry of the plain report recomputed from the file bytes on CRLF / multi-byte / long-line / no-trailing-newline files, all three JSON styles and -A/-B/-C",
        "level_note": "trusted: Coq kernel, extraction + driver, Rust harness; serde_json's serialisation of one document, clap and the terminal glue are not modelled (tied through the CLI)",
        "streams": ["c16"],
        "cli": True,
        "trusted": ["documents are opaque non-empty byte strings for the framing theorem"],
        "assumptions": ["file contents are valid UTF-8 (other files are skipped by the CLI: C17)"],
    },
    "C19": {
        "level_text": "Coq theorems (axiom-free) over a Gallina model of the tree-sitter cursor iterators and the Node navigation API: Pre/Post/Level unfold to exactly the recursive pre-/post-/level-order list of the subtree (each node once, in order, nothing outside; any number of next() calls yields a prefix), ancestors is the chain of parents, next_all/prev_all are the iterated siblings for every node including the root, child ranges nest, and get_char_column / position equal the newline and character counts of the prefix. Tied on every run: the public API on every node of real and token-mutated (error-containing, CRLF, lone-CR, multi-byte, empty) trees of all 23 languages vs the extracted model on the dumped tree; direct oracle: the API against recursive baselines computed from children() and against the bytes",
        "level_note": "trusted: Coq kernel, extraction + driver, Rust harness; that tree-sitter's child ranges are ordered/nested and its rows equal newline counts is validated per dumped tree (wfb, direct oracle), not proved; the sibling clause excludes parents with zero-width children as the property does",
        "streams": ["c19"],
        "cli": False,
        "trusted": ["tree-sitter cursor primitives (goto_first_child, goto_next_sibling, goto_parent scoped to the start node, goto_first_child_for_byte) behave as modelled: exercised by the tie on every tree"],
        "assumptions": ["node ids are unique within a document (tree-sitter node identity)"],
    },
    "C20": {
        "level_text": "Coq theorems over a Gallina model of extract_meta_var / pre_process_pattern / is_matched / Substring::compute for all strings, all indices and all integer bounds (not the property's length bounds); the model is tied to the code on every run by running the extracted model and the Rust functions on the same inputs (exhaustive up to a length bound, 23 languages) and the expando table is re-scraped from the source so the table obligation is re-proved against the code as it is",
        "level_note": "trusted: Coq kernel, extraction (ExtrOcamlBasic only) + OCaml driver, Rust harness, table scraper; tree-sitter grammars delivering a spelling as one leaf are validated by enumeration, not proved",
        "streams": ["c20"],
        "cli": False,
        "trusted": ["tree-sitter grammars deliver each spelling to extract_meta_var as one leaf (validated by the pattern-shape stream, not proved)"],
        "assumptions": ["strings are sequences of Unicode scalar values; the sigil is '$' (no built-in language overrides meta_var_char)"],
    },
}

# properties not claimed (yet): reason shown in MANIFEST.not_applicable
NOT_CLAIMED = {}
