From Coq Require Extraction.
From Coq Require Import ExtrOcamlBasic.
From AG Require Import Base.Val Run.
Extraction Language OCaml.
Extraction "model.ml" run_case z_of_digits digits_of_Z.
