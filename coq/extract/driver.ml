(* Fixed reader/printer around the extracted model.  Input lines:
     fid <TAB> input-val [<TAB> expected-val]
   Output: with an expected column, one "MISMATCH <lineno> <fid> <got>" line per
   disagreement and a final "DONE <total> <mismatches>"; without it, the result val
   per line.  Wire syntax: int | s<hex bytes, {hex} for elements >= 256> | ( v v .. ) *)
open Model

let rec pos_of_int (i : int) : positive =
  if i = 1 then XH
  else if i land 1 = 0 then XO (pos_of_int (i lsr 1))
  else XI (pos_of_int (i lsr 1))
let n_of_int i = if i = 0 then N0 else Npos (pos_of_int i)
let z_of_int i = if i = 0 then Z0 else if i > 0 then Zpos (pos_of_int i) else Zneg (pos_of_int (-i))

(* returns None when the value does not fit in 61 bits *)
let int_of_pos (p : positive) : int option =
  let rec go p acc bit =
    if bit > 60 then None else
    match p with
    | XH -> Some (acc lor (1 lsl bit))
    | XO q -> go q acc (bit + 1)
    | XI q -> go q (acc lor (1 lsl bit)) (bit + 1) in
  go p 0 0
let int_of_n = function N0 -> Some 0 | Npos p -> int_of_pos p

let buf_z b (z : z) =
  let small = match z with
    | Z0 -> Some 0
    | Zpos p -> int_of_pos p
    | Zneg p -> (match int_of_pos p with Some i -> Some (-i) | None -> None) in
  match small with
  | Some i -> Buffer.add_string b (string_of_int i)
  | None ->
    let (neg, ds) = digits_of_Z z in
    if neg then Buffer.add_char b '-';
    List.iter (fun d -> match int_of_n d with Some i -> Buffer.add_string b (string_of_int i) | None -> ()) ds

let rec buf_val b (v : val0) =
  match v with
  | VZ z -> buf_z b z
  | VS s ->
    Buffer.add_char b 's';
    List.iter (fun c ->
      match int_of_n c with
      | Some i when i < 256 -> Buffer.add_string b (Printf.sprintf "%02x" i)
      | Some i -> Buffer.add_string b (Printf.sprintf "{%x}" i)
      | None -> Buffer.add_string b "{?}") s
  | VL l ->
    Buffer.add_char b '(';
    List.iteri (fun i x -> if i > 0 then Buffer.add_char b ' '; buf_val b x) l;
    Buffer.add_char b ')'

let hexv c = match c with
  | '0'..'9' -> Char.code c - 48
  | 'a'..'f' -> Char.code c - 87
  | 'A'..'F' -> Char.code c - 55
  | _ -> failwith "hex"

(* parser over a string with a position *)
let parse_val (s : string) : val0 =
  let n = String.length s in
  let pos = ref 0 in
  let rec value () : val0 =
    if !pos >= n then failwith "eof";
    match s.[!pos] with
    | '(' ->
      incr pos;
      let items = ref [] in
      let fin = ref false in
      while not !fin do
        if !pos >= n then failwith "eof in list";
        (match s.[!pos] with
         | ')' -> incr pos; fin := true
         | ' ' -> incr pos
         | _ -> items := value () :: !items)
      done;
      VL (List.rev !items)
    | 's' ->
      incr pos;
      let items = ref [] in
      let fin = ref false in
      while not !fin do
        if !pos >= n then fin := true else
        match s.[!pos] with
        | '{' ->
          incr pos;
          let v = ref 0 in
          while s.[!pos] <> '}' do v := !v * 16 + hexv s.[!pos]; incr pos done;
          incr pos;
          items := n_of_int !v :: !items
        | '0'..'9' | 'a'..'f' ->
          let v = hexv s.[!pos] * 16 + hexv s.[!pos + 1] in
          pos := !pos + 2;
          items := n_of_int v :: !items
        | _ -> fin := true
      done;
      VS (List.rev !items)
    | '-' | '0'..'9' ->
      let start = !pos in
      if s.[!pos] = '-' then incr pos;
      while !pos < n && s.[!pos] >= '0' && s.[!pos] <= '9' do incr pos done;
      let lit = String.sub s start (!pos - start) in
      if String.length lit <= 17 then VZ (z_of_int (int_of_string lit))
      else begin
        let neg = lit.[0] = '-' in
        let ds = ref [] in
        String.iter (fun c -> if c <> '-' then ds := n_of_int (Char.code c - 48) :: !ds) lit;
        VZ (z_of_digits neg (List.rev !ds))
      end
    | c -> failwith (Printf.sprintf "bad char %c at %d" c !pos)
  in
  value ()

let show v = let b = Buffer.create 64 in buf_val b v; Buffer.contents b

let () =
  let total = ref 0 and bad = ref 0 and lineno = ref 0 in
  let compare_mode = ref false in
  (try
    while true do
      let line = input_line stdin in
      incr lineno;
      if String.length line > 0 && line.[0] <> '#' then begin
        match String.split_on_char '\t' line with
        | fid :: inp :: rest ->
          incr total;
          let got =
            try show (run_case (z_of_int (int_of_string fid)) (parse_val inp))
            with Stack_overflow -> "(serr s737461636b)"
               | Failure m -> "(serr-parse " ^ m ^ ")" in
          (match rest with
           | expected :: _ ->
             compare_mode := true;
             if got <> expected then begin
               incr bad;
               Printf.printf "MISMATCH\t%d\t%s\t%s\n" !lineno fid got
             end
           | [] -> print_string got; print_newline ())
        | _ -> ()
      end
    done
  with End_of_file -> ());
  if !compare_mode || !total = 0 then Printf.printf "DONE\t%d\t%d\n" !total !bad
