(* Model of crates/config/src/rule/nth_child.rs: parse_an_b (four-state automaton over chars,
   i32 arithmetic with overflow made explicit) and FunctionalPosition::is_matched. *)
From Coq Require Import List NArith ZArith Bool.
From AG Require Import Base.Val.
Import ListNotations.
Local Open Scope Z_scope.

Definition i32_min : Z := -2147483648.
Definition i32_max : Z := 2147483647.
Definition i32_ok (z : Z) : bool := (i32_min <=? z) && (z <=? i32_max).

(* char::is_whitespace (Unicode White_Space) *)
Definition is_whitespace (c : N) : bool :=
  let z := Z.of_N c in
  ((9 <=? z) && (z <=? 13)) || (z =? 32) || (z =? 133) || (z =? 160) || (z =? 5760)
  || ((8192 <=? z) && (z <=? 8202)) || (z =? 8232) || (z =? 8233) || (z =? 8239)
  || (z =? 8287) || (z =? 12288).

Inductive pstate := SInitial | SN | SSign (has_n : bool) | SNum (has_n : bool).

Inductive anb_res :=
| AnbOk (a b : Z)
| AnbIllegal
| AnbSyntax
| AnbOverflow.   (* i32 arithmetic overflow: a panic in builds with overflow checks *)

Record pst := { st : pstate; step_size : Z; sign : Z; num : Z }.

Definition is_plus (c : N) := (c =? 43)%N.
Definition is_minus (c : N) := (c =? 45)%N.
Definition is_dig (c : N) := ((48 <=? c) && (c <=? 57))%N.
Definition is_n (c : N) := ((c =? 110) || (c =? 78))%N.
Definition dig (c : N) : Z := Z.of_N c - 48.

(* one character; inl = new state, inr = final error *)
Definition anb_step (s : pst) (c : N) : pst + anb_res :=
  if is_whitespace c then inl s else
  match st s with
  | SInitial =>
      if is_plus c || is_minus c then
        inl {| st := SSign false; step_size := step_size s; sign := if is_plus c then 1 else -1; num := num s |}
      else if is_dig c then
        inl {| st := SNum false; step_size := step_size s; sign := sign s; num := dig c |}
      else if is_n c then
        inl {| st := SN; step_size := sign s; sign := sign s; num := num s |}
      else inr AnbIllegal
  | SSign has_n =>
      if is_plus c || is_minus c then inr AnbSyntax
      else if is_dig c then
        inl {| st := SNum has_n; step_size := step_size s; sign := sign s; num := dig c |}
      else if is_n c then
        if has_n then inr AnbSyntax
        else inl {| st := SN; step_size := sign s; sign := sign s; num := num s |}
      else inr AnbIllegal
  | SNum has_n =>
      if is_plus c || is_minus c then inr AnbSyntax
      else if is_dig c then
        (* checked_mul / checked_add: a number that does not fit in i32 is a syntax error (after fix) *)
        let m := num s * 10 in
        if negb (i32_ok m) then inr AnbSyntax else
        let v := m + dig c in
        if negb (i32_ok v) then inr AnbSyntax else
        inl {| st := SNum has_n; step_size := step_size s; sign := sign s; num := v |}
      else if is_n c then
        if has_n then inr AnbSyntax
        else
          let v := sign s * num s in
          if negb (i32_ok v) then inr AnbOverflow else
          inl {| st := SN; step_size := v; sign := sign s; num := 0 |}
      else inr AnbIllegal
  | SN =>
      if is_plus c || is_minus c then
        inl {| st := SSign true; step_size := step_size s; sign := if is_plus c then 1 else -1; num := 0 |}
      else if is_dig c then inr AnbSyntax
      else if is_n c then inr AnbSyntax
      else inr AnbIllegal
  end.

Fixpoint anb_run (s : pst) (cs : list N) : pst + anb_res :=
  match cs with
  | [] => inl s
  | c :: cs' => match anb_step s c with
                | inl s' => anb_run s' cs'
                | inr e => inr e
                end
  end.

Definition anb_init : pst := {| st := SInitial; step_size := 0; sign := 1; num := 0 |}.

Definition parse_an_b (input : list N) : anb_res :=
  match anb_run anb_init input with
  | inr e => e
  | inl s =>
      match st s with
      | SSign _ | SInitial => AnbSyntax
      | _ => let off := num s * sign s in
             if negb (i32_ok off) then AnbOverflow else AnbOk (step_size s) off
      end
  end.

(* is_matched on a 0-based index, in 64-bit arithmetic (after fix): A and B are 32-bit, the index is a
   sibling count, so nothing can overflow — the result is never None (kept as an option for the callers) *)
Definition is_matched (a b : Z) (index0 : Z) : option bool :=
  let index := index0 + 1 in
  if a =? 0 then Some (index =? b)
  else
    let n := index - b in
    Some ((0 <=? Z.quot n a) && (Z.rem n a =? 0)).

(* the 1-based indices among [n] siblings a formula selects *)
Fixpoint selected_from (a b : Z) (i : nat) (cnt : nat) : option (list Z) :=
  match cnt with
  | O => Some []
  | S k =>
      match is_matched a b (Z.of_nat i), selected_from a b (S i) k with
      | Some true, Some r => Some (Z.of_nat i + 1 :: r)
      | Some false, Some r => Some r
      | _, _ => None
      end
  end.

Definition anb_case (s : list N) (n : nat) : val :=
  match parse_an_b s with
  | AnbIllegal => vErr [105;108;108;101;103;97;108]%N          (* "illegal" *)
  | AnbSyntax => vErr [115;121;110;116;97;120]%N                (* "syntax" *)
  | AnbOverflow => vErr [112;97;110;105;99]%N                   (* "panic" *)
  | AnbOk a b =>
      match selected_from a b 0 n with
      | Some l => VL [VZ 0; VL (map VZ l)]
      | None => vErr [112;97;110;105;99;45;109;97;116;99;104]%N (* "panic-match" *)
      end
  end.
