From Coq Require Import List NArith ZArith Bool Lia.
From AG Require Import Base.Val Str.Substring.
Import ListNotations.
Local Open Scope Z_scope.

Lemma slice_empty {A} (l : list A) s e : (e <= s)%nat -> slice l s e = [].
Proof. intros H. unfold slice. replace (e - s)%nat with 0%nat by lia. reflexivity. Qed.

Lemma resolve_is_norm o dft len :
  0 <= dft <= len -> resolve_char o dft len = py_norm o dft len.
Proof.
  intros H. unfold resolve_char, py_norm. destruct o as [c|].
  - destruct (Z.leb_spec len c), (Z.leb_spec 0 c), (Z.ltb_spec (len + c) 0), (Z.ltb_spec c 0); lia.
  - destruct (Z.leb_spec len dft), (Z.leb_spec 0 dft), (Z.ltb_spec (len + dft) 0); lia.
Qed.

Lemma norm_bounds o dft len : 0 <= dft <= len -> 0 <= py_norm o dft len <= len.
Proof. intros H. unfold py_norm. destruct o as [c|]; [destruct (c <? 0)|]; lia. Qed.

Theorem substring_is_python_slice {A} (chars : list A) (s e : option Z) :
  substring chars s e = python_slice chars s e.
Proof.
  unfold substring, python_slice.
  set (len := Z.of_nat (length chars)).
  assert (Hlen : 0 <= len) by (subst len; lia).
  rewrite !resolve_is_norm by lia.
  pose proof (norm_bounds s 0 len ltac:(lia)) as Ha.
  pose proof (norm_bounds e len len ltac:(lia)) as Hb.
  set (a := py_norm s 0 len) in *. set (b := py_norm e len len) in *.
  destruct (Z.ltb_spec b a), (Z.leb_spec len a), (Z.ltb_spec len b), (Z.leb_spec b a);
    cbn [orb]; try reflexivity; try lia.
  apply slice_empty. lia.
Qed.
