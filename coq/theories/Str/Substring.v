(* Model of Substring::compute / resolve_char (crates/config/src/transform/transformation.rs)
   over a list of characters; indices are i32 values carried in Z. *)
From Coq Require Import List NArith ZArith Bool.
From AG Require Import Base.Val.
Import ListNotations.
Local Open Scope Z_scope.

Definition resolve_char (opt : option Z) (dft len : Z) : Z :=
  let c := match opt with Some c => c | None => dft end in
  if len <=? c then len
  else if 0 <=? c then c
  else if len + c <? 0 then 0
  else len + c.

Definition slice {A} (l : list A) (s e : nat) : list A := firstn (e - s) (skipn s l).

Definition substring {A} (chars : list A) (s e : option Z) : list A :=
  let len := Z.of_nat (length chars) in
  let st := resolve_char s 0 len in
  let en := resolve_char e len len in
  if (en <? st) || (len <=? st) || (len <? en) then []
  else slice chars (Z.to_nat st) (Z.to_nat en).

(* Python slice semantics t[s:e] on a list, written from the Python reference *)
Definition py_norm (x : option Z) (dft len : Z) : Z :=
  match x with
  | None => dft
  | Some v => let v' := if v <? 0 then v + len else v in Z.max 0 (Z.min len v')
  end.

Definition python_slice {A} (l : list A) (s e : option Z) : list A :=
  let len := Z.of_nat (length l) in
  let a := py_norm s 0 len in
  let b := py_norm e len len in
  if b <=? a then [] else slice l (Z.to_nat a) (Z.to_nat b).
