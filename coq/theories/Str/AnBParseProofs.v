(* Theorems about the An+B *parser* (Str/AnB.v, model of parse_an_b in crates/config/src/rule/nth_child.rs):
   every formula  [sign] digits n (+|-) digits  whose magnitudes fit in an i32 parses to exactly the (A, B) it
   spells — for digit strings of any length (leading zeros included) — and white space anywhere is ignored.
   Together with is_matched_spec this ties the *text* of an nthChild formula to the set of selected indices. *)
From Coq Require Import List NArith ZArith Bool Lia ZifyBool.
From AG Require Import Base.Val Str.AnB.
Import ListNotations.
Local Open Scope Z_scope.

Definition dch (d : Z) : N := Z.to_N (48 + d).          (* the character of a decimal digit *)
Definition isd (d : Z) : Prop := 0 <= d <= 9.
Definition dval (ds : list Z) (v0 : Z) : Z := fold_left (fun v d => v * 10 + d) ds v0.

Lemma dch_props d : isd d ->
  is_whitespace (dch d) = false /\ is_plus (dch d) = false /\ is_minus (dch d) = false /\
  is_dig (dch d) = true /\ is_n (dch d) = false /\ dig (dch d) = d.
Proof.
  intros H.
  assert (C : d = 0 \/ d = 1 \/ d = 2 \/ d = 3 \/ d = 4 \/ d = 5 \/ d = 6 \/ d = 7 \/ d = 8 \/ d = 9)
    by (unfold isd in H; lia).
  destruct C as [->|[->|[->|[->|[->|[->|[->|[->|[->| ->]]]]]]]]]; vm_compute; repeat split; reflexivity.
Qed.

Lemma dval_ge ds : forall v, Forall isd ds -> 0 <= v -> v <= dval ds v.
Proof.
  induction ds as [|d ds IH]; intros v Hd Hv; cbn [dval fold_left]; [lia|].
  inversion Hd as [|? ? Hd0 Hds]; subst.
  assert (Hle : v * 10 + d <= dval ds (v * 10 + d)) by (apply IH; [assumption | unfold isd in Hd0; lia]).
  unfold dval in *. unfold isd in Hd0. lia.
Qed.

Lemma i32_ok_range z : i32_min <= z <= i32_max -> i32_ok z = true.
Proof. unfold i32_ok, i32_min, i32_max. lia. Qed.

Lemma step_num_digit h ss sg v d : isd d -> 0 <= v -> v * 10 + d <= i32_max ->
  anb_step {| st := SNum h; step_size := ss; sign := sg; num := v |} (dch d)
  = inl {| st := SNum h; step_size := ss; sign := sg; num := v * 10 + d |}.
Proof.
  intros Hd Hv Hmax. destruct (dch_props d Hd) as (Hw & Hp & Hm & Hdg & Hn & Hdig).
  unfold anb_step. rewrite Hw. cbn [st num step_size sign]. rewrite Hp, Hm, Hdg, Hdig. cbn [orb].
  unfold isd in Hd. unfold i32_max in *.
  rewrite (i32_ok_range (v * 10)) by (unfold i32_min, i32_max; lia).
  rewrite (i32_ok_range (v * 10 + d)) by (unfold i32_min, i32_max; lia).
  reflexivity.
Qed.

Lemma run_digits ds : forall h ss sg v rest, Forall isd ds -> 0 <= v -> dval ds v <= i32_max ->
  anb_run {| st := SNum h; step_size := ss; sign := sg; num := v |} (map dch ds ++ rest)
  = anb_run {| st := SNum h; step_size := ss; sign := sg; num := dval ds v |} rest.
Proof.
  induction ds as [|d ds IH]; intros h ss sg v rest Hd Hv Hmax; [reflexivity|].
  inversion Hd as [|? ? Hd0 Hds]; subst.
  cbn [map app anb_run].
  assert (Hv' : 0 <= v * 10 + d) by (unfold isd in Hd0; lia).
  assert (Hstep : v * 10 + d <= i32_max).
  { pose proof (dval_ge ds (v * 10 + d) Hds Hv') as G. cbn [dval fold_left] in Hmax. unfold dval in G. lia. }
  rewrite step_num_digit by assumption.
  apply IH; assumption.
Qed.

(* the first digit of a number, read after an optional sign *)
Lemma step_first_digit_initial ss sg v d : isd d ->
  anb_step {| st := SInitial; step_size := ss; sign := sg; num := v |} (dch d)
  = inl {| st := SNum false; step_size := ss; sign := sg; num := d |}.
Proof.
  intros Hd. destruct (dch_props d Hd) as (Hw & Hp & Hm & Hdg & Hn & Hdig).
  unfold anb_step. rewrite Hw. cbn [st num step_size sign]. rewrite Hp, Hm, Hdg, Hdig. reflexivity.
Qed.

Lemma step_first_digit_sign h ss sg v d : isd d ->
  anb_step {| st := SSign h; step_size := ss; sign := sg; num := v |} (dch d)
  = inl {| st := SNum h; step_size := ss; sign := sg; num := d |}.
Proof.
  intros Hd. destruct (dch_props d Hd) as (Hw & Hp & Hm & Hdg & Hn & Hdig).
  unfold anb_step. rewrite Hw. cbn [st num step_size sign]. rewrite Hp, Hm, Hdg, Hdig. reflexivity.
Qed.

Lemma step_num_n ss sg v : i32_min <= sg * v <= i32_max ->
  anb_step {| st := SNum false; step_size := ss; sign := sg; num := v |} 110%N
  = inl {| st := SN; step_size := sg * v; sign := sg; num := 0 |}.
Proof.
  intros H. unfold anb_step.
  change (is_whitespace 110) with false. change (is_plus 110) with false. change (is_minus 110) with false.
  change (is_dig 110) with false. change (is_n 110) with true.
  cbn [st num step_size sign orb]. rewrite (i32_ok_range _ H). reflexivity.
Qed.

Inductive sgn := Pos | Neg.
Definition sgnz (s : sgn) : Z := match s with Pos => 1 | Neg => -1 end.
Definition sgnc (s : sgn) : N := match s with Pos => 43%N | Neg => 45%N end.
Definition osgnz (s : option sgn) : Z := match s with Some s => sgnz s | None => 1 end.
Definition osgnc (s : option sgn) : list N := match s with Some s => [sgnc s] | None => [] end.

(* the spelling  [sign] digits "n" sign digits  *)
Definition formula (sa : option sgn) (da : list Z) (sb : sgn) (db : list Z) : list N :=
  osgnc sa ++ map dch da ++ [110%N] ++ [sgnc sb] ++ map dch db.

Lemma run_number_first (start : pst) (os : option sgn) d ds rest :
  st start = SInitial -> sign start = 1 ->
  Forall isd (d :: ds) -> dval (d :: ds) 0 <= i32_max ->
  anb_run start (osgnc os ++ map dch (d :: ds) ++ rest)
  = anb_run {| st := SNum false; step_size := step_size start; sign := osgnz os; num := dval (d :: ds) 0 |} rest.
Proof.
  intros Hst Hsg Hd Hmax. inversion Hd as [|? ? Hd0 Hds]; subst.
  destruct start as [st0 ss0 sg0 n0]. cbn [st sign step_size] in *. subst st0 sg0.
  assert (H0 : 0 <= d) by (unfold isd in Hd0; lia).
  change (dval (d :: ds) 0) with (dval ds (0 * 10 + d)) in *. rewrite Z.mul_0_l, Z.add_0_l in *.
  destruct os as [[|]|]; cbn [osgnc sgnc osgnz sgnz map app anb_run].
  - change (anb_step {| st := SInitial; step_size := ss0; sign := 1; num := n0 |} 43%N)
      with (@inl pst anb_res {| st := SSign false; step_size := ss0; sign := 1; num := n0 |}).
    cbn iota. rewrite step_first_digit_sign by assumption. apply run_digits; assumption.
  - change (anb_step {| st := SInitial; step_size := ss0; sign := 1; num := n0 |} 45%N)
      with (@inl pst anb_res {| st := SSign false; step_size := ss0; sign := -1; num := n0 |}).
    cbn iota. rewrite step_first_digit_sign by assumption. apply run_digits; assumption.
  - rewrite step_first_digit_initial by assumption. apply run_digits; assumption.
Qed.

Theorem parse_an_b_formula sa da0 das sb db0 dbs :
  Forall isd (da0 :: das) -> Forall isd (db0 :: dbs) ->
  dval (da0 :: das) 0 <= i32_max -> dval (db0 :: dbs) 0 <= i32_max ->
  parse_an_b (formula sa (da0 :: das) sb (db0 :: dbs))
  = AnbOk (osgnz sa * dval (da0 :: das) 0) (dval (db0 :: dbs) 0 * sgnz sb).
Proof.
  intros Hda Hdb Ha Hb. unfold parse_an_b, formula.
  rewrite (run_number_first anb_init sa da0 das) by (try reflexivity; assumption).
  set (A := dval (da0 :: das) 0) in *. set (B := dval (db0 :: dbs) 0) in *.
  assert (HA0 : 0 <= A) by (apply (dval_ge (da0 :: das) 0 Hda); lia).
  assert (HB0 : 0 <= B) by (apply (dval_ge (db0 :: dbs) 0 Hdb); lia).
  cbn [app anb_run]. cbn [anb_init step_size].
  rewrite step_num_n by (unfold i32_min, i32_max in *; destruct sa as [[|]|]; cbn [osgnz sgnz]; lia).
  inversion Hdb as [|? ? Hd0 Hds]; subst.
  assert (Hd00 : 0 <= db0) by (unfold isd in Hd0; lia).
  assert (EB : B = dval dbs db0) by reflexivity.
  assert (Hrun : forall sg, anb_run {| st := SSign true; step_size := osgnz sa * A; sign := sg; num := 0 |}
                     (map dch (db0 :: dbs))
                   = inl {| st := SNum true; step_size := osgnz sa * A; sign := sg; num := B |}).
  { intros sg. cbn [map anb_run]. rewrite step_first_digit_sign by assumption.
    rewrite <- (app_nil_r (map dch dbs)). rewrite run_digits by (try assumption; rewrite <- EB; assumption).
    rewrite <- EB. reflexivity. }
  destruct sb; cbn [sgnc sgnz].
  - change (anb_step {| st := SN; step_size := osgnz sa * A; sign := osgnz sa; num := 0 |} 43%N)
      with (@inl pst anb_res {| st := SSign true; step_size := osgnz sa * A; sign := 1; num := 0 |}).
    cbn iota. rewrite Hrun. cbn [st num sign step_size].
    rewrite (i32_ok_range (B * 1)) by (unfold i32_min, i32_max in *; lia). reflexivity.
  - change (anb_step {| st := SN; step_size := osgnz sa * A; sign := osgnz sa; num := 0 |} 45%N)
      with (@inl pst anb_res {| st := SSign true; step_size := osgnz sa * A; sign := -1; num := 0 |}).
    cbn iota. rewrite Hrun. cbn [st num sign step_size].
    rewrite (i32_ok_range (B * -1)) by (unfold i32_min, i32_max in *; lia). reflexivity.
Qed.

(* white space (Unicode White_Space, as char::is_whitespace) is ignored wherever it stands *)
Lemma anb_run_skip_ws cs : forall s,
  anb_run s (filter (fun c => negb (is_whitespace c)) cs) = anb_run s cs.
Proof.
  induction cs as [|c cs IH]; intros s; [reflexivity|].
  cbn [filter]. destruct (is_whitespace c) eqn:W; cbn [negb anb_run].
  - unfold anb_step. rewrite W. apply IH.
  - destruct (anb_step s c); [apply IH | reflexivity].
Qed.

Theorem parse_an_b_ignores_whitespace cs :
  parse_an_b (filter (fun c => negb (is_whitespace c)) cs) = parse_an_b cs.
Proof. unfold parse_an_b. rewrite anb_run_skip_ws. reflexivity. Qed.

(* non-vacuity: "-3n+12" and "007n-0" *)
Example formula_example :
  parse_an_b (formula (Some Neg) [3] Pos [1; 2]) = AnbOk (-3) 12 /\
  parse_an_b (formula None [0; 0; 7] Neg [0]) = AnbOk 7 0.
Proof. split; vm_compute; reflexivity. Qed.

(* the magnitude 2^31 is NOT expressible: "-2147483648n+1" is a syntax error although A = i32::MIN fits the type *)
Example i32_min_is_rejected :
  parse_an_b (formula (Some Neg) [2;1;4;7;4;8;3;6;4;8] Pos [1]) = AnbSyntax.
Proof. vm_compute. reflexivity. Qed.

(* ---- every pair (A, B) of magnitudes below 2^31 is expressible: canonical rendering and round trip ---- *)
Fixpoint digits_aux (fuel : nat) (z : Z) (acc : list Z) : list Z :=
  match fuel with
  | O => z :: acc
  | S k => if z <? 10 then z :: acc else digits_aux k (z / 10) (z mod 10 :: acc)
  end.
Definition digits (z : Z) : list Z := digits_aux 10 z [].

Lemma digits_aux_val fuel : forall z acc, 0 <= z -> dval (digits_aux fuel z acc) 0 = dval acc z.
Proof.
  induction fuel as [|k IH]; intros z acc Hz; cbn [digits_aux].
  - reflexivity.
  - destruct (z <? 10) eqn:E; [reflexivity|].
    rewrite IH by (apply Z.div_pos; lia).
    unfold dval. cbn [fold_left]. f_equal. pose proof (Z.div_mod z 10 ltac:(discriminate)) as D. rewrite Z.mul_comm. symmetry. exact D.
Qed.

Lemma digits_aux_isd fuel : forall z acc, 0 <= z < 10 ^ (Z.of_nat fuel + 1) -> Forall isd acc ->
  Forall isd (digits_aux fuel z acc).
Proof.
  induction fuel as [|k IH]; intros z acc Hz Hacc; cbn [digits_aux].
  - constructor; [|assumption]. change (10 ^ (Z.of_nat 0 + 1)) with 10 in Hz. unfold isd. lia.
  - destruct (z <? 10) eqn:E.
    + constructor; [|assumption]. unfold isd. lia.
    + apply IH.
      * replace (Z.of_nat (S k) + 1) with (Z.succ (Z.of_nat k + 1)) in Hz by lia.
        rewrite Z.pow_succ_r in Hz by lia.
        split; [apply Z.div_pos; lia | apply Z.div_lt_upper_bound; lia].
      * constructor; [|assumption]. unfold isd. pose proof (Z.mod_pos_bound z 10). lia.
Qed.

Lemma digits_aux_cons fuel : forall z acc, exists d ds, digits_aux fuel z acc = d :: ds.
Proof.
  induction fuel as [|k IH]; intros z acc; cbn [digits_aux]; [eauto|].
  destruct (z <? 10); [eauto | apply IH].
Qed.

Definition render (a b : Z) : list N :=
  formula (if a <? 0 then Some Neg else None) (digits (Z.abs a))
          (if b <? 0 then Neg else Pos) (digits (Z.abs b)).

Theorem parse_an_b_render a b :
  - i32_max <= a <= i32_max -> - i32_max <= b <= i32_max ->
  parse_an_b (render a b) = AnbOk a b.
Proof.
  intros Ha Hb. unfold render, digits.
  destruct (digits_aux_cons 10 (Z.abs a) []) as (da0 & das & Ea).
  destruct (digits_aux_cons 10 (Z.abs b) []) as (db0 & dbs & Eb).
  assert (Va : dval (da0 :: das) 0 = Z.abs a) by (rewrite <- Ea, digits_aux_val by lia; reflexivity).
  assert (Vb : dval (db0 :: dbs) 0 = Z.abs b) by (rewrite <- Eb, digits_aux_val by lia; reflexivity).
  assert (P : 10 ^ (Z.of_nat 10 + 1) = 100000000000) by reflexivity.
  assert (Ia : Forall isd (da0 :: das))
    by (rewrite <- Ea; apply digits_aux_isd; [rewrite P; unfold i32_max in *; lia | constructor]).
  assert (Ib : Forall isd (db0 :: dbs))
    by (rewrite <- Eb; apply digits_aux_isd; [rewrite P; unfold i32_max in *; lia | constructor]).
  rewrite Ea, Eb.
  rewrite parse_an_b_formula by (try assumption; rewrite ?Va, ?Vb; unfold i32_max in *; lia).
  rewrite Va, Vb.
  f_equal.
  - destruct (Z.ltb_spec a 0); cbn [osgnz sgnz]; lia.
  - destruct (Z.ltb_spec b 0); cbn [sgnz]; lia.
Qed.

Example render_example : render (-2) 15 = [45; 50; 110; 43; 49; 53]%N.   (* "-2n+15" *)
Proof. vm_compute. reflexivity. Qed.

(* ---- the short forms:  B alone,  An,  [sign] n [(+|-) B] ---- *)
Lemma run_app s cs1 : forall cs2 s', anb_run s cs1 = inl s' -> anb_run s (cs1 ++ cs2) = anb_run s' cs2.
Proof.
  revert s. induction cs1 as [|c cs1 IH]; intros s cs2 s' H; cbn [app anb_run] in *.
  - injection H as <-. reflexivity.
  - destruct (anb_step s c) as [s1|e]; [apply IH; assumption | discriminate].
Qed.

Theorem parse_an_b_b_only sa d ds :
  Forall isd (d :: ds) -> dval (d :: ds) 0 <= i32_max ->
  parse_an_b (osgnc sa ++ map dch (d :: ds)) = AnbOk 0 (dval (d :: ds) 0 * osgnz sa).
Proof.
  intros Hd Hmax. unfold parse_an_b.
  rewrite <- (app_nil_r (map dch (d :: ds))).
  rewrite (run_number_first anb_init sa d ds []) by (try reflexivity; assumption).
  cbn [anb_run st num sign step_size anb_init].
  assert (H0 : 0 <= dval (d :: ds) 0) by (apply (dval_ge (d :: ds) 0 Hd); lia).
  rewrite i32_ok_range by (unfold i32_min, i32_max in *; destruct sa as [[|]|]; cbn [osgnz sgnz]; lia).
  reflexivity.
Qed.

Theorem parse_an_b_an_only sa d ds :
  Forall isd (d :: ds) -> dval (d :: ds) 0 <= i32_max ->
  parse_an_b (osgnc sa ++ map dch (d :: ds) ++ [110%N]) = AnbOk (osgnz sa * dval (d :: ds) 0) 0.
Proof.
  intros Hd Hmax. unfold parse_an_b.
  rewrite (run_number_first anb_init sa d ds [110%N]) by (try reflexivity; assumption).
  assert (H0 : 0 <= dval (d :: ds) 0) by (apply (dval_ge (d :: ds) 0 Hd); lia).
  cbn [anb_run]. cbn [anb_init step_size].
  rewrite step_num_n by (unfold i32_min, i32_max in *; destruct sa as [[|]|]; cbn [osgnz sgnz]; lia).
  cbn [st num sign step_size]. destruct sa as [[|]|]; reflexivity.
Qed.

Theorem parse_an_b_n_b sa sb d ds :
  Forall isd (d :: ds) -> dval (d :: ds) 0 <= i32_max ->
  parse_an_b (osgnc sa ++ [110%N] ++ [sgnc sb] ++ map dch (d :: ds)) = AnbOk (osgnz sa) (dval (d :: ds) 0 * sgnz sb).
Proof.
  intros Hd Hmax. unfold parse_an_b.
  inversion Hd as [|? ? Hd0 Hds]; subst.
  assert (Hd00 : 0 <= d) by (unfold isd in Hd0; lia).
  assert (H0 : 0 <= dval (d :: ds) 0) by (apply (dval_ge (d :: ds) 0 Hd); lia).
  assert (EB : dval (d :: ds) 0 = dval ds d) by reflexivity.
  assert (Hpre : anb_run anb_init (osgnc sa ++ [110%N] ++ [sgnc sb])
                 = inl {| st := SSign true; step_size := osgnz sa; sign := sgnz sb; num := 0 |})
    by (destruct sa as [[|]|], sb; reflexivity).
  replace (osgnc sa ++ [110%N] ++ [sgnc sb] ++ map dch (d :: ds))
    with ((osgnc sa ++ [110%N] ++ [sgnc sb]) ++ map dch (d :: ds)) by (rewrite <- !app_assoc; reflexivity).
  rewrite (run_app _ _ _ _ Hpre).
  cbn [map anb_run]. rewrite step_first_digit_sign by assumption.
  rewrite <- (app_nil_r (map dch ds)). rewrite run_digits by (try assumption; rewrite <- EB; assumption).
  cbn [anb_run st num sign step_size]. rewrite <- EB.
  rewrite i32_ok_range by (unfold i32_min, i32_max in *; destruct sb; cbn [sgnz]; lia).
  reflexivity.
Qed.

Theorem parse_an_b_n_only sa : parse_an_b (osgnc sa ++ [110%N]) = AnbOk (osgnz sa) 0.
Proof. destruct sa as [[|]|]; reflexivity. Qed.

(* the CSS keywords odd / even are not part of this notation: "odd" is an illegal-character error *)
Example odd_is_not_parsed_here : parse_an_b [111; 100; 100]%N = AnbIllegal.
Proof. vm_compute. reflexivity. Qed.
