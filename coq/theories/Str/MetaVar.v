(* Model of crates/core/src/meta_var.rs:extract_meta_var and
   crates/language/src/lib.rs:pre_process_pattern, over lists of Unicode scalar values. *)
From Coq Require Import List NArith ZArith Bool.
From AG Require Import Base.Val.
Import ListNotations.
Local Open Scope N_scope.

Definition DOLLAR : N := 36.
Definition UNDERSCORE : N := 95.

(* is_valid_first_char: 'A'..='Z' | '_' *)
Definition is_upper (c : N) : bool := (65 <=? c) && (c <=? 90).
Definition is_first_char (c : N) : bool := is_upper c || (c =? UNDERSCORE).
Definition is_digit (c : N) : bool := (48 <=? c) && (c <=? 57).
(* is_valid_meta_var_char *)
Definition is_mv_char (c : N) : bool := is_first_char c || is_digit c.

Inductive metavar : Type :=
| Capture (name : str) (named : bool)
| Dropped (named : bool)
| Multiple
| MultiCapture (name : str).

Fixpoint strip_prefix (p s : str) : option str :=
  match p, s with
  | [], _ => Some s
  | a :: p', b :: s' => if a =? b then strip_prefix p' s' else None
  | _ :: _, [] => None
  end.

Definition starts_with_c (c : N) (s : str) : bool :=
  match s with x :: _ => x =? c | [] => false end.

Definition starts_with_first (s : str) : bool :=
  match s with x :: _ => is_first_char x | [] => false end.

Definition extract_meta_var (mc : N) (src : str) : option metavar :=
  let ell := [mc; mc; mc] in
  match strip_prefix ell src with
  | Some [] => Some Multiple
  | Some trimmed =>
      if negb (forallb is_mv_char trimmed) then None
      else if starts_with_c UNDERSCORE trimmed then Some Multiple
      else Some (MultiCapture trimmed)
  | None =>
      match src with
      | c :: t1 =>
          if negb (c =? mc) then None else
          let '(t, named) := match t1 with
                             | c2 :: t2 => if c2 =? mc then (t2, false) else (t1, true)
                             | [] => (t1, true)
                             end in
          if negb (starts_with_first t) || negb (forallb is_mv_char t) then None
          else if starts_with_c UNDERSCORE t then Some (Dropped named)
          else Some (Capture t named)
      | [] => None
      end
  end.

(* pre_process_pattern expando query *)
Fixpoint repeatN (c : N) (n : nat) : str :=
  match n with O => [] | S k => c :: repeatN c k end.

Fixpoint ppp_go (expando : N) (dollars : nat) (q : str) : str :=
  match q with
  | [] => repeatN (if Nat.eqb dollars 3 then expando else DOLLAR) dollars
  | c :: q' =>
      if c =? DOLLAR then ppp_go expando (S dollars) q'
      else
        let need := is_first_char c || Nat.eqb dollars 3 in
        repeatN (if need then expando else DOLLAR) dollars ++ c :: ppp_go expando 0 q'
  end.

Definition pre_process_pattern (expando : N) (q : str) : str := ppp_go expando 0 q.

(* wire encoding *)
Definition v_metavar (m : option metavar) : val :=
  match m with
  | None => VL []
  | Some (Capture n b) => VL [VZ 0%Z; VS n; vB b]
  | Some (Dropped b) => VL [VZ 1%Z; vB b]
  | Some Multiple => VL [VZ 2%Z]
  | Some (MultiCapture n) => VL [VZ 3%Z; VS n]
  end.
