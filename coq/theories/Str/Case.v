(* Word splitting of the `convert` transformation
   (crates/config/src/transform/string_case.rs: Delimiter::from / all / delimit / conclude, split).
   A character enters as its code point together with what char::is_uppercase / is_lowercase say about it
   (Unicode tables are an oracle); ranges are BYTE ranges of the UTF-8 text, as in the Rust code, which
   slices the text with them (`&s[range]` panics when a bound is not a char boundary or out of range). *)
From Coq Require Import List NArith ZArith Bool Arith.
From AG Require Import Base.Val.
Import ListNotations.

Record ch := { cp : N; up : bool; lo : bool }.

Definition utf8_len (c : N) : nat :=
  if N.ltb c 128 then 1 else if N.ltb c 2048 then 2 else if N.ltb c 65536 then 3 else 4.
Definition clen (c : ch) : nat := utf8_len (cp c).
Definition byte_len (s : list ch) : nat := fold_right (fun c a => clen c + a) 0 s.

Inductive cstate := Lower | OneUpper | MultiUpper (last : ch) | IgnoreCase.
Definition is_ignore (s : cstate) : bool := match s with IgnoreCase => true | _ => false end.
Definition is_lower_state (s : cstate) : bool := match s with Lower => true | _ => false end.

Record delim := { d_left : nat; d_right : nat; d_state : cstate; d_chars : list N }.

Inductive sep := CaseChange | Dash | Dot | Slash | Space | Underscore.

(* Delimiter::from(&[Separator]) *)
Definition delim_from (seps : list sep) : delim :=
  {| d_left := 0; d_right := 0;
     d_state := if existsb (fun s => match s with CaseChange => true | _ => false end) seps then Lower else IgnoreCase;
     d_chars := flat_map (fun s => match s with
                                   | CaseChange => []
                                   | Dash => [45] | Dot => [46] | Slash => [47] | Space => [32] | Underscore => [95]
                                   end%N) seps |}.
(* Delimiter::all *)
Definition delim_all : delim :=
  {| d_left := 0; d_right := 0; d_state := Lower; d_chars := [45; 46; 47; 32; 95]%N |}.

(* Delimiter::delimit; `right - last.len` is a usize subtraction: it panics (debug) when it underflows *)
Inductive dres := DNone (d : delim) | DRange (d : delim) (a b : nat) | DPanic.

Definition delimit (d : delim) (c : ch) : dres :=
  let l := d_left d in let r := d_right d in let st := d_state d in
  if existsb (N.eqb (cp c)) (d_chars d) then
    DRange {| d_left := r + 1; d_right := r + 1;
              d_state := if is_ignore st then st else Lower; d_chars := d_chars d |} l r
  else if is_lower_state st && up c then
    DRange {| d_left := r; d_right := r + clen c; d_state := OneUpper; d_chars := d_chars d |} l r
  else
    match (match st with MultiUpper last => if lo c then Some last else None | _ => None end) with
    | Some last =>
        if Nat.ltb r (clen last) then DPanic else
        let nl := r - clen last in
        DRange {| d_left := nl; d_right := r + clen c; d_state := Lower; d_chars := d_chars d |} l nl
    | None =>
        let st' := if is_ignore st then st
                   else if lo c then Lower
                   else if is_lower_state st then OneUpper
                   else MultiUpper c in
        DNone {| d_left := l; d_right := r + clen c; d_state := st'; d_chars := d_chars d |}
    end.

(* Delimiter::conclude *)
Definition conclude (d : delim) (len : nat) : option (nat * nat) :=
  if Nat.ltb (d_left d) (d_right d) && Nat.leb (d_right d) len then Some (d_left d, d_right d) else None.

(* split: the ranges handed to `&s[range]`, in order; None = a panic in the arithmetic.
   A range with start > end or beyond the text is still returned here: whether such a range can occur is
   the theorem's business. *)
Fixpoint split_go (d : delim) (s : list ch) (len : nat) : option (list (nat * nat)) :=
  match s with
  | [] => match conclude d len with
          | Some (a, b) => Some (if Nat.eqb a b then [] else [(a, b)])
          | None => Some []
          end
  | c :: r =>
      match delimit d c with
      | DPanic => None
      | DNone d' => split_go d' r len
      | DRange d' a b =>
          match split_go d' r len with
          | Some rest => Some (if Nat.eqb a b then rest else (a, b) :: rest)
          | None => None
          end
      end
  end.

Definition split (s : list ch) (seps : option (list sep)) : option (list (nat * nat)) :=
  split_go (match seps with Some l => delim_from l | None => delim_all end) s (byte_len s).

(* ---- what a valid slice is ---- *)
Fixpoint boundaries (s : list ch) (off : nat) : list nat :=
  match s with
  | [] => [off]
  | c :: r => off :: boundaries r (off + clen c)
  end.
Definition is_boundary (s : list ch) (i : nat) : Prop := In i (boundaries s 0).

(* the characters of s lying inside byte range [a,b) *)
Fixpoint chars_in (s : list ch) (off a b : nat) : list ch :=
  match s with
  | [] => []
  | c :: r => (if Nat.leb a off && Nat.ltb off b then [c] else []) ++ chars_in r (off + clen c) a b
  end.

Definition active_delims (seps : option (list sep)) : list N :=
  d_chars (match seps with Some l => delim_from l | None => delim_all end).

(* ---- statements ---- *)
(* the arithmetic never panics and every range is a valid slice of the text: bounds in order, within the
   text, on character boundaries; ranges come in order and do not overlap *)
Fixpoint ordered (l : list (nat * nat)) (from : nat) : Prop :=
  match l with
  | [] => True
  | (a, b) :: r => from <= a /\ a < b /\ ordered r b
  end.

Definition C11_split_safe_stmt : Prop :=
  forall s seps, exists rs,
    split s seps = Some rs
    /\ ordered rs 0
    /\ (forall a b, In (a, b) rs -> b <= byte_len s /\ is_boundary s a /\ is_boundary s b).

(* nothing but separator characters is dropped: the characters outside all ranges are active separators,
   and no word contains an active separator *)
Definition C11_split_covers_stmt : Prop :=
  forall s seps rs, split s seps = Some rs ->
    (forall c off, In (off, c) (combine (boundaries s 0) s) ->
       (exists a b, In (a, b) rs /\ a <= off < b) \/ In (cp c) (active_delims seps))
    /\ (forall a b c, In (a, b) rs -> In c (chars_in s 0 a b) -> ~ In (cp c) (active_delims seps)).
