(* Proofs of C11_split_safe and C11_split_covers (statements in Str/Case.v). *)
From Coq Require Import List NArith ZArith Bool Arith Lia.
From AG Require Import Base.Val Str.Case.
Import ListNotations.

(* ---- byte lengths ---- *)
Lemma utf8_len_pos n : 1 <= utf8_len n.
Proof.
  unfold utf8_len.
  destruct (N.ltb n 128); [lia|].
  destruct (N.ltb n 2048); [lia|].
  destruct (N.ltb n 65536); lia.
Qed.

Lemma clen_pos c : 1 <= clen c.
Proof. unfold clen. apply utf8_len_pos. Qed.

Lemma byte_len_nil : byte_len [] = 0.
Proof. reflexivity. Qed.

Lemma byte_len_cons c s : byte_len (c :: s) = clen c + byte_len s.
Proof. reflexivity. Qed.

Lemma byte_len_app p q : byte_len (p ++ q) = byte_len p + byte_len q.
Proof.
  induction p as [|x p IH].
  - reflexivity.
  - rewrite <- app_comm_cons. rewrite !byte_len_cons. rewrite IH. lia.
Qed.

Lemma byte_len_snoc p c : byte_len (p ++ [c]) = byte_len p + clen c.
Proof. rewrite byte_len_app, byte_len_cons, byte_len_nil. lia. Qed.

(* ---- boundaries ---- *)
Lemma bnd_head s o : In o (boundaries s o).
Proof. destruct s; simpl; auto. Qed.

Lemma bnd_last : forall s o, In (o + byte_len s) (boundaries s o).
Proof.
  induction s as [|x s IH]; intros o.
  - cbn [boundaries In]. left. rewrite byte_len_nil. lia.
  - cbn [boundaries]. right. rewrite byte_len_cons.
    replace (o + (clen x + byte_len s)) with ((o + clen x) + byte_len s) by lia.
    apply IH.
Qed.

Lemma bnd_range : forall s o i, In i (boundaries s o) -> o <= i <= o + byte_len s.
Proof.
  induction s as [|x s IH]; intros o i Hi.
  - cbn [boundaries In] in Hi. destruct Hi as [<-|[]]. rewrite byte_len_nil. lia.
  - cbn [boundaries] in Hi. rewrite byte_len_cons. destruct Hi as [<-|Hi].
    + lia.
    + apply IH in Hi. lia.
Qed.

Lemma bnd_app_l : forall p q o i, In i (boundaries p o) -> In i (boundaries (p ++ q) o).
Proof.
  induction p as [|x p IH]; intros q o i Hi.
  - simpl in Hi. destruct Hi as [<-|[]]. simpl. apply bnd_head.
  - rewrite <- app_comm_cons. cbn [boundaries] in *. destruct Hi as [<-|Hi].
    + left; reflexivity.
    + right. apply IH. exact Hi.
Qed.

(* ---- the character at a byte offset ---- *)
Fixpoint At (s : list ch) (o off : nat) (c : ch) : Prop :=
  match s with
  | [] => False
  | x :: r => (off = o /\ c = x) \/ At r (o + clen x) off c
  end.

Lemma At_combine : forall s o off c, In (off, c) (combine (boundaries s o) s) <-> At s o off c.
Proof.
  induction s as [|x r IH]; intros o off c.
  - simpl. tauto.
  - cbn [boundaries combine At In]. rewrite IH. split.
    + intros [H|H]; [left|right; exact H]. inversion H; subst; auto.
    + intros [[-> ->]|H]; [left; reflexivity|right; exact H].
Qed.

Lemma At_range : forall s o off c, At s o off c -> o <= off < o + byte_len s.
Proof.
  induction s as [|x r IH]; intros o off c H.
  - destruct H.
  - cbn [At] in H. rewrite byte_len_cons. pose proof (clen_pos x) as Hx.
    destruct H as [[-> ->]|H].
    + lia.
    + apply IH in H. lia.
Qed.

Lemma At_app : forall p q o off c,
  At (p ++ q) o off c <-> At p o off c \/ At q (o + byte_len p) off c.
Proof.
  induction p as [|x p IH]; intros q o off c.
  - cbn [app At]. rewrite byte_len_nil, Nat.add_0_r. tauto.
  - rewrite <- app_comm_cons. cbn [At]. rewrite IH, byte_len_cons.
    replace (o + clen x + byte_len p) with (o + (clen x + byte_len p)) by lia. tauto.
Qed.

Lemma chars_in_At : forall s o a b c, In c (chars_in s o a b) ->
  exists off, At s o off c /\ a <= off < b.
Proof.
  induction s as [|x r IH]; intros o a b c H.
  - destruct H.
  - cbn [chars_in] in H. apply in_app_or in H. destruct H as [H|H].
    + destruct (Nat.leb a o) eqn:E1; destruct (Nat.ltb o b) eqn:E2; simpl in H; try contradiction.
      destruct H as [<-|[]]. apply Nat.leb_le in E1. apply Nat.ltb_lt in E2.
      exists o. split; [left; auto|lia].
    + apply IH in H. destruct H as (off & H1 & H2). exists off. split; [right; exact H1|exact H2].
Qed.

(* ---- invariant of the delimiter relative to the consumed prefix ---- *)
Definition Inv (pre : list ch) (d : delim) : Prop :=
  d_right d = byte_len pre
  /\ In (d_left d) (boundaries pre 0)
  /\ (forall n, In n (d_chars d) -> (n < 128)%N)
  /\ (match d_state d with
      | MultiUpper last => exists pre', pre = pre' ++ [last] /\ In (d_left d) (boundaries pre' 0)
      | _ => True
      end)
  /\ (forall off c, At pre 0 off c -> d_left d <= off -> ~ In (cp c) (d_chars d)).

Definition step_ok (pre : list ch) (d : delim) (c : ch) : Prop :=
  match delimit d c with
  | DPanic => False
  | DNone d' => Inv (pre ++ [c]) d' /\ d_left d' = d_left d /\ d_chars d' = d_chars d
  | DRange d' a b =>
      Inv (pre ++ [c]) d' /\ d_chars d' = d_chars d /\ a = d_left d /\ a <= b /\ b <= byte_len pre
      /\ In b (boundaries pre 0)
      /\ (d_left d' = b
          \/ (b = byte_len pre /\ d_left d' = byte_len pre + clen c /\ In (cp c) (d_chars d)))
  end.

Lemma existsb_sep_true c l : existsb (N.eqb (cp c)) l = true -> In (cp c) l.
Proof.
  intros E. apply existsb_exists in E. destruct E as (n & Hn & En).
  apply N.eqb_eq in En. subst n. exact Hn.
Qed.

Lemma existsb_sep_false c l : existsb (N.eqb (cp c)) l = false -> ~ In (cp c) l.
Proof.
  intros E Hin. assert (existsb (N.eqb (cp c)) l = true) as E'.
  { apply existsb_exists. exists (cp c). split; [exact Hin|apply N.eqb_refl]. }
  congruence.
Qed.

Lemma clen_ascii c : (cp c < 128)%N -> clen c = 1.
Proof.
  intros H. unfold clen, utf8_len. apply N.ltb_lt in H. rewrite H. reflexivity.
Qed.

(* Inv for a state whose consumed prefix just grew by a non-separator c with left kept at an old boundary *)
Lemma Inv_extend pre c l chars st :
  In l (boundaries pre 0) ->
  (forall n, In n chars -> (n < 128)%N) ->
  ~ In (cp c) chars ->
  (forall off c0, At pre 0 off c0 -> l <= off -> ~ In (cp c0) chars) ->
  (match st with
   | MultiUpper last => last = c
   | _ => True
   end) ->
  Inv (pre ++ [c]) {| d_left := l; d_right := byte_len pre + clen c; d_state := st; d_chars := chars |}.
Proof.
  intros Hl Hc Hns H5 Hst. unfold Inv; cbn [d_left d_right d_state d_chars].
  split; [rewrite byte_len_snoc; reflexivity|].
  split; [apply bnd_app_l; exact Hl|].
  split; [exact Hc|].
  split.
  - destruct st as [| |last|]; auto. subst last. exists pre. split; [reflexivity|exact Hl].
  - intros off c0 Hat Hle. apply At_app in Hat. destruct Hat as [Hat|Hat].
    + eapply H5; eauto.
    + cbn [At] in Hat. destruct Hat as [[_ ->]|[]]. exact Hns.
Qed.

Lemma delimit_step pre d c : Inv pre d -> step_ok pre d c.
Proof.
  intros (Hr & Hl & Hc & Hs & H5).
  destruct d as [l r st chars]. cbn [d_left d_right d_state d_chars] in *.
  pose proof (bnd_range _ _ _ Hl) as Hlr. rewrite Nat.add_0_l in Hlr.
  unfold step_ok, delimit. cbn [d_left d_right d_state d_chars].
  destruct (existsb (N.eqb (cp c)) chars) eqn:E.
  { (* separator character *)
    apply existsb_sep_true in E.
    assert (clen c = 1) as Hc1 by (apply clen_ascii, Hc, E).
    split.
    { unfold Inv; cbn [d_left d_right d_state d_chars].
      split; [rewrite byte_len_snoc; lia|].
      split.
      { pose proof (bnd_last (pre ++ [c]) 0) as HL. rewrite byte_len_snoc, Hc1, Nat.add_0_l, <- Hr in HL.
        exact HL. }
      split; [exact Hc|].
      split; [destruct st; simpl; exact I|].
      intros off c0 Hat Hle. apply At_range in Hat. rewrite byte_len_snoc in Hat. lia. }
    split; [reflexivity|]. split; [reflexivity|]. split; [lia|]. split; [lia|].
    split.
    { pose proof (bnd_last pre 0) as HL. rewrite Nat.add_0_l, <- Hr in HL. exact HL. }
    right. cbn [d_left]. split; [exact Hr|]. split; [lia|exact E]. }
  apply existsb_sep_false in E.
  destruct (is_lower_state st && up c) eqn:ELU.
  { (* Lower, upper-case character *)
    assert (In r (boundaries pre 0)) as HrB.
    { pose proof (bnd_last pre 0) as HL. rewrite Nat.add_0_l, <- Hr in HL. exact HL. }
    split.
    { rewrite Hr. apply Inv_extend; auto.
      - rewrite <- Hr. exact HrB.
      - intros off c0 Hat Hle. apply At_range in Hat. lia. }
    split; [reflexivity|]. split; [reflexivity|]. split; [lia|]. split; [lia|].
    split; [exact HrB|]. left; reflexivity. }
  destruct st as [| |last|].
  - (* Lower *)
    cbn [is_ignore is_lower_state].
    split; [|split; reflexivity].
    rewrite Hr. apply Inv_extend; auto.
    destruct (lo c); exact I.
  - (* OneUpper *)
    cbn [is_ignore is_lower_state].
    split; [|split; reflexivity].
    rewrite Hr. apply Inv_extend; auto.
    destruct (lo c); [exact I|reflexivity].
  - (* MultiUpper last *)
    destruct Hs as (pre' & -> & Hl').
    pose proof (bnd_range _ _ _ Hl') as Hlr'. rewrite Nat.add_0_l in Hlr'.
    rewrite byte_len_snoc in Hr.
    destruct (lo c) eqn:Elo.
    + assert (Nat.ltb r (clen last) = false) as ELT by (apply Nat.ltb_ge; lia).
      rewrite ELT.
      assert (r - clen last = byte_len pre') as Hnl by lia.
      rewrite Hnl.
      assert (In (byte_len pre') (boundaries (pre' ++ [last]) 0)) as HB.
      { apply bnd_app_l. pose proof (bnd_last pre' 0) as HL. rewrite Nat.add_0_l in HL. exact HL. }
      split.
      { replace (r + clen c) with (byte_len (pre' ++ [last]) + clen c) by (rewrite byte_len_snoc; lia).
        apply Inv_extend; auto.
        intros off c0 Hat Hle. apply (H5 off c0 Hat). lia. }
      split; [reflexivity|]. split; [reflexivity|]. split; [lia|].
      split; [rewrite byte_len_snoc; lia|].
      split; [exact HB|]. left; reflexivity.
    + cbn [is_ignore is_lower_state].
      split; [|split; reflexivity].
      replace (r + clen c) with (byte_len (pre' ++ [last]) + clen c) by (rewrite byte_len_snoc; lia).
      apply Inv_extend; auto.
  - (* IgnoreCase *)
    cbn [is_ignore is_lower_state].
    split; [|split; reflexivity].
    rewrite Hr. apply Inv_extend; auto.
Qed.

(* ---- initial delimiters ---- *)
Lemma delim_from_chars_ascii l : forall n, In n (d_chars (delim_from l)) -> (n < 128)%N.
Proof.
  unfold delim_from; cbn [d_chars].
  induction l as [|x l IH]; intros n Hn.
  - destruct Hn.
  - cbn [flat_map] in Hn. apply in_app_or in Hn. destruct Hn as [Hn|Hn].
    + destruct x; cbn [In] in Hn; try contradiction; destruct Hn as [<-|[]]; reflexivity.
    + apply IH. exact Hn.
Qed.

Lemma delim_all_chars_ascii : forall n, In n (d_chars delim_all) -> (n < 128)%N.
Proof.
  unfold delim_all; cbn [d_chars In]. intros n Hn.
  repeat (destruct Hn as [<-|Hn]; [reflexivity|]). destruct Hn.
Qed.

Definition init_delim (seps : option (list sep)) : delim :=
  match seps with Some l => delim_from l | None => delim_all end.

Lemma Inv_init seps : Inv [] (init_delim seps).
Proof.
  unfold Inv.
  assert (d_left (init_delim seps) = 0) as HL by (destruct seps; reflexivity).
  assert (d_right (init_delim seps) = 0) as HR by (destruct seps; reflexivity).
  rewrite HL, HR.
  split; [reflexivity|].
  split; [left; reflexivity|].
  split.
  { destruct seps as [l|]; [apply delim_from_chars_ascii|apply delim_all_chars_ascii]. }
  split.
  { destruct seps as [l|]; cbn [init_delim delim_from delim_all d_state]; [|exact I].
    destruct (existsb _ l); exact I. }
  intros off c [].
Qed.

(* ---- C11_split_safe ---- *)
Lemma ordered_mono rs : forall f f', f' <= f -> ordered rs f -> ordered rs f'.
Proof.
  destruct rs as [|[a b] r]; cbn [ordered]; intros f f' Hle H; [exact I|].
  destruct H as (H1 & H2 & H3). split; [lia|]. split; assumption.
Qed.

Lemma split_go_safe : forall rest pre d, Inv pre d ->
  exists rs, split_go d rest (byte_len (pre ++ rest)) = Some rs
    /\ ordered rs (d_left d)
    /\ forall a b, In (a, b) rs ->
         b <= byte_len (pre ++ rest)
         /\ In a (boundaries (pre ++ rest) 0) /\ In b (boundaries (pre ++ rest) 0).
Proof.
  induction rest as [|c rest IH]; intros pre d HI.
  - rewrite app_nil_r. cbn [split_go]. unfold conclude.
    destruct HI as (Hr & Hl & _).
    destruct (Nat.ltb (d_left d) (d_right d) && Nat.leb (d_right d) (byte_len pre)) eqn:E.
    + apply andb_prop in E. destruct E as [E1 E2]. apply Nat.ltb_lt in E1.
      destruct (Nat.eqb (d_left d) (d_right d)) eqn:E3.
      * exists []. split; [reflexivity|]. split; [exact I|]. intros a b [].
      * exists [(d_left d, d_right d)]. split; [reflexivity|]. split.
        { cbn [ordered]. split; [lia|]. split; [exact E1|exact I]. }
        intros a b [Hab|[]]. inversion Hab; subst a b.
        split; [lia|]. split; [exact Hl|].
        pose proof (bnd_last pre 0) as HL. rewrite Nat.add_0_l, <- Hr in HL. exact HL.
    + exists []. split; [reflexivity|]. split; [exact I|]. intros a b [].
  - pose proof (delimit_step pre d c HI) as Hstep. unfold step_ok in Hstep.
    cbn [split_go].
    assert (pre ++ c :: rest = (pre ++ [c]) ++ rest) as Happ by (rewrite <- app_assoc; reflexivity).
    rewrite Happ.
    destruct (delimit d c) as [d'|d' a b|].
    + destruct Hstep as (HI' & Hl' & _).
      destruct (IH (pre ++ [c]) d' HI') as (rs & Hrs & Hord & Hin).
      exists rs. split; [exact Hrs|]. split; [rewrite <- Hl'; exact Hord|exact Hin].
    + destruct Hstep as (HI' & _ & Ha & Hab & Hb & HbB & Hl').
      destruct (IH (pre ++ [c]) d' HI') as (rs & Hrs & Hord & Hin).
      rewrite Hrs.
      assert (b <= d_left d') as Hbl by (destruct Hl' as [->|(-> & -> & _)]; lia).
      destruct (Nat.eqb a b) eqn:Eab.
      * exists rs. split; [reflexivity|]. split; [|exact Hin].
        apply ordered_mono with (f := d_left d'); [lia|exact Hord].
      * apply Nat.eqb_neq in Eab.
        exists ((a, b) :: rs). split; [reflexivity|]. split.
        { cbn [ordered]. split; [lia|]. split; [lia|].
          apply ordered_mono with (f := d_left d'); [lia|exact Hord]. }
        intros a0 b0 [Hab0|Hin0]; [|apply Hin; exact Hin0].
        inversion Hab0; subst a0 b0.
        split; [rewrite !byte_len_app; lia|].
        destruct HI as (_ & HlB & _).
        split; rewrite <- app_assoc; apply bnd_app_l; [rewrite Ha; exact HlB|exact HbB].
    + destruct Hstep.
Qed.

Lemma C11_split_safe : C11_split_safe_stmt.
Proof.
  unfold C11_split_safe_stmt, split. intros s seps.
  destruct (split_go_safe s [] (init_delim seps) (Inv_init seps)) as (rs & Hrs & Hord & Hin).
  cbn [app] in *.
  exists rs. split; [exact Hrs|]. split.
  - apply ordered_mono with (f := d_left (init_delim seps)); [lia|exact Hord].
  - intros a b Hab. unfold is_boundary. apply Hin. exact Hab.
Qed.
Print Assumptions C11_split_safe.

(* ---- C11_split_covers ---- *)
Definition covered (rs : list (nat * nat)) (off : nat) : Prop :=
  exists a b, In (a, b) rs /\ a <= off < b.

Lemma covered_keep rs a b off :
  covered rs off -> covered (if Nat.eqb a b then rs else (a, b) :: rs) off.
Proof.
  intros (a0 & b0 & Hin & Hr). exists a0, b0. split; [|exact Hr].
  destruct (Nat.eqb a b); [exact Hin|right; exact Hin].
Qed.

Lemma covered_new rs a b off :
  a <= off < b -> covered (if Nat.eqb a b then rs else (a, b) :: rs) off.
Proof.
  intros Hr. exists a, b. split; [|exact Hr].
  destruct (Nat.eqb a b) eqn:E; [apply Nat.eqb_eq in E; lia|left; reflexivity].
Qed.

Lemma split_go_covers : forall rest pre d rs, Inv pre d ->
  split_go d rest (byte_len (pre ++ rest)) = Some rs ->
  (forall off, d_left d <= off < byte_len pre -> covered rs off)
  /\ (forall off c, At rest (byte_len pre) off c -> covered rs off \/ In (cp c) (d_chars d))
  /\ (forall a b, In (a, b) rs -> forall off c, At (pre ++ rest) 0 off c -> a <= off < b ->
        ~ In (cp c) (d_chars d)).
Proof.
  induction rest as [|c rest IH]; intros pre d rs HI Hgo.
  - rewrite app_nil_r in *. cbn [split_go] in Hgo. unfold conclude in Hgo.
    destruct HI as (Hr & Hl & _ & _ & H5).
    destruct (Nat.ltb (d_left d) (d_right d) && Nat.leb (d_right d) (byte_len pre)) eqn:E.
    + injection Hgo as <-.
      split.
      { intros off Hoff. rewrite <- Hr in Hoff.
        apply (covered_new [] (d_left d) (d_right d) off Hoff). }
      split; [intros off c []|].
      intros a b Hin off c Hat Hoff.
      destruct (Nat.eqb (d_left d) (d_right d)); [destruct Hin|].
      destruct Hin as [Hab|[]]. inversion Hab; subst a b.
      apply (H5 off c Hat). lia.
    + injection Hgo as <-.
      apply andb_false_iff in E.
      split.
      { intros off Hoff. exfalso. destruct E as [E|E].
        - apply Nat.ltb_ge in E. lia.
        - apply Nat.leb_gt in E. lia. }
      split; [intros off c []|intros a b []].
  - pose proof (delimit_step pre d c HI) as Hstep. unfold step_ok in Hstep.
    cbn [split_go] in Hgo.
    assert (pre ++ c :: rest = (pre ++ [c]) ++ rest) as Happ by (rewrite <- app_assoc; reflexivity).
    rewrite Happ in *.
    destruct HI as (Hr & Hl & _ & _ & H5).
    pose proof (bnd_range _ _ _ Hl) as Hlr. rewrite Nat.add_0_l in Hlr.
    pose proof (clen_pos c) as Hcp.
    destruct (delimit d c) as [d'|d' a b|].
    + destruct Hstep as (HI' & Hl' & Hch).
      destruct (IH (pre ++ [c]) d' rs HI' Hgo) as (A & B & C).
      rewrite byte_len_snoc in A, B. rewrite Hl' in A. rewrite Hch in B, C.
      split; [intros off Hoff; apply A; lia|].
      split; [|exact C].
      intros off c0 Hat. cbn [At] in Hat. destruct Hat as [[-> ->]|Hat].
      * left. apply A. lia.
      * apply B. exact Hat.
    + destruct Hstep as (HI' & Hch & Ha & Hab & Hb & HbB & Hl').
      destruct (split_go d' rest (byte_len ((pre ++ [c]) ++ rest))) as [rs'|] eqn:Hgo'; [|discriminate].
      injection Hgo as <-.
      destruct (IH (pre ++ [c]) d' rs' HI' Hgo') as (A & B & C).
      rewrite byte_len_snoc in A, B. rewrite Hch in B, C.
      split.
      { intros off Hoff. destruct (Nat.lt_ge_cases off b) as [Hlt|Hge].
        - apply covered_new. lia.
        - apply covered_keep. apply A. destruct Hl' as [->|(-> & _)]; lia. }
      split.
      { intros off c0 Hat. cbn [At] in Hat. destruct Hat as [[-> ->]|Hat].
        - destruct Hl' as [Hl'|(_ & _ & Hsep)]; [|right; exact Hsep].
          left. apply covered_keep. apply A. lia.
        - destruct (B off c0 Hat) as [Hc|Hc]; [left; apply covered_keep; exact Hc|right; exact Hc]. }
      intros a0 b0 Hin off c0 Hat Hoff.
      assert ((a0, b0) = (a, b) \/ In (a0, b0) rs') as Hin'.
      { destruct (Nat.eqb a b); [right; exact Hin|].
        destruct Hin as [Hin|Hin]; [left; symmetry; exact Hin|right; exact Hin]. }
      destruct Hin' as [Heq|Hin'].
      * inversion Heq; subst a0 b0.
        apply At_app in Hat. destruct Hat as [Hat|Hat].
        { apply At_app in Hat. destruct Hat as [Hat|Hat].
          - apply (H5 off c0 Hat). lia.
          - apply At_range in Hat. lia. }
        { apply At_range in Hat. rewrite byte_len_snoc in Hat. lia. }
      * apply (C a0 b0 Hin' off c0 Hat Hoff).
    + destruct Hstep.
Qed.

Lemma C11_split_covers : C11_split_covers_stmt.
Proof.
  unfold C11_split_covers_stmt, split, active_delims. intros s seps rs Hgo.
  fold (init_delim seps) in *.
  destruct (split_go_covers s [] (init_delim seps) rs (Inv_init seps) Hgo) as (_ & B & C).
  cbn [app] in *. rewrite byte_len_nil in B.
  split.
  - intros c off Hin. apply At_combine in Hin. apply B in Hin. exact Hin.
  - intros a b c Hin Hc. apply chars_in_At in Hc. destruct Hc as (off & Hat & Hoff).
    apply (C a b Hin off c Hat Hoff).
Qed.
Print Assumptions C11_split_covers.
