(* UTF-8 encoding of a sequence of scalar values, and the declarative meaning of the character column:
   the column reported for an offset is the NUMBER OF CHARACTERS between the line start and the offset.
   (Rule/Traversal.v's [count_chars] counts non-continuation bytes; here it is shown to count characters.) *)
From Coq Require Import List NArith ZArith Bool Arith Lia ZifyBool ZifyNat ZifyN.
From AG Require Import Base.Val Rule.Rule Rule.Traversal Rewrite.Splice.
Import ListNotations.
Ltac Zify.zify_post_hook ::= Z.div_mod_to_equations.

Definition scalar (c : N) : bool := N.ltb c 1114112 && negb (N.leb 55296 c && N.leb c 57343).

Definition encode_cp (c : N) : list N :=
  if N.ltb c 128 then [c]
  else if N.ltb c 2048 then [192 + c / 64; 128 + c mod 64]%N
  else if N.ltb c 65536 then [224 + c / 4096; 128 + (c / 64) mod 64; 128 + c mod 64]%N
  else [240 + c / 262144; 128 + (c / 4096) mod 64; 128 + (c / 64) mod 64; 128 + c mod 64]%N.

Definition encode (cps : list N) : list N := flat_map encode_cp cps.

Definition nonconts (l : list N) : nat := length (filter (fun b => negb (is_cont_byte b)) l).

Lemma nonconts_app : forall a b, nonconts (a ++ b) = nonconts a + nonconts b.
Proof. intros a b. unfold nonconts. rewrite filter_app, app_length. reflexivity. Qed.

(* one character = exactly one byte that is not a continuation byte *)
Lemma encode_cp_one : forall c, scalar c = true -> nonconts (encode_cp c) = 1.
Proof.
  intros c Hc. unfold scalar in Hc. unfold encode_cp, nonconts.
  destruct (N.ltb c 128) eqn:E1.
  - cbn [filter]. unfold is_cont_byte. assert (N.leb 128 c = false) by lia. rewrite H. reflexivity.
  - destruct (N.ltb c 2048) eqn:E2.
    + cbn [filter]. unfold is_cont_byte.
      assert (H1 : N.ltb (192 + c / 64) 192 = false) by lia.
      assert (H2 : N.leb 128 (128 + c mod 64) = true) by lia.
      assert (H3 : N.ltb (128 + c mod 64) 192 = true) by lia.
      rewrite H1, H2, H3. rewrite andb_false_r. reflexivity.
    + destruct (N.ltb c 65536) eqn:E3.
      * cbn [filter]. unfold is_cont_byte.
        assert (H1 : N.ltb (224 + c / 4096) 192 = false) by lia.
        assert (H2 : N.leb 128 (128 + (c / 64) mod 64) = true) by lia.
        assert (H3 : N.ltb (128 + (c / 64) mod 64) 192 = true) by lia.
        assert (H4 : N.leb 128 (128 + c mod 64) = true) by lia.
        assert (H5 : N.ltb (128 + c mod 64) 192 = true) by lia.
        rewrite H1, H2, H3, H4, H5. rewrite andb_false_r. reflexivity.
      * cbn [filter]. unfold is_cont_byte.
        assert (H1 : N.ltb (240 + c / 262144) 192 = false) by lia.
        assert (H2 : N.leb 128 (128 + (c / 4096) mod 64) = true) by lia.
        assert (H3 : N.ltb (128 + (c / 4096) mod 64) 192 = true) by lia.
        assert (H4 : N.leb 128 (128 + (c / 64) mod 64) = true) by lia.
        assert (H5 : N.ltb (128 + (c / 64) mod 64) 192 = true) by lia.
        assert (H6 : N.leb 128 (128 + c mod 64) = true) by lia.
        assert (H7 : N.ltb (128 + c mod 64) 192 = true) by lia.
        rewrite H1, H2, H3, H4, H5, H6, H7. rewrite andb_false_r. reflexivity.
Qed.

Lemma nonconts_encode : forall cps, forallb scalar cps = true -> nonconts (encode cps) = length cps.
Proof.
  induction cps as [|c cps IH]; intros H; [reflexivity|].
  cbn [forallb] in H. apply andb_true_iff in H as [Hc Hr].
  cbn [encode flat_map length]. rewrite nonconts_app. fold (encode cps). rewrite (IH Hr), (encode_cp_one c Hc). reflexivity.
Qed.

Theorem count_chars_encode : forall cps,
  forallb scalar cps = true -> count_chars (encode cps) = N.of_nat (length cps).
Proof. intros cps H. unfold count_chars. fold (nonconts (encode cps)). rewrite (nonconts_encode cps H). reflexivity. Qed.

(* no byte of an encoded non-newline character is the newline byte *)
Lemma encode_cp_no_nl : forall c, scalar c = true -> c <> 10%N -> forallb (fun b => negb (N.eqb b 10)) (encode_cp c) = true.
Proof.
  intros c Hc Hn. unfold scalar in Hc. unfold encode_cp.
  destruct (N.ltb c 128) eqn:E1; [cbn [forallb]; assert (N.eqb c 10 = false) by lia; rewrite H; reflexivity|].
  destruct (N.ltb c 2048) eqn:E2.
  - cbn [forallb]. assert (H1 : N.eqb (192 + c / 64) 10 = false) by lia. assert (H2 : N.eqb (128 + c mod 64) 10 = false) by lia.
    rewrite H1, H2. reflexivity.
  - destruct (N.ltb c 65536) eqn:E3; cbn [forallb].
    + assert (H1 : N.eqb (224 + c / 4096) 10 = false) by lia. assert (H2 : N.eqb (128 + (c / 64) mod 64) 10 = false) by lia.
      assert (H3 : N.eqb (128 + c mod 64) 10 = false) by lia. rewrite H1, H2, H3. reflexivity.
    + assert (H1 : N.eqb (240 + c / 262144) 10 = false) by lia. assert (H2 : N.eqb (128 + (c / 4096) mod 64) 10 = false) by lia.
      assert (H3 : N.eqb (128 + (c / 64) mod 64) 10 = false) by lia. assert (H4 : N.eqb (128 + c mod 64) 10 = false) by lia.
      rewrite H1, H2, H3, H4. reflexivity.
Qed.

Lemma encode_no_nl : forall cps, forallb scalar cps = true -> forallb (fun c => negb (N.eqb c 10)) cps = true ->
  forallb (fun b => negb (N.eqb b 10)) (encode cps) = true.
Proof.
  induction cps as [|c cps IH]; intros H1 H2; [reflexivity|].
  cbn [forallb] in H1, H2. apply andb_true_iff in H1 as [Hc Hr]. apply andb_true_iff in H2 as [Hn Hr2].
  cbn [encode flat_map]. rewrite forallb_app. fold (encode cps). rewrite (IH Hr Hr2).
  rewrite encode_cp_no_nl; [reflexivity | exact Hc | intro E; subst; discriminate].
Qed.

Lemma after_last_nl_no_nl : forall l acc, forallb (fun b => negb (N.eqb b 10)) l = true -> after_last_nl l acc = acc ++ l.
Proof.
  induction l as [|b l IH]; intros acc H; cbn [after_last_nl]; [rewrite app_nil_r; reflexivity|].
  cbn [forallb] in H. apply andb_true_iff in H as [Hb Hr]. apply negb_true_iff in Hb. rewrite Hb.
  rewrite (IH _ Hr). rewrite <- app_assoc. reflexivity.
Qed.

Lemma after_last_nl_app_nl : forall a acc l, after_last_nl (a ++ 10%N :: l) acc = after_last_nl l [].
Proof.
  induction a as [|b a IH]; intros acc l; cbn [app after_last_nl]; [reflexivity|].
  destruct (N.eqb b 10); apply IH.
Qed.

(* the encoding is well-formed UTF-8 in the sense of Rewrite/Splice.v (lead byte + the announced continuation bytes) *)
Lemma utf8_from_encode_cp : forall c rest, scalar c = true ->
  utf8_from 0 (encode_cp c ++ rest) = utf8_from 0 rest.
Proof.
  intros c rest Hc. unfold scalar in Hc. unfold encode_cp.
  destruct (N.ltb c 128) eqn:E1.
  - cbn [app utf8_from]. unfold lead_len. rewrite E1. reflexivity.
  - destruct (N.ltb c 2048) eqn:E2.
    + cbn [app utf8_from]. unfold lead_len, is_cont.
      assert (H0 : N.ltb (192 + c / 64) 128 = false) by lia.
      assert (H1 : N.leb 194 (192 + c / 64) && N.leb (192 + c / 64) 223 = true) by lia.
      assert (H2 : N.leb 128 (128 + c mod 64) && N.ltb (128 + c mod 64) 192 = true) by lia.
      rewrite H0, H1, H2. reflexivity.
    + destruct (N.ltb c 65536) eqn:E3.
      * cbn [app utf8_from]. unfold lead_len, is_cont.
        assert (H0 : N.ltb (224 + c / 4096) 128 = false) by lia.
        assert (H1 : N.leb 194 (224 + c / 4096) && N.leb (224 + c / 4096) 223 = false) by lia.
        assert (H2 : N.leb 224 (224 + c / 4096) && N.leb (224 + c / 4096) 239 = true) by lia.
        assert (H3 : N.leb 128 (128 + (c / 64) mod 64) && N.ltb (128 + (c / 64) mod 64) 192 = true) by lia.
        assert (H4 : N.leb 128 (128 + c mod 64) && N.ltb (128 + c mod 64) 192 = true) by lia.
        rewrite H0, H1, H2, H3, H4. reflexivity.
      * cbn [app utf8_from]. unfold lead_len, is_cont.
        assert (H0 : N.ltb (240 + c / 262144) 128 = false) by lia.
        assert (H1 : N.leb 194 (240 + c / 262144) && N.leb (240 + c / 262144) 223 = false) by lia.
        assert (H2 : N.leb 224 (240 + c / 262144) && N.leb (240 + c / 262144) 239 = false) by lia.
        assert (H2' : N.leb 240 (240 + c / 262144) && N.leb (240 + c / 262144) 244 = true) by lia.
        assert (H3 : N.leb 128 (128 + (c / 4096) mod 64) && N.ltb (128 + (c / 4096) mod 64) 192 = true) by lia.
        assert (H4 : N.leb 128 (128 + (c / 64) mod 64) && N.ltb (128 + (c / 64) mod 64) 192 = true) by lia.
        assert (H5 : N.leb 128 (128 + c mod 64) && N.ltb (128 + c mod 64) 192 = true) by lia.
        rewrite H0, H1, H2, H2', H3, H4, H5. reflexivity.
Qed.

Theorem encode_valid : forall cps, forallb scalar cps = true -> valid_utf8 (encode cps) = true.
Proof.
  unfold valid_utf8. induction cps as [|c cps IH]; intros H; [reflexivity|].
  cbn [forallb] in H. apply andb_true_iff in H as [Hc Hr].
  cbn [encode flat_map]. fold (encode cps). rewrite (utf8_from_encode_cp c _ Hc). exact (IH Hr).
Qed.

Lemma firstn_app_exact : forall A (a b : list A), firstn (length a) (a ++ b) = a.
Proof. intros A a b. rewrite firstn_app, Nat.sub_diag, firstn_all. cbn [firstn]. apply app_nil_r. Qed.
