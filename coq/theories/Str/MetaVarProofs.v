From Coq Require Import List NArith ZArith Bool Lia.
From AG Require Import Base.Val Str.MetaVar.
Import ListNotations.
Local Open Scope N_scope.

Definition name_branch (named : bool) (t : str) : option metavar :=
  if negb (starts_with_first t) || negb (forallb is_mv_char t) then None
  else if starts_with_c UNDERSCORE t then Some (Dropped named)
  else Some (Capture t named).

Definition ell_branch (t : str) : option metavar :=
  match t with
  | [] => Some Multiple
  | _ => if negb (forallb is_mv_char t) then None
         else if starts_with_c UNDERSCORE t then Some Multiple
         else Some (MultiCapture t)
  end.

Definition not_starting (mc : N) (s : str) : Prop :=
  match s with [] => True | c :: _ => c <> mc end.

Lemma extract_not_start mc s : not_starting mc s -> extract_meta_var mc s = None.
Proof.
  destruct s as [|c r]; cbn; [reflexivity|]. intros H.
  apply N.eqb_neq in H. rewrite N.eqb_sym in H.
  unfold extract_meta_var. cbn [strip_prefix]. rewrite H.
  rewrite N.eqb_sym in H. rewrite H. reflexivity.
Qed.

Lemma mv_char_first t : starts_with_first t = true -> forallb is_mv_char t = true ->
  match t with [] => False | c :: _ => is_mv_char c = true end.
Proof. destruct t; cbn; [discriminate|]. intros _ H. apply andb_true_iff in H. tauto. Qed.

Lemma extract_shape mc k rest :
  is_mv_char mc = false -> not_starting mc rest ->
  extract_meta_var mc (repeatN mc k ++ rest) =
  match k with
  | 0 => None
  | 1 => name_branch true rest
  | 2 => name_branch false rest
  | 3 => ell_branch rest
  | _ => None
  end%nat.
Proof.
  intros Hmc Hrest.
  assert (Hhd : forall c r, rest = c :: r -> (mc =? c) = false /\ (c =? mc) = false).
  { intros c r ->. cbn in Hrest. split; apply N.eqb_neq; congruence. }
  destruct k as [|[|[|[|k]]]]; cbn [repeatN app].
  - apply extract_not_start. assumption.
  - unfold extract_meta_var. cbn [strip_prefix]. rewrite N.eqb_refl.
    destruct rest as [|c r].
    + reflexivity.
    + destruct (Hhd c r eq_refl) as [H1 H2]. rewrite H1, H2. reflexivity.
  - unfold extract_meta_var. cbn [strip_prefix]. rewrite !N.eqb_refl.
    destruct rest as [|c r].
    + reflexivity.
    + destruct (Hhd c r eq_refl) as [H1 H2]. rewrite H1. reflexivity.
  - unfold extract_meta_var. cbn [strip_prefix]. rewrite !N.eqb_refl.
    destruct rest as [|c r]; reflexivity.
  - unfold extract_meta_var. cbn [strip_prefix]. rewrite !N.eqb_refl.
    cbn [forallb]. rewrite Hmc. reflexivity.
Qed.

(* ---- pre_process_pattern ---- *)
Lemma ppp_dollars ex d k rest :
  ppp_go ex d (repeatN DOLLAR k ++ rest) = ppp_go ex (d + k) rest.
Proof.
  revert d. induction k as [|k IH]; intros d; cbn [repeatN app].
  - f_equal. lia.
  - cbn [ppp_go]. rewrite N.eqb_refl. rewrite IH. f_equal. lia.
Qed.

Lemma is_mv_char_dollar : is_mv_char DOLLAR = false.
Proof. reflexivity. Qed.

Lemma ppp_valid ex r : forallb is_mv_char r = true -> ppp_go ex 0 r = r.
Proof.
  induction r as [|c r IH]; cbn [forallb ppp_go]; [reflexivity|].
  intros H. apply andb_true_iff in H as [Hc Hr].
  destruct (N.eqb_spec c DOLLAR) as [->|_]; [discriminate|].
  cbn [repeatN app]. rewrite IH by assumption. reflexivity.
Qed.

Lemma forallb_repeat_false c d : is_mv_char c = false -> (0 < d)%nat ->
  forall t, forallb is_mv_char (repeatN c d ++ t) = false.
Proof. intros Hc Hd t. destruct d; [lia|]. cbn. rewrite Hc. reflexivity. Qed.

Lemma ppp_invalid ex d r :
  is_mv_char ex = false ->
  ((0 < d)%nat \/ forallb is_mv_char r = false) ->
  forallb is_mv_char (ppp_go ex d r) = false.
Proof.
  intros Hex. revert d. induction r as [|c r IH]; intros d H; cbn [ppp_go].
  - destruct H as [H|H]; [|discriminate].
    destruct (Nat.eqb d 3); destruct d; try lia; cbn; rewrite ?Hex; reflexivity.
  - destruct (N.eqb_spec c DOLLAR) as [->|Hc].
    + apply IH. left. lia.
    + destruct H as [H|H].
      * apply forallb_repeat_false; [|assumption].
        destruct (is_first_char c || Nat.eqb d 3); [assumption|reflexivity].
      * rewrite forallb_app. cbn [forallb] in *.
        destruct (is_mv_char c); cbn [andb] in *.
        -- rewrite IH by (right; assumption). rewrite andb_false_r. reflexivity.
        -- rewrite andb_false_r. reflexivity.
Qed.

Lemma split_dollars (s : str) :
  exists k rest, s = repeatN DOLLAR k ++ rest /\ not_starting DOLLAR rest.
Proof.
  induction s as [|c s (k & rest & -> & H)].
  - exists 0%nat, []. split; [reflexivity|exact I].
  - destruct (N.eq_dec c DOLLAR) as [->|Hc].
    + exists (S k), rest. split; [reflexivity|assumption].
    + exists 0%nat, (c :: repeatN DOLLAR k ++ rest). split; [reflexivity|exact Hc].
Qed.

Lemma name_branch_ppp ex named c r :
  is_mv_char ex = false ->
  name_branch named (c :: ppp_go ex 0 r) = name_branch named (c :: r).
Proof.
  intros Hex. unfold name_branch. cbn [starts_with_first starts_with_c forallb].
  destruct (forallb is_mv_char r) eqn:Hr.
  - rewrite ppp_valid by assumption. rewrite Hr. reflexivity.
  - rewrite ppp_invalid by (auto). rewrite !andb_false_r. cbn. rewrite !orb_true_r. reflexivity.
Qed.

Lemma ell_branch_ppp ex c r :
  is_mv_char ex = false ->
  ell_branch (c :: ppp_go ex 0 r) = ell_branch (c :: r).
Proof.
  intros Hex. unfold ell_branch. cbn [starts_with_c forallb].
  destruct (forallb is_mv_char r) eqn:Hr.
  - rewrite ppp_valid by assumption. rewrite Hr. reflexivity.
  - rewrite ppp_invalid by (auto). rewrite !andb_false_r. reflexivity.
Qed.

Lemma name_branch_not_first named c r : is_first_char c = false -> name_branch named (c :: r) = None.
Proof. intros H. unfold name_branch. cbn [starts_with_first]. rewrite H. reflexivity. Qed.

(* The sigil rewriting is transparent: for an expando character that is not a meta-variable
   character and not the sigil, and a pattern text not containing it, recognising holes after
   rewriting gives what recognising them with '$' gives on the original text. *)
Theorem extract_uniform ex s :
  is_mv_char ex = false -> ex <> DOLLAR -> ~ In ex s ->
  extract_meta_var ex (pre_process_pattern ex s) = extract_meta_var DOLLAR s.
Proof.
  intros Hex Hne Hin.
  destruct (split_dollars s) as (k & rest & -> & Hrest).
  unfold pre_process_pattern. rewrite ppp_dollars. cbn [Nat.add].
  rewrite (extract_shape DOLLAR k rest is_mv_char_dollar Hrest).
  assert (Hne' : DOLLAR <> ex) by congruence.
  destruct rest as [|c r].
  - cbn [ppp_go]. destruct (Nat.eqb_spec k 3) as [->|Hk].
    + rewrite <- (app_nil_r (repeatN ex 3)).
      rewrite (extract_shape ex 3 [] Hex I). reflexivity.
    + rewrite <- (app_nil_r (repeatN DOLLAR k)).
      destruct k as [|[|[|[|k]]]]; try lia; try reflexivity;
        (rewrite extract_not_start; [reflexivity| cbn; assumption]).
  - cbn in Hrest. cbn [ppp_go]. destruct (N.eqb_spec c DOLLAR) as [->|_]; [congruence|].
    assert (Hcex : c <> ex).
    { intros ->. apply Hin. apply in_or_app. right. left. reflexivity. }
    destruct (is_first_char c) eqn:Hfc; cbn [orb].
    + rewrite (extract_shape ex k _ Hex) by (cbn; assumption).
      destruct k as [|[|[|[|k]]]]; try reflexivity.
      * apply name_branch_ppp; assumption.
      * apply name_branch_ppp; assumption.
      * apply ell_branch_ppp; assumption.
    + destruct (Nat.eqb_spec k 3) as [->|Hk].
      * rewrite (extract_shape ex 3 _ Hex) by (cbn; assumption).
        apply ell_branch_ppp; assumption.
      * destruct k as [|[|[|[|k]]]]; try lia.
        -- cbn [repeatN app]. rewrite extract_not_start by (cbn; assumption). reflexivity.
        -- rewrite extract_not_start by (cbn; assumption).
           symmetry. apply name_branch_not_first. assumption.
        -- rewrite extract_not_start by (cbn; assumption).
           symmetry. apply name_branch_not_first. assumption.
        -- rewrite extract_not_start by (cbn; assumption). reflexivity.
Qed.

(* ---- declarative classification of the documented spellings ---- *)
Definition valid_name (n : str) : Prop :=
  starts_with_first n = true /\ forallb is_mv_char n = true.

Definition ELL : str := [DOLLAR; DOLLAR; DOLLAR].

Inductive Denotes : str -> metavar -> Prop :=
| D_capture n : valid_name n -> starts_with_c UNDERSCORE n = false ->
    Denotes (DOLLAR :: n) (Capture n true)                       (* $A   : named-node capture *)
| D_capture_any n : valid_name n -> starts_with_c UNDERSCORE n = false ->
    Denotes (DOLLAR :: DOLLAR :: n) (Capture n false)            (* $$A  : any-node capture *)
| D_hole n : valid_name n -> starts_with_c UNDERSCORE n = true ->
    Denotes (DOLLAR :: n) (Dropped true)                         (* $_   : non-capturing hole *)
| D_hole_any n : valid_name n -> starts_with_c UNDERSCORE n = true ->
    Denotes (DOLLAR :: DOLLAR :: n) (Dropped false)              (* $$_  *)
| D_ellipsis : Denotes ELL Multiple                              (* $$$  : anonymous ellipsis *)
| D_ellipsis_anon n : valid_name n -> starts_with_c UNDERSCORE n = true ->
    Denotes (ELL ++ n) Multiple                                  (* $$$_ *)
| D_ellipsis_named n : valid_name n -> starts_with_c UNDERSCORE n = false ->
    Denotes (ELL ++ n) (MultiCapture n).                         (* $$$A : named ellipsis *)

(* the known deviation: an ellipsis followed by a digit-first name *)
Definition digit_first_ellipsis (s : str) : Prop :=
  exists n, s = ELL ++ n /\ n <> [] /\ starts_with_first n = false /\ forallb is_mv_char n = true.

Lemma valid_not_dollar n : valid_name n -> not_starting DOLLAR n.
Proof.
  intros [H _]. destruct n as [|c r]; cbn in *; [exact I|].
  intros ->. discriminate.
Qed.

Lemma name_branch_valid named n : valid_name n ->
  name_branch named n = if starts_with_c UNDERSCORE n then Some (Dropped named) else Some (Capture n named).
Proof. intros [H1 H2]. unfold name_branch. rewrite H1, H2. reflexivity. Qed.

Lemma ell_branch_valid n : valid_name n ->
  ell_branch n = if starts_with_c UNDERSCORE n then Some Multiple else Some (MultiCapture n).
Proof.
  intros [H1 H2]. unfold ell_branch. destruct n; [discriminate|]. rewrite H2. reflexivity.
Qed.

Lemma extract_of_denotes s m : Denotes s m -> extract_meta_var DOLLAR s = Some m.
Proof.
  intros H. destruct H as [n Hv Hu|n Hv Hu|n Hv Hu|n Hv Hu| |n Hv Hu|n Hv Hu];
    pose proof is_mv_char_dollar as Hd.
  - change (DOLLAR :: n) with (repeatN DOLLAR 1 ++ n).
    rewrite extract_shape by auto using valid_not_dollar.
    rewrite name_branch_valid, Hu by assumption. reflexivity.
  - change (DOLLAR :: DOLLAR :: n) with (repeatN DOLLAR 2 ++ n).
    rewrite extract_shape by auto using valid_not_dollar.
    rewrite name_branch_valid, Hu by assumption. reflexivity.
  - change (DOLLAR :: n) with (repeatN DOLLAR 1 ++ n).
    rewrite extract_shape by auto using valid_not_dollar.
    rewrite name_branch_valid, Hu by assumption. reflexivity.
  - change (DOLLAR :: DOLLAR :: n) with (repeatN DOLLAR 2 ++ n).
    rewrite extract_shape by auto using valid_not_dollar.
    rewrite name_branch_valid, Hu by assumption. reflexivity.
  - reflexivity.
  - change (ELL ++ n) with (repeatN DOLLAR 3 ++ n).
    rewrite extract_shape by auto using valid_not_dollar.
    rewrite ell_branch_valid, Hu by assumption. reflexivity.
  - change (ELL ++ n) with (repeatN DOLLAR 3 ++ n).
    rewrite extract_shape by auto using valid_not_dollar.
    rewrite ell_branch_valid, Hu by assumption. reflexivity.
Qed.

Lemma name_branch_inv named t m : name_branch named t = Some m ->
  valid_name t /\ m = (if starts_with_c UNDERSCORE t then Dropped named else Capture t named).
Proof.
  unfold name_branch, valid_name.
  destruct (starts_with_first t), (forallb is_mv_char t); cbn; try discriminate.
  destruct (starts_with_c UNDERSCORE t); intros [= <-]; auto.
Qed.

Theorem extract_classify s m :
  ~ digit_first_ellipsis s ->
  (extract_meta_var DOLLAR s = Some m <-> Denotes s m).
Proof.
  intros Hk. split; [|apply extract_of_denotes].
  destruct (split_dollars s) as (k & rest & -> & Hrest).
  rewrite (extract_shape DOLLAR k rest is_mv_char_dollar Hrest).
  destruct k as [|[|[|[|k]]]]; try discriminate.
  - intros H. apply name_branch_inv in H as [Hv ->]. cbn [repeatN app].
    destruct (starts_with_c UNDERSCORE rest) eqn:Hu; constructor; assumption.
  - intros H. apply name_branch_inv in H as [Hv ->]. cbn [repeatN app].
    destruct (starts_with_c UNDERSCORE rest) eqn:Hu; constructor; assumption.
  - change (repeatN DOLLAR 3) with ELL in *. unfold ell_branch.
    destruct rest as [|c r]; [intros [= <-]; rewrite app_nil_r; constructor|].
    destruct (forallb is_mv_char (c :: r)) eqn:Hall; cbn [negb]; [|discriminate].
    destruct (starts_with_first (c :: r)) eqn:Hf.
    + destruct (starts_with_c UNDERSCORE (c :: r)) eqn:Hu; intros [= <-]; constructor;
        try assumption; split; assumption.
    + exfalso. apply Hk. exists (c :: r). repeat split; try assumption. discriminate.
Qed.

(* the full statement (without the side condition) is false of the code as it is *)
Lemma extract_classify_refuted :
  exists s m, extract_meta_var DOLLAR s = Some m /\ ~ Denotes s m.
Proof.
  exists [36;36;36;49], (MultiCapture [49]). split; [reflexivity|].
  intros H. inversion H as [| | | | |n Hv Hu E|n [Hv1 Hv2] Hu E]; subst.
  cbn in Hv1. discriminate.
Qed.

(* lower-case names, digit-first names and lone sigils are not holes *)
Lemma not_hole_examples :
  extract_meta_var DOLLAR [36;97] = None /\ extract_meta_var DOLLAR [36;49] = None /\
  extract_meta_var DOLLAR [36] = None /\ extract_meta_var DOLLAR [36;36] = None /\
  extract_meta_var DOLLAR [36;36;49;65] = None.
Proof. repeat split. Qed.

Lemma lower_or_digit_first_not_hole k c r :
  (0 < k <= 2)%nat -> c <> DOLLAR -> is_first_char c = false ->
  extract_meta_var DOLLAR (repeatN DOLLAR k ++ c :: r) = None.
Proof.
  intros Hk Hc Hf. rewrite extract_shape by (auto using is_mv_char_dollar).
  destruct k as [|[|[|k]]]; try lia; apply name_branch_not_first; assumption.
Qed.
