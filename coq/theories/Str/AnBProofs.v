From Coq Require Import List NArith ZArith Bool Lia.
From AG Require Import Base.Val Str.AnB.
Import ListNotations.
Local Open Scope Z_scope.

(* is_matched decides  exists n >= 0, i = A*n + B  on the 1-based index, whenever it does not panic *)
Theorem is_matched_spec a b i0 r :
  is_matched a b i0 = Some r ->
  (r = true <-> exists n, 0 <= n /\ i0 + 1 = a * n + b).
Proof.
  unfold is_matched. destruct (Z.eqb_spec a 0) as [Ha|Ha].
  - intros [= <-]. subst a. split.
    + intros H%Z.eqb_eq. exists 0. lia.
    + intros (n & _ & H). apply Z.eqb_eq. lia.
  -     intros [= <-]. set (n := i0 + 1 - b). split.
    + intros H. apply andb_true_iff in H as [Hq Hr].
      apply Z.leb_le in Hq. apply Z.eqb_eq in Hr.
      exists (Z.quot n a). split; [assumption|].
      pose proof (Z.quot_rem' n a) as E. subst n. lia.
    + intros (k & Hk & E). assert (En : n = k * a) by (subst n; lia).
      rewrite En, Z.quot_mul, Z.rem_mul by assumption.
      apply andb_true_iff. split; [apply Z.leb_le; assumption | reflexivity].
Qed.

(* no arithmetic panic for ANY values (64-bit arithmetic after the fix) *)
Theorem is_matched_no_panic a b i0 : is_matched a b i0 <> None.
Proof. unfold is_matched. destruct (a =? 0); discriminate. Qed.

(* a number that does not fit in i32 is a syntax error, not a panic: "99999999999n+1" *)
Lemma parse_overflow_witness :
  parse_an_b [57;57;57;57;57;57;57;57;57;57;57;110;43;49]%N = AnbSyntax.
Proof. vm_compute. reflexivity. Qed.
