(* Syntax trees as dumped from the real tree-sitter parse, pattern trees, environments. *)
From Coq Require Import List NArith ZArith Bool Arith.
From AG Require Import Base.Val Base.Sort Str.MetaVar.
Import ListNotations.

Record ninfo := {
  nid : N;          (* unique id of the node inside its document (pre-order index) *)
  nkind : N;        (* tree-sitter kind id; 65535 = ERROR *)
  nnamed : bool;
  ncomment : bool;  (* the kind name contains "comment" *)
  nmissing : bool;  (* zero-width node inserted by error recovery *)
  nfld : N;         (* field id of this child inside its parent, 0 = none *)
  ns : N;           (* start byte *)
  ne : N            (* end byte *)
}.

Inductive tree := T (i : ninfo) (cs : list tree).

Definition info (t : tree) : ninfo := match t with T i _ => i end.
Definition children (t : tree) : list tree := match t with T _ cs => cs end.
Definition tid t := nid (info t).
Definition kind t := nkind (info t).
Definition named t := nnamed (info t).
Definition is_comment t := ncomment (info t).
Definition tstart t := ns (info t).
Definition tend t := ne (info t).
Definition is_leaf t := match children t with [] => true | _ => false end.
(* Node::is_named_leaf: "has no named children" (named_child_count() == 0) — NOT is_named && is_leaf *)
Definition is_named_leaf t := forallb (fun c => negb (named c)) (children t).
Definition ERROR_KIND : N := 65535.
Definition is_error_kind (k : N) : bool := N.eqb k ERROR_KIND.

Definition text_of (src : str) (t : tree) : str :=
  firstn (N.to_nat (tend t) - N.to_nat (tstart t)) (skipn (N.to_nat (tstart t)) src).

Fixpoint size (t : tree) : nat :=
  match t with T _ cs => S ((fix sl (l : list tree) := match l with [] => 0 | x :: r => size x + sl r end) cs) end.
Definition sizel (l : list tree) : nat := fold_right (fun x a => size x + a) 0 l.

(* pre-order list of all nodes of a subtree *)
Fixpoint preorder (t : tree) : list tree :=
  match t with T _ cs => t :: (fix pl (l : list tree) := match l with [] => [] | x :: r => preorder x ++ pl r end) cs end.

(* ---- pattern trees (crates/core/src/matcher/pattern.rs: PatternNode) ---- *)
Inductive pnode :=
| PMeta (m : metavar)
| PTerm (text : str) (is_named : bool) (kind_id : N)
| PInt (kind_id : N) (cs : list pnode).

Fixpoint psize (p : pnode) : nat :=
  match p with
  | PInt _ cs => S ((fix sl (l : list pnode) := match l with [] => 0 | x :: r => psize x + sl r end) cs)
  | _ => 1
  end.
Definition psizel (l : list pnode) : nat := fold_right (fun x a => psize x + a) 0 l.

Inductive strictness := Cst | Smart | Ast | Relaxed | Signature.

Record pattern := { p_node : pnode; p_root_kind : option N; p_strict : strictness }.

(* ---- environments (crates/core/src/meta_var.rs: MetaVarEnv); HashMaps as association lists
        with replace-on-insert; order is not observable (wire output is sorted by key) ---- *)
Record env := {
  m_single : list (str * tree);
  m_multi : list (str * list tree);
  m_trans : list (str * str)
}.
Definition empty_env : env := {| m_single := []; m_multi := []; m_trans := [] |}.

Fixpoint lookup {A} (k : str) (l : list (str * A)) : option A :=
  match l with
  | [] => None
  | (k', v) :: r => if str_eqb k k' then Some v else lookup k r
  end.

Fixpoint upsert {A} (k : str) (v : A) (l : list (str * A)) : list (str * A) :=
  match l with
  | [] => [(k, v)]
  | (k', v') :: r => if str_eqb k k' then (k, v) :: r else (k', v') :: upsert k v r
  end.

(* does_node_match_exactly (match_tree/mod.rs) *)
Fixpoint exact (src : str) (g c : tree) {struct g} : bool :=
  if N.eqb (tid g) (tid c) then true
  else if is_named_leaf g || is_named_leaf c then str_eqb (text_of src g) (text_of src c)
  else if negb (N.eqb (kind g) (kind c)) then false
  else
    match g with
    | T _ gcs =>
        (fix all2 (gl : list tree) (cl : list tree) {struct gl} : bool :=
           match gl, cl with
           | [], [] => true
           | x :: gr, y :: cr => exact src x y && all2 gr cr
           | _, _ => false
           end) gcs (children c)
    end.

Definition match_variable (src : str) (e : env) (id : str) (cand : tree) : bool :=
  match lookup id (m_single e) with
  | Some m => exact src m cand
  | None => true
  end.

Fixpoint multi_eq (src : str) (ns cs : list tree) : bool :=
  match ns, cs with
  | [], [] => true
  | n :: nr, c :: cr => exact src n c && multi_eq src nr cr
  | _, _ => false
  end.

Definition match_multi_var (src : str) (e : env) (id : str) (cands : list tree) : bool :=
  match lookup id (m_multi e) with
  | None => true
  | Some nodes => multi_eq src (filter named nodes) (filter named cands)
  end.

Definition env_insert (src : str) (e : env) (id : str) (t : tree) : option env :=
  if match_variable src e id t
  then Some {| m_single := upsert id t (m_single e); m_multi := m_multi e; m_trans := m_trans e |}
  else None.

Definition env_insert_multi (src : str) (e : env) (id : str) (ts : list tree) : option env :=
  if match_multi_var src e id ts
  then Some {| m_single := m_single e; m_multi := upsert id ts (m_multi e); m_trans := m_trans e |}
  else None.

(* ---- wire decoding ---- *)
Definition g_info (v : val) : ninfo :=
  {| nid := gN (gNth 0 v); nkind := gN (gNth 1 v); nnamed := gB (gNth 2 v); ncomment := gB (gNth 3 v);
     nmissing := gB (gNth 4 v); nfld := gN (gNth 5 v); ns := gN (gNth 6 v); ne := gN (gNth 7 v) |}.

(* a tree is (info-fields... (children)) : VL [id;kind;named;comment;missing;fld;s;e; VL children] *)
Fixpoint g_tree (fuel : nat) (v : val) : tree :=
  match fuel with
  | O => T (g_info v) []
  | S f => T (g_info v) (map (g_tree f) (gL (gNth 8 v)))
  end.

Definition g_metavar (v : val) : metavar :=
  match gZ (gNth 0 v) with
  | 0%Z => Capture (gS (gNth 1 v)) (gB (gNth 2 v))
  | 1%Z => Dropped (gB (gNth 1 v))
  | 2%Z => Multiple
  | _ => MultiCapture (gS (gNth 1 v))
  end.

(* pattern node: (0 metavar) | (1 text named kind) | (2 kind (children)) *)
Fixpoint g_pnode (fuel : nat) (v : val) : pnode :=
  match fuel with
  | O => PMeta Multiple
  | S f =>
      match gZ (gNth 0 v) with
      | 0%Z => PMeta (g_metavar (gNth 1 v))
      | 1%Z => PTerm (gS (gNth 1 v)) (gB (gNth 2 v)) (gN (gNth 3 v))
      | _ => PInt (gN (gNth 1 v)) (map (g_pnode f) (gL (gNth 2 v)))
      end
  end.

Definition g_strict (v : val) : strictness :=
  match gZ v with
  | 0%Z => Cst | 1%Z => Smart | 2%Z => Ast | 3%Z => Relaxed | _ => Signature
  end.

Definition g_pattern (fuel : nat) (v : val) : pattern :=
  {| p_node := g_pnode fuel (gNth 0 v); p_root_kind := gOpt gN (gNth 1 v); p_strict := g_strict (gNth 2 v) |}.

(* depth bound of a wire value, used as decoding fuel *)
Fixpoint vdepth (v : val) : nat :=
  match v with
  | VL l => S (fold_right (fun x a => Nat.max (vdepth x) a) 0 l)
  | _ => 1
  end.

(* canonical encoding of an environment: sorted by key; nodes as (start end) *)
Definition v_node (t : tree) : val := VL [vN (tid t); vN (tstart t); vN (tend t)].

Fixpoint insert_kv {A} (k : str) (v : A) (l : list (str * A)) : list (str * A) :=
  match l with
  | [] => [(k, v)]
  | (k', v') :: r => if str_leb k k' then (k, v) :: l else (k', v') :: insert_kv k v r
  end.
Definition sort_kv {A} (l : list (str * A)) : list (str * A) :=
  fold_right (fun p a => insert_kv (fst p) (snd p) a) [] l.

Definition v_env (e : env) : val :=
  VL [ VL (map (fun p => VL [VS (fst p); v_node (snd p)]) (sort_kv (m_single e)));
       VL (map (fun p => VL [VS (fst p); VL (map v_node (snd p))]) (sort_kv (m_multi e)));
       VL (map (fun p => VL [VS (fst p); VS (snd p)]) (sort_kv (m_trans e))) ].
