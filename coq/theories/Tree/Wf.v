(* Well-formedness of dumped trees: what the theorems assume about tree-sitter's output.
   [wfb] is executable; the correspondence run evaluates it on every dumped tree (DESIGN §3.1). *)
From Coq Require Import List NArith Bool Arith.
From AG Require Import Base.Val Tree.Tree.
Import ListNotations.

(* W1/W2: every node's range is non-negative, children are ordered, disjoint and nested in the parent *)
Fixpoint wfb (t : tree) : bool :=
  match t with
  | T i cs =>
      N.leb (ns i) (ne i) &&
      (fix go (lo : N) (l : list tree) : bool :=
         match l with
         | [] => N.leb lo (ne i)
         | c :: r => N.leb lo (tstart c) && wfb c && go (tend c) r
         end) (ns i) cs
  end.

(* no zero-width node below (and including) t: restriction of C05/C19's sibling clause *)
Fixpoint nonzero_widthb (t : tree) : bool :=
  match t with
  | T i cs =>
      N.ltb (ns i) (ne i) &&
      (fix go (l : list tree) : bool := match l with [] => true | c :: r => nonzero_widthb c && go r end) cs
  end.

(* a field id labels at most one child of every node (restriction of C05's field clause) *)
Fixpoint count_field (f : N) (cs : list tree) : nat :=
  match cs with
  | [] => 0
  | c :: r => (if N.eqb (nfld (info c)) f then 1 else 0) + count_field f r
  end.
Fixpoint field_uniqueb (f : N) (t : tree) : bool :=
  match t with
  | T _ cs =>
      Nat.leb (count_field f cs) 1 &&
      (fix go (l : list tree) : bool := match l with [] => true | c :: r => field_uniqueb f c && go r end) cs
  end.

(* node ids are the pre-order indices: unique inside a document *)
Definition ids_unique (t : tree) : Prop := NoDup (map tid (preorder t)).
