(* C18 — `--update-all` writes exactly the announced edits and nothing else.
   Model: Rewrite/Splice.v ([accept] = process_diffs_interactive with every diff confirmed,
   [apply_rewrite], [update_file] = rewrite_action + the "Applied N changes" counter), for ONE
   payload (document) of a file.  Proofs: Rewrite/SpliceProofs.v.
   Known finding (known_findings.txt, class multi-document-file): a file with several payloads
   (HTML host + injected languages) is rewritten once per payload, each time from the original
   text; [C18_two_payloads_refuted] below exhibits it on the model of that loop. *)
From Coq Require Import List NArith ZArith Bool Arith.
From AG Require Import Base.Val Rewrite.Splice Rewrite.SpliceSpec Rewrite.SpliceProofs.
Import ListNotations.

(* one payload: the file is untouched when nothing is accepted; otherwise it is the original with
   every accepted edit applied (announced order, an edit overlapping an earlier accepted one is
   dropped), and the counter is the number of edits present in the file *)
Theorem C18_bytes :
  forall old ds,
    (forall d, In d ds -> ed_s d <= ed_e d) -> inside old ds ->
    (accept 0 ds = [] -> update_file old ds = (Done None, 0)) /\
    (accept 0 ds <> [] -> update_file old ds = (Done (Some (spliced old 0 (accept 0 ds))), length (accept 0 ds))).
Proof. exact SpliceProofs.C18_bytes. Qed.
Print Assumptions C18_bytes.

(* repeated invocation: nothing to do => nothing written *)
Theorem C18_idempotent_when_clean : forall old, update_file old [] = (Done None, 0).
Proof. reflexivity. Qed.
Print Assumptions C18_idempotent_when_clean.

(* several payloads of one file, as coded: each payload's accepted edits are applied to the
   ORIGINAL text and the file is overwritten; the counter adds up *)
Definition update_payloads (old : str) (payloads : list (list edit)) : option str * nat :=
  fold_left (fun (st : option str * nat) ds =>
               match update_file old ds with
               | (Done (Some t), n) => (Some t, snd st + n)
               | (_, n) => (fst st, snd st + n)
               end) payloads (None, 0).

(* full statement for a file: content = original with ALL accepted edits of ALL payloads *)
Definition C18_file_stmt : Prop :=
  forall old p1 p2 new n,
    update_payloads old [p1; p2] = (Some new, n) ->
    n = length (accept 0 p1) + length (accept 0 p2) /\
    new = spliced old 0 (accept 0 (p1 ++ p2)).

(* refuted on the faithful model: "ab", payload 1 replaces "a" by "X", payload 2 replaces "b" by "Y":
   2 changes are counted, the file contains only the second *)
Theorem C18_two_payloads_refuted : ~ C18_file_stmt.
Proof.
  intros H.
  specialize (H [97;98]%N [ {| ed_s := 0; ed_e := 1; ed_text := [88]%N |} ] [ {| ed_s := 1; ed_e := 2; ed_text := [89]%N |} ]
                [97;89]%N 2 eq_refl).
  destruct H as [_ H]. vm_compute in H. discriminate H.
Qed.
Print Assumptions C18_two_payloads_refuted.

(* what holds: with a single payload carrying accepted edits the file statement is C18_bytes *)
Theorem C18_single_payload_partial :
  forall old ds, (forall d, In d ds -> ed_s d <= ed_e d) -> inside old ds -> accept 0 ds <> [] ->
    update_payloads old [ds] = (Some (spliced old 0 (accept 0 ds)), length (accept 0 ds)).
Proof.
  intros old ds H1 H2 H3. unfold update_payloads. cbn [fold_left].
  destruct (SpliceProofs.C18_bytes old ds H1 H2) as [_ Hb]. rewrite (Hb H3). reflexivity.
Qed.
Print Assumptions C18_single_payload_partial.

(* every edit of an ordered list is written - also when a replaced range starts exactly where the previous one
   ends (touching ranges: `a++;b++;`, `{a:1,b:2,}` with an expansion over the comma) *)
Theorem C18_disjoint_edits_all_written :
  forall old ds,
    ordered_from 0 ds -> inside old ds -> ds <> [] ->
    accept 0 ds = ds /\
    update_file old ds = (Done (Some (spliced old 0 ds)), length ds).
Proof.
  intros old ds Hord Hin Hne.
  pose proof (SpliceProofs.accept_ordered_all ds 0 Hord) as Hacc. split; [exact Hacc|].
  assert (Hse : forall d, In d ds -> ed_s d <= ed_e d).
  { clear Hin Hne Hacc. revert Hord. generalize 0. induction ds as [|d r IH]; intros lo Hord x Hx; [destruct Hx|].
    cbn [ordered_from] in Hord. destruct Hord as (_ & H2 & H3). destruct Hx as [<-|Hx]; [exact H2 | exact (IH _ H3 x Hx)]. }
  destruct (SpliceProofs.C18_bytes old ds Hse Hin) as [_ H2]. rewrite Hacc in H2. apply H2. exact Hne.
Qed.
Print Assumptions C18_disjoint_edits_all_written.

(* non-vacuity: "abcd", [0,2) -> "x" and the touching [2,4) -> "y" *)
Example C18_touching_ex :
  let ds := [{| ed_s := 0; ed_e := 2; ed_text := [120]%N |}; {| ed_s := 2; ed_e := 4; ed_text := [121]%N |}] in
  ordered_from 0 ds /\ update_file [97;98;99;100]%N ds = (Done (Some [120;121]%N), 2).
Proof. split; [cbn; repeat split; auto with arith | vm_compute; reflexivity]. Qed.
Print Assumptions C18_touching_ex.
