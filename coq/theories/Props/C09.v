(* C09 — all front ends report the same findings; the language server converges to the newest text.
   Model: Front/Lsp.v (the server's document state machine: on_open / on_change / on_close and what
   was last published per document).  Specification, independent of the step function:
   [session] / [best] / [expected_doc].  Proofs: Front/LspProofs.v.
   The findings themselves are CombinedScan's (Rule/Scan.v, theorems C01_scan / C14_iff); that the
   CLI (file, --stdin, three JSON styles, GitHub format), `sg test` and the language server feed the
   same rules and text into it is glue: tied on every run (correspondence), not proved.  Assumed of
   the runtime (named): a handler's critical section (get_mut .. publish) is atomic per document. *)
From Coq Require Import List NArith ZArith Bool Arith.
From AG Require Import Base.Val Front.Lsp Front.LspSpec Front.LspProofs.
Import ListNotations.

(* after ANY sequence of open/change/close notifications — stale versions arriving late included —
   the stored text of an open document is the highest-version text received since it was last
   opened (latest among equal versions) and the diagnostics last published for it are that text's *)
Theorem C09_lsp_latest :
  forall hist u,
    aget u (ls_docs (lsp_run hist)) = expected_doc hist u /\
    (forall x, expected_doc hist u = Some x -> aget u (ls_pub (lsp_run hist)) = Some x).
Proof. exact LspProofs.C09_lsp_latest. Qed.
Print Assumptions C09_lsp_latest.

Theorem C09_best_is_max :
  forall l b, best l = Some b -> In b l /\ (forall x, In x l -> (fst x <= fst b)%Z).
Proof. exact LspProofs.C09_best_is_max. Qed.
Print Assumptions C09_best_is_max.

(* non-vacuity: versions arriving as 1, 3, 2 (the stale 2 is ignored); a closed document is not
   revived by a late change; equal versions: the latest wins *)
Example C09_lsp_ex :
  let h := [NOpen 0 1 10; NChange 0 3 30; NChange 0 2 20; NOpen 1 5 50; NClose 1; NChange 1 9 90; NChange 0 3 31]%N%Z in
  aget 0%N (ls_pub (lsp_run h)) = Some (3%Z, 31%N) /\ aget 0%N (ls_docs (lsp_run h)) = Some (3%Z, 31%N) /\
  aget 1%N (ls_docs (lsp_run h)) = None /\ expected_doc h 0%N = Some (3%Z, 31%N) /\ expected_doc h 1%N = None.
Proof. repeat split; vm_compute; reflexivity. Qed.
Print Assumptions C09_lsp_ex.
