(* C20 — meta-variable syntax is uniform across languages; small notations are exact.
   Property theorems only; proofs live in Str/*Proofs.v. *)
From Coq Require Import List NArith ZArith Bool.
From AG Require Import Base.Val Gen.Tables Str.MetaVar Str.MetaVarProofs Str.AnB Str.AnBProofs Str.AnBParseProofs
  Str.Substring Str.SubstringProofs.
Import ListNotations.

(* 1. With the '$' sigil, the recogniser accepts exactly the documented spellings, with the
      documented meaning — except for the known deviation (ellipsis + digit-first name). *)
Theorem C20_classify_partial : forall s m,
  ~ digit_first_ellipsis s ->
  (extract_meta_var DOLLAR s = Some m <-> Denotes s m).
Proof. exact extract_classify. Qed.
Print Assumptions C20_classify_partial.

(* the unrestricted statement is false of the code as it is: "$$$1" is a named ellipsis *)
Theorem C20_classify_refuted :
  exists s m, extract_meta_var DOLLAR s = Some m /\ ~ Denotes s m.
Proof. exact extract_classify_refuted. Qed.
Print Assumptions C20_classify_refuted.

(* lower-case names, digit-first names and lone sigils are not holes (1 or 2 sigils) *)
Theorem C20_not_holes : forall k c r,
  (0 < k <= 2)%nat -> c <> DOLLAR -> is_first_char c = false ->
  extract_meta_var DOLLAR (repeatN DOLLAR k ++ c :: r) = None.
Proof. exact lower_or_digit_first_not_hole. Qed.
Print Assumptions C20_not_holes.

(* 2. Uniformity: rewriting the sigil to a language's expando character is transparent
      whenever that character is neither the sigil nor a meta-variable name character. *)
Theorem C20_uniform : forall ex s,
  is_mv_char ex = false -> ex <> DOLLAR -> ~ In ex s ->
  extract_meta_var ex (pre_process_pattern ex s) = extract_meta_var DOLLAR s.
Proof. exact extract_uniform. Qed.
Print Assumptions C20_uniform.

(* ... and the table scraped from the source on this run satisfies that side condition for every
   language, except the languages whose expando is '_' (the known deviation).  A source change
   that picks a name character as expando makes this obligation fail. *)
Definition expando_ok (ex : N) : bool :=
  N.eqb ex DOLLAR || negb (is_mv_char ex) || N.eqb ex UNDERSCORE.
Theorem C20_uniform_table : forallb (fun p => expando_ok (snd p)) expando_table = true.
Proof. vm_compute. reflexivity. Qed.
Print Assumptions C20_uniform_table.

Theorem C20_uniform_refuted_underscore :
  exists s, extract_meta_var UNDERSCORE (pre_process_pattern UNDERSCORE s)
            <> extract_meta_var DOLLAR s.
Proof. exists [36;95]%N. vm_compute. discriminate. Qed.   (* "$_" *)
Print Assumptions C20_uniform_refuted_underscore.

(* 3. An+B: the index test decides  exists n >= 0, i = A*n+B  (1-based i), and cannot panic
      inside the stated window *)
Theorem C20_anb_index : forall a b i0 r,
  is_matched a b i0 = Some r ->
  (r = true <-> exists n, (0 <= n /\ i0 + 1 = a * n + b)%Z).
Proof. exact is_matched_spec. Qed.
Print Assumptions C20_anb_index.

Theorem C20_anb_no_panic : forall a b i0, is_matched a b i0 <> None.
Proof. exact is_matched_no_panic. Qed.
Print Assumptions C20_anb_no_panic.

(* 3b. the *text* of a formula: "[sign] digits n (+|-) digits" with magnitudes below 2^31 parses to exactly the
       (A, B) it spells, for digit strings of any length; every such pair has a spelling (canonical rendering
       round trip); white space is ignored wherever it stands. With C20_anb_index this ties formula text to the
       selected indices. *)
Theorem C20_anb_parse_formula : forall sa da0 das sb db0 dbs,
  Forall isd (da0 :: das) -> Forall isd (db0 :: dbs) ->
  (dval (da0 :: das) 0 <= i32_max)%Z -> (dval (db0 :: dbs) 0 <= i32_max)%Z ->
  parse_an_b (formula sa (da0 :: das) sb (db0 :: dbs))
  = AnbOk (osgnz sa * dval (da0 :: das) 0)%Z (dval (db0 :: dbs) 0 * sgnz sb)%Z.
Proof. exact parse_an_b_formula. Qed.
Print Assumptions C20_anb_parse_formula.

Theorem C20_anb_parse_render : forall a b,
  (- i32_max <= a <= i32_max)%Z -> (- i32_max <= b <= i32_max)%Z ->
  parse_an_b (render a b) = AnbOk a b.
Proof. exact parse_an_b_render. Qed.
Print Assumptions C20_anb_parse_render.

Theorem C20_anb_parse_whitespace : forall cs,
  parse_an_b (filter (fun c => negb (is_whitespace c)) cs) = parse_an_b cs.
Proof. exact parse_an_b_ignores_whitespace. Qed.
Print Assumptions C20_anb_parse_whitespace.

(* 3c. the short forms: B alone, An, [sign] n, [sign] n (+|-) B *)
Theorem C20_anb_parse_b_only : forall sa d ds,
  Forall isd (d :: ds) -> (dval (d :: ds) 0 <= i32_max)%Z ->
  parse_an_b (osgnc sa ++ map dch (d :: ds)) = AnbOk 0 (dval (d :: ds) 0 * osgnz sa)%Z.
Proof. exact parse_an_b_b_only. Qed.
Print Assumptions C20_anb_parse_b_only.

Theorem C20_anb_parse_an_only : forall sa d ds,
  Forall isd (d :: ds) -> (dval (d :: ds) 0 <= i32_max)%Z ->
  parse_an_b (osgnc sa ++ map dch (d :: ds) ++ [110%N]) = AnbOk (osgnz sa * dval (d :: ds) 0)%Z 0.
Proof. exact parse_an_b_an_only. Qed.
Print Assumptions C20_anb_parse_an_only.

Theorem C20_anb_parse_n_b : forall sa sb d ds,
  Forall isd (d :: ds) -> (dval (d :: ds) 0 <= i32_max)%Z ->
  parse_an_b (osgnc sa ++ [110%N] ++ [sgnc sb] ++ map dch (d :: ds)) = AnbOk (osgnz sa) (dval (d :: ds) 0 * sgnz sb)%Z.
Proof. exact parse_an_b_n_b. Qed.
Print Assumptions C20_anb_parse_n_b.

Theorem C20_anb_parse_n_only : forall sa, parse_an_b (osgnc sa ++ [110%N]) = AnbOk (osgnz sa) 0.
Proof. exact parse_an_b_n_only. Qed.
Print Assumptions C20_anb_parse_n_only.

(* 4. substring follows Python slice semantics on characters, for all i32 (indeed all integer) bounds *)
Theorem C20_substring : forall (A : Type) (chars : list A) (s e : option Z),
  substring chars s e = python_slice chars s e.
Proof. exact @substring_is_python_slice. Qed.
Print Assumptions C20_substring.
