(* C12 — accepted rules are self-consistent: variables, references and rewriters resolve.
   Model: Front/Load.v (TopologicalSort, visit_dependent_rule_ids, check_var.rs, Transform::deserialize,
   register_rewriters, RuleConfig::try_from), tied to `from_yaml_string` / `with_utils` /
   `parse_global_utils` on every run (fids 48, 49, 50).  Statements: Front/LoadSpec.v; proofs:
   Front/LoadProofs.v.  The converse (every variable occurrence of an accepted fix is replaced) is theorem 6
   below over the template model of Rewrite/Template.v (its scanner and substitution are the subject of
   Props/C07.v); it is checked on the implementation by the c12 stream's independent substitution. *)
From Coq Require Import List NArith ZArith Bool Arith.
From AG Require Import Base.Val Base.Sort Str.MetaVar Tree.Tree Match.MatchNode Rule.Rule Rule.Kinds
  Rule.Eval Rewrite.Indent Rewrite.IndentProofs Rewrite.Template Rewrite.TemplateProofs Front.Load Front.LoadSpec Front.LoadProofs Front.PkgProofs Front.Apply Front.ApplyProofs.
Import ListNotations.

(* 1. the topological sort: total, sound, complete — for every dependency map *)
Theorem C12_topo_total : forall m, get_order m <> OrderFuel.
Proof. exact LoadProofs.C12_topo_total. Qed.
Print Assumptions C12_topo_total.

Theorem C12_topo_sound :
  forall m ord, get_order m = OrderOk ord ->
    ~ cyclic m
    /\ NoDup ord
    /\ (forall k, In k ord <-> In k (map fst m))
    /\ (forall a b, edge m a b -> In b (map fst m) -> before b a ord).
Proof. exact LoadProofs.C12_topo_sound. Qed.
Print Assumptions C12_topo_sound.

Theorem C12_topo_complete : forall m k, get_order m = OrderCycle k -> path m k k.
Proof. exact LoadProofs.C12_topo_complete. Qed.
Print Assumptions C12_topo_complete.

(* 2. what acceptance of a rule core guarantees ([core_ok], Front/LoadSpec.v): every constraint key, every
      transformation source and every fix variable is defined; every `matches` anywhere (rule, utility
      bodies, constraints, fix expansions) resolves; no utility requires itself on the same node; no
      transformation depends on itself and each is applied after its input *)
Theorem C12_core_accept :
  forall k globals upper uord tord,
    load_core k globals upper = LOk (uord, tord) -> core_ok k globals upper uord tord.
Proof. exact LoadProofs.C12_core_accept. Qed.
Print Assumptions C12_core_accept.

(* 3. a whole document: the rule, every rewriter, every rewriter reference, a known set of kinds *)
Theorem C12_accept :
  forall d uord tord,
    load d = LOk (uord, tord) ->
    let k := d_core d in
    core_ok k (global_names d) [] uord tord
    /\ (exists ks, pkg (kinds_fuel k) (k_utils k) (d_globals d) (k_rule k) = Some ks)
    /\ (let rws := doc_rewriters d in
          (forall id k', In (id, k') rws ->
             k_fix k' <> None
             /\ exists uo to, core_ok k' (global_names d) (core_defined_vars k) uo to)
          /\ (forall id, In id (used_rewriters k) -> In id (map fst rws))
          /\ (forall id0 k' id, In (id0, k') rws -> In id (used_rewriters k') -> In id (map fst rws))).
Proof. exact LoadProofs.C12_accept. Qed.
Print Assumptions C12_accept.

(* 4. not stricter than that: refused as cyclic only when a cycle exists, and the key named is on it *)
Theorem C12_reject_cycle :
  forall k globals upper,
    (forall key, load_core k globals upper = LErr (ECyclicUtil key) -> path (util_depmap (k_utils k)) key key)
    /\ (forall key, load_core k globals upper = LErr (ECyclicTrans key) ->
          exists ts, k_trans k = Some ts /\ path (trans_depmap ts) key key).
Proof. exact LoadProofs.C12_reject_cycle. Qed.
Print Assumptions C12_reject_cycle.

(* 5. global utility rules *)
Theorem C12_global_order :
  forall gs ord, get_order (global_depmap gs) = OrderOk ord ->
    ~ cyclic (global_depmap gs)
    /\ (forall a b, edge (global_depmap gs) a b -> In b (map fst gs) -> before b a ord).
Proof. exact LoadProofs.C12_global_order. Qed.
Print Assumptions C12_global_order.

(* 6. the converse: in the replacement an occurrence of a variable that has a capture is never dropped,
      whichever sigil spells it ($A, $$A, $$$A); a transformation is substituted under `$T` and `$$$T` *)
Theorem C12_fix_occurrence_substituted : forall doc env v,
  (single_range env (tv_name v) <> None \/ multi_range env (tv_name v) <> None) ->
  tv_kind v <> KTransformed ->
  maybe_get_var doc env v <> None.
Proof. exact maybe_get_var_bound. Qed.
Print Assumptions C12_fix_occurrence_substituted.

Theorem C12_fix_transformed : forall doc env v src,
  tv_kind v = KTransformed ->
  assoc (tv_name v) (e_trans env) = Some src ->
  maybe_get_var doc env v = Some (map_cont (fun l => repeat SP (tv_indent v) ++ l) src).
Proof. exact maybe_get_var_transformed. Qed.
Print Assumptions C12_fix_transformed.

Theorem C12_fix_transformed_multi_sigil : forall doc env v src,
  tv_kind v = KMultiple ->
  single_range env (tv_name v) = None -> multi_range env (tv_name v) = None ->
  assoc (tv_name v) (e_trans env) = Some src ->
  maybe_get_var doc env v = Some (map_cont (fun l => repeat SP (tv_indent v) ++ l) src).
Proof. exact maybe_get_var_multiple_transformed. Qed.
Print Assumptions C12_fix_transformed_multi_sigil.

(* 7. the transformation pass of an accepted rule (Front/Apply.v: the empty placeholder written before each
      computation, sources looked up among captures first, then transformed variables): afterwards every
      transformation holds exactly what it computes from the FINAL text of its source — so each was applied
      after its input and none ever read a placeholder.  [compute] (what substring / replace / convert /
      rewrite make of a text) is arbitrary. *)
Theorem C12_apply_equations :
  forall (compute : str -> transf -> option str -> str) k globals upper uord tord ts e0,
    load_core k globals upper = LOk (uord, tord) ->
    k_trans k = Some ts ->
    a_trans e0 = [] ->
    let final := apply_all compute ts tord e0 in
    (forall key t, lookup key ts = Some t ->
       lookup key (a_trans final) = Some (compute key t (var_bytes final (source_var t))))
    /\ (forall key, In key (map fst (a_trans final)) <-> In key (map fst ts))
    /\ a_single final = a_single e0 /\ a_multi final = a_multi e0.
Proof. exact ApplyProofs.C12_apply_equations. Qed.
Print Assumptions C12_apply_equations.

(* 8. references to global utility rules: a reference answers with the LOCAL utility of that name when there is
      one — so a local utility without a known kind set is not rescued by a global rule of the same name — and
      without global rules the kinds are those of Rule/Kinds.v *)
Theorem C12_kinds_without_globals : forall fuel utils r, pkg fuel utils [] r = pk fuel utils r.
Proof. exact PkgProofs.pkg_nil. Qed.
Print Assumptions C12_kinds_without_globals.

Theorem C12_reference_is_local_first : forall f utils gk id ur,
  lookup id utils = Some ur -> pkg (S f) utils gk (RMatches id) = pkg f utils gk ur.
Proof. exact PkgProofs.pkg_local_first. Qed.
Print Assumptions C12_reference_is_local_first.

Example C12_local_shadows_global :
  let g := [103; 48]%N in
  let k := {| k_rule := RMatches g; k_utils := [(g, RRegex [])]; k_cons := []; k_trans := None; k_fix := None |} in
  load {| d_core := k; d_rewriters := None; d_globals := [(g, Some [7%N])] |} = LErr ENoKinds
  /\ load {| d_core := {| k_rule := RMatches g; k_utils := []; k_cons := []; k_trans := None; k_fix := None |};
             d_rewriters := None; d_globals := [(g, Some [7%N])] |} = LOk ([], []).
Proof. vm_compute. split; reflexivity. Qed.
Print Assumptions C12_local_shadows_global.

(* non-vacuity: `rule: {pattern: foo($A), matches: U}`, `utils: {U: {kind: 7}, W: {not: {matches: U}}}`,
   `transform: {T: {source: $A}, S: {source: $T}}`, `fix: "x$S"` is accepted, S after T; closing the cycle
   W <-> U below `not` / `all` is refused; so is an undefined reference inside a utility body *)
Definition ex_pat : pattern :=
  {| p_node := PInt 5 [PTerm [102;111;111]%N true 1; PMeta (Capture [65]%N true)]; p_root_kind := None; p_strict := Smart |}.
Definition ex_core (u_body : rule) : core :=
  {| k_rule := RAll [RPattern ex_pat; RMatches [85]%N];
     k_utils := [([87]%N, RNot (RMatches [85]%N)); ([85]%N, u_body)];
     k_cons := [];
     k_trans := Some [([83]%N, {| tf_source := [36;84]%N; tf_rewriters := [] |});
                      ([84]%N, {| tf_source := [36;65]%N; tf_rewriters := [] |})];
     k_fix := Some {| fx_template := [120;36;83]%N; fx_expansions := [] |} |}.
Example C12_ex_accept :
  load {| d_core := ex_core (RKind 7); d_rewriters := None; d_globals := [] |} = LOk ([[85]; [87]]%N, [[84]; [83]]%N).
Proof. vm_compute. reflexivity. Qed.
Print Assumptions C12_ex_accept.
Example C12_ex_cycle :
  load {| d_core := ex_core (RAll [RKind 7; RMatches [87]%N]); d_rewriters := None; d_globals := [] |} = LErr (ECyclicUtil [87]%N).
Proof. vm_compute. reflexivity. Qed.
Print Assumptions C12_ex_cycle.
Example C12_ex_undefined :
  load {| d_core := ex_core (RAny [RKind 7; RMatches [90]%N]); d_rewriters := None; d_globals := [] |} = LErr (EUndefinedUtil [90]%N).
Proof. vm_compute. reflexivity. Qed.
Print Assumptions C12_ex_undefined.
