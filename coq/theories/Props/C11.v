(* C11 — no YAML makes ast-grep crash: bad config is an error, good config never panics.
   What a theorem can carry of this property is the logic behind the crashes the property names:
   arithmetic on user numbers (An+B, substring), recursion through references (the loader's cycle
   detection; termination of evaluation), and the step bounds of the modelled matchers.  That serde,
   regex, tree-sitter and the CLI glue never panic on any byte string is runtime behaviour the model
   cannot exhibit: it is sampled on every run by the c11 stream (every document loaded and run by the
   debug-build binary in a child process under a wall-clock limit). *)
From Coq Require Import List NArith ZArith Bool Arith.
From AG Require Import Base.Val Base.Sort Str.MetaVar Str.AnB Str.AnBProofs Str.Substring Str.SubstringProofs Str.Case Str.CaseProofs
  Tree.Tree Match.MatchNode Rule.Rule Rule.Kinds Rule.Eval Rewrite.Template
  Front.Load Front.LoadSpec Front.LoadProofs Match.FuelProofs Rule.TermProofs.
Import ListNotations.

(* 1. user numbers: the An+B test is total (no overflow, no panic) for all integers *)
Theorem C11_anb_total : forall a b i0, is_matched a b i0 <> None.
Proof. exact is_matched_no_panic. Qed.
Print Assumptions C11_anb_total.

(* 1b. slicing: the word splitter of the `convert` transformation (Delimiter::delimit / conclude, split) never
       underflows and every byte range it slices the text with is in order, inside the text and on character
       boundaries — for every text, whatever Unicode says about the case of its characters, and every
       separator option; and nothing but separator characters is dropped *)
Theorem C11_split_safe :
  forall s seps, exists rs,
    Case.split s seps = Some rs
    /\ ordered rs 0
    /\ (forall a b, In (a, b) rs -> b <= byte_len s /\ is_boundary s a /\ is_boundary s b).
Proof. exact CaseProofs.C11_split_safe. Qed.
Print Assumptions C11_split_safe.

Theorem C11_split_covers :
  forall s seps rs, Case.split s seps = Some rs ->
    (forall c off, In (off, c) (combine (boundaries s 0) s) ->
       (exists a b, In (a, b) rs /\ a <= off < b) \/ In (cp c) (active_delims seps))
    /\ (forall a b c, In (a, b) rs -> In c (chars_in s 0 a b) -> ~ In (cp c) (active_delims seps)).
Proof. exact CaseProofs.C11_split_covers. Qed.
Print Assumptions C11_split_covers.

(* 2. the loader: the topological sort and the whole acceptance pipeline terminate on every document *)
Theorem C11_topo_total : forall m, get_order m <> OrderFuel.
Proof. exact LoadProofs.C12_topo_total. Qed.
Print Assumptions C11_topo_total.

Theorem C11_load_total : forall d, load d <> LErr EFuelOut.
Proof. exact LoadProofs.C11_load_total. Qed.
Print Assumptions C11_load_total.

(* 3. the pattern matcher needs at most [match_fuel] nested steps, for every pattern, node, strictness *)
Theorem C11_match_terminates : forall src p t e, pattern_match src p t e <> OutOfFuel.
Proof. exact FuelProofs.C11_match_terminates. Qed.
Print Assumptions C11_match_terminates.

Theorem C11_match_len_terminates : forall src p t, match_len src p t <> LenFuel.
Proof. exact FuelProofs.C11_match_len_terminates. Qed.
Print Assumptions C11_match_len_terminates.

(* 4. recursion through references: when no utility can reach itself through any operator (the sort of the
      full reference graph succeeds), evaluating any rule on any node of any document terminates: enough
      fuel exists.  (The pattern matcher's bound is theorem 3.) *)
Theorem C11_eval_terminates :
  forall c r n e, fully_acyclic (c_utils c) = true ->
    exists N, forall fuel, N <= fuel -> fst (eval fuel c (QRule r n) e) <> EFuel.
Proof. exact (TermProofs.C11_eval_terminates FuelProofs.C11_match_terminates). Qed.
Print Assumptions C11_eval_terminates.

(* 5. the loader checks less than that: it follows references on the same node only (through relational
      rules recursion is legitimate in general), so utilities that require each other through relational
      rules in opposite directions are accepted — and then evaluation never terminates, for any fuel.
      This is the known finding `relational-util-cycle` (a stack overflow in the implementation). *)
Theorem C11_eval_terminates_unrestricted_refuted :
  exists c r n,
    c_utils c = rel_cycle_utils
    /\ (exists uord, get_order (util_depmap (c_utils c)) = OrderOk uord)
    /\ forall fuel, fst (eval fuel c (QRule r n) empty_env) = EFuel.
Proof. exact TermProofs.C11_eval_terminates_refuted. Qed.
Print Assumptions C11_eval_terminates_unrestricted_refuted.

Example C11_rel_cycle_is_excluded : fully_acyclic rel_cycle_utils = false.
Proof. exact TermProofs.rel_cycle_not_fully_acyclic. Qed.
Print Assumptions C11_rel_cycle_is_excluded.
(* non-vacuity of 4: a recursive-looking but acyclic set of utilities *)
Example C11_acyclic_ex :
  fully_acyclic [([65]%N, RAny [RKind 3; RHas (RMatches [66]%N) SEnd None]); ([66]%N, RInside (RKind 4) SEnd None)] = true.
Proof. vm_compute. reflexivity. Qed.
Print Assumptions C11_acyclic_ex.
