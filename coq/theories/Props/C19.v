(* C19 — tree navigation and positions are mutually consistent on every tree.
   Model: Rule/Rule.v (locations = paths; parent/children/ancestors/next/prev/next_all/prev_all as
   coded: next_all/prev_all position a cursor in the parent by byte offset) and Rule/Traversal.v
   (Pre / Post / Level over a tree-sitter cursor scoped to the start node, termination by node id;
   Content::get_char_column).  Specifications: the recursive pre-/post-/level-order lists, the
   chain of parents, the parent's child list, newline and character counts.
   Statements: Rule/TraversalSpec.v, Rule/EvalSpec.v.  Proofs: Rule/TraversalProofs.v, Rule/SemNav.v.
   What is NOT proved here (validated on every dumped tree by [wfb], not proved): that tree-sitter
   delivers ordered, nested child ranges and row numbers equal to newline counts. *)
From Coq Require Import List NArith ZArith Bool Arith Permutation.
From AG Require Import Base.Val Base.Sort Tree.Tree Tree.Wf Rule.Rule Rule.Traversal Rule.TraversalSpec
  Rule.TraversalProofs Rule.ColumnProofs Str.Utf8 Rewrite.Splice Rule.Sem Rule.EvalSpec Rule.SemProofs.
Import ListNotations.

(* pre-order: every node of the subtree exactly once, in order, nothing outside; and after any
   number of next() calls the output is a prefix of it *)
Theorem C19_pre : forall top, ids_unique top -> dfs top = pre_locs_t top [].
Proof. exact TraversalProofs.C19_pre. Qed.
Print Assumptions C19_pre.

Theorem C19_pre_prefix :
  forall top fuel, ids_unique top -> pre_iter fuel top pre_init = firstn fuel (pre_locs_t top []).
Proof. exact TraversalProofs.C19_pre_prefix. Qed.
Print Assumptions C19_pre_prefix.

Theorem C19_post : forall top, ids_unique top -> post_all top = post_locs_t top [].
Proof. exact TraversalProofs.C19_post. Qed.
Print Assumptions C19_post.

Theorem C19_level :
  forall top, level_all top = level_locs top /\ Permutation (level_all top) (pre_locs_t top []).
Proof. exact TraversalProofs.C19_level. Qed.
Print Assumptions C19_level.

Theorem C19_each_once :
  forall top, NoDup (pre_locs_t top []) /\ (forall p, In p (pre_locs_t top []) <-> get top p <> None) /\
              Permutation (post_locs_t top []) (pre_locs_t top []).
Proof. exact TraversalProofs.C19_each_once. Qed.
Print Assumptions C19_each_once.

(* ancestors is the chain of parents, nearest first *)
Theorem C19_ancestors : forall p, ancestors p = parents (length p) p.
Proof. exact TraversalProofs.C19_ancestors. Qed.
Print Assumptions C19_ancestors.

(* children's parent is the node; child ranges nest inside it *)
Theorem C19_nesting :
  forall top p i t c,
    wfb top = true -> get top p = Some t -> get top (p ++ [i]) = Some c ->
    parent_loc (p ++ [i]) = Some p /\ In c (children t) /\
    (tstart t <= tstart c)%N /\ (tend c <= tend t)%N /\ (tstart c <= tend c)%N.
Proof. exact TraversalProofs.C19_nesting. Qed.
Print Assumptions C19_nesting.

(* next_all / prev_all are the iterated next / previous siblings, for every node INCLUDING one
   without a parent (fix a1a5912), when no node has zero width *)
Theorem C19_siblings :
  forall root p,
    wfb root = true -> nonzero_widthb root = true -> get root p <> None ->
    next_all root p = later_siblings root p /\ prev_all root p = earlier_siblings root p.
Proof. exact SemProofs.C19_next_all. Qed.
Print Assumptions C19_siblings.

(* prev_all walks the nodes' own sibling links (fix b516f38): it is the iterated prev on EVERY tree,
   zero-width recovery nodes or not *)
Theorem C19_prev_all_unrestricted :
  forall root p, get root p <> None -> prev_all root p = earlier_siblings root p.
Proof.
  intros root p Hg. unfold prev_all, earlier_siblings.
  destruct (get root p); [|congruence]. destruct (parent_loc p); reflexivity.
Qed.
Print Assumptions C19_prev_all_unrestricted.

(* positions: line = newlines before the offset; column = characters since the line start *)
Theorem C19_positions :
  forall src off,
    get_char_column src off = count_chars (after_last_nl (firstn off src) []) /\
    position src (N.of_nat off) = (count_nl (firstn off src), get_char_column src off).
Proof. exact TraversalProofs.C19_positions. Qed.
Print Assumptions C19_positions.

(* non-vacuity: a concrete tree  r(a(b c) d)  with unique ids *)
Module Ex.
Open Scope N_scope.
Definition mk id s e cs :=
  T {| nid := id; nkind := 1; nnamed := true; ncomment := false; nmissing := false; nfld := 0; ns := s; ne := e |} cs.
Definition tr := mk 0 0 6 [mk 1 0 4 [mk 2 0 2 []; mk 3 2 4 []]; mk 4 4 6 []].
End Ex.
Example C19_ex :
  ids_unique Ex.tr /\ wfb Ex.tr = true /\ nonzero_widthb Ex.tr = true /\
  dfs Ex.tr = [[]; [0]; [0;0]; [0;1]; [1]]%nat /\
  post_all Ex.tr = [[0;0]; [0;1]; [0]; [1]; []]%nat /\
  level_all Ex.tr = [[]; [0]; [1]; [0;0]; [0;1]]%nat /\
  next_all Ex.tr [0;0]%nat = [[0;1]]%nat /\ next_all Ex.tr [] = [].
Proof.
  repeat split; try (vm_compute; reflexivity).
  unfold ids_unique. vm_compute. repeat constructor; cbn; intuition discriminate.
Qed.
Print Assumptions C19_ex.

(* what "column" means: for a line that is the UTF-8 encoding of scalar values (1-4 bytes each, any script), the
   column reported at its end is the NUMBER OF CHARACTERS - on the first line and after any prefix of lines *)
Theorem C19_column_is_character_count :
  forall pre cps post,
    forallb scalar cps = true -> no_nl cps = true ->
    get_char_column (encode cps ++ post) (length (encode cps)) = N.of_nat (length cps) /\
    get_char_column (pre ++ 10%N :: encode cps ++ post) (length (pre ++ 10%N :: encode cps)) = N.of_nat (length cps) /\
    valid_utf8 (encode cps) = true.
Proof.
  intros pre cps post Hs Hn. split; [apply ColumnProofs.column_counts_characters_first_line; assumption|].
  split; [apply ColumnProofs.column_counts_characters; assumption | apply Utf8.encode_valid; exact Hs].
Qed.
Print Assumptions C19_column_is_character_count.

(* non-vacuity: two Thai letters (U+0E2A U+0E27, three bytes each, lead byte 0xE0), an emoji and 'a' before ';' *)
Example C19_column_ex :
  encode [3626; 3623; 128512; 97]%N = [224;184;170; 224;184;167; 240;159;152;128; 97]%N /\
  get_char_column (encode [3626; 3623; 128512; 97] ++ [59])%N 11 = 4%N /\
  forallb scalar [3626; 3623; 128512; 97]%N = true.
Proof. vm_compute. repeat split; reflexivity. Qed.
Print Assumptions C19_column_ex.
