(* C04 — meta-variable bindings are coherent and failed alternatives leave no trace.
   Model: Rule/Eval.v ([eval] = Rule::match_node_with_env and everything below it: all 13 rule
   operators, ops::All/Any/Not, relational rules with stopBy/field, nthChild.ofRule, matches; the
   environment is threaded exactly as the Rust threads it and returned on failure too) and
   Match/MatchNode.v (the pattern matcher).  Statements: Rule/EvalSpec.v.  Proofs:
   Rule/EvalProofs.v, Match/EnvProofs.v. *)
From Coq Require Import List NArith ZArith Bool Arith.
From AG Require Import Base.Val Base.Sort Str.MetaVar Tree.Tree Match.MatchNode Rule.Rule Rule.Eval
  Rule.EvalSpec Rule.EvalProofs Match.EnvProofs.
Import ListNotations.

(* (1) a rule that rejects a node leaves the environment exactly as it found it: EVERY rule, node,
       environment and fuel *)
Theorem C04_atomic :
  forall fuel c r n e e',
    eval fuel c (QRule r n) e = (EFound None, e') -> e' = e.
Proof. exact EvalProofs.C04_atomic. Qed.
Print Assumptions C04_atomic.

(* (2) has/inside/precedes/follows: the reported candidate was evaluated from the ORIGINAL
       environment; every candidate tried before it was rejected and left no trace *)
Theorem C04_no_trace_find :
  forall fuel c r stop cands e m e',
    eval fuel c (QFind r FPlain stop cands) e = (EFound (Some m), e') ->
    exists pre cand post,
      cands = pre ++ cand :: post /\
      (forall x, In x pre -> exists f', eval f' c (QRule r x) e = (EFound None, e)) /\
      exists f', eval f' c (QRule r cand) e = (EFound (Some m), e').
Proof. exact EvalProofs.C04_no_trace_find. Qed.
Print Assumptions C04_no_trace_find.

(* (3) any: only the winning branch's bindings, evaluated from the original environment *)
Theorem C04_any_winner :
  forall fuel c rs n e m e',
    eval fuel c (QRule (RAny rs) n) e = (EFound (Some m), e') ->
    m = n /\
    exists pre r post,
      rs = pre ++ r :: post /\
      (forall x, In x pre -> exists f', eval f' c (QRule x n) e = (EFound None, e)) /\
      exists f' m', eval f' c (QRule r n) e = (EFound (Some m'), e').
Proof. exact EvalProofs.C04_any_winner. Qed.
Print Assumptions C04_any_winner.

(* (4) all: the union — the environment is threaded left to right through every sub-rule *)
Theorem C04_all_union :
  forall fuel c rs n e m e',
    eval fuel c (QRule (RAll rs) n) e = (EFound (Some m), e') ->
    m = n /\ all_chain c n rs e e'.
Proof. exact EvalProofs.C04_all_union. Qed.
Print Assumptions C04_all_union.

(* (5) negation never writes to the caller's environment (fix 75de40a) *)
Theorem C04_not_no_trace : forall fuel c r n e o e',
  eval fuel c (QRule (RNot r) n) e = (EFound o, e') -> e' = e.
Proof.
  intros fuel c r n e o e' H. destruct fuel as [|f]; cbn [eval] in H; [discriminate|].
  destruct (node_at c n); [|inversion H; reflexivity].
  destruct (eval f c (QRule r n) e) as [[[m|]|l|] e1]; inversion H; reflexivity.
Qed.
Print Assumptions C04_not_no_trace.

(* (6) coherence.  Full statement "the old and the new binding of a name are structurally identical"
       ([C04_coherent_stmt]) is FALSE of the faithful model because does_node_match_exactly is not
       transitive (a named leaf compares by text, inner nodes by shape): refuted with a concrete,
       well-formed witness document. *)
Theorem C04_coherent_refuted : ~ C04_coherent_stmt.
Proof. exact EnvProofs.C04_coherent_refuted. Qed.
Print Assumptions C04_coherent_refuted.

(* what the code guarantees: every re-binding was checked by does_node_match_exactly against the
   binding current at that time — old and new binding are linked by a chain of pairwise
   structurally identical nodes of the candidate; no binding is ever lost *)
Theorem C04_coherent_chain :
  forall src p c e e',
    pattern_match src p c e = Matched e' ->
    forall x t, lookup x (m_single e) = Some t ->
      exists t', lookup x (m_single e') = Some t' /\
                 exact_chain src (fun v => In v (preorder c)) t t'.
Proof. exact EnvProofs.C04_coherent_chain. Qed.
Print Assumptions C04_coherent_chain.

(* ... and the full statement under an EXECUTABLE side condition (structural identity composes on
   the bound nodes and the candidate's nodes), which the correspondence run evaluates per case *)
Theorem C04_coherent_partial :
  forall src p c e e',
    exact_composes_b src e c = true ->
    pattern_match src p c e = Matched e' -> env_coherent_ext src e e'.
Proof. exact EnvProofs.C04_coherent_partial_b. Qed.
Print Assumptions C04_coherent_partial.
