(* C06 — rewrites touch only what was matched: edits are well-formed and local.
   Models: Rewrite/EditRange.v (get_replaced_range with and without expandStart/expandEnd),
   Rule/Traversal.v (replace_all uses the overlap-free visitor: C01_outermost), Rewrite/Splice.v
   (the overlap filter, apply_rewrite with Rust's slicing panics, UTF-8 validity).
   Proofs: Rewrite/SpliceProofs.v, Rewrite/EditRange.v, Match/AlignProofs.v (match length).
   Assumed of tree-sitter and validated on every run, not proved: node boundaries are character
   boundaries and siblings are ordered (wfb). *)
From Coq Require Import List NArith ZArith Bool Arith Lia.
From AG Require Import Base.Val Rewrite.Splice Rewrite.SpliceSpec Rewrite.SpliceProofs Rewrite.EditRange.
Import ListNotations.

(* the replaced range starts at the matched node and is contained in it (the prefix length reported
   by the matcher is positive and at most the node's length: C03_len) ... *)
Theorem C06_range_plain : forall ns ne mlen s e,
  ns <= ne -> (forall l, mlen = Some l -> 0 < l <= ne - ns) ->
  replaced_range ns ne mlen None None = (s, e) ->
  s = ns /\ s <= e /\ e <= ne.
Proof. exact range_plain. Qed.
Print Assumptions C06_range_plain.

(* ... unless expandStart / expandEnd widen it, and then it covers the node *)
Theorem C06_range_expanded : forall ns ne mlen xs xe s e,
  ns <= ne ->
  (xs <> None \/ xe <> None) ->
  (forall a b, xs = Some (Some (a, b)) -> a <= b /\ b <= ns) ->
  (forall a b, xe = Some (Some (a, b)) -> ne <= a /\ a <= b) ->
  replaced_range ns ne mlen xs xe = (s, e) ->
  s <= ns /\ ne <= e.
Proof. exact range_expanded. Qed.
Print Assumptions C06_range_expanded.

(* the edits accepted in overlap-free mode are ordered and disjoint, for ANY proposed list *)
Theorem C06_disjoint :
  forall ds lo, (forall d, In d ds -> ed_s d <= ed_e d) ->
    ordered_from lo (accept lo ds) /\ (forall d, In d (accept lo ds) -> In d ds).
Proof. exact SpliceProofs.C06_disjoint. Qed.
Print Assumptions C06_disjoint.

(* the rewritten text equals the original with exactly those ranges substituted; no slice panics *)
Theorem C06_splice_concat :
  forall old ds, ordered_from 0 ds -> inside old ds -> apply_rewrite old ds = Done (spliced old 0 ds).
Proof. exact SpliceProofs.C06_splice_concat. Qed.
Print Assumptions C06_splice_concat.

(* every byte outside the ranges is preserved at its shifted offset; the length is accounted for *)
Theorem C06_splice :
  forall old ds,
    ordered_from 0 ds -> inside old ds ->
    exists new,
      apply_rewrite old ds = Done new /\
      length new = new_length (length old) ds /\
      (forall i, i < length old -> untouched ds i -> nth_error new (shifted ds i) = nth_error old i).
Proof. exact SpliceProofs.C06_splice. Qed.
Print Assumptions C06_splice.

(* and the result is valid UTF-8 *)
Theorem C06_utf8 :
  forall old ds,
    ordered_from 0 ds -> inside old ds -> valid_utf8 old = true ->
    (forall d, In d ds -> valid_utf8 (ed_text d) = true) ->
    valid_utf8 (spliced old 0 ds) = true.
Proof. exact SpliceProofs.C06_utf8. Qed.
Print Assumptions C06_utf8.

(* non-vacuity: "aé,b" (é = 195 169): delete "é," and replace "b" by "日" (230 151 165) *)
Example C06_ex :
  let old := [97; 195; 169; 44; 98]%N in
  let ds := [ {| ed_s := 1; ed_e := 4; ed_text := [] |}; {| ed_s := 4; ed_e := 5; ed_text := [230;151;165]%N |} ] in
  ordered_from 0 ds /\ inside old ds /\ valid_utf8 old = true /\
  apply_rewrite old ds = Done [97; 230; 151; 165]%N /\
  accept 0 ({| ed_s := 2; ed_e := 3; ed_text := [] |} :: ds) = {| ed_s := 2; ed_e := 3; ed_text := [] |} :: [nth 1 ds {| ed_s := 0; ed_e := 0; ed_text := [] |}] /\
  (* an edit inside a character makes the slice panic, as in Rust *)
  apply_rewrite old [ {| ed_s := 2; ed_e := 3; ed_text := [] |} ] = Panic.
Proof.
  cbv zeta. split; [cbn; lia|]. split.
  - intros x Hx. cbn in Hx. destruct Hx as [Hx|[Hx|Hx]]; [subst x|subst x|contradiction];
      (split; [cbn; lia|split; vm_compute; reflexivity]).
  - repeat split; vm_compute; reflexivity.
Qed.
Print Assumptions C06_ex.
