(* C10 — editing a parsed document is indistinguishable from parsing the edited text.
   Model: Rewrite/EditDoc.v (position_for_offset, String::accept_edit = the splice + the InputEdit
   handed to tree-sitter, Tree::edit's effect on old offsets, Root::do_edit applying it ONCE — fix
   of the double application — and a history of edits).  Proofs: Rewrite/EditDocProofs.v.
   NOT provable here (named): that tree-sitter's incremental re-parse, given a correct description
   applied once, equals a fresh parse (subtree reuse inside tree-sitter) — exercised by the direct
   oracle on every run (edit histories, every language, tree compared with a fresh parse). *)
From Coq Require Import List NArith ZArith Bool Arith.
From AG Require Import Base.Val Rewrite.Splice Rewrite.EditDoc Rewrite.EditDocSpec Rewrite.EditDocProofs.
Import ListNotations.

(* the document's text after any history of edits is the iterated splice *)
Theorem C10_history :
  forall es src, all_inside src es -> edit_all src es = Done (spliced_all src es).
Proof. exact EditDocProofs.C10_history. Qed.
Print Assumptions C10_history.

(* a history panics exactly when some edit leaves the text *)
Theorem C10_history_panics_only_outside :
  forall es src t, edit_all src es = Done t -> all_inside src es.
Proof. intros es src t H. eapply EditDocProofs.edit_all_done_inside; exact H. Qed.
Print Assumptions C10_history_panics_only_outside.

(* the InputEdit is the exact description of the splice: byte fields, and the three points are the
   (row, byte column) of those offsets in the old resp. new text *)
Theorem C10_input_edit :
  forall src e,
    le_pos e + le_del e <= length src ->
    exists ie,
      accept_edit src e = Done (spliced1 src e, ie) /\
      ie_start ie = le_pos e /\ ie_old_end ie = le_pos e + le_del e /\
      ie_new_end ie = le_pos e + length (le_ins e) /\
      ie_start_pos ie = position_for_offset src (le_pos e) /\
      ie_old_end_pos ie = position_for_offset src (le_pos e + le_del e) /\
      ie_new_end_pos ie = position_for_offset (spliced1 src e) (le_pos e + length (le_ins e)) /\
      firstn (ie_new_end ie) (spliced1 src e) = firstn (le_pos e) src ++ le_ins e /\
      skipn (ie_new_end ie) (spliced1 src e) = skipn (ie_old_end ie) src /\
      position_for_offset (spliced1 src e) (le_pos e) = ie_start_pos ie.
Proof. exact EditDocProofs.C10_input_edit. Qed.
Print Assumptions C10_input_edit.

Theorem C10_position :
  forall input off,
    position_for_offset input off =
    (nl_count (firstn off input), N.of_nat (length (since_nl (firstn off input) []))).
Proof. exact EditDocProofs.C10_position. Qed.
Print Assumptions C10_position.

(* the description is applied to the old tree once: what lies before the edit is fixed, what lies
   at or after its old end moves by the size difference and still designates the same bytes, what
   lies inside the deleted range collapses to the end of the inserted text *)
Theorem C10_shift_once :
  forall src e b new ie,
    accept_edit src e = Done (new, ie) ->
    (b <= le_pos e ->
       firstn b new = firstn b src /\
       (Nat.ltb b (le_pos e + le_del e) = true -> shift ie b = b)) /\
    (le_pos e + le_del e <= b -> b <= length src ->
       skipn (shift ie b) new = skipn b src /\
       shift ie b + le_del e = b + length (le_ins e)) /\
    (le_pos e < b -> b < le_pos e + le_del e ->
       shift ie b = le_pos e + length (le_ins e)).
Proof. exact EditDocProofs.C10_shift_partial. Qed.
Print Assumptions C10_shift_once.

(* applying the description twice (the defect fixed by the do_edit commit) moves later offsets by
   twice the size difference: "ab;cd" with "ab" deleted — the offset of "cd" (3) must become 1 *)
Example C10_twice_is_wrong :
  match accept_edit [97;98;59;99;100]%N {| le_pos := 0; le_del := 2; le_ins := [] |} with
  | Done (new, ie) => new = [59;99;100]%N /\ shift ie 3 = 1 /\ shift ie (shift ie 3) <> 1
  | Panic => False
  end.
Proof. vm_compute. repeat split; discriminate. Qed.
Print Assumptions C10_twice_is_wrong.
