(* C07 — fix-template substitution and re-indentation (replacer/indent.rs, replacer/template.rs,
   replacer.rs:split_first_meta_var).  Property theorems only; the proofs live in
   Rewrite/IndentProofs.v and Rewrite/TemplateProofs.v. *)
From Coq Require Import List NArith Bool Arith.
From AG Require Import Base.Val Gen.Tables Str.MetaVar Rewrite.Indent Rewrite.IndentProofs
  Rewrite.Template Rewrite.TemplateProofs.
Import ListNotations.

(* ================================================================== *)
(* T1  split / join                                                    *)
(* ================================================================== *)

Theorem C07_join_split : forall s, join_nl (split_nl s) = s.
Proof. exact join_split. Qed.
Print Assumptions C07_join_split.

Theorem C07_split_join : forall ls,
  ls <> [] -> Forall (fun l => has_newline l = false) ls -> split_nl (join_nl ls) = ls.
Proof. exact split_join. Qed.
Print Assumptions C07_split_join.

(* "ab", "", "  c" *)
Example C07_split_join_ex :
  let ls := [[97;98]; []; [32;32;99]]%N in
  ls <> [] /\ Forall (fun l => has_newline l = false) ls /\
  join_nl ls = [97;98;10;10;32;32;99]%N /\ split_nl (join_nl ls) = ls.
Proof.
  cbv zeta. split; [discriminate|]. split; [repeat constructor|].
  split; vm_compute; reflexivity.
Qed.
Print Assumptions C07_split_join_ex.

(* ================================================================== *)
(* T2  get_indent_at_offset, in terms of the text                      *)
(* ================================================================== *)

(* leading_spaces (from IndentProofs): number of leading SP bytes *)
Example C07_leading_spaces_ex : leading_spaces [32;32;32;120;32;121;32]%N = 3.
Proof. reflexivity. Qed.
Print Assumptions C07_leading_spaces_ex.

Theorem C07_indent_after_newline : forall pre line,
  has_newline line = false -> length line < MAX_LOOK_AHEAD ->
  get_indent_at_offset (pre ++ NL :: line) = leading_spaces line.
Proof. exact get_indent_after_nl. Qed.
Print Assumptions C07_indent_after_newline.

Theorem C07_indent_first_line : forall line,
  has_newline line = false -> length line <= MAX_LOOK_AHEAD ->
  get_indent_at_offset line = leading_spaces line.
Proof. exact get_indent_first_line. Qed.
Print Assumptions C07_indent_first_line.

(* "no NL among the last MAX_LOOK_AHEAD bytes" *)
Theorem C07_indent_long_line : forall src,
  has_newline (skipn (length src - MAX_LOOK_AHEAD) src) = false ->
  MAX_LOOK_AHEAD < length src ->
  get_indent_at_offset src = 0.
Proof. exact get_indent_long_line. Qed.
Print Assumptions C07_indent_long_line.

(* pre = "ab\n x", line = "   x y " *)
Example C07_indent_after_newline_ex :
  let pre := [97;98;10;32;120]%N in
  let line := [32;32;32;120;32;121;32]%N in
  has_newline line = false /\ length line < MAX_LOOK_AHEAD /\
  get_indent_at_offset (pre ++ NL :: line) = 3.
Proof.
  cbv zeta. split; [vm_compute; reflexivity|].
  split; [apply Nat.ltb_lt; vm_compute; reflexivity | vm_compute; reflexivity].
Qed.
Print Assumptions C07_indent_after_newline_ex.

(* a line of 600 blanks (> MAX_LOOK_AHEAD) has "indent" 0, not 600 *)
Example C07_indent_long_line_ex :
  let src := repeat SP 600 in
  has_newline (skipn (length src - MAX_LOOK_AHEAD) src) = false /\
  MAX_LOOK_AHEAD < length src /\ get_indent_at_offset src = 0 /\ leading_spaces src = 600.
Proof.
  cbv zeta. split; [vm_compute; reflexivity|]. split; [apply Nat.ltb_lt; vm_compute; reflexivity|].
  split; vm_compute; reflexivity.
Qed.
Print Assumptions C07_indent_long_line_ex.

(* ================================================================== *)
(* T3  line-wise view                                                  *)
(* ================================================================== *)

(* map_cont f s (from IndentProofs): apply f to every line of s but the first *)
Example C07_map_cont_unfold : forall f s,
  map_cont f s = match split_nl s with
                 | [] => []
                 | first :: rest => join_nl (first :: map f rest)
                 end.
Proof. reflexivity. Qed.
Print Assumptions C07_map_cont_unfold.

Theorem C07_indent_lines_impl : forall k s,
  indent_lines_impl k (split_nl s) = map_cont (fun l => repeat SP k ++ l) s.
Proof. exact indent_lines_impl_map_cont. Qed.
Print Assumptions C07_indent_lines_impl.

Theorem C07_remove_indent : forall k s,
  (forall l, In l (tl (split_nl s)) -> strip_prefix_n k l <> None) ->
  (k = 0 \/ match s with b :: _ => b <> SP | [] => True end) ->
  remove_indent k s = map_cont (skipn k) s.
Proof. exact remove_indent_map_cont. Qed.
Print Assumptions C07_remove_indent.

Theorem C07_indent_lines : forall t c s,
  (match s with b :: _ => b <> SP | [] => True end) ->
  (forall l, In l (tl (split_nl s)) -> strip_prefix_n c l <> None) ->
  indent_lines t (MultiLine s c) = map_cont (fun l => repeat SP t ++ skipn c l) s.
Proof. exact indent_lines_map_cont. Qed.
Print Assumptions C07_indent_lines.

(* original indent 0: no hypothesis needed *)
Theorem C07_indent_lines_zero : forall t s,
  indent_lines t (MultiLine s 0) = map_cont (fun l => repeat SP t ++ l) s.
Proof. exact indent_lines_zero. Qed.
Print Assumptions C07_indent_lines_zero.

(* s = "f(\n    a,\n  b)", c = 2; all three branches of the compare (t = 2, 0, 4) *)
Definition ex_text : str := [102;40;10;32;32;32;32;97;44;10;32;32;98;41]%N.

Example C07_indent_lines_ex :
  (match ex_text with b :: _ => b <> SP | [] => True end) /\
  (forall l, In l (tl (split_nl ex_text)) -> strip_prefix_n 2 l <> None) /\
  indent_lines 2 (MultiLine ex_text 2) = ex_text /\
  indent_lines 0 (MultiLine ex_text 2) = [102;40;10;32;32;97;44;10;98;41]%N /\
  indent_lines 4 (MultiLine ex_text 2)
  = [102;40;10;32;32;32;32;32;32;97;44;10;32;32;32;32;98;41]%N.
Proof.
  split; [vm_compute; discriminate|]. split.
  - intros l Hin. vm_compute in Hin. destruct Hin as [H|[H|[]]]; subst l; vm_compute; discriminate.
  - repeat split; vm_compute; reflexivity.
Qed.
Print Assumptions C07_indent_lines_ex.

(* ================================================================== *)
(* T4  identity: rewriting a node to itself ("$A" with A := the node) *)
(* ================================================================== *)

Theorem C07_identity : forall doc s e,
  s <= e -> e <= length doc ->
  let text := byte_slice doc s e in
  let c := get_indent_at_offset (firstn s doc) in
  (match text with b :: _ => b <> SP | [] => True end) ->
  (forall l, In l (tl (split_nl text)) -> strip_prefix_n c l <> None) ->
  generate_replacement doc s (envA s e) tplA = text.
Proof. exact rewrite_identity. Qed.
Print Assumptions C07_identity.

Example C07_identity_defs :
  tplA = create_template DOLLAR [] [36;65]%N /\
  forall s e, envA s e = {| e_single := [([65]%N, (s, e))]; e_multi := []; e_trans := [] |}.
Proof. split; reflexivity. Qed.
Print Assumptions C07_identity_defs.

(* doc = "  f(\n    a,\n  b)\nz", the node is [2,16) = "f(\n    a,\n  b)", c = 2 *)
Definition ex_doc : str := [32;32;102;40;10;32;32;32;32;97;44;10;32;32;98;41;10;122]%N.

Example C07_identity_ex :
  let doc := ex_doc in let s := 2 in let e := 16 in
  let text := byte_slice doc s e in
  let c := get_indent_at_offset (firstn s doc) in
  s <= e /\ e <= length doc /\ text = ex_text /\ has_newline text = true /\ c = 2 /\
  (match text with b :: _ => b <> SP | [] => True end) /\
  (forall l, In l (tl (split_nl text)) -> strip_prefix_n c l <> None) /\
  generate_replacement doc s (envA s e) tplA = text.
Proof.
  cbv zeta.
  split; [apply Nat.leb_le; reflexivity|]. split; [apply Nat.leb_le; reflexivity|].
  split; [vm_compute; reflexivity|]. split; [vm_compute; reflexivity|].
  split; [vm_compute; reflexivity|]. split; [vm_compute; discriminate|]. split.
  - intros l Hin. vm_compute in Hin. destruct Hin as [H|[H|[]]]; subst l; vm_compute; discriminate.
  - vm_compute. reflexivity.
Qed.
Print Assumptions C07_identity_ex.

(* single-line node: doc = "  foo(a);", node [2,8) = "foo(a)" *)
Example C07_identity_oneline_ex :
  let doc := [32;32;102;111;111;40;97;41;59]%N in let s := 2 in let e := 8 in
  let text := byte_slice doc s e in
  let c := get_indent_at_offset (firstn s doc) in
  s <= e /\ e <= length doc /\ text = [102;111;111;40;97;41]%N /\ has_newline text = false /\
  c = 2 /\
  (match text with b :: _ => b <> SP | [] => True end) /\
  (forall l, In l (tl (split_nl text)) -> strip_prefix_n c l <> None) /\
  generate_replacement doc s (envA s e) tplA = text.
Proof.
  cbv zeta.
  split; [apply Nat.leb_le; reflexivity|]. split; [apply Nat.leb_le; reflexivity|].
  split; [vm_compute; reflexivity|]. split; [vm_compute; reflexivity|].
  split; [vm_compute; reflexivity|]. split; [vm_compute; discriminate|]. split.
  - intros l Hin. vm_compute in Hin. destruct Hin.
  - vm_compute. reflexivity.
Qed.
Print Assumptions C07_identity_oneline_ex.

(* both hypotheses are needed: the identity is FALSE of the code without them *)
(* doc = "  f(\na)", node [2,7) = "f(\na)": the continuation line has less indent than the node *)
Example C07_identity_refuted_shallow_line :
  let doc := [32;32;102;40;10;97;41]%N in
  byte_slice doc 2 7 = [102;40;10;97;41]%N /\
  generate_replacement doc 2 (envA 2 7) tplA = [102;40;10;32;32;97;41]%N.
Proof. split; vm_compute; reflexivity. Qed.
Print Assumptions C07_identity_refuted_shallow_line.

(* doc = "x\n  f(\n  a)", range [3,11) = " f(\n  a)" starts with a blank, c = 1 *)
Example C07_identity_refuted_leading_blank :
  let doc := [120;10;32;32;102;40;10;32;32;97;41]%N in
  byte_slice doc 3 11 = [32;102;40;10;32;32;97;41]%N /\
  generate_replacement doc 3 (envA 3 11) tplA = [102;40;10;32;32;97;41]%N.
Proof. split; vm_compute; reflexivity. Qed.
Print Assumptions C07_identity_refuted_leading_blank.

(* ================================================================== *)
(* T5  relative indentation is kept                                    *)
(* ================================================================== *)

Theorem C07_indent_single_multiline : forall doc env v s e,
  tv_kind v = KSingle ->
  assoc (tv_name v) (e_single env) = Some (s, e) ->
  let text := byte_slice doc s e in
  let c := get_indent_at_offset (firstn s doc) in
  has_newline text = true ->
  (match text with b :: _ => b <> SP | [] => True end) ->
  (forall l, In l (tl (split_nl text)) -> strip_prefix_n c l <> None) ->
  maybe_get_var doc env v
  = Some (map_cont (fun l => repeat SP (tv_indent v) ++ skipn c l) text).
Proof. exact maybe_get_var_single_multiline. Qed.
Print Assumptions C07_indent_single_multiline.

Theorem C07_indent_single_oneline : forall doc env v s e,
  tv_kind v = KSingle ->
  assoc (tv_name v) (e_single env) = Some (s, e) ->
  has_newline (byte_slice doc s e) = false ->
  maybe_get_var doc env v = Some (byte_slice doc s e).
Proof. exact maybe_get_var_single_oneline. Qed.
Print Assumptions C07_indent_single_oneline.

Theorem C07_indent_multiple_multiline : forall doc env v s0 e0 more,
  tv_kind v = KMultiple ->
  assoc (tv_name v) (e_multi env) = Some ((s0, e0) :: more) ->
  let e := snd (last more (s0, e0)) in
  let text := byte_slice doc s0 e in
  let c := get_indent_at_offset (firstn s0 doc) in
  has_newline text = true ->
  (match text with b :: _ => b <> SP | [] => True end) ->
  (forall l, In l (tl (split_nl text)) -> strip_prefix_n c l <> None) ->
  maybe_get_var doc env v
  = Some (map_cont (fun l => repeat SP (tv_indent v) ++ skipn c l) text).
Proof. exact maybe_get_var_multiple_multiline. Qed.
Print Assumptions C07_indent_multiple_multiline.

Theorem C07_indent_multiple_oneline : forall doc env v s0 e0 more,
  tv_kind v = KMultiple ->
  assoc (tv_name v) (e_multi env) = Some ((s0, e0) :: more) ->
  let e := snd (last more (s0, e0)) in
  has_newline (byte_slice doc s0 e) = false ->
  maybe_get_var doc env v = Some (byte_slice doc s0 e).
Proof. exact maybe_get_var_multiple_oneline. Qed.
Print Assumptions C07_indent_multiple_oneline.

(* transformed text carries no original indent: every continuation line is shifted by the slot
   (for a slot indent of 0, repeat SP 0 ++ l = l and the text is unchanged) *)
Theorem C07_indent_transformed : forall doc env v src,
  tv_kind v = KTransformed ->
  assoc (tv_name v) (e_trans env) = Some src ->
  maybe_get_var doc env v = Some (map_cont (fun l => repeat SP (tv_indent v) ++ l) src).
Proof. exact maybe_get_var_transformed. Qed.
Print Assumptions C07_indent_transformed.

Theorem C07_indent_final : forall doc mstart env t,
  let m := get_indent_at_offset (firstn mstart doc) in
  generate_replacement doc mstart env t
  = map_cont (fun l => repeat SP m ++ l) (replace_fixer doc env t).
Proof. exact generate_replacement_map_cont. Qed.
Print Assumptions C07_indent_final.

Theorem C07_indent_final_m0 : forall doc mstart env t,
  get_indent_at_offset (firstn mstart doc) = 0 ->
  generate_replacement doc mstart env t = replace_fixer doc env t.
Proof. exact generate_replacement_m0. Qed.
Print Assumptions C07_indent_final_m0.

(* the capture of C07_identity_ex placed in a slot of indent 4, and a transformed text in a
   slot of indent 3 / 0 *)
Example C07_indent_ex :
  let v := {| tv_kind := KSingle; tv_name := [65]%N; tv_indent := 4 |} in
  let w k := {| tv_kind := KTransformed; tv_name := [66]%N; tv_indent := k |} in
  let env := {| e_single := [([65]%N, (2, 16))]; e_multi := [];
                e_trans := [([66]%N, [97;10;32;98]%N)] |} in
  assoc (tv_name v) (e_single env) = Some (2, 16) /\
  maybe_get_var ex_doc env v
  = Some [102;40;10;32;32;32;32;32;32;97;44;10;32;32;32;32;98;41]%N /\
  maybe_get_var ex_doc env (w 3) = Some [97;10;32;32;32;32;98]%N /\
  maybe_get_var ex_doc env (w 0) = Some [97;10;32;98]%N.
Proof. repeat split; vm_compute; reflexivity. Qed.
Print Assumptions C07_indent_ex.

(* ================================================================== *)
(* T6  substitution                                                    *)
(* ================================================================== *)

Theorem C07_subst : forall doc env f0 fs vars,
  length fs = length vars ->
  replace_fixer doc env (WithMetaVar (f0 :: fs) vars)
  = f0 ++ concat (map (fun '(v, f) =>
                         (match maybe_get_var doc env v with Some b => b | None => [] end) ++ f)
                      (combine vars fs)).
Proof. exact replace_fixer_with_vars. Qed.
Print Assumptions C07_subst.

Theorem C07_subst_textual : forall doc env s, replace_fixer doc env (Textual s) = s.
Proof. exact replace_fixer_textual. Qed.
Print Assumptions C07_subst_textual.

(* a variable with no capture of its name (whatever the sigil: fix 648fad9) yields None, i.e. contributes
   the empty string in C07_subst *)
Theorem C07_subst_unbound : forall doc env v,
  match tv_kind v with
  | KSingle => single_range env (tv_name v) = None /\ multi_range env (tv_name v) = None
  | KMultiple => single_range env (tv_name v) = None /\ multi_range env (tv_name v) = None
                 /\ assoc (tv_name v) (e_trans env) = None
  | KTransformed => assoc (tv_name v) (e_trans env) = None
  end ->
  maybe_get_var doc env v = None.
Proof. exact maybe_get_var_unbound. Qed.
Print Assumptions C07_subst_unbound.

(* conversely an occurrence of a captured variable is always substituted, `$A`, `$$A` and `$$$A` alike *)
Theorem C07_subst_bound : forall doc env v,
  (single_range env (tv_name v) <> None \/ multi_range env (tv_name v) <> None) ->
  tv_kind v <> KTransformed ->
  maybe_get_var doc env v <> None.
Proof. exact maybe_get_var_bound. Qed.
Print Assumptions C07_subst_bound.

Theorem C07_scanner_lengths : forall mc tr t fs vs,
  create_template mc tr t = WithMetaVar fs vs -> length fs = S (length vs).
Proof. exact create_template_lengths. Qed.
Print Assumptions C07_scanner_lengths.

(* template "g($A, $X)" on ex_doc with A := [13,15) = "b)" and X unbound *)
Example C07_subst_ex :
  let t := create_template DOLLAR [] [103;40;36;65;44;32;36;88;41]%N in
  let env := {| e_single := [([65]%N, (13, 15))]; e_multi := []; e_trans := [] |} in
  t = WithMetaVar [[103;40]; [44;32]; [41]]%N
        [{| tv_kind := KSingle; tv_name := [65]%N; tv_indent := 0 |};
         {| tv_kind := KSingle; tv_name := [88]%N; tv_indent := 0 |}] /\
  replace_fixer ex_doc env t = [103;40;32;98;44;32;41]%N.
Proof. split; vm_compute; reflexivity. Qed.
Print Assumptions C07_subst_ex.

(* ================================================================== *)
(* T7  the template scanner agrees with a byte-at-a-time automaton     *)
(* ================================================================== *)

(* tokens tr t = auto tr ALit [] t, the automaton of TemplateProofs.v:
   states ALit / ASig k / AName k name_rev, one byte per step *)
Theorem C07_scanner : forall tr t,
  scan_view (tpl_scan (S (length t)) DOLLAR tr [] [] t) = tokens tr t.
Proof. exact scanner_automaton. Qed.
Print Assumptions C07_scanner.

Example C07_scanner_defs :
  (forall p, scan_view p = (fst p, map (fun v => (tv_kind v, tv_name v)) (snd p))) /\
  (forall tr t, tokens tr t = auto tr ALit [] t).
Proof. split; reflexivity. Qed.
Print Assumptions C07_scanner_defs.

(* "x$A $$$BC$$$$B$a$$_1-$" with B a transform name:
   fragments "x" " " "$" "$a" "-$"; variables A, $$$BC, $$$B, _1 *)
Example C07_scanner_ex :
  tokens [[66]%N] [120;36;65;32;36;36;36;66;67;36;36;36;36;66;36;97;36;36;95;49;45;36]%N
  = ([[120]; [32]; [36]; [36;97]; [45;36]]%N,
     [(KSingle, [65]%N); (KMultiple, [66;67]%N); (KMultiple, [66]%N); (KSingle, [95;49]%N)]) /\
  tokens [[66]%N] [36;66;36;36;66;48]%N
  = ([[]; []; []], [(KTransformed, [66]%N); (KSingle, [66;48]%N)]).
Proof. split; vm_compute; reflexivity. Qed.
Print Assumptions C07_scanner_ex.

(* round trip, relational form (spelled, from TemplateProofs): the template text is the
   fragments interleaved with spellings "1..3 sigils + name"; names are non-empty, made of
   name bytes and maximal; kinds follow the sigil count / transform list; the slot indent of a
   variable is the indent at the end of the template text before its first sigil *)
Theorem C07_scanner_roundtrip : forall tr t fs vs,
  create_template DOLLAR tr t = WithMetaVar fs vs -> spelled tr [] fs vs t.
Proof. exact create_template_spelled. Qed.
Print Assumptions C07_scanner_roundtrip.

(* template "f(\n  $A,\n    $$$B)": slot indents 2 and 4 *)
Example C07_scanner_slot_indent_ex :
  create_template DOLLAR [] [102;40;10;32;32;36;65;44;10;32;32;32;32;36;36;36;66;41]%N
  = WithMetaVar [[102;40;10;32;32]; [44;10;32;32;32;32]; [41]]%N
      [{| tv_kind := KSingle; tv_name := [65]%N; tv_indent := 2 |};
       {| tv_kind := KMultiple; tv_name := [66]%N; tv_indent := 4 |}].
Proof. vm_compute. reflexivity. Qed.
Print Assumptions C07_scanner_slot_indent_ex.

(* round trip, functional form *)
Theorem C07_scanner_roundtrip_concat : forall tr t fs vs,
  create_template DOLLAR tr t = WithMetaVar fs vs ->
  exists ks, length ks = length vs /\
             Forall (fun kv => 1 <= fst kv <= 3 /\
                               tv_kind (snd kv) = kind_of tr (fst kv) (tv_name (snd kv)))
                    (combine ks vs) /\
             t = interleave fs (map spelling (combine ks vs)).
Proof. exact create_template_roundtrip. Qed.
Print Assumptions C07_scanner_roundtrip_concat.

Theorem C07_scanner_textual : forall tr t,
  existsb (N.eqb DOLLAR) t = false -> create_template DOLLAR tr t = Textual t.
Proof. exact create_template_no_sigil. Qed.
Print Assumptions C07_scanner_textual.

Theorem C07_scanner_names : forall tr t fs vs,
  create_template DOLLAR tr t = WithMetaVar fs vs ->
  Forall (fun v => tv_name v <> [] /\ forallb is_mv_char (tv_name v) = true) vs.
Proof. exact create_template_names. Qed.
Print Assumptions C07_scanner_names.

Theorem C07_scanner_maximal : forall tr t fs vs,
  create_template DOLLAR tr t = WithMetaVar fs vs ->
  Forall (fun f => match f with c :: _ => is_mv_char c = false | [] => True end) (tl fs).
Proof. exact create_template_maximal. Qed.
Print Assumptions C07_scanner_maximal.
