(* C07 — placeholder obligations; replaced by the full set (scanner, substitution, indentation,
   identity) as soon as Rewrite/*Proofs.v land. *)
From Coq Require Import List NArith ZArith Bool.
From AG Require Import Base.Val Str.MetaVar Rewrite.Indent Rewrite.Template.
Import ListNotations.

Theorem C07_textual_verbatim : forall doc env s, replace_fixer doc env (Textual s) = s.
Proof. reflexivity. Qed.
Print Assumptions C07_textual_verbatim.
