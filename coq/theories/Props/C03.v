(* C03 — every reported pattern match is justified by the documented strictness rules.
   Model: Match/MatchNode.v ([run], [pattern_match] = Pattern::match_node_with_env,
   [match_len] = Pattern::get_match_len).  Specification, written from the property text
   independently of the algorithm: Match/Align.v ([Aligned]/[AlignedL]: existence of an
   order-preserving partial matching in which kinds agree, named pattern nodes are matched,
   token text agrees except under signature, named holes bind named nodes, an ellipsis absorbs
   consecutive siblings, and only nodes the strictness allows may stay unmatched).
   Proofs: Match/AlignProofs.v. *)
From Coq Require Import List NArith ZArith Bool Arith.
From AG Require Import Base.Val Str.MetaVar Tree.Tree Tree.Wf Match.MatchNode Match.Align Match.AlignSpec Match.AlignProofs.
Import ListNotations.

(* every match the matcher reports — any fuel, any start environment, all five strictness levels —
   has an alignment, including pattern nodes without children (all children MISSING, issue #1688) *)
Theorem C03_sound :
  forall fuel s src g c e a',
    run fuel s src (RNode g c) (AEnv e) = (ROne MatchedBoth, a') ->
    Aligned s src g c.
Proof. exact AlignProofs.C03_sound. Qed.
Print Assumptions C03_sound.

Theorem C03_sound_pattern :
  forall src p c e e',
    pattern_match src p c e = Matched e' ->
    Aligned (p_strict p) src (p_node p) c.
Proof. exact AlignProofs.C03_sound_pattern. Qed.
Print Assumptions C03_sound_pattern.

(* the reported prefix length is positive, never exceeds the node and ends where a descendant ends *)
Theorem C03_len :
  forall src p c n,
    wfb c = true ->
    match_len src p c = LenSome n ->
    (0 < n <= tend c - tstart c)%N /\ ends_at_descendant c (tstart c + n).
Proof. exact AlignProofs.C03_len. Qed.
Print Assumptions C03_len.

(* a candidate skipped by the terminal comparison is one the strictness allows to skip *)
Theorem C03_skip_candidate_allowed : forall s src nm text k c,
  st_match_terminal s src nm text k c = SkipCandidate -> cand_skippable s c = true.
Proof.
  intros s src nm text k c. unfold st_match_terminal, cand_skippable, skip_comment_or_unnamed.
  destruct (kinds_matching k (kind c) && (negb nm || Base.Sort.str_eqb text (text_of src c)));
    [discriminate|].
  destruct s; destruct nm; cbn;
    repeat match goal with |- context [if ?b then _ else _] => destruct b end;
    try discriminate; try reflexivity;
    destruct (named c); destruct (is_comment c); cbn; try discriminate; reflexivity.
Qed.
Print Assumptions C03_skip_candidate_allowed.

(* holes marked as named bind only named nodes, from ANY environment: a variable that is already bound (a
   back-reference) does not bypass the guard — the clause the seeded change C03-m7 broke *)
Theorem C03_named_hole_any_env : forall src name c e e',
  match_leaf_meta_var src (Capture name true) c e = Some e' -> named c = true.
Proof. exact AlignProofs.named_hole_binds_named_any_env. Qed.
Print Assumptions C03_named_hole_any_env.

Theorem C03_named_dropped_hole : forall src c e e',
  match_leaf_meta_var src (Dropped true) c e = Some e' -> named c = true.
Proof. exact AlignProofs.named_dropped_hole_binds_named. Qed.
Print Assumptions C03_named_dropped_hole.

(* the case behind fix fc3a016: nothing aligned => no prefix length is reported *)
Example C03_len_nothing_aligned_ex : True.
Proof. pose proof AlignProofs.C03_len_nothing_aligned. exact I. Qed.
Print Assumptions C03_len_nothing_aligned_ex.
