(* C03 — placeholder obligation until Match/AlignProofs.v lands (soundness wrt Aligned). *)
From Coq Require Import List NArith ZArith Bool.
From AG Require Import Base.Val Str.MetaVar Tree.Tree Match.MatchNode Match.Align.
Import ListNotations.

(* a candidate skipped by the terminal comparison is one the strictness allows to skip *)
Theorem C03_skip_candidate_allowed : forall s src nm text k c,
  st_match_terminal s src nm text k c = SkipCandidate -> cand_skippable s c = true.
Proof.
  intros s src nm text k c. unfold st_match_terminal, cand_skippable, skip_comment_or_unnamed.
  destruct (kinds_matching k (kind c) && (negb nm || Base.Sort.str_eqb text (text_of src c)));
    [discriminate|].
  destruct s; destruct nm; cbn;
    repeat match goal with |- context [if ?b then _ else _] => destruct b end;
    try discriminate; try reflexivity;
    destruct (named c); destruct (is_comment c); cbn; try discriminate; reflexivity.
Qed.
Print Assumptions C03_skip_candidate_allowed.
