(* C14 — suppression comments silence exactly the findings they name, nothing else.
   Model: Rule/Scan.v (CombinedScan::new / scan, Suppressions::collect with a table keyed by the
   governed line holding EVERY comment that governs it (fix 1caf294), parse_suppression_set).
   Declarative side, written from the property text: Rule/ScanSpec.v ([is_supp_comment],
   [own_line], [governed_line], [silenced]).  Proofs: Rule/ScanProofs.v. *)
From Coq Require Import List NArith ZArith Bool Arith Permutation.
From AG Require Import Base.Val Base.Sort Tree.Tree Tree.Wf Rule.Rule Rule.Traversal Rule.Scan Rule.ScanSpec Rule.ScanProofs Rule.ScanView Rule.ScanViewProofs.
Import ListNotations.

(* a finding is suppressed if and only if a suppression comment governs the line where it starts
   (own-line comment on the line before, or trailing comment on the same line) and lists the rule
   id or lists nothing; all other findings are reported *)
Theorem C14_iff :
  forall src root rules r t,
    ids_unique root -> NoDup (map sr_id rules) -> In r rules -> kinds_sound root r ->
    In t (preorder root) -> hit r t = true ->
    (In (sr_id r, tid t) (res_found (scan src root rules)) <-> silenced src root (sr_id r) t = false).
Proof. exact ScanProofs.C14_iff. Qed.
Print Assumptions C14_iff.

(* a suppression is reported as unused exactly when it silenced nothing *)
Theorem C14_unused :
  forall src root rules c l,
    ids_unique root -> NoDup (map sr_id rules) -> (forall r, In r rules -> kinds_sound root r) ->
    get root l = Some c ->
    (In (tid c) (res_unused (scan src root rules)) <->
     is_supp_comment src c = true /\
     ~ exists r t, In r rules /\ In t (preorder root) /\ hit r t = true /\
                   N.eqb (governed_line src root l) (start_line src t) = true /\
                   silences (sr_id r) {| su_set := parse_suppression_set (text_of src c); su_node := tid c |} = true).
Proof. exact ScanProofs.C14_unused. Qed.
Print Assumptions C14_unused.

(* the id list: marker, colon, comma separated ids with optional blanks; the marker alone = all *)
Theorem C14_ids :
  (forall pre ids,
      containsb IGNORE_TEXT pre = false -> (forall k, prefixb IGNORE_TEXT (skipn k (pre ++ IGNORE_TEXT)) = true -> k = length pre) ->
      ids <> [] -> (forall x, In x ids -> clean_id x) ->
      parse_suppression_set (pre ++ IGNORE_TEXT ++ [58; 32]%N ++ join_ids ids) = Some ids) /\
  (forall pre, containsb IGNORE_TEXT pre = false ->
      (forall k, prefixb IGNORE_TEXT (skipn k (pre ++ IGNORE_TEXT)) = true -> k = length pre) ->
      parse_suppression_set (pre ++ IGNORE_TEXT) = None).
Proof. exact ScanProofs.C14_ids. Qed.
Print Assumptions C14_ids.

(* non-vacuity of the id-list theorem: "// ast-grep-ignore: ra, rb" *)
Example C14_ids_ex :
  parse_suppression_set ([47;47;32] ++ IGNORE_TEXT ++ [58;32] ++ join_ids [[114;97];[114;98]])%N
  = Some [[114;97];[114;98]]%N /\
  parse_suppression_set ([47;47;32] ++ IGNORE_TEXT)%N = None.
Proof. split; vm_compute; reflexivity. Qed.
Print Assumptions C14_ids_ex.

(* the view that separates fixable findings (scan --interactive / -U) and the plain view deliver the same
   findings and the same unused suppressions, each exactly once *)
Theorem C14_views_agree :
  forall root rules res,
    Permutation (view_all (into_view root rules true res)) (reported res) /\
    Permutation (view_all (into_view root rules false res)) (reported res) /\
    Permutation (view_all (into_view root rules true res)) (view_all (into_view root rules false res)).
Proof.
  intros root rules res. split; [apply ScanViewProofs.view_complete|].
  split; [apply ScanViewProofs.view_complete | apply ScanViewProofs.view_same].
Qed.
Print Assumptions C14_views_agree.

(* the diffs of the separated view are the findings of fixing rules and the unused suppressions, by start offset *)
Theorem C14_view_diffs :
  forall root rules res,
    key_sorted (fun p => start_of_id root (snd p)) (v_diffs (into_view root rules true res)) /\
    v_diffs (into_view root rules false res) = [] /\
    (forall p, In p (v_diffs (into_view root rules true res)) <->
       (In p (res_found res) /\ has_fix rules (fst p) = true) \/ (exists u, In u (res_unused res) /\ p = (UNUSED_ID, u))).
Proof.
  intros root rules res. destruct (ScanViewProofs.view_diffs_sorted root rules res) as [H1 H2].
  split; [exact H1|]. split; [exact H2|]. intros p. apply ScanViewProofs.view_diffs_are.
Qed.
Print Assumptions C14_view_diffs.

(* non-vacuity: a fixing rule's finding at offset 20, a plain finding, unused suppressions at offsets 0 and 40 *)
Example C14_view_ex :
  let root := T {| nid := 1; nkind := 1; nnamed := true; ncomment := false; nmissing := false; nfld := 0; ns := 0; ne := 60 |}
                [T {| nid := 2; nkind := 2; nnamed := true; ncomment := false; nmissing := false; nfld := 0; ns := 0; ne := 10 |} [];
                 T {| nid := 3; nkind := 3; nnamed := true; ncomment := false; nmissing := false; nfld := 0; ns := 20; ne := 30 |} [];
                 T {| nid := 4; nkind := 3; nnamed := true; ncomment := false; nmissing := false; nfld := 0; ns := 32; ne := 38 |} [];
                 T {| nid := 5; nkind := 2; nnamed := true; ncomment := false; nmissing := false; nfld := 0; ns := 40; ne := 50 |} []] in
  let rules := [{| sr_id := [97]%N; sr_fix := true; sr_kinds := None; sr_hits := [3]%N |};
                {| sr_id := [98]%N; sr_fix := false; sr_kinds := None; sr_hits := [4]%N |}] in
  let res := {| res_found := [([97], 3); ([98], 4)]%N; res_unused := [2; 5]%N |} in
  v_diffs (into_view root rules true res) = [(UNUSED_ID, 2); ([97], 3); (UNUSED_ID, 5)]%N /\
  v_matches (into_view root rules true res) = [([98], 4)]%N.
Proof. vm_compute. split; reflexivity. Qed.
Print Assumptions C14_view_ex.
