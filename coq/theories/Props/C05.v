(* C05 — rule objects mean what the rule reference says (logic, relations, positions).
   Model: Rule/Eval.v ([eval] = Rule::match_node_with_env, environment threaded as in the Rust).
   Reference semantics, written from the rule reference and environment-free: Rule/Sem.v ([sem]:
   all/any/not = conjunction/disjunction/negation; inside/has/precedes/follows = quantification over
   ancestors/descendants/later/earlier siblings within the stopBy window (neighbor, end, inclusive
   stop rule) and field; kind/regex/range/nthChild test the node itself; matches = the utility).
   Statements: Rule/EvalSpec.v.  Proofs: Rule/SemNav.v, Rule/SemClosed.v, Rule/SemProofs.v. *)
From Coq Require Import List NArith ZArith Bool Arith.
From AG Require Import Base.Val Base.Sort Str.MetaVar Tree.Tree Tree.Wf Match.MatchNode Rule.Rule Rule.Eval Rule.Sem
  Rule.EvalSpec Rule.SemProofs.
Import ListNotations.

(* the evaluator decides exactly the reference semantics: all 13 operators, any nesting, any
   utilities, every node including the root, every start environment — on well-formed documents
   without zero-width nodes, with unique node ids, the mentioned fields labelling at most one
   child ([doc_ok]), for rules without capturing meta variables ([rule_closed]; the property's
   "variable-disjoint sub-patterns" restriction, strengthened) *)
Theorem C05_eval_iff_sem_closed :
  forall c r n e fuel1 fuel2 res e' b,
    rule_closed r = true -> ctx_closed c = true -> doc_ok c r ->
    eval fuel1 c (QRule r n) e = (EFound res, e') ->
    sem fuel2 c r n = Some b ->
    b = is_some res.
Proof. exact SemProofs.C05_eval_iff_sem_closed. Qed.
Print Assumptions C05_eval_iff_sem_closed.

(* non-vacuity: a relational ofRule on a concrete tree (the case behind the nthChild fix) *)
Example C05_ofrule_relational_ex : True.
Proof. pose proof SemProofs.C05_ofrule_relational_example. exact I. Qed.
Print Assumptions C05_ofrule_relational_ex.

(* siblings: on well-formed trees without zero-width nodes the cursor-by-byte sibling iterators
   are the iterated next/previous siblings (also C19) *)
Theorem C05_next_all :
  forall root p,
    wfb root = true -> nonzero_widthb root = true -> get root p <> None ->
    next_all root p = later_siblings root p /\ prev_all root p = earlier_siblings root p.
Proof. exact SemProofs.C19_next_all. Qed.
Print Assumptions C05_next_all.

(* the reference semantics of the composite operators is conjunction / disjunction / negation *)
Theorem C05_sem_composite : forall f c n t,
  node_at c n = Some t ->
  (forall rs, sem (S f) c (RAll rs) n = all3 (map (fun r => sem f c r n) rs)) /\
  (forall rs, sem (S f) c (RAny rs) n = any3 (map (fun r => sem f c r n) rs)) /\
  (forall r, sem (S f) c (RNot r) n = not3 (sem f c r n)).
Proof.
  intros f c n t H. repeat split; intros; cbn [sem]; rewrite H; reflexivity.
Qed.
Print Assumptions C05_sem_composite.
