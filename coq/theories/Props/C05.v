(* C05 — rule objects mean what the rule reference says.
   Model: Rule/Eval.v; reference semantics: Rule/Sem.v (environment-free, written from the rule
   reference).  The equivalence theorem is stated in Rule/EvalSpec.v (C05_eval_iff_sem_closed_stmt)
   and proved in Rule/SemProofs.v; it is restated here once that file is in the build. *)
From Coq Require Import List NArith ZArith Bool Arith.
From AG Require Import Base.Val Base.Sort Str.MetaVar Tree.Tree Match.MatchNode Rule.Rule Rule.Eval Rule.Sem Rule.EvalSpec.
Import ListNotations.

(* the reference semantics of the composite operators is conjunction / disjunction / negation *)
Theorem C05_sem_composite : forall f c n t,
  node_at c n = Some t ->
  (forall rs, sem (S f) c (RAll rs) n = all3 (map (fun r => sem f c r n) rs)) /\
  (forall rs, sem (S f) c (RAny rs) n = any3 (map (fun r => sem f c r n) rs)) /\
  (forall r, sem (S f) c (RNot r) n = not3 (sem f c r n)).
Proof.
  intros f c n t H. repeat split; intros; cbn [sem]; rewrite H; reflexivity.
Qed.
Print Assumptions C05_sem_composite.

(* the evaluator's composite operators decide conjunction and negation of their sub-results *)
Theorem C05_eval_not : forall f c r n e t,
  node_at c n = Some t ->
  fst (eval (S f) c (QRule (RNot r) n) e) =
  match fst (eval f c (QRule r n) e) with
  | EFound (Some _) => EFound None
  | EFound None => EFound (Some n)
  | o => o
  end.
Proof.
  intros f c r n e t H. cbn [eval]. rewrite H.
  destruct (eval f c (QRule r n) e) as [[[m|]|l|] e1]; reflexivity.
Qed.
Print Assumptions C05_eval_not.
