(* C15 — a rule runs on a file exactly when language, globs and severity say so.
   Model: Front/Select.v (RuleOverwrite::new / find / process_configs with --filter;
   RuleCollection::try_new with tenured buckets and contingent rules; matches_path with ignores
   before files; for_path; from_extension and the walker's type filter over the extension table
   SCRAPED FROM THE SOURCE ON EVERY RUN (Gen/Tables.v); the exit status).  Globs (globset) and the
   --filter regex are oracles.  Specification from the property text: [applies].
   Proofs: Front/SelectProofs.v. *)
From Coq Require Import List NArith ZArith Bool Arith.
From AG Require Import Base.Val Base.Sort Gen.Tables Front.Select Front.SelectSpec Front.SelectProofs.
Import ListNotations.

(* a rule is applied to a file iff the file's language is the rule's, some `files` glob matches when
   present, no `ignores` glob matches, it is selected by --filter and its effective severity is not
   off — through the tenured/contingent split, for any order of the rule files; and the scan sees the
   rule with its effective severity *)
Theorem C15_applies :
  forall a rules f r,
    NoDup (map fr_id rules) -> In r rules ->
    ((exists r', In r' (rules_for_file a rules f) /\ fr_id r' = fr_id r) <-> applies a r f = true) /\
    (forall r', In r' (rules_for_file a rules f) -> fr_id r' = fr_id r ->
                fr_sev r' = eff_severity (overwrite_new a) (fr_id r) (fr_sev r) /\ fr_lang r' = fr_lang r).
Proof. exact SelectProofs.C15_applies. Qed.
Print Assumptions C15_applies.

Theorem C15_no_dup :
  forall a rules f, NoDup (map fr_id rules) -> NoDup (map fr_id (rules_for_file a rules f)).
Proof. exact SelectProofs.C15_no_dup. Qed.
Print Assumptions C15_no_dup.

(* effective severity: per-id overrides beat bare flags; among bare flags the fixed order decides *)
Theorem C15_severity :
  forall a id yaml,
    let o := overwrite_new a in
    (forall s, slookup id (ow_by_id o) = Some s -> eff_severity o id yaml = s) /\
    (slookup id (ow_by_id o) = None -> ow_default o = None -> eff_severity o id yaml = yaml) /\
    (slookup id (ow_by_id o) = None -> forall s, ow_default o = Some s -> eff_severity o id yaml = s) /\
    ow_default o =
      (if match oa_off a with Some [] => true | _ => false end then Some SOff
       else if match oa_hint a with Some [] => true | _ => false end then Some SHint
       else if match oa_info a with Some [] => true | _ => false end then Some SInfo
       else if match oa_warning a with Some [] => true | _ => false end then Some SWarning
       else if match oa_error a with Some [] => true | _ => false end then Some SError
       else None).
Proof. exact SelectProofs.C15_severity. Qed.
Print Assumptions C15_severity.

(* no file extension belongs to two languages in the table as it is in the source NOW ... *)
Theorem C15_extensions_unique : NoDup all_extensions.
Proof. exact SelectProofs.C15_extensions_unique. Qed.
Print Assumptions C15_extensions_unique.

(* ... hence the walker's type filter selects an extension iff language detection maps it to an
   active language *)
Theorem C15_walker :
  forall langs ext,
    walker_selects langs ext = true <->
    exists l, from_extension ext = Some l /\ existsb (str_eqb l) langs = true.
Proof. exact SelectProofs.C15_walker. Qed.
Print Assumptions C15_walker.

(* exit status non-zero exactly when a reported finding belongs to a rule of effective severity error *)
Theorem C15_exit :
  forall findings, exit_nonzero findings = true <-> exists r, In r findings /\ fr_sev r = SError.
Proof. exact SelectProofs.C15_exit. Qed.
Print Assumptions C15_exit.

(* non-vacuity: --off beats --error as a bare flag; a per-id --error beats a bare --off *)
Example C15_ex :
  let a := {| oa_error := Some [[114]%N]; oa_warning := None; oa_info := None; oa_hint := None; oa_off := Some []; oa_filter := None |} in
  eff_severity (overwrite_new a) [114]%N SWarning = SError /\ eff_severity (overwrite_new a) [115]%N SWarning = SOff.
Proof. split; vm_compute; reflexivity. Qed.
Print Assumptions C15_ex.

(* "the file's language (by extension or configured language globs)": a language configured for the path
   by languageGlobs is the file's language whatever the extension table says - so a rule of the language the
   extension would give does not run there - and without a configured glob the extension decides *)
Theorem C15_language_globs :
  (forall g c b, from_path (Some g) c b = Some g) /\
  (forall b, from_path None None b = b) /\
  (forall a r globs g b,
     g <> fr_lang r ->
     applies a r {| ff_lang := from_path (Some g) None b; ff_globs := globs |} = false).
Proof.
  split; [reflexivity|]. split; [reflexivity|].
  intros a r globs g b Hne. unfold applies. cbn [from_path ff_lang].
  destruct (N.eqb g (fr_lang r)) eqn:E; [apply N.eqb_eq in E; contradiction|].
  repeat (try rewrite andb_false_r; try rewrite andb_false_l). reflexivity.
Qed.
Print Assumptions C15_language_globs.
