(* C08 — one rule, one fix: every front end proposes the same edit.
   This property lives mostly in glue, so the correspondence run carries most of the weight (the same
   rule and source through `sg scan --json`, `sg scan -U`, the `sg test -U` snapshot, the library's
   replace through a borrowed replacer, and the language server's quick-fix / fix-all, each compared
   with NodeMatch::make_edit).  What is modelled and proved is the DISPATCH: which range each front
   end's call path ends up replacing, including Rust's method resolution for `&Fixer` (the blanket
   `impl Replacer for &T` — it forwards get_replaced_range since fix) and the language server's
   `RewriteData.range.unwrap_or(diagnostic.range)` (added by fix).  Model: Rewrite/EditRange.v. *)
From Coq Require Import List NArith ZArith Bool Arith Lia.
From AG Require Import Base.Val Rewrite.EditRange.
Import ListNotations.

Record fix_edit := { fe_s : nat; fe_e : nat; fe_text : str }.

Section OneMatch.
  (* one match: node range, match length, the expansions' outcome, the generated replacement text *)
  Variables (ns ne : nat) (mlen : option nat) (xs xe : option (option (nat * nat))) (text : str).

  (* NodeMatch::make_edit(matcher, &Fixer): Fixer's own get_replaced_range *)
  Definition edit_of : fix_edit :=
    let '(s, e) := replaced_range ns ne mlen xs xe in {| fe_s := s; fe_e := e; fe_text := text |}.

  (* CLI: Diff::generate -> make_edit(&rule.matcher, fixer) for --json and for -U *)
  Definition cli_json : fix_edit := edit_of.
  Definition cli_update : fix_edit := edit_of.
  (* library: AstGrep::replace(&matcher, &fixer) -> Node::replace -> make_edit(&M, &R) with R = &Fixer:
     the blanket impl for &T forwards generate_replacement AND get_replaced_range *)
  Definition borrowed_range : nat * nat := replaced_range ns ne mlen xs xe.
  Definition lib_replace : fix_edit :=
    let '(s, e) := borrowed_range in {| fe_s := s; fe_e := e; fe_text := text |}.
  (* sg test -U: TestSnapshot::generate -> sg.replace(rule, fix) *)
  Definition snapshot_fixed : fix_edit := lib_replace.
  (* language server: RewriteData carries the replaced range only when it differs from the
     diagnostic's (= the node's) range; the code actions use range.unwrap_or(diagnostic.range) *)
  Definition lsp_data_range : option (nat * nat) :=
    let r := replaced_range ns ne mlen xs xe in
    if Nat.eqb (fst r) ns && Nat.eqb (snd r) ne then None else Some r.
  Definition lsp_edit : fix_edit :=
    let '(s, e) := match lsp_data_range with Some r => r | None => (ns, ne) end in
    {| fe_s := s; fe_e := e; fe_text := text |}.

  Theorem C08_same_edit :
    cli_json = edit_of /\ cli_update = edit_of /\ lib_replace = edit_of /\ snapshot_fixed = edit_of /\
    lsp_edit = edit_of.
  Proof.
    unfold cli_json, cli_update, snapshot_fixed, lib_replace, borrowed_range, lsp_edit, lsp_data_range, edit_of.
    repeat split.
    destruct (replaced_range ns ne mlen xs xe) as [s e] eqn:Hr. cbn [fst snd].
    destruct (Nat.eqb s ns) eqn:H1; destruct (Nat.eqb e ne) eqn:H2; cbn [andb]; try reflexivity.
    apply Nat.eqb_eq in H1. apply Nat.eqb_eq in H2. subst. reflexivity.
  Qed.
End OneMatch.
Print Assumptions C08_same_edit.

(* the defect repaired by the replacer fix, on the model: a replacer that does NOT forward the range
   (the old blanket impl) falls back to the default range and ignores the expansion *)
Example C08_unforwarded_range_differs :
  (* `[a, b, c]`: node b = [4,5), expandEnd found the "," = [5,6) *)
  replaced_range 4 5 None None (Some (Some (5, 6))) = (4, 6) /\
  replaced_range 4 5 None None None = (4, 5).
Proof. split; reflexivity. Qed.
Print Assumptions C08_unforwarded_range_differs.
