(* C16 — everything the CLI prints about a match agrees with the bytes on disk.
   Models: Front/JsonPrint.v (the JSON printer automaton over opaque documents; Node::display_context
   producing `lines` / `charCount`), Rule/Traversal.v (Content::get_char_column, used by get_range for
   every `column`).  Proofs: Front/JsonPrintProofs.v, Rule/TraversalProofs.v.
   serde_json's escaping and the clap/terminal glue are trusted; the CLI output is parsed and
   re-derived from the file bytes on every run (direct oracle) and fed through these models (tie). *)
From Coq Require Import List NArith ZArith Bool Arith Permutation.
From AG Require Import Base.Val Base.Sort Rule.Rule Rule.Traversal Rule.TraversalSpec Rule.TraversalProofs
  Front.JsonPrint Front.JsonPrintSpec Front.JsonPrintProofs.
Import ListNotations.

(* well-formed output however many files match and however their documents are grouped into buffers
   (empty buffers included): a JSON array for pretty/compact, one document per line for stream *)
Theorem C16_framing :
  forall st buffers,
    (forall b d, In b buffers -> In d b -> d <> []) ->
    run_printer st buffers = framed st (concat buffers).
Proof. exact JsonPrintProofs.C16_framing. Qed.
Print Assumptions C16_framing.

Theorem C16_framing_count :
  forall st buffers, (forall b d, In b buffers -> In d b -> d <> []) ->
    exists docs, run_printer st buffers = framed st docs /\ length docs = length (concat buffers).
Proof. exact JsonPrintProofs.C16_framing_count. Qed.
Print Assumptions C16_framing_count.

(* `lines` = the whole lines covering the match plus the requested context, clipped at the ends of
   the text; charCount.leading/trailing are the two parts around the match *)
Theorem C16_lines :
  forall src s e before after,
    s <= e -> e <= length src ->
    let d := display_context src s e before after in
    dc_lead d = lines_lo src s before /\ dc_trail d = lines_hi src e after /\
    dc_lead d <= s /\ e <= dc_trail d /\ dc_trail d <= length src /\
    (dc_lead d = 0 \/ nth_error src (dc_lead d - 1) = Some NL) /\
    (dc_trail d = length src \/ nth_error src (dc_trail d) = Some NL) /\
    N.to_nat (count_nl (firstn (s - dc_lead d) (skipn (dc_lead d) src))) = dc_offset d /\
    dc_offset d <= before.
Proof. exact JsonPrintProofs.C16_lines. Qed.
Print Assumptions C16_lines.

(* start/end: zero-based line = newlines before the offset, column = characters since the line start *)
Theorem C16_positions :
  forall src off,
    get_char_column src off = count_chars (after_last_nl (firstn off src) []) /\
    position src (N.of_nat off) = (count_nl (firstn off src), get_char_column src off).
Proof. exact TraversalProofs.C19_positions. Qed.
Print Assumptions C16_positions.

(* non-vacuity: three buffers, one of them empty, in every style; a two-line context window *)
Example C16_framing_ex :
  run_printer Compact [[[123;125]]; []; [[49]; [50]]]%N = [91; 123;125; 44; 49; 44; 50; 93; 10]%N /\
  run_printer Stream [[[123;125]]; []; [[49]; [50]]]%N = [123;125; 10; 49; 10; 50]%N /\
  run_printer Pretty [[]; []]%N = [91; 93; 10]%N /\
  display_context [97;10;98;99;10;100;10;101]%N 3 4 1 1 =
    {| dc_lead := 0; dc_trail := 6; dc_offset := 1 |}.
Proof. repeat split; vm_compute; reflexivity. Qed.
Print Assumptions C16_framing_ex.
