(* C01 — search is complete: no index or prefilter ever drops or invents a match.
   Models: Rule/Traversal.v (Pre traversal, FindAllNodes, Visit with calibrate_for_match),
   Rule/Kinds.v (potential_kinds), Rule/Scan.v (CombinedScan), Rule/Eval.v (RuleCore::do_match
   with its kind pre-check), Match/Prefilter.v (Pattern::fixed_string and the CLI's literal
   prefilter).  Proofs: Rule/TraversalProofs.v, Rule/KindsProofs.v, Rule/ScanProofs.v,
   Match/PrefilterProofs.v.  The CLI (argument parsing, file walking, printing) is tied, not proved. *)
From Coq Require Import List NArith ZArith Bool Arith.
From AG Require Import Base.Val Base.Sort Str.MetaVar Tree.Tree Tree.Wf Match.MatchNode Rule.Rule Rule.Kinds
  Rule.Traversal Rule.TraversalSpec Rule.TraversalProofs Rule.Scan Rule.ScanSpec Rule.ScanProofs
  Rule.Eval Rule.KindsSpec Rule.KindsProofs Match.Align Match.Prefilter Match.PrefilterSpec Match.PrefilterProofs.
Import ListNotations.

(* find_all = the nodes the matcher matches individually, in document order — provided kind
   dispatch is sound, which C01_kinds_sound shows for every rule *)
Theorem C01_find_all :
  forall top kinds m, ids_unique top ->
    (forall p t ks, kinds = Some ks -> get top p = Some t -> m p = true -> existsb (N.eqb (kind t)) ks = true) ->
    find_all_locs top kinds m = filter m (pre_locs_t top []).
Proof. exact TraversalProofs.C01_find_all. Qed.
Print Assumptions C01_find_all.

(* kind dispatch: whatever a rule matches has one of its potential kinds — every rule (13 operators,
   any nesting), every utility set, node, environment and fuel (after fix: an ERROR token pattern
   has no kind restriction) *)
Theorem C01_kinds_sound :
  forall fuel fuel2 c r n e m e' t,
    eval fuel c (QRule r n) e = (EFound (Some m), e') ->
    node_at c n = Some t ->
    kind_in (kind t) (pk fuel2 (c_utils c) r) = true.
Proof. exact KindsProofs.C01_kinds_sound. Qed.
Print Assumptions C01_kinds_sound.

Theorem C01_core_kinds :
  forall c r n m e' t,
    eval (eval_fuel c) c (QRule r n) empty_env = (EFound (Some m), e') ->
    node_at c n = Some t ->
    kind_in (kind t) (core_kinds c r) = true.
Proof. exact KindsProofs.C01_core_kinds. Qed.
Print Assumptions C01_core_kinds.

(* overlap-free traversal (replace_all) keeps exactly the outermost matches, in document order *)
Theorem C01_outermost :
  forall top m, ids_unique top ->
    visit_pre_all top false m = outer_t m top [] /\
    outer_t m top [] = filter (fun p => m p && no_matching_ancestor m (pre_locs_t top []) p) (pre_locs_t top []).
Proof. exact TraversalProofs.C01_outermost. Qed.
Print Assumptions C01_outermost.

Theorem C01_reentrant :
  forall top m, ids_unique top -> visit_pre_all top true m = filter m (pre_locs_t top []).
Proof. exact TraversalProofs.C01_reentrant. Qed.
Print Assumptions C01_reentrant.

(* many rules scanned together: the findings attributed to a rule are exactly the nodes it matches
   individually (minus the suppressed ones, C14), in document order — independent of which other
   rules are present *)
Theorem C01_scan :
  forall src root rules r,
    ids_unique root -> NoDup (map sr_id rules) -> In r rules -> kinds_sound root r ->
    found_of (sr_id r) (res_found (scan src root rules)) =
    map tid (filter (fun t => hit r t && negb (silenced src root (sr_id r) t)) (preorder root)).
Proof. exact ScanProofs.C01_scan. Qed.
Print Assumptions C01_scan.

(* literal prefilter.  Full statement "a file containing a match contains the pattern's fixed string"
   ([C01_prefilter_stmt], under the assumption that an unnamed token's text is determined by its
   kind) is FALSE of the faithful model under cst/smart: the matcher drops the unnamed tokens that
   directly follow an ellipsis at every strictness (skip_trivials), yet fixed_string may select one of
   them.  The witness is synthetic (a ";" after $$$ that the candidate lacks); no real grammar
   witness is known, and the correspondence run searches for one on every run. *)
Theorem C01_prefilter_refuted : ~ C01_prefilter_stmt.
Proof. exact PrefilterProofs.C01_prefilter_refuted. Qed.
Print Assumptions C01_prefilter_refuted.

(* proved: the statement for every pattern in which, under cst/smart, no unnamed token directly
   follows an ellipsis (an executable condition), and for ast/relaxed/signature without condition *)
Theorem C01_prefilter_partial :
  forall src root p t e e',
    wfb root = true -> in_source src root ->
    In t (preorder root) ->
    unnamed_by_kind src (p_node p) t ->
    C01_ellipsis_hyp p = true ->
    pattern_match src p t e = Matched e' ->
    prefilter_keeps p src = true.
Proof. exact PrefilterProofs.C01_prefilter_partial. Qed.
Print Assumptions C01_prefilter_partial.

(* non-vacuity: nested matches on  r(a(b c) d)  with m = {r's child a, and b} *)
Module Ex.
Open Scope N_scope.
Definition mk id s e cs :=
  T {| nid := id; nkind := 1; nnamed := true; ncomment := false; nmissing := false; nfld := 0; ns := s; ne := e |} cs.
Definition tr := mk 0 0 6 [mk 1 0 4 [mk 2 0 2 []; mk 3 2 4 []]; mk 4 4 6 []].
Definition m (p : loc) : bool :=
  match p with [0]%nat => true | [0; 0]%nat => true | [1]%nat => true | _ => false end.
End Ex.
Example C01_outermost_ex :
  visit_pre_all Ex.tr false Ex.m = [[0]; [1]]%nat /\ visit_pre_all Ex.tr true Ex.m = [[0]; [0;0]; [1]]%nat.
Proof. split; vm_compute; reflexivity. Qed.
Print Assumptions C01_outermost_ex.
