(* C13 — results do not depend on map order, hash seeds, repetition or file order.
   Every HashMap iteration of the modelled code is sorted before use or order-insensitive; the
   theorems are over ALL permutations (a process launch only samples one).  Models: Rule/Scan.v
   (CombinedScan::new sorts by (has fix, id)), Front/Select.v (for_path sorts by id), Tree/Tree.v
   ([sort_kv]: the constraints are walked in sorted variable order — after fix e2c7cf3), and an
   abstract model of the transformation pass (any topological order).  Proofs: Front/PermProofs.v.
   The construction-time cache of potential kinds is not part of these models (see C01's level
   note); its one order dependence (a utility reached only through nthChild.ofRule) was a genuine
   defect found by the repeated-load stream and repaired (known_findings.txt). *)
From Coq Require Import List NArith ZArith Bool Arith Permutation.
From AG Require Import Base.Val Base.Sort Tree.Tree Rule.Rule Rule.Traversal Rule.Scan Front.Select Front.PermSpec Front.PermProofs Front.Load Front.LoadSpec Front.Apply Front.ApplyProofs Rule.Kinds Rule.KCache Rule.KCacheProofs.
Import ListNotations.

(* rule files in any order (distinct ids): same dispatch order, same scan result *)
Theorem C13_sort_rules_perm :
  forall rules rules', Permutation rules rules' -> NoDup (map sr_id rules) -> sort_rules rules = sort_rules rules'.
Proof. exact PermProofs.C13_sort_rules_perm. Qed.
Print Assumptions C13_sort_rules_perm.

Theorem C13_scan_perm :
  forall src root rules rules', Permutation rules rules' -> NoDup (map sr_id rules) ->
    scan src root rules = scan src root rules'.
Proof. exact PermProofs.C13_scan_perm. Qed.
Print Assumptions C13_scan_perm.

(* which rules run on a file does not depend on the order of the rule files *)
Theorem C13_select_perm :
  forall a rules rules' f, Permutation rules rules' -> NoDup (map fr_id rules) ->
    rules_for_file a rules f = rules_for_file a rules' f.
Proof. exact PermProofs.C13_select_perm. Qed.
Print Assumptions C13_select_perm.

(* the constraints walk: any order in which the captured variables leave the hash map gives the same walk *)
Theorem C13_sort_kv_perm :
  forall (A : Type) (l l' : list (str * A)), Permutation l l' -> NoDup (map fst l) -> sort_kv l = sort_kv l'.
Proof. exact PermProofs.C13_sort_kv_perm. Qed.
Print Assumptions C13_sort_kv_perm.

(* transformations: any two admissible (topological) orders compute the same value for every key *)
Theorem C13_topo_confluence :
  forall (V : Type) (deps : nat -> list nat) (compute : nat -> (nat -> option V) -> V),
    local V deps compute ->
    forall o1 o2 e, admissible deps [] o1 -> admissible deps [] o2 -> Permutation o1 o2 ->
      (forall k, In k o1 -> e k = None) ->
      forall x, run_order V compute o1 e x = run_order V compute o2 e x.
Proof. exact PermProofs.C13_topo_confluence. Qed.
Print Assumptions C13_topo_confluence.

(* the concrete transformation pass (Front/Apply.v): whichever admissible order the loader's hash maps
   produced, the transformed variables are the same *)
Theorem C13_apply_order_independent :
  forall (compute : str -> transf -> option str -> str) ts o1 o2 e0,
    NoDup (map fst ts) ->
    (forall key t, lookup key ts = Some t -> source_var t <> None) ->
    good_order ts o1 -> good_order ts o2 -> a_trans e0 = [] ->
    (forall key, In key (map fst ts) -> lookup key (a_single e0) = None) ->
    forall key, lookup key (a_trans (apply_all compute ts o1 e0)) = lookup key (a_trans (apply_all compute ts o2 e0)).
Proof. exact ApplyProofs.C13_apply_order_independent. Qed.
Print Assumptions C13_apply_order_independent.

(* the construction-time cache of potential kinds (Rule/KCache.v): `all` / `any` compute their kind set when they
   are built, from what their sub-rules answer at that moment; a `matches` reference answers from the registry as
   it is when asked.  In the loader's order — any order in which every utility comes after the utilities it
   requires on the same node — every cache equals the answer computed in the complete registry; in ANY order it is
   never narrower (an unregistered reference answers "unknown").  So the dispatch tables do not depend on which
   topological order the hash map produced, and no order can make a rule miss a node. *)
Theorem C13_cache_exact :
  forall utils uord r,
    NoDup (map fst utils) ->
    get_order (util_depmap utils) = OrderOk uord ->
    exists n, forall f1 f2, n <= f1 -> n <= f2 ->
      same_kinds (eager f1 (kenv utils) uord (kexp_of r)) (klazy f2 (kenv utils) (kexp_of r)).
Proof. exact KCacheProofs.C13_cache_exact. Qed.
Print Assumptions C13_cache_exact.

Theorem C13_cache_wider :
  forall utils uord order r,
    NoDup (map fst utils) ->
    get_order (util_depmap utils) = OrderOk uord ->
    NoDup order -> (forall id, In id order <-> In id (map fst utils)) ->
    exists n, forall f1 f2, n <= f1 -> n <= f2 ->
      wider (eager f1 (kenv utils) order (kexp_of r)) (klazy f2 (kenv utils) (kexp_of r)).
Proof. exact KCacheProofs.C13_cache_wider. Qed.
Print Assumptions C13_cache_wider.

(* the model of potential kinds used everywhere else (Rule/Kinds.v: pk) is that lazy answer *)
Theorem C13_pk_is_lazy : forall fuel utils r, pk fuel utils r = klazy fuel (kenv utils) (kexp_of r).
Proof. exact KCacheProofs.C01_pk_is_lazy. Qed.
Print Assumptions C13_pk_is_lazy.

(* a stale order really is wider: registering A before the B and C it refers to *)
Example C13_cache_ex :
  let A := [65]%N in let B := [66]%N in let C := [67]%N in
  let utils := [ (A, RAll [RNth 0%Z 1%Z false (Some (RMatches B)); RAny [RMatches C; RKind 9]]);
                 (B, RKind 7); (C, RAll [RKind 7; RMatches B]) ] in
  get_order (util_depmap utils) = OrderOk [B; C; A]
  /\ eager 50 (kenv utils) [B; C; A] (kexp_of (RMatches A)) = Some [7]%N
  /\ eager 50 (kenv utils) [C; A; B] (kexp_of (RMatches A)) = Some [7; 9]%N
  /\ eager 50 (kenv utils) [A; B; C] (kexp_of (RMatches A)) = None.
Proof. vm_compute. repeat split; reflexivity. Qed.
Print Assumptions C13_cache_ex.

(* non-vacuity: two admissible orders of  X <- A, Y <- X, Z <- A  (keys 1,2,3; 0 is the source) *)
Example C13_topo_ex :
  let deps := fun k => match k with 1 => [0] | 2 => [1] | 3 => [0] | _ => [] end in
  admissible deps [0] [1; 2; 3] /\ admissible deps [0] [3; 1; 2] /\ Permutation [1; 2; 3] [3; 1; 2].
Proof.
  cbv zeta.
  split; [|split].
  - cbn. repeat split; try (intros d Hd; cbn in Hd; intuition (subst; cbn; auto));
      intros Hi; cbn in Hi; intuition discriminate.
  - cbn. repeat split; try (intros d Hd; cbn in Hd; intuition (subst; cbn; auto));
      intros Hi; cbn in Hi; intuition discriminate.
  - apply Permutation_sym. apply (Permutation_cons_app [1; 2] []). apply Permutation_refl.
Qed.
Print Assumptions C13_topo_ex.

(* the project's languageGlobs map: in whatever order the entries come out of the hash map (distinct names), the
   language a path gets is the same - also when several configured languages claim it (fix 86ecb80) *)
Theorem C13_language_globs_perm :
  forall regs regs' f, Permutation regs regs' -> NoDup (map fst regs) ->
    lang_globs_from_path regs f = lang_globs_from_path regs' f.
Proof.
  intros regs regs' f Hp Hnd. unfold lang_globs_from_path, registered.
  rewrite (PermProofs.C13_sort_kv_perm _ regs regs' Hp Hnd). reflexivity.
Qed.
Print Assumptions C13_language_globs_perm.

(* non-vacuity: `tsx` and `javascript` both claim glob 0; either order of the entries answers javascript (name order) *)
Example C13_language_globs_ex :
  let f := {| ff_lang := None; ff_globs := [0%N] |} in
  let js := ([106;97;118;97;115;99;114;105;112;116]%N, (0%N, [0%N])) in
  let tsx := ([116;115;120]%N, (2%N, [0%N])) in
  lang_globs_from_path [tsx; js] f = Some 0%N /\ lang_globs_from_path [js; tsx] f = Some 0%N.
Proof. vm_compute. split; reflexivity. Qed.
Print Assumptions C13_language_globs_ex.
