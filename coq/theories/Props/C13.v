(* C13 — results do not depend on map order, hash seeds, repetition or file order.
   Every HashMap iteration of the modelled code is sorted before use or order-insensitive; the
   theorems are over ALL permutations (a process launch only samples one).  Models: Rule/Scan.v
   (CombinedScan::new sorts by (has fix, id)), Front/Select.v (for_path sorts by id), Tree/Tree.v
   ([sort_kv]: the constraints are walked in sorted variable order — after fix e2c7cf3), and an
   abstract model of the transformation pass (any topological order).  Proofs: Front/PermProofs.v.
   The construction-time cache of potential kinds is not part of these models (see C01's level
   note); its one order dependence (a utility reached only through nthChild.ofRule) was a genuine
   defect found by the repeated-load stream and repaired (known_findings.txt). *)
From Coq Require Import List NArith ZArith Bool Arith Permutation.
From AG Require Import Base.Val Base.Sort Tree.Tree Rule.Rule Rule.Traversal Rule.Scan Front.Select Front.PermSpec Front.PermProofs Front.Load Front.LoadSpec Front.Apply Front.ApplyProofs.
Import ListNotations.

(* rule files in any order (distinct ids): same dispatch order, same scan result *)
Theorem C13_sort_rules_perm :
  forall rules rules', Permutation rules rules' -> NoDup (map sr_id rules) -> sort_rules rules = sort_rules rules'.
Proof. exact PermProofs.C13_sort_rules_perm. Qed.
Print Assumptions C13_sort_rules_perm.

Theorem C13_scan_perm :
  forall src root rules rules', Permutation rules rules' -> NoDup (map sr_id rules) ->
    scan src root rules = scan src root rules'.
Proof. exact PermProofs.C13_scan_perm. Qed.
Print Assumptions C13_scan_perm.

(* which rules run on a file does not depend on the order of the rule files *)
Theorem C13_select_perm :
  forall a rules rules' f, Permutation rules rules' -> NoDup (map fr_id rules) ->
    rules_for_file a rules f = rules_for_file a rules' f.
Proof. exact PermProofs.C13_select_perm. Qed.
Print Assumptions C13_select_perm.

(* the constraints walk: any order in which the captured variables leave the hash map gives the same walk *)
Theorem C13_sort_kv_perm :
  forall (A : Type) (l l' : list (str * A)), Permutation l l' -> NoDup (map fst l) -> sort_kv l = sort_kv l'.
Proof. exact PermProofs.C13_sort_kv_perm. Qed.
Print Assumptions C13_sort_kv_perm.

(* transformations: any two admissible (topological) orders compute the same value for every key *)
Theorem C13_topo_confluence :
  forall (V : Type) (deps : nat -> list nat) (compute : nat -> (nat -> option V) -> V),
    local V deps compute ->
    forall o1 o2 e, admissible deps [] o1 -> admissible deps [] o2 -> Permutation o1 o2 ->
      (forall k, In k o1 -> e k = None) ->
      forall x, run_order V compute o1 e x = run_order V compute o2 e x.
Proof. exact PermProofs.C13_topo_confluence. Qed.
Print Assumptions C13_topo_confluence.

(* the concrete transformation pass (Front/Apply.v): whichever admissible order the loader's hash maps
   produced, the transformed variables are the same *)
Theorem C13_apply_order_independent :
  forall (compute : str -> transf -> option str -> str) ts o1 o2 e0,
    NoDup (map fst ts) ->
    (forall key t, lookup key ts = Some t -> source_var t <> None) ->
    good_order ts o1 -> good_order ts o2 -> a_trans e0 = [] ->
    (forall key, In key (map fst ts) -> lookup key (a_single e0) = None) ->
    forall key, lookup key (a_trans (apply_all compute ts o1 e0)) = lookup key (a_trans (apply_all compute ts o2 e0)).
Proof. exact ApplyProofs.C13_apply_order_independent. Qed.
Print Assumptions C13_apply_order_independent.

(* non-vacuity: two admissible orders of  X <- A, Y <- X, Z <- A  (keys 1,2,3; 0 is the source) *)
Example C13_topo_ex :
  let deps := fun k => match k with 1 => [0] | 2 => [1] | 3 => [0] | _ => [] end in
  admissible deps [0] [1; 2; 3] /\ admissible deps [0] [3; 1; 2] /\ Permutation [1; 2; 3] [3; 1; 2].
Proof.
  cbv zeta.
  split; [|split].
  - cbn. repeat split; try (intros d Hd; cbn in Hd; intuition (subst; cbn; auto));
      intros Hi; cbn in Hi; intuition discriminate.
  - cbn. repeat split; try (intros d Hd; cbn in Hd; intuition (subst; cbn; auto));
      intros Hi; cbn in Hi; intuition discriminate.
  - apply Permutation_sym. apply (Permutation_cons_app [1; 2] []). apply Permutation_refl.
Qed.
Print Assumptions C13_topo_ex.
