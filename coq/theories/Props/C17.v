(* C17 — files are processed independently, whatever the thread count or schedule.
   Model: Front/Worker.v (every file yields a list of self-contained buffers; the consumer receives
   ANY interleaving of the per-file sequences, for any number of threads and any assignment of files
   to threads; a file that cannot be processed yields nothing) composed with the printer automaton
   of Front/JsonPrint.v.  Proofs: Front/WorkerProofs.v, Front/JsonPrintProofs.v.
   What the model cannot exhibit (named; sampled on every run by -j 1..16 x repeated runs x invalid
   files): that the `ignore` walker visits each file exactly once, mpsc delivery, and what a panic
   inside a walker thread does to the process. *)
From Coq Require Import List NArith ZArith Bool Arith Permutation.
From AG Require Import Base.Val Front.JsonPrint Front.JsonPrintSpec Front.JsonPrintProofs Front.Worker Front.WorkerSpec Front.WorkerProofs.
Import ListNotations.

(* any interleaving loses nothing and duplicates nothing *)
Theorem C17_interleave_perm :
  forall (A : Type) (ls : list (list A)) (out : list A), interleave ls out -> Permutation out (concat ls).
Proof. exact WorkerProofs.C17_interleave_perm. Qed.
Print Assumptions C17_interleave_perm.

(* for EVERY schedule the output is the well-formed framing of a permutation of the union over files
   of the documents obtained by processing each file alone *)
Theorem C17_union :
  forall st (files : list (list (list str))) (received : list (list str)),
    (forall f b d, In f files -> In b f -> In d b -> d <> []) ->
    interleave files received ->
    exists docs, run_printer st received = framed st docs /\
                 Permutation docs (concat (map file_docs files)).
Proof. exact WorkerProofs.C17_union. Qed.
Print Assumptions C17_union.

(* an unreadable / empty / non-UTF-8 / oversized file removes exactly its own documents *)
Theorem C17_skip :
  forall (files : list (list (list str))) i,
    i < length files ->
    exists pre f post, files = pre ++ f :: post /\ length pre = i /\
      concat (map file_docs (skip_file i files)) = concat (map file_docs pre) ++ concat (map file_docs post).
Proof. exact WorkerProofs.C17_skip. Qed.
Print Assumptions C17_skip.

(* the printer is insensitive to the order in which buffers arrive *)
Theorem C17_order_insensitive :
  forall st buffers buffers',
    Permutation buffers buffers' ->
    (forall b d, In b buffers -> In d b -> d <> []) ->
    exists docs docs', run_printer st buffers = framed st docs /\ run_printer st buffers' = framed st docs' /\
                       Permutation docs docs'.
Proof. exact JsonPrintProofs.C17_order_insensitive. Qed.
Print Assumptions C17_order_insensitive.

(* non-vacuity: two files, two interleavings *)
Example C17_ex :
  interleave [[[49]; [50]]; [[51]]]%N [[49]; [51]; [50]]%N /\ interleave [[[49]; [50]]; [[51]]]%N [[51]; [49]; [50]]%N.
Proof.
  split.
  - apply (il_step [] [49]%N [[50]%N] [[[51]%N]]). apply (il_step [[[50]%N]] [51]%N [] []).
    apply (il_step [] [50]%N [] [[]]). apply il_done. intros l [H|[H|[]]]; symmetry; exact H.
  - apply (il_step [[[49]%N; [50]%N]] [51]%N [] []). apply (il_step [] [49]%N [[50]%N] [[]]).
    apply (il_step [] [50]%N [] [[]]). apply il_done. intros l [H|[H|[]]]; symmetry; exact H.
Qed.
Print Assumptions C17_ex.
