(* C02 — code with holes matches the code it was cut from.
   Model: Match/MatchNode.v ([pattern_match] = Pattern::match_node_with_env, fuel = [match_fuel]),
   Match/Cut.v ([convert] = convert_node_to_pattern, [Cut]).  Proofs: Match/CutProofs.v.
   [mvf] is the meta-variable recogniser applied to a node's text (Language::extract_meta_var);
   every theorem holds for ALL recognisers.

   Where the side conditions live.  [Cut mvf src t p singles multis] :=
   [CutT mvf src t p singles multis] /\ all recorded names pairwise distinct.  The constructors
   CutT_leaf / CutT_int (the nodes that are kept, i.e. NOT inside a replaced subtree or run) carry
   [node_ok]: not MISSING, own text not a meta-variable spelling.  Nothing at all is assumed about
   nodes inside a replaced subtree / run.  [C02_cut_hole_free] shows that with no hole the relation
   is exactly "every node is ok and p = convert t".

   What the model binds an ellipsis to.  $$$y is bound to the RAW run r :: rs (unnamed separators
   inside the run included), and to none of the trailing unnamed tokens that follow the run: these
   are trivial goals, counted in [skipped] and cut off by agg_ellipsis.  The trailing children must
   be unnamed TOKENS (leaves): for unnamed children that have children of their own the statement
   is false of the model, see [C02_cut_run_nonleaf_trailing_refuted]. *)
From Coq Require Import List NArith Bool Arith.
From AG Require Import Base.Val Base.Sort Str.MetaVar Tree.Tree Match.MatchNode Match.Cut Match.CutProofs.
Import ListNotations.

(* (A) fuel sufficiency and self-match, any start environment, environment unchanged *)
Theorem C02_self_match :
  forall (mvf : str -> option metavar) (s : strictness) (src : str) (t : tree) (e : env),
    (forall n, In n (preorder t) -> nmissing (info n) = false) ->
    (forall n, In n (preorder t) -> mvf (text_of src n) = None) ->
    pattern_match src {| p_node := convert mvf src t; p_root_kind := None; p_strict := s |} t e
    = Matched e.
Proof. exact self_match. Qed.
Print Assumptions C02_self_match.

(* (B) full statement: holes and ellipses, every strictness, exact resulting environment *)
Theorem C02_cut_matches :
  forall (mvf : str -> option metavar) (s : strictness) (src : str) (t : tree) (p : pnode)
         (singles : list (str * tree)) (multis : list (str * list tree)),
    Cut mvf src t p singles multis ->
    exists e',
      pattern_match src {| p_node := p; p_root_kind := None; p_strict := s |} t empty_env
      = Matched e'
      /\ e' = {| m_single := singles; m_multi := multis; m_trans := [] |}
      /\ (forall x sub, In (x, sub) singles -> lookup x (m_single e') = Some sub)
      /\ (forall y run, In (y, run) multis -> lookup y (m_multi e') = Some run).
Proof. exact cut_matches. Qed.
Print Assumptions C02_cut_matches.

(* (B'), more general: any start environment in which the recorded names are unbound; the names
   of single holes need not differ from the names of ellipses (they live in different maps) *)
Theorem C02_cut_matches_env :
  forall (mvf : str -> option metavar) (s : strictness) (src : str) (t : tree) (p : pnode)
         (singles : list (str * tree)) (multis : list (str * list tree)) (e : env),
    CutT mvf src t p singles multis ->
    NoDup (map fst singles) -> (forall x, In x (map fst singles) -> lookup x (m_single e) = None) ->
    NoDup (map fst multis) -> (forall y, In y (map fst multis) -> lookup y (m_multi e) = None) ->
    pattern_match src {| p_node := p; p_root_kind := None; p_strict := s |} t e
    = Matched {| m_single := m_single e ++ singles;
                 m_multi := m_multi e ++ multis;
                 m_trans := m_trans e |}.
Proof. exact cut_matches_env. Qed.
Print Assumptions C02_cut_matches_env.

(* the relation degenerates correctly: no hole <-> every node ok and the pattern is [convert t] *)
Theorem C02_cut_hole_free :
  forall (mvf : str -> option metavar) (src : str) (t : tree) (p : pnode),
    CutT mvf src t p [] [] <-> (all_ok mvf src t /\ p = convert mvf src t).
Proof. exact cutT_nil_iff. Qed.
Print Assumptions C02_cut_hole_free.

(* [convert] is the specification of convert_node_to_pattern *)
Theorem C02_convert_spec :
  forall (mvf : str -> option metavar) (src : str) (t : tree),
    convert mvf src t =
    match mvf (text_of src t) with
    | Some mv => PMeta mv
    | None =>
        if is_leaf t then PTerm (text_of src t) (named t) (kind t)
        else PInt (kind t) (map (convert mvf src)
                                (filter (fun c => negb (nmissing (info c))) (children t)))
    end.
Proof. exact convert_eq. Qed.
Print Assumptions C02_convert_spec.

(* ------------------------------------------------------------------------------------------ *)
(* Non-vacuity: the document  f(a,b)  with the real recogniser extract_meta_var '$'.          *)
Module Ex.
Open Scope N_scope.
Definition mk id k nm s e cs :=
  T {| nid := id; nkind := k; nnamed := nm; ncomment := false; nmissing := false;
       nfld := 0; ns := s; ne := e |} cs.
Definition src : str := [102; 40; 97; 44; 98; 41].           (* f ( a , b ) *)
Definition tf := mk 1 1 true 0 1 [].                          (* identifier f *)
Definition tlp := mk 3 2 false 1 2 [].                        (* "(" *)
Definition ta := mk 4 1 true 2 3 [].                          (* identifier a *)
Definition tcm := mk 5 3 false 3 4 [].                        (* "," *)
Definition tb := mk 6 1 true 4 5 [].                          (* identifier b *)
Definition trp := mk 7 4 false 5 6 [].                        (* ")" *)
Definition targs := mk 2 11 true 1 6 [tlp; ta; tcm; tb; trp]. (* arguments *)
Definition tcall := mk 0 10 true 0 6 [tf; targs].             (* call_expression *)
Definition mvf := extract_meta_var DOLLAR.
Definition X : str := [88].
Definition Y : str := [89].
Definition pat s p := {| p_node := p; p_root_kind := None; p_strict := s |}.
Definition all5 := [Cst; Smart; Ast; Relaxed; Signature].

(* $X($$$Y)  — a hole on the callee, an ellipsis over  a , b  followed by the token ")" *)
Definition p_holes :=
  PInt 10 [PMeta (Capture X true);
           PInt 11 [PTerm [40] false 2; PMeta (MultiCapture Y); PTerm [41] false 4]].
(* f(a, $$$Y)  — the run  b )  ends the list: the ellipsis is the last goal *)
Definition p_last :=
  PInt 10 [PTerm [102] true 1;
           PInt 11 [PTerm [40] false 2; PTerm [97] true 1; PTerm [44] false 3;
                    PMeta (MultiCapture Y)]].
End Ex.
Import Ex.

Example C02_self_match_nonvacuous :
  (forall n, In n (preorder tcall) -> nmissing (info n) = false) /\
  (forall n, In n (preorder tcall) -> mvf (text_of src n) = None) /\
  convert mvf src tcall =
    PInt 10 [PTerm [102] true 1;
             PInt 11 [PTerm [40] false 2; PTerm [97] true 1; PTerm [44] false 3;
                      PTerm [98] true 1; PTerm [41] false 4]]%N /\
  map (fun s => pattern_match src (pat s (convert mvf src tcall)) tcall empty_env) all5
  = map (fun _ => Matched empty_env) all5.
Proof.
  split; [|split; [|split]].
  - intros n Hn. vm_compute in Hn.
    repeat (destruct Hn as [Hn|Hn]; [subst n; reflexivity|]). destruct Hn.
  - intros n Hn. vm_compute in Hn.
    repeat (destruct Hn as [Hn|Hn]; [subst n; vm_compute; reflexivity|]). destruct Hn.
  - vm_compute. reflexivity.
  - vm_compute. reflexivity.
Qed.
Print Assumptions C02_self_match_nonvacuous.

Example C02_cut_nonvacuous :
  Cut mvf src tcall p_holes [(X, tf)] [(Y, [ta; tcm; tb])] /\
  map (fun s => pattern_match src (pat s p_holes) tcall empty_env) all5
  = map (fun _ => Matched {| m_single := [(X, tf)]; m_multi := [(Y, [ta; tcm; tb])];
                             m_trans := [] |}) all5.
Proof.
  split; [split|].
  - apply (CutT_int mvf src tcall _ [(X, tf)] [(Y, [ta; tcm; tb])]);
      [discriminate|split; vm_compute; reflexivity|].
    apply (CutL_cons mvf src tf [targs] _ _ [(X, tf)] [] [] [(Y, [ta; tcm; tb])]).
    + apply CutT_hole. reflexivity.
    + apply (CutL_cons mvf src targs [] _ _ [] [(Y, [ta; tcm; tb])] [] []); [|apply CutL_nil].
      apply (CutT_int mvf src targs _ [] [(Y, [ta; tcm; tb])]);
        [discriminate|split; vm_compute; reflexivity|].
      apply (CutL_cons mvf src tlp [ta; tcm; tb; trp] _ _ [] [] [] [(Y, [ta; tcm; tb])]).
      * apply (CutT_leaf mvf src tlp); [reflexivity|split; vm_compute; reflexivity].
      * apply (CutL_run mvf src ta [tcm; tb] [trp] Y); [reflexivity|].
        constructor; [|constructor].
        split; [reflexivity|split; [reflexivity|split; vm_compute; reflexivity]].
  - vm_compute. repeat constructor; intros H; vm_compute in H;
      repeat (destruct H as [H|H]; [discriminate|]); destruct H.
  - vm_compute. reflexivity.
Qed.
Print Assumptions C02_cut_nonvacuous.

Example C02_cut_last_nonvacuous :
  Cut mvf src tcall p_last [] [(Y, [tb; trp])] /\
  map (fun s => pattern_match src (pat s p_last) tcall empty_env) all5
  = map (fun _ => Matched {| m_single := []; m_multi := [(Y, [tb; trp])]; m_trans := [] |}) all5.
Proof.
  split; [split|].
  - apply (CutT_int mvf src tcall _ [] [(Y, [tb; trp])]);
      [discriminate|split; vm_compute; reflexivity|].
    apply (CutL_cons mvf src tf [targs] _ _ [] [] [] [(Y, [tb; trp])]).
    + apply (CutT_leaf mvf src tf); [reflexivity|split; vm_compute; reflexivity].
    + apply (CutL_cons mvf src targs [] _ _ [] [(Y, [tb; trp])] [] []); [|apply CutL_nil].
      apply (CutT_int mvf src targs _ [] [(Y, [tb; trp])]);
        [discriminate|split; vm_compute; reflexivity|].
      apply (CutL_cons mvf src tlp [ta; tcm; tb; trp] _ _ [] [] [] [(Y, [tb; trp])]).
      * apply (CutT_leaf mvf src tlp); [reflexivity|split; vm_compute; reflexivity].
      * apply (CutL_cons mvf src ta [tcm; tb; trp] _ _ [] [] [] [(Y, [tb; trp])]).
        { apply (CutT_leaf mvf src ta); [reflexivity|split; vm_compute; reflexivity]. }
        apply (CutL_cons mvf src tcm [tb; trp] _ _ [] [] [] [(Y, [tb; trp])]).
        { apply (CutT_leaf mvf src tcm); [reflexivity|split; vm_compute; reflexivity]. }
        apply (CutL_run mvf src tb [trp] [] Y); [reflexivity|constructor].
  - vm_compute. repeat constructor. intros [].
  - vm_compute. reflexivity.
Qed.
Print Assumptions C02_cut_last_nonvacuous.

(* a hole at the root *)
Example C02_cut_root_nonvacuous :
  Cut mvf src tcall (PMeta (Capture X true)) [(X, tcall)] [] /\
  map (fun s => pattern_match src (pat s (PMeta (Capture X true))) tcall empty_env) all5
  = map (fun _ => Matched {| m_single := [(X, tcall)]; m_multi := []; m_trans := [] |}) all5.
Proof.
  split; [split|].
  - apply CutT_hole. reflexivity.
  - vm_compute. repeat constructor. intros [].
  - vm_compute. reflexivity.
Qed.
Print Assumptions C02_cut_root_nonvacuous.

(* ------------------------------------------------------------------------------------------ *)
(* Refuted generalisations (why [Cut] is shaped the way it is).                               *)

(* 1. Trailing unnamed children that are NOT tokens.  Document  a;;  =  P[ A  U1[;]  U2[;] ],
      U1/U2 unnamed with one token child.  Cutting the run  A U1  (followed only by the unnamed
      U2) gives  P[ $$$Y  convert U2 ].  The goal after the ellipsis is not trivial, so the
      look-ahead loop runs and stops at U1 already: Cst does not match, Smart matches but binds
      Y to [A] instead of [A; U1]. *)
Module Ex2.
Open Scope N_scope.
Definition src2 : str := [97; 59; 59].
Definition A := mk 1 1 true 0 1 [].
Definition U1 := mk 2 5 false 1 2 [mk 3 6 false 1 2 []].
Definition U2 := mk 4 5 false 2 3 [mk 5 6 false 2 3 []].
Definition P := mk 0 20 true 0 3 [A; U1; U2].
Definition p_bad := PInt (kind P) [PMeta (MultiCapture Y); convert mvf src2 U2].
End Ex2.
Import Ex2.

Example C02_cut_run_nonleaf_trailing_refuted :
  exists (src : str) (t r u : tree) (rs : list tree) (y : str),
    all_ok mvf src t /\ children t = (r :: rs) ++ [u] /\ named r = true /\ named u = false /\
    let p := PInt (kind t) [PMeta (MultiCapture y); convert mvf src u] in
    pattern_match src (pat Cst p) t empty_env = Unmatched /\
    exists e', pattern_match src (pat Smart p) t empty_env = Matched e' /\
               lookup y (m_multi e') = Some [r] /\ rs <> [].
Proof.
  exists src2, P, A, U2, [U1], Y.
  split; [|split; [reflexivity|split; [reflexivity|split; [reflexivity|]]]].
  - intros n Hn. vm_compute in Hn.
    repeat (destruct Hn as [Hn|Hn]; [subst n; split; vm_compute; reflexivity|]). destruct Hn.
  - cbv zeta. split; [vm_compute; reflexivity|].
    eexists. split; [vm_compute; reflexivity|]. split; [vm_compute; reflexivity|discriminate].
Qed.
Print Assumptions C02_cut_run_nonleaf_trailing_refuted.

(* 2. A hole at an UNNAMED position never matches: Capture _ true only binds named candidates.
      Here "(" of  f(a,b)  is replaced by $X. *)
Example C02_hole_unnamed_refuted :
  let p := PInt 10 [PTerm [102] true 1;
                    PInt 11 [PMeta (Capture X true); PTerm [97] true 1; PTerm [44] false 3;
                             PTerm [98] true 1; PTerm [41] false 4]]%N in
  map (fun s => pattern_match src (pat s p) tcall empty_env) all5 = map (fun _ => Unmatched) all5.
Proof. vm_compute. reflexivity. Qed.
Print Assumptions C02_hole_unnamed_refuted.

(* 3. A run that is NOT a suffix (a named goal follows the ellipsis).  f($$$Y, $X) cut from
      f(a,b) with Y |-> [a], X |-> b: the look-ahead tries $X on  a  first, succeeds, and the
      ellipsis is closed empty; the rest then fails.  No strictness matches. *)
Example C02_run_not_suffix_refuted :
  let p := PInt 10 [PTerm [102] true 1;
                    PInt 11 [PTerm [40] false 2; PMeta (MultiCapture Y); PTerm [44] false 3;
                             PMeta (Capture X true); PTerm [41] false 4]]%N in
  map (fun s => pattern_match src (pat s p) tcall empty_env) all5 = map (fun _ => Unmatched) all5.
Proof. vm_compute. reflexivity. Qed.
Print Assumptions C02_run_not_suffix_refuted.
