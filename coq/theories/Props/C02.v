(* C02 — placeholder obligation until Match/CutProofs.v lands (self-match and cut theorems). *)
From Coq Require Import List NArith ZArith Bool.
From AG Require Import Base.Val Str.MetaVar Tree.Tree Match.MatchNode.
Import ListNotations.

(* a leaf pattern token matches a leaf of the same kind and text at every strictness level *)
Theorem C02_leaf_self : forall s src text nm k c,
  kind c = k -> text_of src c = text ->
  st_match_terminal s src nm text k c = MatchedBoth.
Proof.
  intros s src text nm k c Hk Ht. unfold st_match_terminal, kinds_matching.
  rewrite Hk, N.eqb_refl. cbn [orb andb].
  assert (R : forall l, Base.Sort.str_eqb l l = true).
  { intros l. induction l as [|x l IH]; cbn; [reflexivity|]. rewrite N.eqb_refl, IH. reflexivity. }
  assert (E : Base.Sort.str_eqb text (text_of src c) = true) by (rewrite Ht; apply R).
  rewrite E, orb_true_r. reflexivity.
Qed.
Print Assumptions C02_leaf_self.
