(* Single entry point of the executable model: [run_case fid input].
   The extracted OCaml driver and the in-Coq replays both call only this. *)
From Coq Require Import List ZArith NArith Bool.
From AG Require Import Base.Val Base.Sort Str.MetaVar Str.AnB Str.Substring
  Rewrite.Indent Rewrite.Template Tree.Tree Tree.Wf Match.MatchNode Match.Prefilter Rule.Rule Rule.Kinds Rule.Traversal Rule.Scan Rule.ScanView Rule.Eval Rule.Sem Rewrite.Splice Rewrite.EditDoc Front.JsonPrint Front.Lsp Front.Select Front.Load Str.Case Front.Apply.
Import ListNotations.
Local Open Scope Z_scope.

Definition g_range (v : val) : nat * nat := (gNat (gNth 0 v), gNat (gNth 1 v)).

Definition g_tenv (v : val) : tenv :=
  {| e_single := gList (fun p => (gS (gNth 0 p), g_range (gNth 1 p))) (gNth 0 v);
     e_multi := gList (fun p => (gS (gNth 0 p), gList g_range (gNth 1 p))) (gNth 1 v);
     e_trans := gList (fun p => (gS (gNth 0 p), gS (gNth 1 p))) (gNth 2 v) |}.

Definition FUEL_ERR : val := vErr [102;117;101;108]%N.   (* "fuel" *)

Definition case_pattern_match (v : val) : val :=
  let src := gS (gNth 0 v) in
  let d := vdepth v in
  let t := g_tree d (gNth 1 v) in
  let p := g_pattern d (gNth 2 v) in
  match pattern_match src p t empty_env with
  | Matched e => VL [VZ 0; v_env e]
  | Unmatched => VL [VZ 1]
  | OutOfFuel => FUEL_ERR
  end.

Definition case_match_len (v : val) : val :=
  let src := gS (gNth 0 v) in
  let d := vdepth v in
  let t := g_tree d (gNth 1 v) in
  let p := g_pattern d (gNth 2 v) in
  match match_len src p t with
  | LenSome n => VL [vN n]
  | LenNone => VL []
  | LenFuel => FUEL_ERR
  end.

(* 20: (src tree rule-object utils constraints (node ids to try)) ->
       per node: (0 found-id env) | (1) no match *)
Definition v_loc_id (c : ctx) (l : loc) : val := vN (loc_id c l).

Definition case_rule_match (v : val) : val :=
  let d := vdepth v in
  let root := g_tree d (gNth 1 v) in
  let c := {| c_src := gS (gNth 0 v); c_root := root;
              c_utils := gList (fun p => (gS (gNth 0 p), g_rule d (gNth 1 p))) (gNth 3 v) |} in
  let r := g_rule d (gNth 2 v) in
  let cons := gList (fun p => (gS (gNth 0 p), g_rule d (gNth 1 p))) (gNth 4 v) in
  let want := gList gN (gNth 5 v) in
  let locs := id_locs root in
  VL (map (fun nid =>
        match find (fun p => N.eqb (fst p) nid) locs with
        | None => vErr []
        | Some (_, l) =>
            match core_match c r cons l with
            | CMatch m e => VL [VZ 0; v_loc_id c m; v_env e]
            | CNoMatch => VL [VZ 1]
            | CFuel => FUEL_ERR
            end
        end) want).

(* 100 (oracle): same input as 20 -> per node 1/0 by the reference semantics [sem] *)
Definition case_rule_sem (v : val) : val :=
  let d := vdepth v in
  let root := g_tree d (gNth 1 v) in
  let c := {| c_src := gS (gNth 0 v); c_root := root;
              c_utils := gList (fun p => (gS (gNth 0 p), g_rule d (gNth 1 p))) (gNth 3 v) |} in
  let r := g_rule d (gNth 2 v) in
  let want := gList gN (gNth 5 v) in
  let locs := id_locs root in
  VL (map (fun nid =>
        match find (fun p => N.eqb (fst p) nid) locs with
        | None => vErr []
        | Some (_, l) =>
            match sem_top c r l with
            | Some b => vB b
            | None => FUEL_ERR
            end
        end) want).

(* 12: does_node_match_exactly through MetaVarEnv::insert twice:
       (src tree ((x y) ...)) -> per pair 1/0 *)
Definition case_exact (v : val) : val :=
  let d := vdepth v in
  let root := g_tree d (gNth 1 v) in
  let src := gS (gNth 0 v) in
  let nodes := preorder root in
  let byid (i : N) := find (fun t => N.eqb (tid t) i) nodes in
  VL (map (fun p =>
        match byid (gN (gNth 0 p)), byid (gN (gNth 1 p)) with
        | Some x, Some y => vB (exact src x y)
        | _, _ => vErr []
        end) (gL (gNth 2 v))).

(* ---- C19 / C01: traversal and navigation on a dumped tree ---- *)
Definition ids_of (top : tree) (ls : list loc) : val :=
  VL (map (fun l => match get top l with Some t => vN (tid t) | None => vErr [] end) ls).
Definition sub_at_in (locs : list (N * loc)) (root : tree) (id : N) : option (loc * tree) :=
  match find (fun p => N.eqb (fst p) id) locs with
  | Some (_, l) => match get root l with Some t => Some (l, t) | None => None end
  | None => None
  end.
Definition sub_at (root : tree) (id : N) : option (loc * tree) := sub_at_in (id_locs root) root id.

(* 30: (tree start-id) -> (pre post level) node ids of the traversals started at that node *)
Definition case_traversals (v : val) : val :=
  let root := g_tree (vdepth v) (gNth 0 v) in
  match sub_at root (gN (gNth 1 v)) with
  | None => vErr []
  | Some (_, top) => VL [ids_of top (dfs top); ids_of top (post_all top); ids_of top (level_all top)]
  end.

(* 31: (src tree (ids)) -> per node: (parent children ancestors next prev next_all prev_all
       (start line col) (end line col) wf-flags) *)
Definition case_navigation (v : val) : val :=
  let src := gS (gNth 0 v) in
  let root := g_tree (vdepth v) (gNth 1 v) in
  let locs := id_locs root in
  VL (map (fun idv =>
        match sub_at_in locs root (gN idv) with
        | None => vErr []
        | Some (l, t) =>
            let pos (off : N) := VL [vN (count_nl (firstn (N.to_nat off) src)); vN (get_char_column src (N.to_nat off))] in
            (* the sibling clause is restricted to parents all of whose children have non-zero width
               (tree-sitter's own sibling links disagree about zero-width recovery nodes) *)
            let sib_ok := match parent_loc l with
                          | None => true
                          | Some pl => match get root pl with
                                       | Some par => forallb (fun c => N.ltb (tstart c) (tend c)) (children par)
                                       | None => true
                                       end
                          end in
            let sib (x : val) := if sib_ok then x else VL [] in
            VL [ vOpt (fun q => ids_of root [q]) (parent_loc l);
                 ids_of root (child_locs root l);
                 ids_of root (ancestors l);
                 sib (vOpt (fun q => ids_of root [q]) (next_loc root l));
                 sib (vOpt (fun q => ids_of root [q]) (prev_loc root l));
                 sib (ids_of root (next_all root l));
                 sib (ids_of root (prev_all root l));
                 pos (tstart t); pos (tend t) ]
        end) (gL (gNth 2 v))).

(* 32: (tree start-id reentrant (matching ids)) -> ids reported by Visitor over Pre *)
Definition case_visit (v : val) : val :=
  let root := g_tree (vdepth v) (gNth 0 v) in
  match sub_at root (gN (gNth 1 v)) with
  | None => vErr []
  | Some (_, top) =>
      let hits := gList gN (gNth 3 v) in
      let m (l : loc) := match get top l with Some t => existsb (N.eqb (tid t)) hits | None => false end in
      ids_of top (visit_pre_all top (gB (gNth 2 v)) m)
  end.

(* 33: (tree start-id (opt kinds) (matching ids)) -> ids reported by find_all *)
Definition case_find_all (v : val) : val :=
  let root := g_tree (vdepth v) (gNth 0 v) in
  match sub_at root (gN (gNth 1 v)) with
  | None => vErr []
  | Some (_, top) =>
      let hits := gList gN (gNth 3 v) in
      let m (l : loc) := match get top l with Some t => existsb (N.eqb (tid t)) hits | None => false end in
      ids_of top (find_all_locs top (gOpt (gList gN) (gNth 2 v)) m)
  end.

(* 34: tree -> well-formedness flags (wfb nonzero_width) evaluated on every dumped tree *)
Definition case_wf (v : val) : val :=
  let root := g_tree (vdepth v) (gNth 0 v) in
  VL [vB (wfb root); vB (nonzero_widthb root)].

(* 35: same input as 20 -> potential kinds of the rule: () = any kind | ((sorted kinds)) *)
Fixpoint insert_n (x : N) (l : list N) : list N :=
  match l with
  | [] => [x]
  | y :: r => if N.ltb x y then x :: l else if N.eqb x y then l else y :: insert_n x r
  end.
Definition sort_n (l : list N) : list N := fold_right insert_n [] l.
Definition case_kinds (v : val) : val :=
  let d := vdepth v in
  let root := g_tree d (gNth 1 v) in
  let c := {| c_src := gS (gNth 0 v); c_root := root;
              c_utils := gList (fun p => (gS (gNth 0 p), g_rule d (gNth 1 p))) (gNth 3 v) |} in
  vOpt (fun ks => VL (map vN (sort_n ks))) (core_kinds c (g_rule d (gNth 2 v))).

(* 36: (src tree ((id has_fix (opt kinds) (hit ids)) ...)) -> (((rule id) (node ids)) ... sorted by rule, (unused comment ids)) *)
Definition case_scan (v : val) : val :=
  let src := gS (gNth 0 v) in
  let root := g_tree (vdepth v) (gNth 1 v) in
  let rules := gList (fun r => {| sr_id := gS (gNth 0 r); sr_fix := gB (gNth 1 r);
                                  sr_kinds := gOpt (gList gN) (gNth 2 r); sr_hits := gList gN (gNth 3 r) |}) (gNth 2 v) in
  let res := scan src root rules in
  let ids := sort_dedup (map sr_id rules) in
  VL [ VL (flat_map (fun rid => match found_of rid (res_found res) with
                                | [] => []
                                | l => [VL [VS rid; VL (map vN l)]]
                                end) ids);
       VL (map vN (res_unused res)) ].

(* 53: same input as 36, the view with separate_fix = true ->
   (((rule id) (node ids)) ... matches sorted by rule, ((rule id) node id) ... diffs in delivery order) *)
Definition case_scan_view (v : val) : val :=
  let src := gS (gNth 0 v) in
  let root := g_tree (vdepth v) (gNth 1 v) in
  let rules := gList (fun r => {| sr_id := gS (gNth 0 r); sr_fix := gB (gNth 1 r);
                                  sr_kinds := gOpt (gList gN) (gNth 2 r); sr_hits := gList gN (gNth 3 r) |}) (gNth 2 v) in
  let vw := into_view root rules true (scan src root rules) in
  let ids := sort_dedup (map sr_id rules) in
  VL [ VL (flat_map (fun rid => match found_of rid (v_matches vw) with
                                | [] => []
                                | l => [VL [VS rid; VL (map vN l)]]
                                end) ids);
       VL (map (fun p => VL [VS (fst p); vN (snd p)]) (v_diffs vw)) ].

(* 48: rule-document acceptance.  doc = (core (opt ((id core) ...)) ((global-id (opt kinds)) ...));
   core = (rule ((name rule) ...) ((var rule) ...) (opt ((key source (rewriter ids)) ...)) (opt (template ((rule stop) ...))))
   -> (0) accepted | (1 kind) | (1 10 kind-inside-the-rewriter) *)
Definition g_stop (d : nat) (s : val) : stopby :=
  match gZ (gNth 0 s) with
  | 0%Z => SNeighbor
  | 1%Z => SEnd
  | _ => SRule (g_rule d (gNth 1 s))
  end.
Definition g_core (d : nat) (v : val) : core :=
  let named (x : val) := gList (fun p => (gS (gNth 0 p), g_rule d (gNth 1 p))) x in
  {| k_rule := g_rule d (gNth 0 v);
     k_utils := named (gNth 1 v);
     k_cons := named (gNth 2 v);
     k_trans := gOpt (gList (fun t => (gS (gNth 0 t), {| tf_source := gS (gNth 1 t); tf_rewriters := gList gS (gNth 2 t) |}))) (gNth 3 v);
     k_fix := gOpt (fun f => {| fx_template := gS (gNth 0 f);
                                fx_expansions := gList (fun x => (g_rule d (gNth 0 x), g_stop d (gNth 1 x))) (gNth 1 f) |}) (gNth 4 v) |}.
Fixpoint lerr_code (e : lerr) : list val :=
  match e with
  | ECyclicUtil _ => [VZ 1]
  | EUndefinedUtil _ => [VZ 2]
  | EUndefVarCons _ => [VZ 3]
  | EAlreadyDefined _ => [VZ 4]
  | EUndefVarTrans _ => [VZ 5]
  | ECyclicTrans _ => [VZ 6]
  | EMalformedVar _ => [VZ 7]
  | EUndefVarFix _ => [VZ 8]
  | ENoFixInRewriter _ => [VZ 9]
  | ERewriter _ e' => VZ 10 :: lerr_code e'
  | EUndefRewriter _ => [VZ 11]
  | ENoKinds => [VZ 12]
  | EFuelOut => [VZ 99]
  end.
Definition case_load (v : val) : val :=
  let d := vdepth v in
  let doc := {| d_core := g_core d (gNth 0 v);
                d_rewriters := gOpt (gList (fun p => (gS (gNth 0 p), g_core d (gNth 1 p)))) (gNth 1 v);
                d_globals := gList (fun g => (gS (gNth 0 g), gOpt (gList gN) (gNth 1 g))) (gNth 2 v) |} in
  match load doc with
  | LOk _ => VL [VZ 0]
  | LErr e => VL (VZ 1 :: lerr_code e)
  end.
(* 49: ((key (deps...)) ...) -> TopologicalSort::get_order: (0) | (1)   (the order itself and the key named
       depend on hash-map iteration in the implementation; what they satisfy is C12_topo_sound / _complete) *)
Definition case_topo (v : val) : val :=
  match get_order (gList (fun p => (gS (gNth 0 p), gList gS (gNth 1 p))) v) with
  | OrderOk _ => VL [VZ 0]
  | OrderCycle _ => VL [VZ 1]
  | OrderFuel => FUEL_ERR
  end.
(* 50: ((id core) ...) -> parse_global_utils' ordering of global utility rules: (0) | (1) *)
Definition case_globals (v : val) : val :=
  let d := vdepth v in
  match get_order (global_depmap (gList (fun p => (gS (gNth 0 p), g_core d (gNth 1 p))) v)) with
  | OrderOk _ => VL [VZ 0]
  | OrderCycle _ => VL [VZ 1]
  | OrderFuel => FUEL_ERR
  end.

(* 51: (((cp up lo) ...) (opt (separator ids))) -> the byte ranges `split` slices: (0 ((a b) ...)) | (1) panic;
       separator ids: 0 caseChange, 1 dash, 2 dot, 3 slash, 4 space, 5 underscore *)
Definition case_split (v : val) : val :=
  let s := gList (fun c => {| cp := gN (gNth 0 c); up := gB (gNth 1 c); lo := gB (gNth 2 c) |}) (gNth 0 v) in
  let gsep (x : val) : sep := match gZ x with 0%Z => CaseChange | 1%Z => Dash | 2%Z => Dot | 3%Z => Slash | 4%Z => Space | _ => Underscore end in
  match Case.split s (gOpt (gList gsep) (gNth 1 v)) with
  | Some rs => VL [VZ 0; VL (map (fun r => VL [vNat (fst r); vNat (snd r)]) rs)]
  | None => VL [VZ 1]
  end.

(* 52: ((single (name text) ...) (multi (name text) ...) ((key source (opt startChar) (opt endChar)) ...))
       -> (0 ((key value) ... by key)) : the transformed variables after the pass over the loader's order, every
       transformation a `substring` (texts are code-point strings); (1) when the transformations are cyclic *)
Definition case_apply (v : val) : val :=
  let caps (x : val) := gList (fun p => (gS (gNth 0 p), gS (gNth 1 p))) x in
  let e0 := {| a_single := caps (gNth 0 v); a_multi := caps (gNth 1 v); a_trans := [] |} in
  let raw := gL (gNth 2 v) in
  let ts := map (fun t => (gS (gNth 0 t), {| tf_source := gS (gNth 1 t); tf_rewriters := [] |})) raw in
  let params (key : str) :=
    match find (fun t => str_eqb (gS (gNth 0 t)) key) raw with
    | Some t => (gOpt gZ (gNth 2 t), gOpt gZ (gNth 3 t))
    | None => (None, None)
    end in
  let compute (key : str) (_ : transf) (o : option str) : str :=
    match o with
    | Some s => let '(a, b) := params key in substring s a b
    | None => []
    end in
  match get_order (trans_depmap ts) with
  | OrderOk ord =>
      VL [VZ 0; VL (map (fun p => VL [VS (fst p); VS (snd p)]) (sort_kv (a_trans (apply_all compute ts ord e0))))]
  | _ => VL [VZ 1]
  end.

Definition run_case (fid : Z) (v : val) : val :=
  match fid with
  | 1 => v_metavar (extract_meta_var (gN (gNth 0 v)) (gS (gNth 1 v)))
  | 2 => VS (pre_process_pattern (gN (gNth 0 v)) (gS (gNth 1 v)))
  | 3 => let ex := gN (gNth 0 v) in
         let pre := pre_process_pattern ex (gS (gNth 1 v)) in
         VL [VS pre; v_metavar (extract_meta_var ex pre)]
  | 4 => anb_case (gS (gNth 0 v)) (gNat (gNth 1 v))
  | 5 => VL [VZ 0; VS (substring (gS (gNth 0 v)) (gOpt gZ (gNth 1 v)) (gOpt gZ (gNth 2 v)))]
  | 6 => VL (map VS (sort_dedup (used_vars (create_template DOLLAR [] (gS (gNth 0 v))))))
  (* 7: doc, match start, env, transform names, template -> replacement bytes *)
  | 7 => VS (generate_replacement (gS (gNth 0 v)) (gNat (gNth 1 v)) (g_tenv (gNth 2 v))
               (create_template DOLLAR (gList gS (gNth 3 v)) (gS (gNth 4 v))))
  (* 8: insert_transformation: doc, start of the source variable's node (option), slice -> stored bytes *)
  | 8 => VS (match gOpt gNat (gNth 1 v) with
             | Some st => formatted_slice (gS (gNth 0 v)) st (gS (gNth 2 v))
             | None => gS (gNth 2 v)
             end)
  | 10 => case_pattern_match v
  | 11 => case_match_len v
  | 12 => case_exact v
  | 20 => case_rule_match v
  | 30 => case_traversals v
  | 31 => case_navigation v
  | 32 => case_visit v
  | 33 => case_find_all v
  | 34 => case_wf v
  | 35 => case_kinds v
  | 36 => case_scan v
  | 53 => case_scan_view v
  | 48 => case_load v
  | 49 => case_topo v
  | 50 => case_globals v
  | 51 => case_split v
  | 52 => case_apply v
  (* 41: (src start end before after) -> display_context: (leading-start trailing-end lines-above) *)
  | 41 => let d := display_context (gS (gNth 0 v)) (gNat (gNth 1 v)) (gNat (gNth 2 v)) (gNat (gNth 3 v)) (gNat (gNth 4 v)) in
          VL [vNat (dc_lead d); vNat (dc_trail d); vNat (dc_offset d)]
  (* 43: (old-text ((start end replacement) ...)) -> update_file: (0 (opt new-text) count) | (1) panic *)
  | 43 => let ds := gList (fun d => {| ed_s := gNat (gNth 0 d); ed_e := gNat (gNth 1 d); ed_text := gS (gNth 2 d) |}) (gNth 1 v) in
          match update_file (gS (gNth 0 v)) ds with
          | (Done o, n) => VL [VZ 0; vOpt VS o; vNat n]
          | (Panic, _) => VL [VZ 1]
          end
  (* 44: (src pos del ins) -> accept_edit: (0 new-text (start old_end new_end) (sp) (oep) (nep)) | (1) *)
  | 44 => match accept_edit (gS (gNth 0 v)) {| le_pos := gNat (gNth 1 v); le_del := gNat (gNth 2 v); le_ins := gS (gNth 3 v) |} with
          | Done (new, ie) =>
              let pt (p : N * N) := VL [vN (fst p); vN (snd p)] in
              VL [VZ 0; VS new; VL [vNat (ie_start ie); vNat (ie_old_end ie); vNat (ie_new_end ie)];
                  pt (ie_start_pos ie); pt (ie_old_end_pos ie); pt (ie_new_end_pos ie)]
          | Panic => VL [VZ 1]
          end
  (* 46: ((kind uri version text) ...) -> per uri 0,1: (version text) last published if the document is open, else () *)
  | 46 => let hist := gList (fun n => match gZ (gNth 0 n) with
                                      | 0%Z => NOpen (gN (gNth 1 n)) (gZ (gNth 2 n)) (gN (gNth 3 n))
                                      | 1%Z => NChange (gN (gNth 1 n)) (gZ (gNth 2 n)) (gN (gNth 3 n))
                                      | _ => NClose (gN (gNth 1 n))
                                      end) (gNth 0 v) in
          let s := lsp_run hist in
          VL (map (fun u => match aget u (ls_docs s), aget u (ls_pub s) with
                            | Some _, Some (pv, pt) => VL [VZ pv; vN pt]
                            | _, _ => VL []
                            end) [0%N; 1%N])
  (* 47: (args rules files) -> per file: (sorted ids of the rules applied) and the effective severities;
         args = ((opt ids) x5 (opt filter-ids)); rule = (id lang sev (opt globs) (opt globs)); file = ((opt builtin lang by extension) (matching globs, those of languageGlobs included));
         4th component: the languageGlobs entries (name lang (glob ids)) *)
  | 47 => let gsev (z : Z) := match z with 0%Z => SError | 1%Z => SWarning | 2%Z => SInfo | 3%Z => SHint | _ => SOff end in
          let vsev (s : sev) := VZ (match s with SError => 0 | SWarning => 1 | SInfo => 2 | SHint => 3 | SOff => 4 end) in
          let a := gNth 0 v in
          let oa := {| oa_error := gOpt (gList gS) (gNth 0 a); oa_warning := gOpt (gList gS) (gNth 1 a); oa_info := gOpt (gList gS) (gNth 2 a);
                       oa_hint := gOpt (gList gS) (gNth 3 a); oa_off := gOpt (gList gS) (gNth 4 a); oa_filter := gOpt (gList gS) (gNth 5 a) |} in
          let rules := gList (fun r => {| fr_id := gS (gNth 0 r); fr_lang := gN (gNth 1 r); fr_sev := gsev (gZ (gNth 2 r));
                                          fr_files := gOpt (gList gN) (gNth 3 r); fr_ignores := gOpt (gList gN) (gNth 4 r) |}) (gNth 1 v) in
          let regs := gList (fun e => (gS (gNth 0 e), (gN (gNth 1 e), gList gN (gNth 2 e)))) (gNth 3 v) in
          VL (map (fun f => let ff0 := {| ff_lang := None; ff_globs := gList gN (gNth 1 f) |} in
                            let ff := {| ff_lang := from_path (lang_globs_from_path regs ff0) None (gOpt gN (gNth 0 f)); ff_globs := gList gN (gNth 1 f) |} in
                            VL (map (fun r => VL [VS (fr_id r); vsev (fr_sev r)]) (rules_for_file oa rules ff))) (gL (gNth 2 v)))
  (* 42: (style ((doc ..) ..)) -> bytes written by the JSON printer *)
  | 42 => VS (run_printer (match gZ (gNth 0 v) with 0%Z => Pretty | 1%Z => Stream | _ => Compact end)
                          (gList (gList gS) (gNth 1 v)))
  (* 37: pattern -> Pattern::fixed_string *)
  | 37 => VS (fixed_string (g_pattern (vdepth v) (gNth 0 v)))
  | 100 => case_rule_sem v
  | _ => vErr []
  end.
