(* insertion sort on byte strings (lexicographic), used to canonicalise set-valued results *)
From Coq Require Import List NArith Bool.
From AG Require Import Base.Val.
Import ListNotations.

Fixpoint str_leb (a b : str) : bool :=
  match a, b with
  | [], _ => true
  | _ :: _, [] => false
  | x :: a', y :: b' => if N.ltb x y then true else if N.eqb x y then str_leb a' b' else false
  end.

Fixpoint str_eqb (a b : str) : bool :=
  match a, b with
  | [], [] => true
  | x :: a', y :: b' => N.eqb x y && str_eqb a' b'
  | _, _ => false
  end.

Fixpoint insert_str (x : str) (l : list str) : list str :=
  match l with
  | [] => [x]
  | y :: r => if str_leb x y then x :: l else y :: insert_str x r
  end.

Definition sort_str (l : list str) : list str := fold_right insert_str [] l.

Fixpoint dedup_sorted (l : list str) : list str :=
  match l with
  | [] => []
  | x :: r => match r with
              | y :: _ => if str_eqb x y then dedup_sorted r else x :: dedup_sorted r
              | [] => [x]
              end
  end.

Definition sort_dedup (l : list str) : list str := dedup_sorted (sort_str l).
