(* Universal value type used on the wire between the Rust harness, the extracted
   OCaml driver and [vm_compute] replays.  All decoding of wire values into typed
   model inputs is done in Gallina, so the OCaml driver stays a fixed, tiny reader/printer. *)
From Coq Require Import List ZArith NArith Bool.
Import ListNotations.

Inductive val : Type :=
| VZ (z : Z)            (* any integer *)
| VS (s : list N)       (* byte string / code-point string *)
| VL (l : list val).    (* tuple / list *)

Definition str := list N.

Definition vN (n : N) : val := VZ (Z.of_N n).
Definition vB (b : bool) : val := VZ (if b then 1 else 0)%Z.
Definition vNat (n : nat) : val := VZ (Z.of_nat n).
Definition vOpt {A} (f : A -> val) (o : option A) : val :=
  match o with None => VL [] | Some a => VL [f a] end.
Definition vList {A} (f : A -> val) (l : list A) : val := VL (map f l).
Definition vPair {A B} (f : A -> val) (g : B -> val) (p : A * B) : val :=
  VL [f (fst p); g (snd p)].

(* decoders are total: a malformed wire value yields a default; the harness is
   trusted to produce well-formed values (a malformed one shows up as a tie mismatch) *)
Definition gZ (v : val) : Z := match v with VZ z => z | _ => 0%Z end.
Definition gN (v : val) : N := Z.to_N (gZ v).
Definition gNat (v : val) : nat := Z.to_nat (gZ v).
Definition gB (v : val) : bool := negb (Z.eqb (gZ v) 0).
Definition gS (v : val) : str := match v with VS s => s | _ => [] end.
Definition gL (v : val) : list val := match v with VL l => l | _ => [] end.
Definition gNth (i : nat) (v : val) : val := nth i (gL v) (VL []).
Definition gOpt {A} (f : val -> A) (v : val) : option A :=
  match gL v with [] => None | x :: _ => Some (f x) end.
Definition gList {A} (f : val -> A) (v : val) : list A := map f (gL v).

(* the tag written for a model-level error outcome *)
Definition vErr (tag : str) : val := VL [VS [101;114;114]%N; VS tag].

(* decimal conversion helpers for the wire format (used by the OCaml driver for
   integers that do not fit a native int) *)
Definition z_of_digits (neg : bool) (ds : list N) : Z :=
  let n := fold_left (fun acc d => (acc * 10 + d)%N) ds 0%N in
  if neg then Z.opp (Z.of_N n) else Z.of_N n.

Fixpoint digits_of_N (fuel : nat) (n : N) (acc : list N) : list N :=
  match fuel with
  | O => acc
  | S k =>
      let '(q, r) := N.div_eucl n 10 in
      match q with
      | 0%N => r :: acc
      | _ => digits_of_N k q (r :: acc)
      end
  end.

Definition digits_of_Z (z : Z) : bool * list N :=
  let n := Z.abs_N z in
  ((z <? 0)%Z, digits_of_N (S (N.to_nat (N.size n))) n []).
