(* C10 — statements about editing a document (proved in Rewrite/EditDocProofs.v). *)
From Coq Require Import List NArith ZArith Bool Arith.
From AG Require Import Base.Val Rewrite.Splice Rewrite.EditDoc.
Import ListNotations.

(* position_for_offset = (newlines before the offset, bytes since the last newline) *)
Definition C10_position_stmt : Prop :=
  forall input off,
    position_for_offset input off =
    (nl_count (firstn off input), N.of_nat (length (since_nl (firstn off input) []))).

(* the text after an edit is the splice; the InputEdit is the exact description of that splice:
   byte fields as specified, the three points are the positions of those offsets in the old
   resp. the new text; an edit inside the text never panics *)
Definition C10_input_edit_stmt : Prop :=
  forall src e,
    le_pos e + le_del e <= length src ->
    exists ie,
      accept_edit src e = Done (spliced1 src e, ie) /\
      ie_start ie = le_pos e /\ ie_old_end ie = le_pos e + le_del e /\
      ie_new_end ie = le_pos e + length (le_ins e) /\
      ie_start_pos ie = position_for_offset src (le_pos e) /\
      ie_old_end_pos ie = position_for_offset src (le_pos e + le_del e) /\
      ie_new_end_pos ie = position_for_offset (spliced1 src e) (le_pos e + length (le_ins e)) /\
      (* the new end really is where the inserted text ends, and what follows is the old tail *)
      firstn (ie_new_end ie) (spliced1 src e) = firstn (le_pos e) src ++ le_ins e /\
      skipn (ie_new_end ie) (spliced1 src e) = skipn (ie_old_end ie) src /\
      (* the start position is the same in both texts (the prefix is unchanged) *)
      position_for_offset (spliced1 src e) (le_pos e) = ie_start_pos ie.

(* a history of edits yields the iterated splice (or panics exactly when an edit leaves the text) *)
Fixpoint spliced_all (src : str) (es : list ledit) : str :=
  match es with [] => src | e :: r => spliced_all (spliced1 src e) r end.
Fixpoint all_inside (src : str) (es : list ledit) : Prop :=
  match es with
  | [] => True
  | e :: r => le_pos e + le_del e <= length src /\ all_inside (spliced1 src e) r
  end.
Definition C10_history_stmt : Prop :=
  forall es src, all_inside src es -> edit_all src es = Done (spliced_all src es).

(* the old tree's offsets are shifted ONCE: offsets before the edit are fixed, offsets at or after
   its old end move by the size difference and keep pointing at the same bytes of the new text *)
Definition C10_shift_stmt : Prop :=
  forall src e b new ie,
    accept_edit src e = Done (new, ie) ->
    (b <= le_pos e -> shift ie b = b /\ firstn b new = firstn b src) /\
    (le_pos e + le_del e <= b -> b <= length src ->
       skipn (shift ie b) new = skipn b src /\
       shift ie b + le_del e = b + length (le_ins e)).
