(* Lemmas about Rewrite/Indent.v (model of crates/core/src/replacer/indent.rs). *)
From Coq Require Import List NArith Bool Arith Lia.
From AG Require Import Base.Val Gen.Tables Rewrite.Indent.
Import ListNotations.

(* ------------------------------------------------------------------ *)
(* generic helpers                                                     *)
(* ------------------------------------------------------------------ *)

Lemma has_newline_app a b : has_newline (a ++ b) = has_newline a || has_newline b.
Proof. unfold has_newline. apply existsb_app. Qed.

Lemma has_newline_cons c l : has_newline (c :: l) = N.eqb NL c || has_newline l.
Proof. reflexivity. Qed.

Lemma has_newline_rev l : has_newline (rev l) = has_newline l.
Proof.
  induction l as [|c l IH]; [reflexivity|].
  cbn [rev]. rewrite has_newline_app, IH, has_newline_cons.
  cbn [has_newline existsb]. rewrite orb_false_r. apply orb_comm.
Qed.

Lemma has_newline_repeat_sp k : has_newline (repeat SP k) = false.
Proof. induction k as [|k IH]; [reflexivity|]. cbn [repeat]. rewrite has_newline_cons, IH. reflexivity. Qed.

Lemma has_newline_skipn k l : has_newline l = false -> has_newline (skipn k l) = false.
Proof.
  revert l; induction k as [|k IH]; intros l Hl; [exact Hl|].
  destruct l as [|c l]; [reflexivity|].
  cbn [skipn]. rewrite has_newline_cons in Hl. apply orb_false_iff in Hl. apply IH, Hl.
Qed.

Lemma repeat_app_sp a b : repeat SP a ++ repeat SP b = repeat SP (a + b).
Proof. symmetry. apply repeat_app. Qed.

(* ------------------------------------------------------------------ *)
(* T1  split / join                                                    *)
(* ------------------------------------------------------------------ *)

Lemma split_nl_aux_nonempty s : forall cur, split_nl_aux cur s <> [].
Proof.
  induction s as [|c rest IH]; intros cur; cbn [split_nl_aux].
  - discriminate.
  - destruct (N.eqb c NL); [discriminate | apply IH].
Qed.

Lemma split_nl_nonempty s : split_nl s <> [].
Proof. apply split_nl_aux_nonempty. Qed.

Lemma join_nl_cons l rest : rest <> [] -> join_nl (l :: rest) = l ++ NL :: join_nl rest.
Proof. destruct rest as [|r rest']; [congruence | reflexivity]. Qed.

Lemma join_split_aux s : forall cur, join_nl (split_nl_aux cur s) = rev cur ++ s.
Proof.
  induction s as [|c rest IH]; intros cur; cbn [split_nl_aux].
  - cbn [join_nl]. now rewrite app_nil_r.
  - destruct (N.eqb_spec c NL) as [Heq|Hne].
    + rewrite join_nl_cons by apply split_nl_aux_nonempty.
      rewrite IH. cbn [rev app]. now subst c.
    + rewrite IH. cbn [rev]. now rewrite <- app_assoc.
Qed.

Theorem join_split s : join_nl (split_nl s) = s.
Proof. unfold split_nl. now rewrite join_split_aux. Qed.

Lemma split_nl_aux_app l : has_newline l = false ->
  forall cur rest, split_nl_aux cur (l ++ rest) = split_nl_aux (rev l ++ cur) rest.
Proof.
  induction l as [|c l IH]; intros Hnl cur rest; [reflexivity|].
  rewrite has_newline_cons in Hnl. apply orb_false_iff in Hnl. destruct Hnl as [Hc Hl].
  cbn [app split_nl_aux]. rewrite N.eqb_sym, Hc.
  rewrite (IH Hl). cbn [rev]. now rewrite <- app_assoc.
Qed.

Lemma split_nl_line l : has_newline l = false -> split_nl l = [l].
Proof.
  intros Hnl. unfold split_nl. rewrite <- (app_nil_r l) at 1.
  rewrite split_nl_aux_app by exact Hnl. cbn [split_nl_aux].
  now rewrite app_nil_r, rev_involutive.
Qed.

Lemma split_nl_app_nl l rest : has_newline l = false ->
  split_nl (l ++ NL :: rest) = l :: split_nl rest.
Proof.
  intros Hnl. unfold split_nl. rewrite split_nl_aux_app by exact Hnl.
  cbn [split_nl_aux]. rewrite N.eqb_refl. now rewrite app_nil_r, rev_involutive.
Qed.

Theorem split_join ls : ls <> [] -> Forall (fun l => has_newline l = false) ls ->
  split_nl (join_nl ls) = ls.
Proof.
  induction ls as [|l rest IH]; intros Hne Hall; [congruence|].
  inversion Hall as [|x xs Hl Hrest]; subst x xs.
  destruct rest as [|l2 rest'].
  - cbn [join_nl]. apply split_nl_line, Hl.
  - rewrite join_nl_cons by discriminate.
    rewrite split_nl_app_nl by exact Hl.
    f_equal. apply IH; [discriminate | exact Hrest].
Qed.

Lemma split_nl_aux_no_nl s : forall cur, has_newline cur = false ->
  Forall (fun l => has_newline l = false) (split_nl_aux cur s).
Proof.
  induction s as [|c rest IH]; intros cur Hcur; cbn [split_nl_aux].
  - constructor; [|constructor]. now rewrite has_newline_rev.
  - destruct (N.eqb c NL) eqn:Hc.
    + constructor; [now rewrite has_newline_rev | apply IH; reflexivity].
    + apply IH. rewrite has_newline_cons, N.eqb_sym, Hc. exact Hcur.
Qed.

Lemma split_nl_no_nl s : Forall (fun l => has_newline l = false) (split_nl s).
Proof. apply split_nl_aux_no_nl. reflexivity. Qed.

Lemma split_nl_single_line s : has_newline s = false -> split_nl s = [s].
Proof. apply split_nl_line. Qed.

(* ------------------------------------------------------------------ *)
(* T2  get_indent_at_offset in terms of text                           *)
(* ------------------------------------------------------------------ *)

Fixpoint leading_spaces (s : str) : nat :=
  match s with
  | c :: r => if N.eqb c SP then S (leading_spaces r) else 0
  | [] => 0
  end.

Definition all_blank (s : str) : bool := forallb (fun c => N.eqb c SP) s.

Lemma all_blank_leading l : all_blank l = true -> leading_spaces l = length l.
Proof.
  induction l as [|c l IH]; intros H; [reflexivity|].
  cbn [all_blank forallb] in H. apply andb_true_iff in H. destruct H as [Hc Hl].
  cbn [leading_spaces length]. rewrite Hc. f_equal. apply IH, Hl.
Qed.

Lemma indent_scan_line line : has_newline line = false -> forall rest i,
  indent_scan (rev line ++ rest) i =
  indent_scan rest (if all_blank line then length line + i else leading_spaces line).
Proof.
  induction line as [|c l IH]; intros Hnl rest i; [reflexivity|].
  rewrite has_newline_cons in Hnl. apply orb_false_iff in Hnl. destruct Hnl as [Hc Hl].
  cbn [rev]. rewrite <- app_assoc. cbn [app]. rewrite (IH Hl). cbn [indent_scan].
  rewrite N.eqb_sym, Hc. cbn [all_blank forallb leading_spaces length].
  destruct (N.eqb c SP); cbn [andb].
  - fold (all_blank l). destruct (all_blank l); reflexivity.
  - reflexivity.
Qed.

Lemma indent_scan_line0 line rest : has_newline line = false ->
  indent_scan (rev line ++ rest) 0 = indent_scan rest (leading_spaces line).
Proof.
  intros Hnl. rewrite indent_scan_line by exact Hnl.
  destruct (all_blank line) eqn:Hb; [|reflexivity].
  now rewrite all_blank_leading, Nat.add_0_r.
Qed.

Theorem get_indent_after_nl pre line :
  has_newline line = false -> length line < MAX_LOOK_AHEAD ->
  get_indent_at_offset (pre ++ NL :: line) = leading_spaces line.
Proof.
  intros Hnl Hlen. cbv beta zeta delta [get_indent_at_offset].
  set (la := Nat.max (length (pre ++ NL :: line)) MAX_LOOK_AHEAD - MAX_LOOK_AHEAD).
  assert (Hla : la <= length pre).
  { subst la. rewrite app_length. cbn [length]. lia. }
  rewrite skipn_app. replace (la - length pre) with 0 by lia. cbn [skipn].
  rewrite rev_app_distr. cbn [rev]. rewrite <- app_assoc. cbn [app].
  rewrite indent_scan_line0 by exact Hnl. cbn [indent_scan]. rewrite N.eqb_refl.
  reflexivity.
Qed.

Theorem get_indent_first_line line :
  has_newline line = false -> length line <= MAX_LOOK_AHEAD ->
  get_indent_at_offset line = leading_spaces line.
Proof.
  intros Hnl Hlen. cbv beta zeta delta [get_indent_at_offset].
  replace (Nat.max (length line) MAX_LOOK_AHEAD - MAX_LOOK_AHEAD) with 0 by lia.
  cbn [skipn Nat.eqb]. rewrite <- (app_nil_r (rev line)).
  rewrite indent_scan_line0 by exact Hnl. reflexivity.
Qed.

Theorem get_indent_long_line src :
  has_newline (skipn (length src - MAX_LOOK_AHEAD) src) = false ->
  MAX_LOOK_AHEAD < length src ->
  get_indent_at_offset src = 0.
Proof.
  intros Hnl Hlen. cbv beta zeta delta [get_indent_at_offset].
  replace (Nat.max (length src) MAX_LOOK_AHEAD - MAX_LOOK_AHEAD)
    with (length src - MAX_LOOK_AHEAD) by lia.
  rewrite <- (app_nil_r (rev _)). rewrite indent_scan_line0 by exact Hnl.
  cbn [indent_scan].
  destruct (Nat.eqb_spec (length src - MAX_LOOK_AHEAD) 0) as [Hz|Hz]; [lia | reflexivity].
Qed.

(* ------------------------------------------------------------------ *)
(* T3  line-wise view                                                  *)
(* ------------------------------------------------------------------ *)

Definition map_cont (f : str -> str) (s : str) : str :=
  match split_nl s with
  | [] => []
  | first :: rest => join_nl (first :: map f rest)
  end.

Lemma map_cont_ext f g s :
  (forall l, In l (tl (split_nl s)) -> f l = g l) -> map_cont f s = map_cont g s.
Proof.
  unfold map_cont. destruct (split_nl s) as [|first rest]; [reflexivity|].
  cbn [tl]. intros H. f_equal. f_equal. apply map_ext_in, H.
Qed.

Lemma map_cont_id f s :
  (forall l, In l (tl (split_nl s)) -> f l = l) -> map_cont f s = s.
Proof.
  intros H. rewrite (map_cont_ext f (fun l => l) s H).
  unfold map_cont. destruct (split_nl s) as [|first rest] eqn:E.
  - now apply split_nl_nonempty in E.
  - rewrite map_id, <- E. apply join_split.
Qed.

Lemma map_cont_single_line f s : has_newline s = false -> map_cont f s = s.
Proof.
  intros H. unfold map_cont. rewrite split_nl_line by exact H. reflexivity.
Qed.

Lemma split_nl_map_cont g s :
  (forall l, has_newline l = false -> has_newline (g l) = false) ->
  split_nl (map_cont g s) =
  match split_nl s return list str with [] => [] | first :: rest => first :: map g rest end.
Proof.
  intros Hg. unfold map_cont.
  pose proof (split_nl_no_nl s) as Hall.
  destruct (split_nl s) as [|first rest] eqn:E.
  - now apply split_nl_nonempty in E.
  - apply split_join; [discriminate|].
    inversion Hall as [|x xs Hf Hr]; subst x xs.
    constructor; [exact Hf|].
    apply Forall_forall. intros y Hy. apply in_map_iff in Hy.
    destruct Hy as [l [Hl Hin]]. subst y. apply Hg.
    rewrite Forall_forall in Hr. apply Hr, Hin.
Qed.

Lemma map_cont_compose f g s :
  (forall l, has_newline l = false -> has_newline (g l) = false) ->
  map_cont f (map_cont g s) = map_cont (fun l => f (g l)) s.
Proof.
  intros Hg. unfold map_cont at 1. rewrite split_nl_map_cont by exact Hg.
  unfold map_cont. destruct (split_nl s) as [|first rest]; [reflexivity|].
  now rewrite map_map.
Qed.

Lemma tl_split_no_nl s l : In l (tl (split_nl s)) -> has_newline l = false.
Proof.
  intros Hin. pose proof (split_nl_no_nl s) as Hall. rewrite Forall_forall in Hall.
  apply Hall. destruct (split_nl s) as [|a b]; [contradiction | now right].
Qed.

(* (a) *)
Lemma flat_map_join (f : str -> str) (first : str) (rest : list str) :
  first ++ flat_map (fun line => NL :: f line) rest = join_nl (first :: map f rest).
Proof.
  revert first; induction rest as [|l rest IH]; intros first.
  - cbn [flat_map map join_nl]. apply app_nil_r.
  - cbn [flat_map map]. rewrite join_nl_cons by discriminate.
    f_equal. cbn [app]. f_equal. apply IH.
Qed.

Theorem indent_lines_impl_map_cont k s :
  indent_lines_impl k (split_nl s) = map_cont (fun l => repeat SP k ++ l) s.
Proof.
  unfold indent_lines_impl, map_cont. destruct (split_nl s) as [|first rest]; [reflexivity|].
  apply (flat_map_join (fun l => repeat SP k ++ l)).
Qed.

(* strip_prefix_n *)
Lemma strip_prefix_n_repeat k x : strip_prefix_n k (repeat SP k ++ x) = Some x.
Proof.
  induction k as [|k IH]; [reflexivity|].
  cbn [repeat app strip_prefix_n]. rewrite N.eqb_refl. exact IH.
Qed.

Lemma strip_prefix_n_spec k : forall l, strip_prefix_n k l <> None ->
  l = repeat SP k ++ skipn k l /\ strip_prefix_n k l = Some (skipn k l).
Proof.
  induction k as [|k IH]; intros l H; [split; reflexivity|].
  destruct l as [|c r]; [now elim H|].
  cbn [strip_prefix_n] in *. destruct (N.eqb_spec c SP) as [Hc|Hc]; [|now elim H].
  subst c. destruct (IH r H) as [H1 H2]. cbn [repeat skipn app]. split; [now f_equal | exact H2].
Qed.

Lemma strip_prefix_n_le c k l : k <= c -> strip_prefix_n c l <> None -> strip_prefix_n k l <> None.
Proof.
  intros Hle H. destruct (strip_prefix_n_spec c l H) as [Hl _].
  rewrite Hl. replace c with (k + (c - k)) at 1 by lia.
  rewrite <- repeat_app_sp, <- app_assoc, strip_prefix_n_repeat. discriminate.
Qed.

Lemma strip_prefix_n_first_none k l :
  match l with b :: _ => b <> SP | [] => True end -> strip_prefix_n (S k) l = None.
Proof.
  destruct l as [|b r]; intros H; [reflexivity|].
  cbn [strip_prefix_n]. destruct (N.eqb_spec b SP) as [Hb|Hb]; [contradiction | reflexivity].
Qed.

Definition first_not_blank (s : str) : Prop :=
  match s with b :: _ => b <> SP | [] => True end.

Lemma first_line_not_blank s first rest :
  first_not_blank s -> split_nl s = first :: rest -> first_not_blank first.
Proof.
  intros Hs E. pose proof (join_split s) as J. rewrite E in J.
  destruct first as [|b f]; [exact I|].
  destruct rest as [|r rest']; cbn [join_nl app] in J; subst s; exact Hs.
Qed.

(* (b) *)
Theorem remove_indent_map_cont k s :
  (forall l, In l (tl (split_nl s)) -> strip_prefix_n k l <> None) ->
  (k = 0 \/ first_not_blank s) ->
  remove_indent k s = map_cont (skipn k) s.
Proof.
  intros Hcont Hfirst. unfold remove_indent, map_cont.
  destruct (split_nl s) as [|first rest] eqn:E; [reflexivity|].
  cbn [tl] in Hcont. cbn [map]. f_equal. f_equal.
  - destruct k as [|k]; [reflexivity|].
    destruct Hfirst as [Hk|Hf]; [discriminate|].
    rewrite strip_prefix_n_first_none; [reflexivity|].
    exact (first_line_not_blank s first rest Hf E).
  - apply map_ext_in. intros l Hin.
    destruct (strip_prefix_n_spec k l (Hcont l Hin)) as [_ H2]. now rewrite H2.
Qed.

(* unconditional view for original indent 0 *)
Theorem indent_lines_zero t s :
  indent_lines t (MultiLine s 0) = map_cont (fun l => repeat SP t ++ l) s.
Proof.
  cbn [indent_lines]. destruct t as [|t].
  - cbn [Nat.compare]. symmetry. apply map_cont_id. intros l _. reflexivity.
  - cbn [Nat.compare]. rewrite Nat.sub_0_r. apply indent_lines_impl_map_cont.
Qed.

(* (c) *)
Theorem indent_lines_map_cont t c s :
  first_not_blank s ->
  (forall l, In l (tl (split_nl s)) -> strip_prefix_n c l <> None) ->
  indent_lines t (MultiLine s c) = map_cont (fun l => repeat SP t ++ skipn c l) s.
Proof.
  intros Hfirst Hcont. cbn [indent_lines].
  destruct (Nat.compare_spec c t) as [Heq|Hlt|Hgt].
  - subst t. symmetry. apply map_cont_id. intros l Hin.
    symmetry. apply (strip_prefix_n_spec c l (Hcont l Hin)).
  - rewrite indent_lines_impl_map_cont. apply map_cont_ext. intros l Hin.
    destruct (strip_prefix_n_spec c l (Hcont l Hin)) as [Hl _].
    rewrite Hl at 1. rewrite app_assoc, repeat_app_sp. f_equal. f_equal. lia.
  - rewrite remove_indent_map_cont.
    + apply map_cont_ext. intros l Hin.
      destruct (strip_prefix_n_spec c l (Hcont l Hin)) as [Hl _].
      rewrite Hl at 1.
      assert (Hrep : repeat SP c = repeat SP (c - t) ++ repeat SP t).
      { rewrite repeat_app_sp. f_equal. lia. }
      rewrite Hrep, <- app_assoc.
      rewrite skipn_app, repeat_length, Nat.sub_diag. cbn [skipn].
      rewrite skipn_all2 by (rewrite repeat_length; lia). reflexivity.
    + intros l Hin. apply (strip_prefix_n_le c); [lia | apply Hcont, Hin].
    + right. exact Hfirst.
Qed.
