(* Model of crates/core/src/replacer.rs:split_first_meta_var and
   crates/core/src/replacer/template.rs:create_template / replace_fixer / generate_replacement,
   over bytes with the single-byte sigil '$'. *)
From Coq Require Import List NArith ZArith Bool Arith.
From AG Require Import Base.Val Str.MetaVar Rewrite.Indent.
Import ListNotations.

Inductive mvkind := KSingle | KMultiple | KTransformed.

Definition mem_str (x : str) (l : list str) : bool :=
  existsb (fun y => if list_eq_dec N.eq_dec x y then true else false) l.

(* number of sigils consumed by the counting loop (1..3) and the rest after them;
   [s] is the text after the first sigil, [i] the sigils consumed so far *)
Fixpoint count_sigils (mc : N) (s : str) (i : nat) (fuel : nat) : nat * str :=
  match fuel with
  | O => (i, s)
  | S f =>
      if Nat.eqb i 3 then (i, s)
      else match s with
           | c :: rest => if N.eqb c mc then count_sigils mc rest (S i) f else (i, s)
           | [] => (i, s)
           end
  end.

Fixpoint take_name (s : str) : str * str :=
  match s with
  | c :: rest => if is_mv_char c then let '(n, r) := take_name rest in (c :: n, r) else ([], s)
  | [] => ([], [])
  end.

(* [src] starts with the sigil. Returns (kind, name, rest after the variable) *)
Definition split_first_meta_var (mc : N) (transforms : list str) (src : str)
  : option (mvkind * str * str) :=
  match src with
  | [] => None
  | _ :: after1 =>
      let '(i, after) := count_sigils mc after1 1 3 in
      let '(name, rest) := take_name after in
      match name with
      | [] => None
      | _ =>
          let k := if Nat.eqb i 3 then KMultiple
                   else if mem_str name transforms then KTransformed else KSingle in
          Some (k, name, rest)
      end
  end.

Record tvar := { tv_kind : mvkind; tv_name : str; tv_indent : nat }.

Inductive template :=
| Textual (s : str)
| WithMetaVar (frags : list str) (vars : list tvar).

(* scan: [done_rev] all bytes before the cursor (reversed; for the indent of a slot),
   [frag_rev] the current fragment (reversed) *)
Fixpoint tpl_scan (fuel : nat) (mc : N) (tr : list str) (done_rev frag_rev : str) (rest : str)
  : list str * list tvar :=
  match fuel with
  | O => ([rev frag_rev ++ rest], [])
  | S f =>
      match rest with
      | [] => ([rev frag_rev], [])
      | c :: rest' =>
          if N.eqb c mc then
            match split_first_meta_var mc tr rest with
            | Some (k, name, after) =>
                let consumed := firstn (length rest - length after) rest in
                let '(fs, vs) := tpl_scan f mc tr (rev consumed ++ done_rev) [] after in
                (rev frag_rev :: fs,
                 {| tv_kind := k; tv_name := name;
                    tv_indent := get_indent_at_offset (rev done_rev) |} :: vs)
            | None => tpl_scan f mc tr (c :: done_rev) (c :: frag_rev) rest'
            end
          else tpl_scan f mc tr (c :: done_rev) (c :: frag_rev) rest'
      end
  end.

Definition create_template (mc : N) (tr : list str) (tmpl : str) : template :=
  let '(fs, vs) := tpl_scan (S (length tmpl)) mc tr [] [] tmpl in
  match vs with
  | [] => Textual tmpl
  | _ => WithMetaVar fs vs
  end.

Definition used_vars (t : template) : list str :=
  match t with
  | Textual _ => []
  | WithMetaVar _ vs => map tv_name vs
  end.

(* ---- substitution ---- *)
(* what the environment offers for a variable, already resolved by the caller:
   a single capture / a multi capture is a byte range of the document *)
Record tenv := {
  e_single : list (str * (nat * nat));        (* name -> [s,e) of the captured node *)
  e_multi : list (str * list (nat * nat));    (* name -> ranges of captured nodes *)
  e_trans : list (str * str)                  (* name -> transformed bytes *)
}.

Fixpoint assoc {A} (k : str) (l : list (str * A)) : option A :=
  match l with
  | [] => None
  | (k', v) :: rest => if list_eq_dec N.eq_dec k k' then Some v else assoc k rest
  end.

(* a defined variable is substituted whichever sigil the template spells it with (fix 648fad9):
   `$A` falls back to the multiple capture A, `$$$A` to the single capture A and then to the transformed A *)
Definition single_range (env : tenv) (name : str) : option (nat * nat) := assoc name (e_single env).
Definition multi_range (env : tenv) (name : str) : option (nat * nat) :=
  match assoc name (e_multi env) with
  | Some ((s0, e0) :: more) => Some (s0, snd (last more (s0, e0)))
  | _ => None
  end.
Definition transformed_text (env : tenv) (v : tvar) : option str :=
  match assoc (tv_name v) (e_trans env) with
  | None => None
  | Some src => Some (indent_lines (tv_indent v) (MultiLine src 0))
  end.
Definition cut_range (doc : str) (v : tvar) (r : nat * nat) : str :=
  indent_lines (tv_indent v) (extract_with_deindent doc (fst r) (snd r)).

Definition maybe_get_var (doc : str) (env : tenv) (v : tvar) : option str :=
  match tv_kind v with
  | KTransformed => transformed_text env v
  | KSingle =>
      match single_range env (tv_name v) with
      | Some r => Some (cut_range doc v r)
      | None => option_map (cut_range doc v) (multi_range env (tv_name v))
      end
  | KMultiple =>
      match multi_range env (tv_name v) with
      | Some r => Some (cut_range doc v r)
      | None =>
          match single_range env (tv_name v) with
          | Some r => Some (cut_range doc v r)
          | None => transformed_text env v
          end
      end
  end.

Fixpoint zip_fill (doc : str) (env : tenv) (vars : list tvar) (frags : list str) : str :=
  match vars, frags with
  | v :: vs, f :: fs =>
      (match maybe_get_var doc env v with Some b => b | None => [] end) ++ f ++ zip_fill doc env vs fs
  | _, _ => []
  end.

Definition replace_fixer (doc : str) (env : tenv) (t : template) : str :=
  match t with
  | Textual s => s
  | WithMetaVar frags vars =>
      match frags with
      | [] => []
      | f0 :: fs => f0 ++ zip_fill doc env vars fs
      end
  end.

(* TemplateFix::generate_replacement for a match starting at byte [mstart] of [doc] *)
Definition generate_replacement (doc : str) (mstart : nat) (env : tenv) (t : template) : str :=
  let indent := get_indent_at_offset (firstn mstart doc) in
  indent_lines indent (MultiLine (replace_fixer doc env t) 0).
