(* C10 — proofs of the statements of Rewrite/EditDocSpec.v.
   C10_position, C10_input_edit, C10_history: proved as stated.
   C10_shift: FALSE as stated (a pure insertion at offset b moves b); refuted, and the corrected
   statement C10_shift_partial_stmt is proved. *)
From Coq Require Import List NArith ZArith Bool Arith Lia.
From AG Require Import Base.Val Rewrite.Splice Rewrite.EditDoc Rewrite.EditDocSpec.
Import ListNotations.

(* ---------- list facts ---------- *)
Lemma skipn_app_len {A} (l1 l2 : list A) n : skipn (length l1 + n) (l1 ++ l2) = skipn n l2.
Proof. induction l1 as [|x l1 IH]; cbn; auto. Qed.

Lemma firstn_app_len {A} (l1 l2 : list A) n : firstn (length l1 + n) (l1 ++ l2) = l1 ++ firstn n l2.
Proof. induction l1 as [|x l1 IH]; cbn; auto. now rewrite IH. Qed.

Lemma firstn_app_le {A} (l1 l2 : list A) n : n <= length l1 -> firstn n (l1 ++ l2) = firstn n l1.
Proof.
  intros Hn. rewrite firstn_app. replace (n - length l1) with 0 by lia.
  cbn. now rewrite app_nil_r.
Qed.

Lemma firstn_firstn_le {A} (l : list A) n m : n <= m -> firstn n (firstn m l) = firstn n l.
Proof. intros H. rewrite firstn_firstn. now rewrite Nat.min_l by lia. Qed.

Lemma skipn_skipn_add {A} (l : list A) n m : skipn n (skipn m l) = skipn (m + n) l.
Proof.
  revert l; induction m as [|m IH]; intros l; cbn; auto.
  destruct l as [|x l]; cbn; auto. now rewrite skipn_nil.
Qed.

(* ---------- C10_position ---------- *)
Lemma nl_count_cons c r :
  nl_count (c :: r) = if N.eqb c 10 then (1 + nl_count r)%N else nl_count r.
Proof.
  unfold nl_count. cbn [filter]. rewrite (N.eqb_sym 10 c).
  destruct (N.eqb c 10) eqn:Hc; auto.
  cbn [length]. lia.
Qed.

Lemma pfo_scan_spec l : forall row acc,
  pfo_scan l row (N.of_nat (length acc)) =
  ((row + nl_count l)%N, N.of_nat (length (since_nl l acc))).
Proof.
  induction l as [|c r IH]; intros row acc.
  - cbn. unfold nl_count. cbn. now rewrite N.add_0_r.
  - cbn [pfo_scan since_nl]. rewrite nl_count_cons.
    destruct (N.eqb c 10) eqn:Hc.
    + change 0%N with (N.of_nat (length (@nil N))). rewrite IH.
      f_equal. lia.
    + replace (N.of_nat (length acc) + 1)%N with (N.of_nat (length (acc ++ [c]))).
      * now rewrite IH.
      * rewrite app_length. cbn. lia.
Qed.

Lemma C10_position : C10_position_stmt.
Proof.
  intros input off. unfold position_for_offset.
  change 0%N with (N.of_nat (length (@nil N))) at 2.
  rewrite pfo_scan_spec. now rewrite N.add_0_l.
Qed.
Print Assumptions C10_position.

(* ---------- C10_input_edit ---------- *)
Lemma spliced1_firstn_new_end src e :
  le_pos e <= length src ->
  firstn (le_pos e + length (le_ins e)) (spliced1 src e) = firstn (le_pos e) src ++ le_ins e.
Proof.
  intros Hle. unfold spliced1.
  assert (Hl : length (firstn (le_pos e) src) = le_pos e) by (apply firstn_length_le; lia).
  rewrite <- Hl at 1. rewrite firstn_app_len. f_equal.
  rewrite <- (Nat.add_0_r (length (le_ins e))) at 1. rewrite firstn_app_len.
  cbn. now rewrite app_nil_r.
Qed.

Lemma spliced1_skipn_new_end src e :
  le_pos e <= length src ->
  skipn (le_pos e + length (le_ins e)) (spliced1 src e) = skipn (le_pos e + le_del e) src.
Proof.
  intros Hle. unfold spliced1.
  assert (Hl : length (firstn (le_pos e) src) = le_pos e) by (apply firstn_length_le; lia).
  rewrite <- Hl at 1. rewrite skipn_app_len.
  rewrite <- (Nat.add_0_r (length (le_ins e))) at 1. rewrite skipn_app_len.
  reflexivity.
Qed.

Lemma spliced1_firstn_prefix src e b :
  b <= le_pos e -> le_pos e <= length src ->
  firstn b (spliced1 src e) = firstn b src.
Proof.
  intros Hb Hle. unfold spliced1.
  rewrite firstn_app_le by (rewrite firstn_length_le; lia).
  now apply firstn_firstn_le.
Qed.

Lemma accept_edit_inside src e :
  le_pos e + le_del e <= length src ->
  accept_edit src e =
  Done (spliced1 src e,
        {| ie_start := le_pos e; ie_old_end := le_pos e + le_del e;
           ie_new_end := le_pos e + length (le_ins e);
           ie_start_pos := position_for_offset src (le_pos e);
           ie_old_end_pos := position_for_offset src (le_pos e + le_del e);
           ie_new_end_pos := position_for_offset (spliced1 src e) (le_pos e + length (le_ins e)) |}).
Proof.
  intros Hle. unfold accept_edit.
  destruct (Nat.leb_spec (le_pos e + le_del e) (length src)) as [_|Hlt]; [|lia].
  reflexivity.
Qed.

Lemma accept_edit_outside src e :
  length src < le_pos e + le_del e -> accept_edit src e = Panic.
Proof.
  intros Hlt. unfold accept_edit.
  destruct (Nat.leb_spec (le_pos e + le_del e) (length src)) as [Hle|_]; [lia|].
  reflexivity.
Qed.

Lemma C10_input_edit : C10_input_edit_stmt.
Proof.
  intros src e Hle.
  eexists. split; [apply accept_edit_inside; exact Hle|].
  cbn [ie_start ie_old_end ie_new_end ie_start_pos ie_old_end_pos ie_new_end_pos].
  repeat split.
  - apply spliced1_firstn_new_end; lia.
  - apply spliced1_skipn_new_end; lia.
  - unfold position_for_offset. rewrite spliced1_firstn_prefix by lia. reflexivity.
Qed.
Print Assumptions C10_input_edit.

(* ---------- C10_history ---------- *)
Lemma C10_history : C10_history_stmt.
Proof.
  intros es. induction es as [|e r IH]; intros src Hin.
  - reflexivity.
  - cbn [all_inside] in Hin. destruct Hin as [Hle Hr].
    cbn [edit_all spliced_all]. rewrite accept_edit_inside by exact Hle.
    apply IH; exact Hr.
Qed.
Print Assumptions C10_history.

(* the converse direction mentioned in the comment of the statement: a history panics exactly when
   some edit leaves the text (all_inside is decidable step by step, so this is the contrapositive) *)
Lemma edit_all_done_inside : forall es src t, edit_all src es = Done t -> all_inside src es.
Proof.
  intros es. induction es as [|e r IH]; intros src t Hd.
  - exact I.
  - cbn [edit_all] in Hd. cbn [all_inside].
    destruct (Nat.leb_spec (le_pos e + le_del e) (length src)) as [Hle|Hlt].
    + split; [exact Hle|]. rewrite accept_edit_inside in Hd by exact Hle.
      eapply IH; exact Hd.
    + rewrite accept_edit_outside in Hd by exact Hlt. discriminate Hd.
Qed.
Print Assumptions edit_all_done_inside.

(* ---------- C10_shift ---------- *)
(* As stated the first conjunct is false: with b = le_pos e and le_del e = 0 (a pure insertion AT b)
   the test `old_end <= b` of Tree::edit succeeds and b is moved by the length of the insertion.
   Smallest witness: empty text, insert one byte at offset 0, b = 0: shift ie 0 = 1. *)
Lemma C10_shift_refuted : ~ C10_shift_stmt.
Proof.
  intros H.
  pose (e := {| le_pos := 0; le_del := 0; le_ins := [0%N] |}).
  destruct (accept_edit [] e) as [[new ie]|] eqn:Ha; [|vm_compute in Ha; discriminate Ha].
  destruct (H [] e 0 new ie Ha) as [H1 _].
  destruct (H1 (Nat.le_refl 0)) as [Hs _].
  vm_compute in Ha. inversion Ha; subst ie. vm_compute in Hs. discriminate Hs.
Qed.
Print Assumptions C10_shift_refuted.

(* Corrected statement.  Added hypothesis on the first conjunct's `shift ie b = b`:
     Nat.ltb b (le_pos e + le_del e) = true
   i.e. b lies strictly before the old end (equivalently: b < le_pos e, or b = le_pos e and the
   edit deletes something).  The prefix equation `firstn b new = firstn b src` holds for every
   b <= le_pos e without it.  The remaining case b = le_pos e, le_del e = 0 is covered by the
   (unchanged) second conjunct: there shift ie b = b + length (le_ins e).
   Third conjunct (new): offsets strictly inside the replaced range collapse to the new end. *)
Definition C10_shift_partial_stmt : Prop :=
  forall src e b new ie,
    accept_edit src e = Done (new, ie) ->
    (b <= le_pos e ->
       firstn b new = firstn b src /\
       (Nat.ltb b (le_pos e + le_del e) = true -> shift ie b = b)) /\
    (le_pos e + le_del e <= b -> b <= length src ->
       skipn (shift ie b) new = skipn b src /\
       shift ie b + le_del e = b + length (le_ins e)) /\
    (le_pos e < b -> b < le_pos e + le_del e ->
       shift ie b = le_pos e + length (le_ins e)).

Lemma C10_shift_partial : C10_shift_partial_stmt.
Proof.
  intros src e b new ie Ha.
  destruct (Nat.leb_spec (le_pos e + le_del e) (length src)) as [Hle|Hlt];
    [|rewrite accept_edit_outside in Ha by exact Hlt; discriminate Ha].
  rewrite accept_edit_inside in Ha by exact Hle.
  inversion Ha as [[Hnew Hie]]. clear Ha.
  unfold shift. cbn [ie_start ie_old_end ie_new_end].
  split; [|split].
  - intros Hb. split.
    + apply spliced1_firstn_prefix; lia.
    + intros Hlt. apply Nat.ltb_lt in Hlt.
      destruct (Nat.leb_spec (le_pos e + le_del e) b) as [H1|H1]; [lia|].
      destruct (Nat.ltb_spec (le_pos e) b) as [H2|H2]; [lia|]. reflexivity.
  - intros Hb Hbl.
    destruct (Nat.leb_spec (le_pos e + le_del e) b) as [H1|H1]; [|lia].
    split; [|lia].
    replace (b - (le_pos e + le_del e) + (le_pos e + length (le_ins e)))
      with (le_pos e + (length (le_ins e) + (b - (le_pos e + le_del e)))) by lia.
    unfold spliced1.
    assert (Hl : length (firstn (le_pos e) src) = le_pos e) by (apply firstn_length_le; lia).
    rewrite <- Hl at 1. rewrite skipn_app_len. rewrite skipn_app_len.
    rewrite skipn_skipn_add. f_equal. lia.
  - intros Hb1 Hb2.
    destruct (Nat.leb_spec (le_pos e + le_del e) b) as [H1|H1]; [lia|].
    destruct (Nat.ltb_spec (le_pos e) b) as [H2|H2]; [|lia]. reflexivity.
Qed.
Print Assumptions C10_shift_partial.

(* the partial statement gives back every instance of the stated one except the pure insertion at b *)
Lemma C10_shift_stated_except_insertion_at_b :
  forall src e b new ie,
    accept_edit src e = Done (new, ie) ->
    (b <= le_pos e -> (b < le_pos e \/ 0 < le_del e) -> shift ie b = b /\ firstn b new = firstn b src) /\
    (le_pos e + le_del e <= b -> b <= length src ->
       skipn (shift ie b) new = skipn b src /\
       shift ie b + le_del e = b + length (le_ins e)).
Proof.
  intros src e b new ie Ha.
  destruct (C10_shift_partial src e b new ie Ha) as [H1 [H2 _]].
  split; [|exact H2].
  intros Hb Hor. destruct (H1 Hb) as [Hf Hs]. split; [|exact Hf].
  apply Hs. apply Nat.ltb_lt. lia.
Qed.
Print Assumptions C10_shift_stated_except_insertion_at_b.
