(* C06 / C18 — statements about edits and their application (proved in Rewrite/SpliceProofs.v). *)
From Coq Require Import List NArith ZArith Bool Arith.
From AG Require Import Base.Val Rewrite.Splice.
Import ListNotations.

(* the list accepted by the overlap filter is ordered and disjoint, for ANY input list of well-formed
   ranges, and is a sub-list of the input in the same order; an accepted edit never starts before the
   end of the previously accepted one, a dropped edit does *)
Definition C06_disjoint_stmt : Prop :=
  forall ds lo, (forall d, In d ds -> ed_s d <= ed_e d) ->
    ordered_from lo (accept lo ds) /\ (forall d, In d (accept lo ds) -> In d ds).

(* applying ordered, disjoint edits that lie inside the text on character boundaries never panics;
   every byte outside the replaced ranges is preserved at its shifted offset, every replacement text
   sits where its range was, and the length is the old length plus the size differences *)
Definition C06_splice_stmt : Prop :=
  forall old ds,
    ordered_from 0 ds -> inside old ds ->
    exists new,
      apply_rewrite old ds = Done new /\
      length new = new_length (length old) ds /\
      (forall i, i < length old -> untouched ds i -> nth_error new (shifted ds i) = nth_error old i).

(* the cleaner form: the result is the concatenation old[0,s1) r1 old[e1,s2) r2 ... old[en,|old|) *)
Fixpoint spliced (old : str) (start : nat) (ds : list edit) : str :=
  match ds with
  | [] => slice old start (length old)
  | d :: r => slice old start (ed_s d) ++ ed_text d ++ spliced old (ed_e d) r
  end.
Definition C06_splice_concat_stmt : Prop :=
  forall old ds, ordered_from 0 ds -> inside old ds -> apply_rewrite old ds = Done (spliced old 0 ds).

(* valid UTF-8 in, valid UTF-8 out *)
Definition C06_utf8_stmt : Prop :=
  forall old ds,
    ordered_from 0 ds -> inside old ds -> valid_utf8 old = true ->
    (forall d, In d ds -> valid_utf8 (ed_text d) = true) ->
    valid_utf8 (spliced old 0 ds) = true.

(* C18: what --update-all does to one file: untouched when nothing is accepted, otherwise the
   original with every accepted edit applied; the counter is the number of accepted edits *)
Definition C18_bytes_stmt : Prop :=
  forall old ds,
    (forall d, In d ds -> ed_s d <= ed_e d) -> inside old ds ->
    (accept 0 ds = [] -> update_file old ds = (Done None, 0)) /\
    (accept 0 ds <> [] -> update_file old ds = (Done (Some (spliced old 0 (accept 0 ds))), length (accept 0 ds))).
