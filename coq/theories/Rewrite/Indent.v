(* Model of crates/core/src/replacer/indent.rs over bytes (N). *)
From Coq Require Import List NArith ZArith Bool Arith.
From AG Require Import Base.Val Gen.Tables.
Import ListNotations.

Definition NL : N := 10%N.
Definition SP : N := 32%N.
Definition MAX_LOOK_AHEAD : nat := max_look_ahead.  (* scraped from indent.rs *)

Inductive extract :=
| SingleLine (s : str)
| MultiLine (s : str) (indent : nat).

Definition has_newline (s : str) : bool := existsb (N.eqb NL) s.

(* the loop of get_indent_at_offset over the reversed window: returns Some indent when a newline
   is met, None when the window is exhausted (with the running count) *)
Fixpoint indent_scan (rev_window : str) (indent : nat) : nat + nat :=
  match rev_window with
  | [] => inr indent
  | c :: rest =>
      if N.eqb c NL then inl indent
      else if N.eqb c SP then indent_scan rest (S indent)
      else indent_scan rest 0
  end.

Definition get_indent_at_offset (src : str) : nat :=
  let lookahead := Nat.max (length src) MAX_LOOK_AHEAD - MAX_LOOK_AHEAD in
  match indent_scan (rev (skipn lookahead src)) 0 with
  | inl i => i
  | inr i => if Nat.eqb lookahead 0 then i else 0
  end.

(* slice.split(|b| b == '\n') : always at least one piece *)
Fixpoint split_nl_aux (cur_rev : str) (s : str) : list str :=
  match s with
  | [] => [rev cur_rev]
  | c :: rest => if N.eqb c NL then rev cur_rev :: split_nl_aux [] rest
                 else split_nl_aux (c :: cur_rev) rest
  end.
Definition split_nl (s : str) : list str := split_nl_aux [] s.

Fixpoint join_nl (ls : list str) : str :=
  match ls with
  | [] => []
  | [l] => l
  | l :: rest => l ++ NL :: join_nl rest
  end.

Fixpoint strip_prefix_n (n : nat) (line : str) : option str :=
  match n with
  | O => Some line
  | S k => match line with
           | c :: rest => if N.eqb c SP then strip_prefix_n k rest else None
           | [] => None
           end
  end.

Definition remove_indent (indent : nat) (src : str) : str :=
  join_nl (map (fun line => match strip_prefix_n indent line with
                            | Some s => s | None => line end) (split_nl src)).

Definition indent_lines_impl (indent : nat) (lines : list str) : str :=
  match lines with
  | [] => []
  | first :: rest =>
      first ++ flat_map (fun line => NL :: repeat SP indent ++ line) rest
  end.

Definition indent_lines (indent : nat) (e : extract) : str :=
  match e with
  | SingleLine line => line
  | MultiLine lines original =>
      match Nat.compare original indent with
      | Eq => lines
      | Gt => remove_indent (original - indent) lines
      | Lt => indent_lines_impl (indent - original) (split_nl lines)
      end
  end.

Definition byte_slice (src : str) (s e : nat) : str := firstn (e - s) (skipn s src).

Definition extract_with_deindent (content : str) (s e : nat) : extract :=
  let sl := byte_slice content s e in
  if negb (has_newline sl) then SingleLine sl
  else MultiLine sl (get_indent_at_offset (firstn s content)).

(* deindent_slice + formatted_slice (used by MetaVarEnv::insert_transformation) *)
Definition formatted_slice (content : str) (start : nat) (slice : str) : str :=
  if negb (has_newline slice) then slice
  else indent_lines 0 (MultiLine slice (get_indent_at_offset (firstn start content))).
