(* Model of the rewriting back end: crates/cli/src/print/interactive_print.rs
   (process_diffs_interactive with accept-all = the overlap filter and the applied counter,
   apply_rewrite, rewrite_action), crates/core/src/node.rs (replace_all's edits are those of the
   overlap-free traversal), crates/core/src/source.rs (String::accept_edit = one splice) and a
   structural model of UTF-8 validity / character boundaries (Rust string slicing panics off a
   boundary). *)
From Coq Require Import List NArith ZArith Bool Arith.
From AG Require Import Base.Val.
Import ListNotations.

Record edit := { ed_s : nat; ed_e : nat; ed_text : str }.     (* replace old[ed_s, ed_e) by ed_text *)

(* ---- UTF-8, structurally: lead byte classes and continuation bytes ---- *)
Definition is_cont (b : N) : bool := N.leb 128 b && N.ltb b 192.
Definition lead_len (b : N) : option nat :=
  if N.ltb b 128 then Some 0
  else if N.leb 194 b && N.leb b 223 then Some 1
  else if N.leb 224 b && N.leb b 239 then Some 2
  else if N.leb 240 b && N.leb b 244 then Some 3
  else None.
(* [need] continuation bytes are still expected *)
Fixpoint utf8_from (need : nat) (s : str) : bool :=
  match s with
  | [] => Nat.eqb need 0
  | b :: r =>
      match need with
      | O => match lead_len b with Some n => utf8_from n r | None => false end
      | S k => is_cont b && utf8_from k r
      end
  end.
Definition valid_utf8 (s : str) : bool := utf8_from 0 s.
(* str::is_char_boundary *)
Definition boundary (s : str) (i : nat) : bool :=
  Nat.eqb i 0 || Nat.eqb i (length s) || match nth_error s i with Some b => negb (is_cont b) | None => false end.

(* ---- the overlap filter of process_diffs_interactive (all diffs confirmed) ---- *)
Fixpoint accept (endp : nat) (ds : list edit) : list edit :=
  match ds with
  | [] => []
  | d :: r => if Nat.ltb (ed_s d) endp then accept endp r else d :: accept (ed_e d) r
  end.

(* ---- apply_rewrite; a slice old[a..b] panics unless a <= b <= len on character boundaries ---- *)
Inductive result (A : Type) := Done (a : A) | Panic.
Arguments Done {A} a.  Arguments Panic {A}.

Definition slice_ok (old : str) (a b : nat) : bool :=
  Nat.leb a b && Nat.leb b (length old) && boundary old a && boundary old b.
Definition slice (old : str) (a b : nat) : str := firstn (b - a) (skipn a old).

Fixpoint apply_from (old : str) (start : nat) (ds : list edit) : result str :=
  match ds with
  | [] => if slice_ok old start (length old) then Done (slice old start (length old)) else Panic
  | d :: r =>
      if slice_ok old start (ed_s d) then
        match apply_from old (ed_e d) r with
        | Done t => Done (slice old start (ed_s d) ++ ed_text d ++ t)
        | Panic => Panic
        end
      else Panic
  end.
Definition apply_rewrite (old : str) (ds : list edit) : result str := apply_from old 0 ds.

(* rewrite_action: nothing is written when no diff was accepted; otherwise the whole file is
   overwritten; the second component is what is added to the "Applied N changes" counter *)
Definition update_file (old : str) (ds : list edit) : result (option str) * nat :=
  let acc := accept 0 ds in
  match acc with
  | [] => (Done None, 0)
  | _ => (match apply_rewrite old acc with Done t => Done (Some t) | Panic => Panic end, length acc)
  end.

(* ---- the specification, independent of the loop: ordered, disjoint edits inside the text ---- *)
Fixpoint ordered_from (lo : nat) (ds : list edit) : Prop :=
  match ds with
  | [] => True
  | d :: r => lo <= ed_s d /\ ed_s d <= ed_e d /\ ordered_from (ed_e d) r
  end.
Definition inside (old : str) (ds : list edit) : Prop :=
  forall d, In d ds -> ed_e d <= length old /\ boundary old (ed_s d) = true /\ boundary old (ed_e d) = true.

(* position in the new text of the old byte at offset i (i outside every replaced range) *)
Fixpoint shifted (ds : list edit) (i : nat) : nat :=
  match ds with
  | [] => i
  | d :: r => if Nat.leb (ed_e d) i then shifted r i + length (ed_text d) - (ed_e d - ed_s d) else i
  end.
Definition untouched (ds : list edit) (i : nat) : Prop :=
  forall d, In d ds -> i < ed_s d \/ ed_e d <= i.
Fixpoint new_length (old_len : nat) (ds : list edit) : nat :=
  match ds with
  | [] => old_len
  | d :: r => new_length old_len r + length (ed_text d) - (ed_e d - ed_s d)
  end.
