(* C06 / C18 — proofs of the statements of Rewrite/SpliceSpec.v, all five as stated.
   [boundary s 0] is unconditionally true (as Rust's str::is_char_boundary(0)); the UTF-8 lemmas work
   with the strict notion [sboundary] (offset is the length or the byte there is not a continuation
   byte), which coincides with [boundary] at every offset other than 0. *)
From Coq Require Import List NArith ZArith Bool Arith Lia.
From AG Require Import Base.Val Rewrite.Splice Rewrite.SpliceSpec.
Import ListNotations.

(* ------------------------------------------------------------------ *)
(* C06_disjoint                                                        *)
(* ------------------------------------------------------------------ *)
Lemma C06_disjoint : C06_disjoint_stmt.
Proof.
  unfold C06_disjoint_stmt.
  induction ds as [|d r IH]; intros lo Hwf.
  - cbn. split; [exact I | intros d H; exact H].
  - cbn [accept]. destruct (Nat.ltb (ed_s d) lo) eqn:E.
    + destruct (IH lo) as [H1 H2].
      { intros d0 H0. apply Hwf. right. exact H0. }
      split; [exact H1 |]. intros d0 H0. right. apply H2. exact H0.
    + apply Nat.ltb_ge in E.
      destruct (IH (ed_e d)) as [H1 H2].
      { intros d0 H0. apply Hwf. right. exact H0. }
      split.
      * cbn [ordered_from]. split; [exact E |]. split; [apply Hwf; left; reflexivity | exact H1].
      * intros d0 [H0|H0]; [left; exact H0 | right; apply H2; exact H0].
Qed.
Print Assumptions C06_disjoint.

(* ------------------------------------------------------------------ *)
(* helper lemmas: inside / boundary                                    *)
(* ------------------------------------------------------------------ *)
Lemma inside_tail : forall old d r, inside old (d :: r) -> inside old r.
Proof. intros old d r H d0 H0. apply H. right. exact H0. Qed.

Lemma inside_sub : forall old ds ds', (forall d, In d ds' -> In d ds) -> inside old ds -> inside old ds'.
Proof. intros old ds ds' Hs H d0 H0. apply H. apply Hs. exact H0. Qed.

Lemma boundary_len : forall old, boundary old (length old) = true.
Proof. intros old. unfold boundary. rewrite Nat.eqb_refl, orb_true_r. reflexivity. Qed.

Lemma boundary_0 : forall old, boundary old 0 = true.
Proof. intros old. unfold boundary. reflexivity. Qed.

(* the strict notion: no special case for offset 0 *)
Definition sboundary (s : str) (i : nat) : bool :=
  Nat.eqb i (length s) || match nth_error s i with Some b => negb (is_cont b) | None => false end.

Lemma boundary_sboundary : forall s i, boundary s i = Nat.eqb i 0 || sboundary s i.
Proof. intros s i. unfold boundary, sboundary. rewrite orb_assoc. reflexivity. Qed.

Lemma lead_not_cont : forall b n, lead_len b = Some n -> is_cont b = false.
Proof.
  intros b n. unfold lead_len, is_cont.
  destruct (N.ltb_spec b 128) as [H1|H1]; destruct (N.leb_spec 128 b) as [H2|H2];
    destruct (N.ltb_spec b 192) as [H3|H3]; cbn; try reflexivity; try lia.
  destruct (N.leb_spec 194 b) as [H4|H4]; try lia; cbn.
  destruct (N.leb_spec 224 b) as [H5|H5]; try lia; cbn.
  destruct (N.leb_spec 240 b) as [H6|H6]; try lia; cbn.
  discriminate.
Qed.

Lemma valid_sboundary0 : forall old, valid_utf8 old = true -> sboundary old 0 = true.
Proof.
  intros [|b r] H; [reflexivity |].
  unfold valid_utf8 in H. cbn [utf8_from] in H.
  destruct (lead_len b) as [n|] eqn:E; [| discriminate].
  unfold sboundary. cbn. rewrite (lead_not_cont _ _ E). reflexivity.
Qed.

(* ------------------------------------------------------------------ *)
(* C06_splice_concat                                                   *)
(* ------------------------------------------------------------------ *)
Lemma apply_from_spliced : forall old ds start,
  start <= length old -> boundary old start = true ->
  ordered_from start ds -> inside old ds ->
  apply_from old start ds = Done (spliced old start ds).
Proof.
  intros old. induction ds as [|d r IH]; intros start Hle Hb Ho Hi.
  - cbn [apply_from spliced]. unfold slice_ok.
    rewrite Hb, boundary_len, Nat.leb_refl.
    apply Nat.leb_le in Hle. rewrite Hle. reflexivity.
  - cbn [apply_from spliced]. cbn [ordered_from] in Ho. destruct Ho as [Ho1 [Ho2 Ho3]].
    destruct (Hi d (or_introl eq_refl)) as [Hd1 [Hd2 Hd3]].
    unfold slice_ok. rewrite Hb, Hd2.
    assert (Hs : ed_s d <= length old) by lia.
    apply Nat.leb_le in Ho1. apply Nat.leb_le in Hs. rewrite Ho1, Hs. cbn.
    rewrite (IH (ed_e d) Hd1 Hd3 Ho3 (inside_tail _ _ _ Hi)). reflexivity.
Qed.

Lemma C06_splice_concat : C06_splice_concat_stmt.
Proof.
  intros old ds Ho Hi. unfold apply_rewrite.
  apply apply_from_spliced; [lia | apply boundary_0 | exact Ho | exact Hi].
Qed.
Print Assumptions C06_splice_concat.

(* ------------------------------------------------------------------ *)
(* C18_bytes                                                           *)
(* ------------------------------------------------------------------ *)
Lemma C18_bytes : C18_bytes_stmt.
Proof.
  intros old ds Hwf Hi.
  destruct (C06_disjoint ds 0 Hwf) as [Hord Hsub].
  assert (Hi' : inside old (accept 0 ds)) by (exact (inside_sub _ _ _ Hsub Hi)).
  pose proof (C06_splice_concat old (accept 0 ds) Hord Hi') as Happ.
  unfold update_file.
  destruct (accept 0 ds) as [|e l] eqn:E.
  - split; [reflexivity | intros H; exfalso; apply H; reflexivity].
  - split; [discriminate |]. intros _. rewrite Happ. reflexivity.
Qed.
Print Assumptions C18_bytes.

(* ------------------------------------------------------------------ *)
(* C06_utf8                                                            *)
(* ------------------------------------------------------------------ *)
Lemma utf8_app : forall a need b,
  utf8_from need a = true -> utf8_from 0 b = true -> utf8_from need (a ++ b) = true.
Proof.
  induction a as [|x a IH]; intros need b Ha Hb.
  - cbn [utf8_from] in Ha. apply Nat.eqb_eq in Ha. subst need. exact Hb.
  - cbn [app utf8_from] in *. destruct need as [|k].
    + destruct (lead_len x) as [n|]; [| discriminate]. apply IH; assumption.
    + apply andb_true_iff in Ha. destruct Ha as [Ha1 Ha2]. rewrite Ha1. cbn.
      apply IH; assumption.
Qed.

Lemma sboundary_cons_S : forall b r j, sboundary (b :: r) (S j) = sboundary r j.
Proof. intros. unfold sboundary. cbn. reflexivity. Qed.

(* in a valid text, the state machine is in state need = 0 at every boundary *)
Lemma utf8_split_s : forall s need i,
  utf8_from need s = true -> i <= length s -> sboundary s i = true ->
  utf8_from need (firstn i s) = true /\ utf8_from 0 (skipn i s) = true.
Proof.
  induction s as [|b r IH]; intros need i Hv Hle Hb.
  - cbn in Hle. assert (i = 0) by lia. subst i. cbn. cbn in Hv. split; [exact Hv | reflexivity].
  - destruct i as [|j].
    + cbn [firstn skipn]. unfold sboundary in Hb. cbn in Hb.
      destruct need as [|k].
      * split; [reflexivity | exact Hv].
      * cbn [utf8_from] in Hv. apply andb_true_iff in Hv. destruct Hv as [Hv1 _].
        rewrite Hv1 in Hb. discriminate Hb.
    + rewrite sboundary_cons_S in Hb. cbn [length] in Hle.
      cbn [firstn skipn utf8_from]. cbn [utf8_from] in Hv.
      destruct need as [|k].
      * destruct (lead_len b) as [n|]; [| discriminate].
        apply IH; [exact Hv | lia | exact Hb].
      * apply andb_true_iff in Hv. destruct Hv as [Hv1 Hv2]. rewrite Hv1. cbn.
        apply IH; [exact Hv2 | lia | exact Hb].
Qed.

(* a valid text cut at a [boundary] (offset 0 included): both halves are valid *)
Lemma utf8_split : forall s i,
  utf8_from 0 s = true -> i <= length s -> boundary s i = true ->
  utf8_from 0 (firstn i s) = true /\ utf8_from 0 (skipn i s) = true.
Proof.
  intros s i Hv Hle Hb. destruct i as [|j].
  - cbn [firstn skipn]. split; [reflexivity | exact Hv].
  - rewrite boundary_sboundary in Hb. cbn [Nat.eqb orb] in Hb.
    apply utf8_split_s; assumption.
Qed.

Lemma nth_error_skipn_add : forall (A : Type) a (l : list A) k,
  nth_error (skipn a l) k = nth_error l (a + k).
Proof.
  induction a as [|a IH]; intros l k; [reflexivity |].
  destruct l as [|x l]; cbn; [destruct k; reflexivity | apply IH].
Qed.

Lemma nth_error_firstn_lt : forall (A : Type) n (l : list A) k,
  k < n -> nth_error (firstn n l) k = nth_error l k.
Proof.
  induction n as [|n IH]; intros l k Hk; [lia |].
  destruct l as [|x l]; [reflexivity |].
  destruct k as [|k]; [reflexivity |]. cbn. apply IH. lia.
Qed.

Lemma sboundary_skipn : forall old a b,
  a <= b -> b <= length old -> sboundary (skipn a old) (b - a) = sboundary old b.
Proof.
  intros old a b Hab Hbl. unfold sboundary.
  rewrite skipn_length, nth_error_skipn_add.
  replace (a + (b - a)) with b by lia.
  destruct (Nat.eqb_spec (b - a) (length old - a)) as [E1|E1];
    destruct (Nat.eqb_spec b (length old)) as [E2|E2]; try reflexivity; lia.
Qed.

Lemma boundary_skipn : forall old a b,
  a <= b -> b <= length old -> boundary old b = true -> boundary (skipn a old) (b - a) = true.
Proof.
  intros old a b Hab Hbl Hb. rewrite boundary_sboundary in *.
  destruct (Nat.eqb_spec (b - a) 0) as [E|E]; [reflexivity |].
  destruct (Nat.eqb_spec b 0) as [E0|E0]; [lia |].
  cbn [orb] in *. rewrite sboundary_skipn by assumption. exact Hb.
Qed.

Lemma slice_valid : forall old a b,
  valid_utf8 old = true -> a <= b -> b <= length old ->
  boundary old a = true -> boundary old b = true ->
  valid_utf8 (slice old a b) = true.
Proof.
  intros old a b Hv Hab Hbl Ha Hb. unfold valid_utf8, slice in *.
  destruct (utf8_split old a Hv) as [_ Hs]; [lia | exact Ha |].
  destruct (utf8_split (skipn a old) (b - a) Hs) as [Hf _].
  - rewrite skipn_length. lia.
  - apply boundary_skipn; assumption.
  - exact Hf.
Qed.

Lemma spliced_valid : forall old ds start,
  valid_utf8 old = true ->
  start <= length old -> boundary old start = true ->
  ordered_from start ds -> inside old ds ->
  (forall d, In d ds -> valid_utf8 (ed_text d) = true) ->
  valid_utf8 (spliced old start ds) = true.
Proof.
  intros old. induction ds as [|d r IH]; intros start Hv Hle Hb Ho Hi Ht.
  - cbn [spliced]. apply slice_valid; [exact Hv | exact Hle | lia | exact Hb | apply boundary_len].
  - cbn [spliced]. cbn [ordered_from] in Ho. destruct Ho as [Ho1 [Ho2 Ho3]].
    destruct (Hi d (or_introl eq_refl)) as [Hd1 [Hd2 Hd3]].
    unfold valid_utf8. apply utf8_app.
    + apply slice_valid; [exact Hv | exact Ho1 | lia | exact Hb | exact Hd2].
    + apply utf8_app.
      * apply (Ht d). left. reflexivity.
      * apply IH; [exact Hv | exact Hd1 | exact Hd3 | exact Ho3 | exact (inside_tail _ _ _ Hi) |].
        intros d0 H0. apply Ht. right. exact H0.
Qed.

Lemma C06_utf8 : C06_utf8_stmt.
Proof.
  intros old ds Ho Hi Hv Ht.
  apply spliced_valid; [exact Hv | lia | apply boundary_0 | exact Ho | exact Hi | exact Ht].
Qed.
Print Assumptions C06_utf8.

(* ------------------------------------------------------------------ *)
(* C06_splice                                                          *)
(* ------------------------------------------------------------------ *)
Lemma slice_length : forall old a b, b <= length old -> length (slice old a b) = b - a.
Proof. intros old a b H. unfold slice. rewrite firstn_length, skipn_length. lia. Qed.

Lemma nth_error_slice : forall old a b k,
  k < b - a -> nth_error (slice old a b) k = nth_error old (a + k).
Proof.
  intros old a b k H. unfold slice.
  rewrite nth_error_firstn_lt by exact H. apply nth_error_skipn_add.
Qed.

Lemma spliced_length : forall old ds start,
  start <= length old -> ordered_from start ds -> inside old ds ->
  length (spliced old start ds) + start = new_length (length old) ds.
Proof.
  intros old. induction ds as [|d r IH]; intros start Hle Ho Hi.
  - cbn [spliced new_length]. rewrite slice_length by lia. lia.
  - cbn [spliced new_length]. cbn [ordered_from] in Ho. destruct Ho as [Ho1 [Ho2 Ho3]].
    destruct (Hi d (or_introl eq_refl)) as [Hd1 _].
    rewrite <- (IH (ed_e d) Hd1 Ho3 (inside_tail _ _ _ Hi)).
    rewrite !app_length, slice_length by lia. lia.
Qed.

Lemma spliced_shifted : forall old ds start i,
  ordered_from start ds -> inside old ds ->
  start <= i -> i < length old -> untouched ds i ->
  start <= shifted ds i /\
  nth_error (spliced old start ds) (shifted ds i - start) = nth_error old i.
Proof.
  intros old. induction ds as [|d r IH]; intros start i Ho Hi Hsi Hil Hu.
  - cbn [spliced shifted]. split; [exact Hsi |].
    rewrite nth_error_slice by lia. f_equal. lia.
  - cbn [spliced shifted]. cbn [ordered_from] in Ho. destruct Ho as [Ho1 [Ho2 Ho3]].
    destruct (Hi d (or_introl eq_refl)) as [Hd1 _].
    assert (HlenA : length (slice old start (ed_s d)) = ed_s d - start)
      by (apply slice_length; lia).
    destruct (Nat.leb_spec (ed_e d) i) as [Hei|Hei].
    + assert (Hur : untouched r i) by (intros d0 H0; apply Hu; right; exact H0).
      destruct (IH (ed_e d) i Ho3 (inside_tail _ _ _ Hi) Hei Hil Hur) as [IH1 IH2].
      split; [lia |].
      replace (shifted r i + length (ed_text d) - (ed_e d - ed_s d) - start)
        with (length (slice old start (ed_s d)) + (length (ed_text d) + (shifted r i - ed_e d)))
        by lia.
      rewrite nth_error_app2 by lia.
      replace (length (slice old start (ed_s d)) + (length (ed_text d) + (shifted r i - ed_e d))
               - length (slice old start (ed_s d)))
        with (length (ed_text d) + (shifted r i - ed_e d)) by lia.
      rewrite nth_error_app2 by lia.
      replace (length (ed_text d) + (shifted r i - ed_e d) - length (ed_text d))
        with (shifted r i - ed_e d) by lia.
      exact IH2.
    + destruct (Hu d (or_introl eq_refl)) as [Hlt|Hge]; [| lia].
      split; [exact Hsi |].
      rewrite nth_error_app1 by lia.
      rewrite nth_error_slice by lia. f_equal. lia.
Qed.

Lemma C06_splice : C06_splice_stmt.
Proof.
  intros old ds Ho Hi. exists (spliced old 0 ds).
  split; [apply C06_splice_concat; assumption |].
  split.
  - rewrite <- (spliced_length old ds 0) by (try assumption; lia). lia.
  - intros i Hil Hu.
    destruct (spliced_shifted old ds 0 i Ho Hi (Nat.le_0_l i) Hil Hu) as [_ H].
    rewrite Nat.sub_0_r in H. exact H.
Qed.
Print Assumptions C06_splice.

(* ---------- every edit of an ordered list (touching ranges included) passes the overlap filter ---------- *)
Lemma accept_ordered_all : forall ds lo, ordered_from lo ds -> accept lo ds = ds.
Proof.
  induction ds as [|d r IH]; intros lo H; [reflexivity|].
  cbn [ordered_from] in H. destruct H as (H1 & H2 & H3).
  cbn [accept]. assert (E : Nat.ltb (ed_s d) lo = false) by (apply Nat.ltb_ge; exact H1).
  rewrite E. f_equal. apply IH. exact H3.
Qed.
