(* Model of crates/core/src/source.rs: position_for_offset, String::accept_edit (the splice and the
   InputEdit handed to tree-sitter), perform_edit, and of Root::do_edit (crates/core/src/node.rs):
   the edit description is applied to the old tree ONCE (fix: it was applied twice) before the
   incremental re-parse.  The incremental parser itself is not modelled. *)
From Coq Require Import List NArith ZArith Bool Arith.
From AG Require Import Base.Val Rewrite.Splice.
Import ListNotations.

(* position_for_offset: (row, BYTE column) by a left-to-right scan *)
Fixpoint pfo_scan (l : list N) (row col : N) : N * N :=
  match l with
  | [] => (row, col)
  | c :: r => if N.eqb c 10 then pfo_scan r (row + 1)%N 0%N else pfo_scan r row (col + 1)%N
  end.
Definition position_for_offset (input : str) (off : nat) : N * N := pfo_scan (firstn off input) 0%N 0%N.

Record input_edit := {
  ie_start : nat; ie_old_end : nat; ie_new_end : nat;
  ie_start_pos : N * N; ie_old_end_pos : N * N; ie_new_end_pos : N * N
}.

(* an Edit of the library: replace [pos, pos+del) by ins *)
Record ledit := { le_pos : nat; le_del : nat; le_ins : str }.

(* Vec::splice panics when the range is out of bounds *)
Definition accept_edit (src : str) (e : ledit) : result (str * input_edit) :=
  let s := le_pos e in
  let oe := le_pos e + le_del e in
  let ne := le_pos e + length (le_ins e) in
  if Nat.leb oe (length src) then
    let new := firstn s src ++ le_ins e ++ skipn oe src in
    Done (new, {| ie_start := s; ie_old_end := oe; ie_new_end := ne;
                  ie_start_pos := position_for_offset src s;
                  ie_old_end_pos := position_for_offset src oe;
                  ie_new_end_pos := position_for_offset new ne |})
  else Panic.

(* what Tree::edit does to a byte offset of the old tree *)
Definition shift (ie : input_edit) (b : nat) : nat :=
  if Nat.leb (ie_old_end ie) b then b - ie_old_end ie + ie_new_end ie
  else if Nat.ltb (ie_start ie) b then ie_new_end ie
  else b.

(* Root::do_edit: new text, and the offsets of the old tree as seen by the re-parse *)
Definition do_edit (src : str) (old_offsets : list nat) (e : ledit) : result (str * list nat) :=
  match accept_edit src e with
  | Done (new, ie) => Done (new, map (shift ie) old_offsets)      (* applied once *)
  | Panic => Panic
  end.

(* a history of edits *)
Fixpoint edit_all (src : str) (es : list ledit) : result str :=
  match es with
  | [] => Done src
  | e :: r => match accept_edit src e with
              | Done (new, _) => edit_all new r
              | Panic => Panic
              end
  end.

(* ---- specification side ---- *)
Definition spliced1 (src : str) (e : ledit) : str :=
  firstn (le_pos e) src ++ le_ins e ++ skipn (le_pos e + le_del e) src.
Definition nl_count (l : list N) : N := N.of_nat (length (filter (N.eqb 10) l)).
Fixpoint since_nl (l acc : list N) : list N :=
  match l with
  | [] => acc
  | b :: r => if N.eqb b 10 then since_nl r [] else since_nl r (acc ++ [b])
  end.
