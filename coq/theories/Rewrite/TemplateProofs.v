(* Lemmas about Rewrite/Template.v (model of replacer.rs:split_first_meta_var and
   replacer/template.rs:create_template / replace_fixer / generate_replacement). *)
From Coq Require Import List NArith Bool Arith Lia.
From AG Require Import Base.Val Gen.Tables Str.MetaVar Rewrite.Indent Rewrite.IndentProofs
  Rewrite.Template.
Import ListNotations.

(* ------------------------------------------------------------------ *)
(* T5  re-indentation of a capture and of the whole replacement        *)
(* ------------------------------------------------------------------ *)

(* uniform view of a deindented extract, single- or multi-line *)
Lemma extract_indent doc s e t :
  let text := byte_slice doc s e in
  let c := get_indent_at_offset (firstn s doc) in
  first_not_blank text ->
  (forall l, In l (tl (split_nl text)) -> strip_prefix_n c l <> None) ->
  indent_lines t (extract_with_deindent doc s e)
  = map_cont (fun l => repeat SP t ++ skipn c l) text.
Proof.
  intros text c Hfirst Hcont. unfold extract_with_deindent. fold text. fold c.
  destruct (has_newline text) eqn:Hnl; cbn [negb].
  - apply indent_lines_map_cont; assumption.
  - cbn [indent_lines]. symmetry. apply map_cont_single_line, Hnl.
Qed.

Lemma extract_single_line doc s e t :
  has_newline (byte_slice doc s e) = false ->
  indent_lines t (extract_with_deindent doc s e) = byte_slice doc s e.
Proof.
  intros Hnl. unfold extract_with_deindent. rewrite Hnl. reflexivity.
Qed.

Theorem maybe_get_var_single_multiline doc env v s e :
  tv_kind v = KSingle ->
  assoc (tv_name v) (e_single env) = Some (s, e) ->
  let text := byte_slice doc s e in
  let c := get_indent_at_offset (firstn s doc) in
  has_newline text = true ->
  first_not_blank text ->
  (forall l, In l (tl (split_nl text)) -> strip_prefix_n c l <> None) ->
  maybe_get_var doc env v
  = Some (map_cont (fun l => repeat SP (tv_indent v) ++ skipn c l) text).
Proof.
  intros Hk Ha text c _ Hfirst Hcont. unfold maybe_get_var, single_range. rewrite Hk, Ha.
  unfold cut_range; cbn [fst snd]. f_equal. apply extract_indent; assumption.
Qed.

Theorem maybe_get_var_single_oneline doc env v s e :
  tv_kind v = KSingle ->
  assoc (tv_name v) (e_single env) = Some (s, e) ->
  has_newline (byte_slice doc s e) = false ->
  maybe_get_var doc env v = Some (byte_slice doc s e).
Proof.
  intros Hk Ha Hnl. unfold maybe_get_var, single_range. rewrite Hk, Ha.
  unfold cut_range; cbn [fst snd]. f_equal. apply extract_single_line, Hnl.
Qed.

Theorem maybe_get_var_multiple_multiline doc env v s0 e0 more :
  tv_kind v = KMultiple ->
  assoc (tv_name v) (e_multi env) = Some ((s0, e0) :: more) ->
  let e := snd (last more (s0, e0)) in
  let text := byte_slice doc s0 e in
  let c := get_indent_at_offset (firstn s0 doc) in
  has_newline text = true ->
  first_not_blank text ->
  (forall l, In l (tl (split_nl text)) -> strip_prefix_n c l <> None) ->
  maybe_get_var doc env v
  = Some (map_cont (fun l => repeat SP (tv_indent v) ++ skipn c l) text).
Proof.
  intros Hk Ha e text c _ Hfirst Hcont. unfold maybe_get_var, multi_range. rewrite Hk, Ha.
  unfold cut_range; cbn [fst snd]. f_equal. apply extract_indent; assumption.
Qed.

Theorem maybe_get_var_multiple_oneline doc env v s0 e0 more :
  tv_kind v = KMultiple ->
  assoc (tv_name v) (e_multi env) = Some ((s0, e0) :: more) ->
  let e := snd (last more (s0, e0)) in
  has_newline (byte_slice doc s0 e) = false ->
  maybe_get_var doc env v = Some (byte_slice doc s0 e).
Proof.
  intros Hk Ha e Hnl. unfold maybe_get_var, multi_range. rewrite Hk, Ha.
  unfold cut_range; cbn [fst snd]. f_equal. apply extract_single_line, Hnl.
Qed.

Theorem maybe_get_var_transformed doc env v src :
  tv_kind v = KTransformed ->
  assoc (tv_name v) (e_trans env) = Some src ->
  maybe_get_var doc env v = Some (map_cont (fun l => repeat SP (tv_indent v) ++ l) src).
Proof.
  intros Hk Ha. unfold maybe_get_var, transformed_text. rewrite Hk, Ha. f_equal. apply indent_lines_zero.
Qed.

Theorem generate_replacement_map_cont doc mstart env t :
  let m := get_indent_at_offset (firstn mstart doc) in
  generate_replacement doc mstart env t
  = map_cont (fun l => repeat SP m ++ l) (replace_fixer doc env t).
Proof. intros m. unfold generate_replacement. apply indent_lines_zero. Qed.

(* ------------------------------------------------------------------ *)
(* T6  substitution                                                    *)
(* ------------------------------------------------------------------ *)

Definition var_text (doc : str) (env : tenv) (v : tvar) : str :=
  match maybe_get_var doc env v with Some b => b | None => [] end.

Lemma zip_fill_concat doc env : forall vars fs,
  zip_fill doc env vars fs
  = concat (map (fun '(v, f) => (match maybe_get_var doc env v with Some b => b | None => [] end) ++ f)
                (combine vars fs)).
Proof.
  induction vars as [|v vs IH]; intros fs; [reflexivity|].
  destruct fs as [|f fs']; [reflexivity|].
  cbn [zip_fill combine map concat]. rewrite IH. now rewrite app_assoc.
Qed.

(* the length hypothesis is what the scanner guarantees; the equation itself does not need it *)
Theorem replace_fixer_with_vars doc env f0 fs vars :
  length fs = length vars ->
  replace_fixer doc env (WithMetaVar (f0 :: fs) vars)
  = f0 ++ concat (map (fun '(v, f) => (match maybe_get_var doc env v with Some b => b | None => [] end) ++ f)
                      (combine vars fs)).
Proof. intros _. cbn [replace_fixer]. now rewrite zip_fill_concat. Qed.

Theorem replace_fixer_textual doc env s : replace_fixer doc env (Textual s) = s.
Proof. reflexivity. Qed.

(* a variable stays unsubstituted only if NO capture of that name exists, whatever the sigil *)
Theorem maybe_get_var_unbound doc env v :
  match tv_kind v with
  | KSingle => single_range env (tv_name v) = None /\ multi_range env (tv_name v) = None
  | KMultiple => single_range env (tv_name v) = None /\ multi_range env (tv_name v) = None
                 /\ assoc (tv_name v) (e_trans env) = None
  | KTransformed => assoc (tv_name v) (e_trans env) = None
  end ->
  maybe_get_var doc env v = None.
Proof.
  unfold maybe_get_var, transformed_text. destruct (tv_kind v).
  - intros [H1 H2]. rewrite H1, H2. reflexivity.
  - intros [H1 [H2 H3]]. rewrite H1, H2, H3. reflexivity.
  - intros H. rewrite H. reflexivity.
Qed.

(* and conversely: an occurrence of a captured variable is always substituted — `$A`, `$$A`, `$$$A` alike *)
Theorem maybe_get_var_bound doc env v :
  (single_range env (tv_name v) <> None \/ multi_range env (tv_name v) <> None) ->
  tv_kind v <> KTransformed ->
  maybe_get_var doc env v <> None.
Proof.
  intros Hb Hk. unfold maybe_get_var.
  destruct (tv_kind v); [| |congruence];
    destruct (single_range env (tv_name v)) as [r1|], (multi_range env (tv_name v)) as [r2|];
    cbn [option_map]; try discriminate; destruct Hb as [Hb|Hb]; congruence.
Qed.

(* a `$$$T` spelling of a transformation T (no capture of that name) yields the transformed text *)
Theorem maybe_get_var_multiple_transformed doc env v src :
  tv_kind v = KMultiple ->
  single_range env (tv_name v) = None -> multi_range env (tv_name v) = None ->
  assoc (tv_name v) (e_trans env) = Some src ->
  maybe_get_var doc env v = Some (map_cont (fun l => repeat SP (tv_indent v) ++ l) src).
Proof.
  intros Hk H1 H2 Ha. unfold maybe_get_var, transformed_text. rewrite Hk, H1, H2, Ha. f_equal. apply indent_lines_zero.
Qed.

Lemma tpl_scan_lengths mc tr : forall fuel d fr rest fs vs,
  tpl_scan fuel mc tr d fr rest = (fs, vs) -> length fs = S (length vs).
Proof.
  induction fuel as [|f IH]; intros d fr rest fs vs H.
  - cbn [tpl_scan] in H. inversion H; subst. reflexivity.
  - cbn [tpl_scan] in H. destruct rest as [|c rest'].
    + inversion H; subst. reflexivity.
    + destruct (N.eqb c mc).
      * destruct (split_first_meta_var mc tr (c :: rest')) as [[[k name] after]|].
        -- destruct (tpl_scan f mc tr
                       (rev (firstn (length (c :: rest') - length after) (c :: rest')) ++ d)
                       [] after) as [fs' vs'] eqn:E.
           inversion H; subst. cbn [length]. f_equal. exact (IH _ _ _ _ _ E).
        -- exact (IH _ _ _ _ _ H).
      * exact (IH _ _ _ _ _ H).
Qed.

Theorem create_template_lengths mc tr t fs vs :
  create_template mc tr t = WithMetaVar fs vs -> length fs = S (length vs).
Proof.
  unfold create_template.
  destruct (tpl_scan (S (length t)) mc tr [] [] t) as [fs' vs'] eqn:E.
  destruct vs' as [|v vs'']; [discriminate|].
  intros H. inversion H; subst. exact (tpl_scan_lengths _ _ _ _ _ _ _ _ E).
Qed.

(* ------------------------------------------------------------------ *)
(* T4  identity                                                        *)
(* ------------------------------------------------------------------ *)

Definition tplA : template := create_template DOLLAR [] [36;65]%N.
Definition envA (s e : nat) : tenv :=
  {| e_single := [([65]%N, (s, e))]; e_multi := []; e_trans := [] |}.

Lemma tplA_eq :
  tplA = WithMetaVar [[]; []] [{| tv_kind := KSingle; tv_name := [65]%N; tv_indent := 0 |}].
Proof. vm_compute. reflexivity. Qed.

Lemma assoc_same {A} (k : str) (v : A) rest : assoc k ((k, v) :: rest) = Some v.
Proof. cbn [assoc]. destruct (list_eq_dec N.eq_dec k k) as [_|Hne]; [reflexivity | congruence]. Qed.

Theorem rewrite_identity : forall doc s e,
  s <= e -> e <= length doc ->
  let text := byte_slice doc s e in
  let c := get_indent_at_offset (firstn s doc) in
  (match text with b :: _ => b <> SP | [] => True end) ->
  (forall l, In l (tl (split_nl text)) -> strip_prefix_n c l <> None) ->
  generate_replacement doc s (envA s e) tplA = text.
Proof.
  intros doc s e _ _ text c Hfirst Hcont.
  rewrite generate_replacement_map_cont. fold c.
  rewrite tplA_eq. cbn [replace_fixer zip_fill app].
  unfold maybe_get_var, single_range, cut_range. cbn [tv_kind tv_name tv_indent envA e_single].
  rewrite assoc_same. cbn [fst snd]. rewrite !app_nil_r.
  rewrite (extract_indent doc s e 0 Hfirst Hcont). fold text. fold c.
  cbn [repeat app].
  rewrite map_cont_compose by (intros l Hl; apply has_newline_skipn, Hl).
  apply map_cont_id. intros l Hin. symmetry.
  apply (strip_prefix_n_spec c l (Hcont l Hin)).
Qed.

(* ------------------------------------------------------------------ *)
(* T7  the scanner agrees with a byte-at-a-time automaton              *)
(* ------------------------------------------------------------------ *)

Definition kind_of (tr : list str) (k : nat) (name : str) : mvkind :=
  if Nat.eqb k 3 then KMultiple
  else if mem_str name tr then KTransformed else KSingle.

Inductive astate :=
| ALit                                  (* in literal text *)
| ASig (k : nat)                        (* k pending sigils, 1 <= k <= 3 *)
| AName (k : nat) (name_rev : str).     (* inside a name that follows k sigils *)

Fixpoint auto (tr : list str) (st : astate) (frag_rev : str) (s : str) {struct s}
  : list str * list (mvkind * str) :=
  match s with
  | [] =>
      match st with
      | ALit => ([rev frag_rev], [])
      | ASig k => ([rev (repeat DOLLAR k ++ frag_rev)], [])
      | AName k nr => ([rev frag_rev; []], [(kind_of tr k (rev nr), rev nr)])
      end
  | c :: rest =>
      match st with
      | ALit =>
          if N.eqb c DOLLAR then auto tr (ASig 1) frag_rev rest
          else auto tr ALit (c :: frag_rev) rest
      | ASig k =>
          if N.eqb c DOLLAR then
            (* a fourth sigil: the oldest pending one becomes literal text *)
            if Nat.eqb k 3 then auto tr (ASig 3) (DOLLAR :: frag_rev) rest
            else auto tr (ASig (S k)) frag_rev rest
          else if is_mv_char c then auto tr (AName k [c]) frag_rev rest
          else (* no name follows: all pending sigils are literal text *)
            auto tr ALit (c :: repeat DOLLAR k ++ frag_rev) rest
      | AName k nr =>
          if is_mv_char c then auto tr (AName k (c :: nr)) frag_rev rest
          else
            let '(fs, vs) :=
              if N.eqb c DOLLAR then auto tr (ASig 1) [] rest else auto tr ALit [c] rest in
            (rev frag_rev :: fs, (kind_of tr k (rev nr), rev nr) :: vs)
      end
  end.

Definition tokens (tr : list str) (t : str) : list str * list (mvkind * str) :=
  auto tr ALit [] t.

Definition scan_view (p : list str * list tvar) : list str * list (mvkind * str) :=
  (fst p, map (fun v => (tv_kind v, tv_name v)) (snd p)).

Lemma mv_dollar : is_mv_char DOLLAR = false.
Proof. reflexivity. Qed.

Lemma mv_not_dollar c : is_mv_char c = true -> N.eqb c DOLLAR = false.
Proof.
  intros H. destruct (N.eqb_spec c DOLLAR) as [Heq|Hne]; [|reflexivity].
  subst c. rewrite mv_dollar in H. discriminate.
Qed.

Lemma sfmv_unfold tr r :
  split_first_meta_var DOLLAR tr (DOLLAR :: r) =
  let '(i, after) := count_sigils DOLLAR r 1 3 in
  let '(name, rest) := take_name after in
  match name with
  | [] => None
  | _ :: _ => Some (kind_of tr i name, name, rest)
  end.
Proof. reflexivity. Qed.

Definition not_mv_start (s : str) : Prop :=
  match s with c :: _ => is_mv_char c = false | [] => True end.
Definition not_sigil_start (s : str) : Prop :=
  match s with c :: _ => N.eqb c DOLLAR = false | [] => True end.

Lemma count_sigils_spec r : exists j after,
  j <= 2 /\ r = repeat DOLLAR j ++ after /\
  count_sigils DOLLAR r 1 3 = (S j, after) /\
  (j < 2 -> not_sigil_start after).
Proof.
  destruct r as [|c1 r1].
  - exists 0, []. split; [lia|]. split; [reflexivity|]. split; [reflexivity|]. intros _. exact I.
  - destruct (N.eqb c1 DOLLAR) eqn:H1.
    + apply N.eqb_eq in H1. subst c1. destruct r1 as [|c2 r2].
      * exists 1, []. split; [lia|]. split; [reflexivity|]. split; [reflexivity|]. intros _. exact I.
      * destruct (N.eqb c2 DOLLAR) eqn:H2.
        -- apply N.eqb_eq in H2. subst c2. exists 2, r2.
           split; [lia|]. split; [reflexivity|]. split; [destruct r2; reflexivity|]. intros Hlt. lia.
        -- exists 1, (c2 :: r2). split; [lia|]. split; [reflexivity|]. split.
           ++ cbn [count_sigils Nat.eqb]. rewrite N.eqb_refl.
              cbn [count_sigils Nat.eqb]. rewrite H2. reflexivity.
           ++ intros _. exact H2.
    + exists 0, (c1 :: r1). split; [lia|]. split; [reflexivity|]. split.
      * cbn [count_sigils Nat.eqb]. rewrite H1. reflexivity.
      * intros _. exact H1.
Qed.

Lemma take_name_spec s : forall n r, take_name s = (n, r) ->
  s = n ++ r /\ forallb is_mv_char n = true /\ not_mv_start r.
Proof.
  induction s as [|c s IH]; intros n r H; cbn [take_name] in H.
  - inversion H; subst. repeat split.
  - destruct (is_mv_char c) eqn:Hc.
    + destruct (take_name s) as [n' r'] eqn:E. inversion H; subst n r.
      destruct (IH n' r' eq_refl) as [H1 [H2 H3]]. repeat split.
      * cbn [app]. now f_equal.
      * cbn [forallb]. now rewrite Hc, H2.
      * exact H3.
    + inversion H; subst n r. repeat split. exact Hc.
Qed.

Lemma auto_sigs tr : forall j k fr after, k + j <= 3 ->
  auto tr (ASig k) fr (repeat DOLLAR j ++ after) = auto tr (ASig (k + j)) fr after.
Proof.
  induction j as [|j IH]; intros k fr after Hle.
  - now rewrite Nat.add_0_r.
  - cbn [repeat app auto]. rewrite N.eqb_refl.
    destruct (Nat.eqb_spec k 3) as [Hk|Hk]; [lia|].
    rewrite IH by lia. f_equal. f_equal. lia.
Qed.

Lemma auto_name tr : forall s k nr fr,
  auto tr (AName k nr) fr s =
  let '(n, r) := take_name s in
  let '(fs, vs) := auto tr ALit [] r in
  (rev fr :: fs, (kind_of tr k (rev nr ++ n), rev nr ++ n) :: vs).
Proof.
  induction s as [|c s IH]; intros k nr fr.
  - cbn [auto take_name]. now rewrite app_nil_r.
  - cbn [auto take_name]. destruct (is_mv_char c) eqn:Hc.
    + rewrite IH. destruct (take_name s) as [n r].
      cbn [rev]. rewrite <- app_assoc. reflexivity.
    + rewrite app_nil_r. cbn [auto]. reflexivity.
Qed.

Lemma auto_sig_name tr k fr after c0 n0 after2 :
  take_name after = (c0 :: n0, after2) ->
  auto tr (ASig k) fr after =
  let '(fs, vs) := auto tr ALit [] after2 in
  (rev fr :: fs, (kind_of tr k (c0 :: n0), c0 :: n0) :: vs).
Proof.
  intros H. destruct after as [|c r]; cbn [take_name] in H; [discriminate|].
  destruct (is_mv_char c) eqn:Hc; [|discriminate].
  destruct (take_name r) as [n r'] eqn:E. inversion H; subst c0 n0 after2.
  cbn [auto]. rewrite (mv_not_dollar c Hc), Hc. rewrite auto_name, E. reflexivity.
Qed.

Lemma repeat_dollar_comm k l : repeat DOLLAR k ++ DOLLAR :: l = DOLLAR :: repeat DOLLAR k ++ l.
Proof. induction k as [|k IH]; [reflexivity|]. cbn [repeat app]. now rewrite IH. Qed.

Lemma auto_lit_sigs tr j fr after : j <= 2 ->
  auto tr ALit fr (repeat DOLLAR (S j) ++ after) = auto tr (ASig (S j)) fr after.
Proof.
  intros Hj. cbn [repeat app auto]. rewrite N.eqb_refl. rewrite auto_sigs by lia. reflexivity.
Qed.

Lemma auto_sig_fail tr j after fr :
  j <= 2 -> not_mv_start after -> (j < 2 -> not_sigil_start after) ->
  auto tr (ASig (S j)) fr after = auto tr ALit (DOLLAR :: fr) (repeat DOLLAR j ++ after).
Proof.
  intros Hj Hmv Hsig.
  destruct after as [|c r].
  - destruct j as [|j].
    + reflexivity.
    + rewrite auto_lit_sigs by lia. cbn [auto]. rewrite repeat_dollar_comm. reflexivity.
  - cbn [not_mv_start] in Hmv. destruct (N.eqb c DOLLAR) eqn:Hc.
    + (* a fourth sigil *)
      assert (j = 2) as ->.
      { destruct (Nat.lt_ge_cases j 2) as [Hlt|Hge]; [|lia].
        specialize (Hsig Hlt). cbn [not_sigil_start] in Hsig. congruence. }
      rewrite auto_lit_sigs by lia. cbn [auto]. rewrite Hc. reflexivity.
    + destruct j as [|j].
      * cbn [repeat app auto]. rewrite Hc, Hmv. reflexivity.
      * rewrite auto_lit_sigs by lia. cbn [auto]. rewrite Hc, Hmv.
        rewrite repeat_dollar_comm. reflexivity.
Qed.

Lemma tpl_scan_auto tr : forall fuel rest d fr, length rest < fuel ->
  scan_view (tpl_scan fuel DOLLAR tr d fr rest) = auto tr ALit fr rest.
Proof.
  induction fuel as [|f IH]; intros rest d fr Hlen; [lia|].
  destruct rest as [|c rest'].
  - reflexivity.
  - cbn [length] in Hlen. cbn [tpl_scan].
    destruct (N.eqb c DOLLAR) eqn:Hc.
    2:{ cbn [auto]. rewrite Hc. apply IH. lia. }
    apply N.eqb_eq in Hc. subst c.
    rewrite sfmv_unfold.
    destruct (count_sigils_spec rest') as [j [after [Hj [Hr [Hcount Hnext]]]]].
    rewrite Hcount.
    destruct (take_name after) as [name after2] eqn:Htn.
    assert (Hauto : auto tr ALit fr (DOLLAR :: rest') = auto tr (ASig (S j)) fr after).
    { rewrite Hr. cbn [auto]. rewrite N.eqb_refl. rewrite auto_sigs by lia. reflexivity. }
    rewrite Hauto.
    destruct (take_name_spec after name after2 Htn) as [Hafter [Hname Hstop]].
    destruct name as [|c0 n0].
    + cbn [app] in Hafter. subst after2.
      rewrite IH by lia. rewrite Hr. symmetry. apply auto_sig_fail; assumption.
    + assert (Hlen2 : length after2 < f).
      { assert (length rest' = j + (length (c0 :: n0) + length after2)) as Hl.
        { rewrite Hr, Hafter, !app_length, repeat_length. reflexivity. }
        cbn [length] in Hl. lia. }
      match goal with
      | |- context [tpl_scan f DOLLAR tr ?dd [] after2] =>
          pose proof (IH after2 dd [] Hlen2) as IH';
          destruct (tpl_scan f DOLLAR tr dd [] after2) as [fs vs]
      end.
      rewrite (auto_sig_name tr (S j) fr after c0 n0 after2 Htn).
      rewrite <- IH'. unfold scan_view. cbn [fst snd map tv_kind tv_name]. reflexivity.
Qed.

Theorem scanner_automaton : forall tr t,
  scan_view (tpl_scan (S (length t)) DOLLAR tr [] [] t) = tokens tr t.
Proof. intros tr t. apply tpl_scan_auto. lia. Qed.

(* ---- literal preservation / round trip ---- *)

(* [spelled tr pre fs vs t]: t is the fragments fs interleaved with spellings of the variables vs;
   a spelling is 1..3 sigils followed by the (non-empty, maximal) name; [pre] is the template
   text before t, and the slot indent of each variable is the indent at the end of the text
   that precedes its first sigil *)
Inductive spelled (tr : list str) : str -> list str -> list tvar -> str -> Prop :=
| sp_last pre f : spelled tr pre [f] [] f
| sp_var pre f j v fs vs t :
    j <= 2 ->
    tv_kind v = kind_of tr (S j) (tv_name v) ->
    tv_name v <> [] ->
    forallb is_mv_char (tv_name v) = true ->
    not_mv_start t ->
    tv_indent v = get_indent_at_offset (pre ++ f) ->
    spelled tr (pre ++ f ++ repeat DOLLAR (S j) ++ tv_name v) fs vs t ->
    spelled tr pre (f :: fs) (v :: vs) (f ++ repeat DOLLAR (S j) ++ tv_name v ++ t).

Lemma firstn_consumed (a b : str) : firstn (length (a ++ b) - length b) (a ++ b) = a.
Proof.
  rewrite app_length. replace (length a + length b - length b) with (length a + 0) by lia.
  rewrite firstn_app_2. cbn [firstn]. apply app_nil_r.
Qed.

Lemma tpl_scan_spelled tr : forall fuel rest d fr pre fs vs, length rest < fuel ->
  rev d = pre ++ rev fr ->
  tpl_scan fuel DOLLAR tr d fr rest = (fs, vs) -> spelled tr pre fs vs (rev fr ++ rest).
Proof.
  induction fuel as [|f IH]; intros rest d fr pre fs vs Hlen Hd H; [lia|].
  destruct rest as [|c rest'].
  - cbn [tpl_scan] in H. inversion H; subst. rewrite app_nil_r. constructor.
  - cbn [length] in Hlen. cbn [tpl_scan] in H.
    assert (Hstep : tpl_scan f DOLLAR tr (c :: d) (c :: fr) rest' = (fs, vs) ->
                    spelled tr pre fs vs (rev fr ++ c :: rest')).
    { intros H'. apply (IH _ _ _ pre) in H'; [|lia|].
      - cbn [rev] in H'. now rewrite <- app_assoc in H'.
      - cbn [rev]. rewrite Hd. now rewrite app_assoc. }
    destruct (N.eqb c DOLLAR) eqn:Hc; [|exact (Hstep H)].
    apply N.eqb_eq in Hc. subst c.
    rewrite sfmv_unfold in H.
    destruct (count_sigils_spec rest') as [j [after [Hj [Hr [Hcount Hnext]]]]].
    rewrite Hcount in H.
    destruct (take_name after) as [name after2] eqn:Htn.
    destruct (take_name_spec after name after2 Htn) as [Hafter [Hname Hstop]].
    destruct name as [|c0 n0]; [exact (Hstep H)|].
    assert (Hrest : DOLLAR :: rest' = (repeat DOLLAR (S j) ++ c0 :: n0) ++ after2).
    { rewrite Hr, Hafter. cbn [repeat app]. now rewrite <- !app_assoc. }
    assert (Hlen2 : length after2 < f).
    { assert (length (DOLLAR :: rest') = S j + S (length n0) + length after2) as Hl.
      { rewrite Hrest, !app_length, repeat_length. reflexivity. }
      cbn [length] in Hl. lia. }
    rewrite Hrest in H. rewrite firstn_consumed in H.
    destruct (tpl_scan f DOLLAR tr (rev (repeat DOLLAR (S j) ++ c0 :: n0) ++ d) [] after2)
      as [fs' vs'] eqn:E.
    apply (IH _ _ _ (pre ++ rev fr ++ repeat DOLLAR (S j) ++ c0 :: n0)) in E; [|exact Hlen2|].
    2:{ rewrite rev_app_distr, rev_involutive, Hd. cbn [rev]. now rewrite app_nil_r, <- !app_assoc. }
    cbn [rev app] in E.
    inversion H; subst fs vs.
    rewrite Hrest, <- app_assoc.
    apply (sp_var tr pre (rev fr) j
             {| tv_kind := kind_of tr (S j) (c0 :: n0); tv_name := c0 :: n0;
                tv_indent := get_indent_at_offset (rev d) |}); cbn [tv_kind tv_name tv_indent];
      try assumption; try reflexivity; try discriminate.
    now rewrite Hd.
Qed.

Theorem create_template_spelled tr t fs vs :
  create_template DOLLAR tr t = WithMetaVar fs vs -> spelled tr [] fs vs t.
Proof.
  unfold create_template.
  destruct (tpl_scan (S (length t)) DOLLAR tr [] [] t) as [fs' vs'] eqn:E.
  destruct vs' as [|v vs'']; [discriminate|].
  intros H. inversion H; subst fs vs.
  apply (tpl_scan_spelled tr _ _ _ _ [] _ _ (Nat.lt_succ_diag_r _) eq_refl) in E. exact E.
Qed.

(* no sigil: purely textual *)
Lemma tpl_scan_no_sigil tr : forall fuel rest d fr,
  existsb (N.eqb DOLLAR) rest = false ->
  snd (tpl_scan fuel DOLLAR tr d fr rest) = [].
Proof.
  induction fuel as [|f IH]; intros rest d fr H; [reflexivity|].
  destruct rest as [|c rest']; [reflexivity|].
  cbn [existsb] in H. apply orb_false_iff in H. destruct H as [Hc Hr].
  cbn [tpl_scan]. rewrite N.eqb_sym, Hc. apply IH, Hr.
Qed.

Theorem create_template_no_sigil tr t :
  existsb (N.eqb DOLLAR) t = false -> create_template DOLLAR tr t = Textual t.
Proof.
  intros H. unfold create_template.
  pose proof (tpl_scan_no_sigil tr (S (length t)) t [] [] H) as Hs.
  destruct (tpl_scan (S (length t)) DOLLAR tr [] [] t) as [fs vs].
  cbn [snd] in Hs. subst vs. reflexivity.
Qed.

(* consequences of [spelled] in list form *)
Lemma spelled_names tr pre fs vs t : spelled tr pre fs vs t ->
  Forall (fun v => tv_name v <> [] /\ forallb is_mv_char (tv_name v) = true) vs.
Proof. induction 1; constructor; auto. Qed.

Lemma spelled_first_frag tr pre fs vs t : spelled tr pre fs vs t ->
  exists f fs' u, fs = f :: fs' /\ t = f ++ u.
Proof.
  destruct 1 as [pre f | pre f j v fs vs t].
  - exists f, [], []. now rewrite app_nil_r.
  - exists f, fs, (repeat DOLLAR (S j) ++ tv_name v ++ t). split; reflexivity.
Qed.

(* maximality: the fragment that follows a variable never starts with a name byte *)
Lemma spelled_maximal tr pre fs vs t : spelled tr pre fs vs t ->
  Forall not_mv_start (tl fs).
Proof.
  induction 1 as [pre f | pre f j v fs vs t Hj Hk Hn Hall Hstop Hind Hsp IH]; [constructor|].
  cbn [tl]. destruct (spelled_first_frag tr _ fs vs t Hsp) as [f' [fs' [u [Hfs Ht]]]].
  subst fs. cbn [tl] in IH. constructor; [|exact IH].
  subst t. destruct f' as [|b f'']; [exact I | exact Hstop].
Qed.

Theorem create_template_names tr t fs vs :
  create_template DOLLAR tr t = WithMetaVar fs vs ->
  Forall (fun v => tv_name v <> [] /\ forallb is_mv_char (tv_name v) = true) vs.
Proof. intros H. exact (spelled_names _ _ _ _ _ (create_template_spelled _ _ _ _ H)). Qed.

Theorem create_template_maximal tr t fs vs :
  create_template DOLLAR tr t = WithMetaVar fs vs ->
  Forall (fun f => match f with c :: _ => is_mv_char c = false | [] => True end) (tl fs).
Proof. intros H. exact (spelled_maximal _ _ _ _ _ (create_template_spelled _ _ _ _ H)). Qed.

(* functional form of the round trip: the template text is the fragments interleaved with
   the consumed spellings (k sigils + name), for some sigil counts ks *)
Fixpoint interleave (fs : list str) (sps : list str) : str :=
  match fs with
  | [] => []
  | f :: fs' => match sps with
                | [] => f
                | s :: sps' => f ++ s ++ interleave fs' sps'
                end
  end.

Definition spelling (kv : nat * tvar) : str := repeat DOLLAR (fst kv) ++ tv_name (snd kv).

Lemma spelled_interleave tr pre fs vs t : spelled tr pre fs vs t ->
  exists ks, length ks = length vs /\
             Forall (fun kv => 1 <= fst kv <= 3 /\
                               tv_kind (snd kv) = kind_of tr (fst kv) (tv_name (snd kv)))
                    (combine ks vs) /\
             t = interleave fs (map spelling (combine ks vs)).
Proof.
  induction 1 as [pre f | pre f j v fs vs t Hj Hk Hn Hall Hstop Hind Hsp IH].
  - exists []. repeat split; constructor.
  - destruct IH as [ks [Hlen [Hks Ht]]]. exists (S j :: ks). split; [|split].
    + cbn [length]. now f_equal.
    + cbn [combine]. constructor; [|exact Hks]. cbn [fst snd]. split; [lia | exact Hk].
    + cbn [combine map interleave]. unfold spelling at 1. cbn [fst snd].
      rewrite <- Ht. now rewrite <- app_assoc.
Qed.

Theorem create_template_roundtrip tr t fs vs :
  create_template DOLLAR tr t = WithMetaVar fs vs ->
  exists ks, length ks = length vs /\
             Forall (fun kv => 1 <= fst kv <= 3 /\
                               tv_kind (snd kv) = kind_of tr (fst kv) (tv_name (snd kv)))
                    (combine ks vs) /\
             t = interleave fs (map spelling (combine ks vs)).
Proof. intros H. exact (spelled_interleave _ _ _ _ _ (create_template_spelled _ _ _ _ H)). Qed.

(* m = 0: the final re-indentation is the identity *)
Theorem generate_replacement_m0 doc mstart env t :
  get_indent_at_offset (firstn mstart doc) = 0 ->
  generate_replacement doc mstart env t = replace_fixer doc env t.
Proof.
  intros Hm. rewrite generate_replacement_map_cont, Hm.
  apply map_cont_id. intros l _. reflexivity.
Qed.
