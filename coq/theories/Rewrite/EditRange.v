(* Model of Replacer::get_replaced_range (crates/core/src/replacer.rs, default body) and of its
   override for Fixer (crates/config/src/fixer.rs: expand_start / expand_end walk the previous /
   next siblings until the expansion's stop rule; no sibling found => the node's own boundary). *)
From Coq Require Import List NArith ZArith Bool Arith Lia.
From AG Require Import Base.Val.
Import ListNotations.

(* node range [ns, ne); mlen = Matcher::get_match_len; xs / xe: None = no expansion configured,
   Some None = configured but no sibling matched, Some (Some (s, e)) = range of the sibling found *)
Definition replaced_range (ns ne : nat) (mlen : option nat)
           (xs xe : option (option (nat * nat))) : nat * nat :=
  match xs, xe with
  | None, None =>
      match mlen with
      | Some l => (ns, ns + l)
      | None => (ns, ne)
      end
  | _, _ =>
      (match xs with Some (Some (s, _)) => s | _ => ns end,
       match xe with Some (Some (_, e)) => e | _ => ne end)
  end.

(* without expansion the edit starts at the matched node and stays inside it *)
Lemma range_plain : forall ns ne mlen s e,
  ns <= ne -> (forall l, mlen = Some l -> 0 < l <= ne - ns) ->
  replaced_range ns ne mlen None None = (s, e) ->
  s = ns /\ s <= e /\ e <= ne.
Proof.
  intros ns ne mlen s e Hn Hl H. unfold replaced_range in H.
  destruct mlen as [l|]; inversion H; subst.
  - specialize (Hl l eq_refl). lia.
  - lia.
Qed.

(* with expandStart / expandEnd the edit covers the matched node: a previous sibling starts before
   it and a next sibling ends after it *)
Lemma range_expanded : forall ns ne mlen xs xe s e,
  ns <= ne ->
  (xs <> None \/ xe <> None) ->
  (forall a b, xs = Some (Some (a, b)) -> a <= b /\ b <= ns) ->      (* found among the previous siblings *)
  (forall a b, xe = Some (Some (a, b)) -> ne <= a /\ a <= b) ->      (* found among the next siblings *)
  replaced_range ns ne mlen xs xe = (s, e) ->
  s <= ns /\ ne <= e.
Proof.
  intros ns ne mlen xs xe s e Hn Hx Hs He H. unfold replaced_range in H.
  assert (Hs' : s = match xs with Some (Some (a, _)) => a | _ => ns end /\
                e = match xe with Some (Some (_, d)) => d | _ => ne end).
  { destruct xs as [[[a b]|]|]; destruct xe as [[[c d]|]|]; try (destruct Hx; congruence);
      inversion H; subst; split; reflexivity. }
  destruct Hs' as [-> ->]. split.
  - destruct xs as [[[a b]|]|]; try lia. specialize (Hs a b eq_refl). lia.
  - destruct xe as [[[c d]|]|]; try lia. specialize (He c d eq_refl). lia.
Qed.
