(* The transformation pass of a match: Transform::apply_transform / Transformation::insert
   (crates/config/src/transform/{mod,transformation}.rs) on the environment operations
   MetaVarEnv::insert_transformation / get_var_bytes (crates/core/src/meta_var.rs).
   What one transformation computes from the text of its source (substring, replace, convert, rewrite,
   then the de-indentation of insert_transformation) is a parameter [compute key t : option str -> str]:
   it depends on the captures, which the pass never changes.  The pass itself — the order, the empty
   placeholder written before each computation, where a source is looked up — is what is modelled. *)
From Coq Require Import List NArith ZArith Bool Arith.
From AG Require Import Base.Val Base.Sort Str.MetaVar Tree.Tree Match.MatchNode Rule.Rule Rule.Kinds
  Rewrite.Template Front.Load Front.LoadSpec.
Import ListNotations.

Record aenv := {
  a_single : list (str * str);      (* single captures: name -> text *)
  a_multi : list (str * str);       (* multiple captures with at least one node: name -> joined text *)
  a_trans : list (str * str)        (* transformed variables *)
}.

(* get_var_bytes *)
Definition var_bytes (e : aenv) (mv : option metavar) : option str :=
  match mv with
  | Some (Capture n _) =>
      match lookup n (a_single e) with
      | Some x => Some x
      | None => lookup n (a_trans e)
      end
  | Some (MultiCapture n) => lookup n (a_multi e)
  | _ => None
  end.

Definition set_trans (e : aenv) (key : str) (v : str) : aenv :=
  {| a_single := a_single e; a_multi := a_multi e; a_trans := upsert key v (a_trans e) |}.

Definition source_var (t : transf) : option metavar := extract_meta_var DOLLAR_C (tf_source t).

Section Pass.
  Variable compute : str -> transf -> option str -> str.

  (* Transformation::insert: placeholder, compute from the environment WITH the placeholder, store *)
  Definition apply_one (e : aenv) (key : str) (t : transf) : aenv :=
    let e1 := set_trans e key [] in
    set_trans e1 key (compute key t (var_bytes e1 (source_var t))).

  (* Transform::apply_transform over the order computed at load time *)
  Definition apply_all (ts : list (str * transf)) (order : list str) (e : aenv) : aenv :=
    fold_left (fun e key => match lookup key ts with Some t => apply_one e key t | None => e end) order e.

  (* For an accepted rule: after the pass every transformation holds exactly what it computes from the FINAL
     text of its source — a capture, or another transformation, which was therefore computed before it and
     never touched again; no transformation ever read a placeholder or a missing value of another one.
     The pass starts from the environment of a match: no transformed variable yet. *)
  Definition C12_apply_equations_stmt : Prop :=
    forall k globals upper uord tord ts e0,
      load_core k globals upper = LOk (uord, tord) ->
      k_trans k = Some ts ->
      a_trans e0 = [] ->
      let final := apply_all ts tord e0 in
      (forall key t, lookup key ts = Some t ->
         lookup key (a_trans final) = Some (compute key t (var_bytes final (source_var t))))
      /\ (forall key, In key (map fst (a_trans final)) <-> In key (map fst ts))
      /\ a_single final = a_single e0 /\ a_multi final = a_multi e0.

  (* consequently the result does not depend on which admissible order the loader happened to produce:
     two orders that both satisfy what C12_core_accept guarantees give the same transformed variables *)
  Definition good_order (ts : list (str * transf)) (ord : list str) : Prop :=
    NoDup ord
    /\ (forall key, In key ord <-> In key (map fst ts))
    /\ (forall key t, lookup key ts = Some t -> In (tf_used_var t) (map fst ts) -> before (tf_used_var t) key ord).

  Definition C13_apply_order_independent_stmt : Prop :=
    forall ts o1 o2 e0,
      NoDup (map fst ts) ->
      (forall key t, lookup key ts = Some t -> source_var t <> None) ->
      good_order ts o1 -> good_order ts o2 -> a_trans e0 = [] ->
      (forall key, In key (map fst ts) -> lookup key (a_single e0) = None) ->
      forall key, lookup key (a_trans (apply_all ts o1 e0)) = lookup key (a_trans (apply_all ts o2 e0)).
End Pass.
