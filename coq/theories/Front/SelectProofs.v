(* C15 — proofs of the statements of Front/SelectSpec.v about the rule-selection model Front/Select.v. *)
From Coq Require Import List NArith ZArith Bool Arith Lia Permutation.
From AG Require Import Base.Val Base.Sort Gen.Tables Front.Select Front.SelectSpec.
Import ListNotations.

(* ---------- basic equalities ---------- *)
Lemma seqb_refl : forall a : str, str_eqb a a = true.
Proof.
  induction a as [|x a IHa]; cbn; [reflexivity|].
  rewrite N.eqb_refl, IHa. reflexivity.
Qed.

Lemma seqb_eq : forall a b : str, str_eqb a b = true -> a = b.
Proof.
  induction a as [|x a IHa]; intros [|y b] H; cbn in H; try discriminate; [reflexivity|].
  apply andb_true_iff in H. destruct H as [H1 H2].
  apply N.eqb_eq in H1. apply IHa in H2. subst. reflexivity.
Qed.

Lemma existsb_str_In : forall (x : str) l, existsb (str_eqb x) l = true <-> In x l.
Proof.
  intros x l. rewrite existsb_exists. split.
  - intros [y [Hy He]]. apply seqb_eq in He. subst. exact Hy.
  - intros H. exists x. split; [exact H | apply seqb_refl].
Qed.

Lemma sev_eqb_eq : forall a b, sev_eqb a b = true <-> a = b.
Proof.
  intros a b. split.
  - destruct a; destruct b; cbn; intros H; try discriminate; reflexivity.
  - intros H. subst. destruct b; reflexivity.
Qed.

(* ---------- C15_exit ---------- *)
Lemma C15_exit : C15_exit_stmt.
Proof.
  unfold C15_exit_stmt. intros findings. unfold exit_nonzero. rewrite existsb_exists. split.
  - intros [r [Hin He]]. exists r. split; [exact Hin | apply sev_eqb_eq; exact He].
  - intros [r [Hin He]]. exists r. split; [exact Hin | apply sev_eqb_eq; exact He].
Qed.
Print Assumptions C15_exit.

(* ---------- C15_severity ---------- *)
Lemma read_severity_default : forall s ids o,
  ow_default (read_severity s ids o) =
  if match ids with Some [] => true | _ => false end then Some s else ow_default o.
Proof.
  intros s ids o. destruct ids as [[|x l]|]; reflexivity.
Qed.

Lemma C15_severity : C15_severity_stmt.
Proof.
  unfold C15_severity_stmt. intros a id yaml. cbv zeta.
  split; [|split; [|split]].
  - intros s H. unfold eff_severity. rewrite H. reflexivity.
  - intros H1 H2. unfold eff_severity. rewrite H1, H2. reflexivity.
  - intros H1 s H2. unfold eff_severity. rewrite H1, H2. reflexivity.
  - unfold overwrite_new. rewrite !read_severity_default. reflexivity.
Qed.
Print Assumptions C15_severity.

(* ---------- the language table ---------- *)
Fixpoint nodupb (l : list str) : bool :=
  match l with
  | [] => true
  | x :: r => negb (existsb (str_eqb x) r) && nodupb r
  end.

Lemma nodupb_sound : forall l, nodupb l = true -> NoDup l.
Proof.
  induction l as [|x r IH]; cbn [nodupb]; intros H.
  - constructor.
  - apply andb_true_iff in H. destruct H as [H1 H2].
    constructor.
    + intros Hin. apply existsb_str_In in Hin. rewrite Hin in H1. discriminate.
    + apply IH. exact H2.
Qed.

Lemma nodupb_complete : forall l, NoDup l -> nodupb l = true.
Proof.
  induction l as [|x r IH]; intros H; cbn [nodupb]; [reflexivity|].
  inversion H as [|y ys Hnotin Hnd]; subst.
  rewrite (IH Hnd), andb_true_r.
  destruct (existsb (str_eqb x) r) eqn:E; [|reflexivity].
  apply existsb_str_In in E. contradiction.
Qed.

Lemma C15_extensions_unique : C15_extensions_unique_stmt.
Proof.
  unfold C15_extensions_unique_stmt. apply nodupb_sound. vm_compute. reflexivity.
Qed.
Print Assumptions C15_extensions_unique.

Lemma nodup_app_r : forall A (a b : list A), NoDup (a ++ b) -> NoDup b.
Proof.
  intros A a b. induction a as [|y a IHa]; cbn; intros Hnd; [exact Hnd|].
  inversion Hnd as [|z zs Hnotin Hnd']; subst. apply IHa. exact Hnd'.
Qed.

Lemma nodup_app_disjoint : forall A (a b : list A) x, NoDup (a ++ b) -> In x a -> In x b -> False.
Proof.
  intros A a b x. induction a as [|y a IHa]; cbn; intros Hnd Ha Hb.
  - contradiction.
  - inversion Hnd as [|z zs Hnotin Hnd']; subst.
    destruct Ha as [Ha|Ha].
    + subst y. apply Hnotin. apply in_app_iff. right. exact Hb.
    + apply IHa; assumption.
Qed.

  Lemma from_ext_sound : forall (tbl : list (list N * list (list N))) ext l,
    from_extension_in tbl ext = Some l -> exists exts, In (l, exts) tbl /\ In ext exts.
  Proof.
    induction tbl as [|[lang exts] r IH]; intros ext l H; cbn [from_extension_in] in H.
    - discriminate.
    - destruct (existsb (str_eqb ext) exts) eqn:E.
      + inversion H; subst. exists exts. split; [left; reflexivity|].
        apply existsb_str_In. exact E.
      + destruct (IH ext l H) as [exts' [H1 H2]]. exists exts'. split; [right; exact H1 | exact H2].
  Qed.

  (* with pairwise distinct extensions, detection returns THE language owning the extension *)
  Lemma from_ext_complete : forall (tbl : list (list N * list (list N))) ext p,
    NoDup (flat_map snd tbl) -> In p tbl -> In ext (snd p) ->
    from_extension_in tbl ext = Some (fst p).
  Proof.
    induction tbl as [|[lang exts] r IH]; intros ext p Hnd Hp He; cbn [from_extension_in].
    - destruct Hp.
    - cbn [flat_map snd] in Hnd.
      destruct (existsb (str_eqb ext) exts) eqn:E.
      + destruct Hp as [Hp|Hp].
        * subst p. reflexivity.
        * exfalso. apply existsb_str_In in E.
          apply (nodup_app_disjoint _ _ _ ext Hnd E).
          apply in_flat_map. exists p. split; assumption.
      + destruct Hp as [Hp|Hp].
        * subst p. cbn [snd] in He. apply existsb_str_In in He. rewrite He in E. discriminate.
        * apply IH; [|exact Hp|exact He].
          apply nodup_app_r in Hnd. exact Hnd.
  Qed.

Lemma C15_walker : C15_walker_stmt.
Proof.
  unfold C15_walker_stmt. intros langs ext. unfold walker_selects, from_extension.
  rewrite existsb_exists. split.
  - intros [p [Hp Hb]]. apply andb_true_iff in Hb. destruct Hb as [H1 H2].
    exists (fst p). split; [|exact H1].
    apply from_ext_complete; [exact C15_extensions_unique | exact Hp |].
    apply existsb_str_In. exact H2.
  - intros [l [Hf Hl]]. destruct (from_ext_sound _ _ _ Hf) as [exts [H1 H2]].
    exists (l, exts). split; [exact H1|]. cbn [fst snd]. rewrite Hl. cbn [andb].
    apply existsb_str_In. exact H2.
Qed.
Print Assumptions C15_walker.

(* ---------- generic list facts ---------- *)
Lemma filter_all_true : forall A (l : list A), filter (fun _ => true) l = l.
Proof.
  intros A l. induction l as [|x l IH]; cbn; [reflexivity|]. rewrite IH. reflexivity.
Qed.

Lemma NoDup_map_filter : forall A B (g : A -> B) p l, NoDup (map g l) -> NoDup (map g (filter p l)).
Proof.
  intros A B g p l. induction l as [|x l IH]; cbn; intros H.
  - constructor.
  - inversion H as [|y ys Hnotin Hnd]; subst.
    destruct (p x); cbn.
    + constructor; [|apply IH; exact Hnd].
      intros Hin. apply Hnotin. apply in_map_iff in Hin. destruct Hin as [y [Hy Hin]].
      apply filter_In in Hin. destruct Hin as [Hin _].
      apply in_map_iff. exists y. split; assumption.
    + apply IH. exact Hnd.
Qed.

Lemma NoDup_map_app_filter : forall A B (g : A -> B) p a b,
  NoDup (map g (a ++ b)) -> NoDup (map g (a ++ filter p b)).
Proof.
  intros A B g p a b. induction a as [|x a IH]; cbn; intros H.
  - apply NoDup_map_filter. exact H.
  - inversion H as [|y ys Hnotin Hnd]; subst.
    constructor; [|apply IH; exact Hnd].
    intros Hin. apply Hnotin. rewrite map_app, in_app_iff in *.
    destruct Hin as [Hin|Hin]; [left; exact Hin|right].
    apply in_map_iff in Hin. destruct Hin as [y [Hy Hin]].
    apply filter_In in Hin. destruct Hin as [Hin _].
    apply in_map_iff. exists y. split; assumption.
Qed.

Lemma nodup_id_inj : forall rules r r0,
  NoDup (map fr_id rules) -> In r rules -> In r0 rules -> fr_id r0 = fr_id r -> r0 = r.
Proof.
  induction rules as [|x rules IH]; cbn; intros r r0 Hnd Hr Hr0 Heq.
  - contradiction.
  - inversion Hnd as [|y ys Hnotin Hnd']; subst.
    destruct Hr as [Hr|Hr]; destruct Hr0 as [Hr0|Hr0].
    + congruence.
    + subst x. exfalso. apply Hnotin. rewrite <- Heq. apply in_map. exact Hr0.
    + subst x. exfalso. apply Hnotin. rewrite Heq. apply in_map. exact Hr.
    + apply IH; assumption.
Qed.

(* ---------- insertion sort ---------- *)
Lemma insert_perm : forall r l, Permutation (insert_by_id r l) (r :: l).
Proof.
  intros r l. induction l as [|x t IH]; cbn [insert_by_id].
  - apply Permutation_refl.
  - destruct (str_leb (fr_id r) (fr_id x)).
    + apply Permutation_refl.
    + eapply Permutation_trans; [apply perm_skip; exact IH | apply perm_swap].
Qed.

Lemma sort_perm : forall l, Permutation (fold_right insert_by_id [] l) l.
Proof.
  induction l as [|x l IH]; cbn [fold_right].
  - apply perm_nil.
  - eapply Permutation_trans; [apply insert_perm | apply perm_skip; exact IH].
Qed.

(* ---------- process_configs ---------- *)
Definition ov (o : overwrite) (r : frule) : frule :=
  {| fr_id := fr_id r; fr_lang := fr_lang r; fr_sev := eff_severity o (fr_id r) (fr_sev r);
     fr_files := fr_files r; fr_ignores := fr_ignores r |}.

Lemma process_configs_eq : forall a rules,
  process_configs a rules = map (ov (overwrite_new a)) (filter (selected a) rules).
Proof.
  intros a rules. unfold process_configs, selected. fold (ov (overwrite_new a)).
  destruct (oa_filter a) as [ids|].
  - reflexivity.
  - rewrite filter_all_true. reflexivity.
Qed.

Lemma in_process : forall a rules r',
  In r' (process_configs a rules) <->
  exists r, In r rules /\ selected a r = true /\ r' = ov (overwrite_new a) r.
Proof.
  intros a rules r'. rewrite process_configs_eq, in_map_iff. split.
  - intros [r [He Hin]]. apply filter_In in Hin. destruct Hin as [Hin Hs].
    exists r. split; [exact Hin|]. split; [exact Hs|]. symmetry. exact He.
  - intros [r [Hin [Hs He]]]. exists r. split; [symmetry; exact He|].
    apply filter_In. split; assumption.
Qed.

Lemma process_nodup : forall a rules,
  NoDup (map fr_id rules) -> NoDup (map fr_id (process_configs a rules)).
Proof.
  intros a rules H. rewrite process_configs_eq, map_map.
  rewrite (map_ext (fun x => fr_id (ov (overwrite_new a) x)) fr_id) by (intros x; reflexivity).
  apply NoDup_map_filter. exact H.
Qed.

(* ---------- try_new ---------- *)
Definition keep (r : frule) : bool := negb (sev_eqb (fr_sev r) SOff).
Definition noglob (r : frule) : bool :=
  match fr_files r, fr_ignores r with None, None => true | _, _ => false end.
Definition c0 : collection := {| co_tenured := []; co_contingent := [] |}.
Definition tn_step (c : collection) (r : frule) : collection :=
  if sev_eqb (fr_sev r) SOff then c
  else if noglob r
       then {| co_tenured := add_tenured (co_tenured c) r; co_contingent := co_contingent c |}
       else {| co_tenured := co_tenured c; co_contingent := co_contingent c ++ [r] |}.

Lemma try_new_fold : forall rules, try_new rules = fold_left tn_step rules c0.
Proof.
  intros rules. unfold try_new, c0.
  generalize {| co_tenured := []; co_contingent := [] |}.
  induction rules as [|x rules IH]; intros c; cbn [fold_left]; [reflexivity|].
  rewrite IH. f_equal. unfold tn_step, noglob.
  destruct (sev_eqb (fr_sev x) SOff); [reflexivity|].
  destruct (fr_files x); destruct (fr_ignores x); reflexivity.
Qed.

Lemma tenured_for_add : forall t r l,
  tenured_for (add_tenured t r) l =
  if N.eqb l (fr_lang r) then tenured_for t l ++ [r] else tenured_for t l.
Proof.
  induction t as [|[k rs] rest IH]; intros r l; cbn [add_tenured tenured_for].
  - destruct (N.eqb_spec (fr_lang r) l) as [E|E]; destruct (N.eqb_spec l (fr_lang r)) as [E'|E'];
      try reflexivity; congruence.
  - destruct (N.eqb_spec k (fr_lang r)) as [E|E]; cbn [tenured_for].
    + destruct (N.eqb_spec k l) as [E1|E1]; destruct (N.eqb_spec l (fr_lang r)) as [E2|E2];
        try reflexivity; congruence.
    + rewrite IH.
      destruct (N.eqb_spec k l) as [E1|E1]; destruct (N.eqb_spec l (fr_lang r)) as [E2|E2];
        try reflexivity; congruence.
Qed.

Definition tn_inv (rs : list frule) (c : collection) : Prop :=
  (forall l r, In r (tenured_for (co_tenured c) l) <->
               In r rs /\ keep r = true /\ noglob r = true /\ fr_lang r = l) /\
  (forall r, In r (co_contingent c) <-> In r rs /\ keep r = true /\ noglob r = false) /\
  (forall l, NoDup (map fr_id (tenured_for (co_tenured c) l ++ co_contingent c))).

Lemma nodup_add : forall (l l' : list frule) x,
  NoDup (map fr_id l) -> ~ In (fr_id x) (map fr_id l) -> Permutation (x :: l) l' ->
  NoDup (map fr_id l').
Proof.
  intros l l' x Hnd Hfresh Hp.
  eapply Permutation_NoDup; [apply Permutation_map; exact Hp|].
  cbn [map]. constructor; assumption.
Qed.

Lemma tn_step_inv : forall rs c x,
  tn_inv rs c -> ~ In (fr_id x) (map fr_id rs) -> tn_inv (rs ++ [x]) (tn_step c x).
Proof.
  intros rs c x [HA [HB HC]] Hfresh.
  assert (Hfresh' : forall l,
            ~ In (fr_id x) (map fr_id (tenured_for (co_tenured c) l ++ co_contingent c))).
  { intros l Hin. apply Hfresh. apply in_map_iff in Hin. destruct Hin as [y [Hy Hin]].
    rewrite <- Hy. apply in_map. apply in_app_iff in Hin. destruct Hin as [Hin|Hin].
    - apply HA in Hin. destruct Hin as [Hin _]. exact Hin.
    - apply HB in Hin. destruct Hin as [Hin _]. exact Hin. }
  unfold tn_step. destruct (sev_eqb (fr_sev x) SOff) eqn:Eoff.
  - (* dropped: severity off *)
    assert (Hkx : keep x = false) by (unfold keep; rewrite Eoff; reflexivity).
    split; [|split].
    + intros l r. rewrite HA, in_app_iff. cbn [In]. split.
      * intros [H1 H2]. split; [left; exact H1 | exact H2].
      * intros [[H1|[H1|[]]] [Hk H2]].
        -- split; [exact H1|]. split; [exact Hk | exact H2].
        -- subst r. rewrite Hkx in Hk. discriminate.
    + intros r. rewrite HB, in_app_iff. cbn [In]. split.
      * intros [H1 H2]. split; [left; exact H1 | exact H2].
      * intros [[H1|[H1|[]]] [Hk H2]].
        -- split; [exact H1|]. split; [exact Hk | exact H2].
        -- subst r. rewrite Hkx in Hk. discriminate.
    + exact HC.
  - assert (Hkx : keep x = true) by (unfold keep; rewrite Eoff; reflexivity).
    destruct (noglob x) eqn:Eng; unfold tn_inv; cbn [co_tenured co_contingent].
    + (* tenured *)
      split; [|split].
      * intros l r. rewrite tenured_for_add.
        destruct (N.eqb_spec l (fr_lang x)) as [El|El].
        -- rewrite !in_app_iff, HA. cbn [In]. split.
           ++ intros [[H1 H2]|[H1|[]]].
              ** split; [left; exact H1 | exact H2].
              ** subst r. split; [right; left; reflexivity|].
                 split; [exact Hkx|]. split; [exact Eng | symmetry; exact El].
           ++ intros [[H1|[H1|[]]] H2].
              ** left. split; assumption.
              ** right. left. exact H1.
        -- rewrite in_app_iff, HA. cbn [In]. split.
           ++ intros [H1 H2]. split; [left; exact H1 | exact H2].
           ++ intros [[H1|[H1|[]]] [Hk [Hn Hl]]].
              ** split; [exact H1|]. split; [exact Hk|]. split; [exact Hn | exact Hl].
              ** subst r. exfalso. apply El. symmetry. exact Hl.
      * intros r. rewrite HB, in_app_iff. cbn [In]. split.
        -- intros [H1 H2]. split; [left; exact H1 | exact H2].
        -- intros [[H1|[H1|[]]] [Hk Hn]].
           ++ split; [exact H1|]. split; [exact Hk | exact Hn].
           ++ subst r. rewrite Eng in Hn. discriminate.
      * intros l. rewrite tenured_for_add.
        destruct (N.eqb_spec l (fr_lang x)) as [El|El]; [|apply HC].
        apply (nodup_add (tenured_for (co_tenured c) l ++ co_contingent c) _ x (HC l) (Hfresh' l)).
        rewrite <- app_assoc. cbn [app]. apply Permutation_middle.
    + (* contingent *)
      split; [|split].
      * intros l r. rewrite HA, in_app_iff. cbn [In]. split.
        -- intros [H1 H2]. split; [left; exact H1 | exact H2].
        -- intros [[H1|[H1|[]]] [Hk [Hn Hl]]].
           ++ split; [exact H1|]. split; [exact Hk|]. split; [exact Hn | exact Hl].
           ++ subst r. rewrite Eng in Hn. discriminate.
      * intros r. rewrite !in_app_iff, HB. cbn [In]. split.
        -- intros [[H1 H2]|[H1|[]]].
           ++ split; [left; exact H1 | exact H2].
           ++ subst r. split; [right; left; reflexivity|]. split; [exact Hkx | exact Eng].
        -- intros [[H1|[H1|[]]] H2].
           ++ left. split; assumption.
           ++ right. left. exact H1.
      * intros l.
        apply (nodup_add (tenured_for (co_tenured c) l ++ co_contingent c) _ x (HC l) (Hfresh' l)).
        rewrite app_assoc. apply Permutation_cons_append.
Qed.

Lemma tn_inv_c0 : tn_inv [] c0.
Proof.
  unfold tn_inv, c0. cbn. split; [|split].
  - intros l r. split; [intros [] | intros [[] _]].
  - intros r. split; [intros [] | intros [[] _]].
  - intros l. constructor.
Qed.

Lemma tn_inv_fold : forall rs, NoDup (map fr_id rs) -> tn_inv rs (fold_left tn_step rs c0).
Proof.
  induction rs as [|x rs IH] using rev_ind; intros Hnd.
  - cbn. apply tn_inv_c0.
  - rewrite fold_left_app. cbn [fold_left].
    rewrite map_app in Hnd. cbn [map] in Hnd.
    apply NoDup_remove in Hnd. rewrite app_nil_r in Hnd. destruct Hnd as [Hnd Hfresh].
    apply tn_step_inv; [apply IH; exact Hnd | exact Hfresh].
Qed.

Lemma try_new_inv : forall rs, NoDup (map fr_id rs) -> tn_inv rs (try_new rs).
Proof.
  intros rs H. rewrite try_new_fold. apply tn_inv_fold. exact H.
Qed.

(* ---------- get_rule_from_lang / for_path ---------- *)
Lemma noglob_matches : forall r f, noglob r = true -> matches_path r f = true.
Proof.
  intros r f H. unfold noglob in H. unfold matches_path.
  destruct (fr_files r); destruct (fr_ignores r); try discriminate. reflexivity.
Qed.

Lemma in_get_rule : forall P f lang r',
  NoDup (map fr_id P) ->
  (In r' (get_rule_from_lang (try_new P) f lang) <->
   In r' P /\ keep r' = true /\ fr_lang r' = lang /\ matches_path r' f = true).
Proof.
  intros P f lang r' Hnd. destruct (try_new_inv P Hnd) as [HA [HB _]].
  unfold get_rule_from_lang. rewrite in_app_iff, filter_In, HA, HB, andb_true_iff, N.eqb_eq. split.
  - intros [[H1 [Hk [Hn Hl]]] | [[H1 [Hk Hn]] [Hl Hm]]].
    + split; [exact H1|]. split; [exact Hk|]. split; [exact Hl|]. apply noglob_matches. exact Hn.
    + split; [exact H1|]. split; [exact Hk|]. split; [exact Hl | exact Hm].
  - intros [H1 [Hk [Hl Hm]]]. destruct (noglob r') eqn:Eng.
    + left. split; [exact H1|]. split; [exact Hk|]. split; [reflexivity | exact Hl].
    + right. split; [|split; assumption]. split; [exact H1|]. split; [exact Hk | reflexivity].
Qed.

Lemma in_rules_for_file : forall a rules f r',
  NoDup (map fr_id rules) ->
  (In r' (rules_for_file a rules f) <->
   ff_lang f = Some (fr_lang r') /\ In r' (process_configs a rules) /\ keep r' = true /\
   matches_path r' f = true).
Proof.
  intros a rules f r' Hnd. unfold rules_for_file, for_path.
  destruct (ff_lang f) as [lang|].
  - split.
    + intros Hin. apply (Permutation_in _ (sort_perm _)) in Hin.
      apply in_get_rule in Hin; [|apply process_nodup; exact Hnd].
      destruct Hin as [H1 [Hk [Hl Hm]]]. subst lang.
      split; [reflexivity|]. split; [exact H1|]. split; assumption.
    + intros [Hl [H1 [Hk Hm]]]. inversion Hl; subst lang.
      apply (Permutation_in _ (Permutation_sym (sort_perm _))).
      apply in_get_rule; [apply process_nodup; exact Hnd|].
      split; [exact H1|]. split; [exact Hk|]. split; [reflexivity | exact Hm].
  - split; [intros [] | intros [H _]; discriminate].
Qed.

Lemma applies_alt : forall a r f,
  applies a r f = true <->
  selected a r = true /\ keep (ov (overwrite_new a) r) = true /\
  ff_lang f = Some (fr_lang r) /\ matches_path r f = true.
Proof.
  intros a r f. unfold applies, keep, matches_path. cbn [ov fr_sev].
  rewrite !andb_true_iff.
  assert (HL : match ff_lang f with Some l => N.eqb l (fr_lang r) | None => false end = true <->
               ff_lang f = Some (fr_lang r)).
  { destruct (ff_lang f) as [l|].
    - rewrite N.eqb_eq. split; intros H; congruence.
    - split; intros H; discriminate. }
  rewrite HL.
  destruct (match fr_ignores r with Some ig => glob_set_match ig f | None => false end);
    cbn [negb]; split.
  - intros [_ H]. discriminate.
  - intros [_ [_ [_ H]]]. discriminate.
  - intros [[[[H1 H2] H3] H4] _]. split; [exact H1|]. split; [exact H2|]. split; [exact H3 | exact H4].
  - intros [H1 [H2 [H3 H4]]]. split; [|reflexivity]. split; [|exact H4]. split; [|exact H3].
    split; [exact H1 | exact H2].
Qed.

(* ---------- C15_applies ---------- *)
Lemma C15_applies : C15_applies_stmt.
Proof.
  unfold C15_applies_stmt. intros a rules f r Hnd Hr.
  assert (Huniq : forall r', In r' (rules_for_file a rules f) -> fr_id r' = fr_id r ->
                             r' = ov (overwrite_new a) r /\ selected a r = true).
  { intros r' Hin Hid. apply in_rules_for_file in Hin; [|exact Hnd].
    destruct Hin as [_ [Hp _]]. apply in_process in Hp. destruct Hp as [r0 [Hr0 [Hs He]]].
    assert (r0 = r).
    { apply (nodup_id_inj rules r r0 Hnd Hr Hr0). rewrite <- Hid, He. reflexivity. }
    subst r0. split; assumption. }
  split.
  - rewrite applies_alt. split.
    + intros [r' [Hin Hid]]. destruct (Huniq r' Hin Hid) as [He Hs]. subst r'.
      apply in_rules_for_file in Hin; [|exact Hnd].
      destruct Hin as [Hl [_ [Hk Hm]]].
      split; [exact Hs|]. split; [exact Hk|]. split; [exact Hl | exact Hm].
    + intros [Hs [Hk [Hl Hm]]]. exists (ov (overwrite_new a) r). split; [|reflexivity].
      apply in_rules_for_file; [exact Hnd|].
      split; [exact Hl|]. split; [|split; [exact Hk | exact Hm]].
      apply in_process. exists r. split; [exact Hr|]. split; [exact Hs | reflexivity].
  - intros r' Hin Hid. destruct (Huniq r' Hin Hid) as [He _]. subst r'. split; reflexivity.
Qed.
Print Assumptions C15_applies.

(* ---------- C15_no_dup ---------- *)
Lemma C15_no_dup : C15_no_dup_stmt.
Proof.
  unfold C15_no_dup_stmt. intros a rules f Hnd. unfold rules_for_file, for_path.
  destruct (ff_lang f) as [lang|]; [|constructor].
  eapply Permutation_NoDup; [apply Permutation_map; apply Permutation_sym; apply sort_perm|].
  unfold get_rule_from_lang. apply NoDup_map_app_filter.
  destruct (try_new_inv _ (process_nodup a rules Hnd)) as [_ [_ HC]]. apply HC.
Qed.
Print Assumptions C15_no_dup.
