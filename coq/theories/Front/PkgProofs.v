(* [pkg] (Front/Load.v: potential kinds with local-first reference resolution and the kinds of the global
   utility rules) coincides with [pk] (Rule/Kinds.v) when no global rule is in play. *)
From Coq Require Import List NArith ZArith Bool Arith.
From AG Require Import Base.Val Base.Sort Str.MetaVar Tree.Tree Match.MatchNode Rule.Rule Rule.Kinds Front.Load.
Import ListNotations.

Lemma fold_ext {A B} (f g : A -> B -> A) (l : list B) (a : A) :
  (forall x y, In y l -> f x y = g x y) -> fold_left f l a = fold_left g l a.
Proof.
  revert a. induction l as [|y r IH]; intros a H; [reflexivity|].
  cbn [fold_left]. rewrite (H a y (or_introl eq_refl)). apply IH. intros x z Hz. apply H. right. exact Hz.
Qed.

Lemma pkg_nil : forall fuel utils r, pkg fuel utils [] r = pk fuel utils r.
Proof.
  induction fuel as [|f IH]; intros utils r; [reflexivity|].
  destruct r as [p|k|h|a b rv o|sl sc el ec|r' s fl|r' s fl|r' s|r' s|rs|rs|r'|id]; cbn [pkg pk]; try reflexivity.
  - destruct o as [r'|]; [apply IH|reflexivity].
  - apply fold_ext. intros x y _. rewrite IH. reflexivity.
  - apply fold_ext. intros x y _. rewrite IH. reflexivity.
  - destruct (lookup id utils) as [ur|]; [apply IH|reflexivity].
Qed.
Print Assumptions pkg_nil.

(* a reference never looks at the global rules when a local utility of that name exists *)
Lemma pkg_local_first : forall f utils gk id ur,
  lookup id utils = Some ur -> pkg (S f) utils gk (RMatches id) = pkg f utils gk ur.
Proof. intros f utils gk id ur H. cbn [pkg]. rewrite H. reflexivity. Qed.
Print Assumptions pkg_local_first.
