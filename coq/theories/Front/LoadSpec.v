(* Statements about rule-document acceptance (C12) and termination (C11).  Statements only. *)
From Coq Require Import List NArith ZArith Bool Arith.
From AG Require Import Base.Val Base.Sort Str.MetaVar Tree.Tree Match.MatchNode Rule.Rule Rule.Kinds
  Rule.Eval Rewrite.Template Front.Load.
Import ListNotations.

(* ---- the dependency graph of a map ---- *)
Definition edge (m : depmap) (a b : str) : Prop := exists ds, lookup a m = Some ds /\ In b ds.
Inductive path (m : depmap) : str -> str -> Prop :=
| path_one : forall a b, edge m a b -> path m a b
| path_step : forall a b c, edge m a b -> path m b c -> path m a c.
Definition cyclic (m : depmap) : Prop := exists k, path m k k.
(* b stands strictly before a *)
Definition before (b a : str) (l : list str) : Prop := exists l1 l2 l3, l = l1 ++ b :: l2 ++ a :: l3.

(* TopologicalSort never needs more than [topo_fuel] steps: the sort terminates on every map *)
Definition C12_topo_total_stmt : Prop := forall m, get_order m <> OrderFuel.

(* an order is produced only for an acyclic map; it lists every key once and every key after the keys
   it depends on *)
Definition C12_topo_sound_stmt : Prop :=
  forall m ord, get_order m = OrderOk ord ->
    ~ cyclic m
    /\ NoDup ord
    /\ (forall k, In k ord <-> In k (map fst m))
    /\ (forall a b, edge m a b -> In b (map fst m) -> before b a ord).

(* a cycle is reported only when there is one, and the reported key lies on it *)
Definition C12_topo_complete_stmt : Prop :=
  forall m k, get_order m = OrderCycle k -> path m k k.

(* ---- what acceptance of one rule core guarantees ---- *)
Definition core_base_vars (k : core) : list str :=
  defined_vars (k_rule k) ++ util_vars k ++ flat_map (fun p => defined_vars (snd p)) (k_cons k).

Definition core_ok (k : core) (globals upper : list str) (uord tord : list str) : Prop :=
  (* variables *)
  (forall v, In v (map fst (k_cons k)) -> In v (core_base_vars k))
  /\ (forall key t ts, k_trans k = Some ts -> In (key, t) ts ->
        In (tf_used_var t) (core_base_vars k ++ map fst ts)
        /\ extract_meta_var DOLLAR_C (tf_source t) <> None)
  /\ (forall key, In key (trans_keys (k_trans k)) -> ~ In key (core_base_vars k))
  /\ NoDup (trans_keys (k_trans k))
  /\ (forall v, In v (fix_used_vars k) -> In v (core_base_vars k ++ trans_keys (k_trans k) ++ upper))
  (* references *)
  /\ (forall id, In id (core_refs k) -> In id (map fst (k_utils k) ++ globals))
  (* no utility requires itself on the same node; utilities are registered dependencies first *)
  /\ ~ cyclic (util_depmap (k_utils k))
  /\ (forall a b, edge (util_depmap (k_utils k)) a b -> In b (map fst (k_utils k)) -> before b a uord)
  (* no transformation depends on itself; every transformation is applied after its input *)
  /\ (forall ts, k_trans k = Some ts ->
        ~ cyclic (trans_depmap ts)
        /\ (forall key, In key tord <-> In key (map fst ts))
        /\ (forall key t, lookup key ts = Some t -> In (tf_used_var t) (map fst ts) ->
              before (tf_used_var t) key tord)).

Definition C12_core_accept_stmt : Prop :=
  forall k globals upper uord tord,
    load_core k globals upper = LOk (uord, tord) -> core_ok k globals upper uord tord.

(* acceptance of a whole document: the rule itself, every rewriter (which may use the variables of the
   enclosing rule in its fix), every rewriter reference, and a known set of node kinds *)
Definition C12_accept_stmt : Prop :=
  forall d uord tord,
    load d = LOk (uord, tord) ->
    let k := d_core d in
    core_ok k (global_names d) [] uord tord
    /\ (exists ks, pkg (kinds_fuel k) (k_utils k) (d_globals d) (k_rule k) = Some ks)
    /\ (let rws := doc_rewriters d in
          (forall id k', In (id, k') rws ->
             k_fix k' <> None
             /\ exists uo to, core_ok k' (global_names d) (core_defined_vars k) uo to)
          /\ (forall id, In id (used_rewriters k) -> In id (map fst rws))
          /\ (forall id0 k' id, In (id0, k') rws -> In id (used_rewriters k') -> In id (map fst rws))).

(* the loader is not stricter than that about cycles: a document is refused as cyclic only if a utility
   really requires itself on the same node, or a transformation depends on itself *)
Definition C12_reject_cycle_stmt : Prop :=
  forall k globals upper,
    (forall key, load_core k globals upper = LErr (ECyclicUtil key) -> path (util_depmap (k_utils k)) key key)
    /\ (forall key, load_core k globals upper = LErr (ECyclicTrans key) ->
          exists ts, k_trans k = Some ts /\ path (trans_depmap ts) key key).

(* global utility rules: registered in an order in which everything a global rule requires on the same
   node (through its body, its local utilities or its constraints) is already there, and never cyclic *)
Definition C12_global_order_stmt : Prop :=
  forall gs ord, get_order (global_depmap gs) = OrderOk ord ->
    ~ cyclic (global_depmap gs)
    /\ (forall a b, edge (global_depmap gs) a b -> In b (map fst gs) -> before b a ord).

(* the loader never runs out of steps *)
Definition C11_load_total_stmt : Prop := forall d, load d <> LErr EFuelOut.

(* ---- C11: evaluation of an accepted configuration terminates ---- *)
(* every reference, also below relational rules *)
Definition full_depmap (utils : list (str * rule)) : depmap := map (fun p => (fst p, rule_refs (snd p))) utils.
Definition fully_acyclic (utils : list (str * rule)) : bool :=
  match get_order (full_depmap utils) with OrderOk _ => true | _ => false end.

(* when no utility can reach itself through any operator, evaluation of any rule on any node of any
   document terminates (enough fuel exists, and more fuel never hurts); the pattern matcher's own step
   bound is discharged separately by C11_match_terminates *)
Definition C11_eval_terminates_stmt : Prop :=
  (forall src p t e, pattern_match src p t e <> OutOfFuel) ->
  forall c r n e, fully_acyclic (c_utils c) = true ->
    exists N, forall fuel, N <= fuel -> fst (eval fuel c (QRule r n) e) <> EFuel.

(* the step bound of the pattern matcher is sufficient for every pattern, node and strictness *)
Definition C11_match_terminates_stmt : Prop :=
  forall src p t e, pattern_match src p t e <> OutOfFuel.
Definition C11_match_len_terminates_stmt : Prop :=
  forall src p t, match_len src p t <> LenFuel.

(* without the restriction the statement is false: the loader accepts utilities that require each other
   through relational rules in opposite directions, and evaluation then never terminates *)
Definition rel_cycle_utils : list (str * rule) :=
  [ ([65]%N, RInside (RMatches [66]%N) SEnd None);     (* A: inside: {matches: B, stopBy: end} *)
    ([66]%N, RHas (RMatches [65]%N) SEnd None) ].      (* B: has:    {matches: A, stopBy: end} *)
Definition C11_eval_terminates_refuted_stmt : Prop :=
  exists c r n,
    c_utils c = rel_cycle_utils
    /\ (exists uord, get_order (util_depmap (c_utils c)) = OrderOk uord)
    /\ forall fuel, fst (eval fuel c (QRule r n) empty_env) = EFuel.
