(* C12 / C11 (loader) — proofs of the statements of LoadSpec.v about Load.v. *)
From Coq Require Import List NArith ZArith Bool Arith Lia.
From AG Require Import Base.Val Base.Sort Str.MetaVar Tree.Tree Match.MatchNode Rule.Rule Rule.Kinds
  Rule.Eval Rewrite.Template Front.Load Front.LoadSpec.
Import ListNotations.

(* ---------- strings, association lists ---------- *)
Lemma lp_eqb_refl : forall a, str_eqb a a = true.
Proof.
  induction a as [|x a IHa]; cbn; [reflexivity|].
  rewrite N.eqb_refl, IHa. reflexivity.
Qed.

Lemma lp_eqb_eq : forall a b, str_eqb a b = true -> a = b.
Proof.
  induction a as [|x a IHa]; intros [|y b] H; cbn in H; try discriminate; [reflexivity|].
  apply andb_true_iff in H. destruct H as [H1 H2].
  apply N.eqb_eq in H1. apply IHa in H2. subst. reflexivity.
Qed.

Lemma lp_eqb_sym_false : forall a b, str_eqb a b = false -> str_eqb b a = false.
Proof.
  intros a b H. destruct (str_eqb b a) eqn:E; [|reflexivity].
  apply lp_eqb_eq in E. subst. rewrite lp_eqb_refl in H. discriminate.
Qed.

Lemma lp_lookup_upsert : forall A (k : str) (v : A) (l : list (str * A)) x,
  lookup x (upsert k v l) = if str_eqb x k then Some v else lookup x l.
Proof.
  intros A k v l x. induction l as [|[k' v'] r IHr]; cbn [upsert lookup].
  - destruct (str_eqb x k); reflexivity.
  - destruct (str_eqb k k') eqn:Ekk.
    + apply lp_eqb_eq in Ekk. subst k'. cbn [lookup]. destruct (str_eqb x k); reflexivity.
    + cbn [lookup]. destruct (str_eqb x k') eqn:Exk'.
      * destruct (str_eqb x k) eqn:Exk; [|reflexivity].
        apply lp_eqb_eq in Exk. apply lp_eqb_eq in Exk'. subst.
        rewrite lp_eqb_refl in Ekk. discriminate.
      * exact IHr.
Qed.

Lemma lk_same : forall A (k : str) (v : A) l, lookup k (upsert k v l) = Some v.
Proof. intros. rewrite lp_lookup_upsert, lp_eqb_refl. reflexivity. Qed.

Lemma lk_other : forall A (k x : str) (v : A) l, str_eqb x k = false -> lookup x (upsert k v l) = lookup x l.
Proof. intros A k x v l H. rewrite lp_lookup_upsert, H. reflexivity. Qed.

Lemma lp_lookup_some_in : forall A (k : str) (l : list (str * A)) v, lookup k l = Some v -> In (k, v) l.
Proof.
  intros A k l v. induction l as [|[k' v'] r IHr]; cbn [lookup]; intros H; [discriminate|].
  destruct (str_eqb k k') eqn:E.
  - apply lp_eqb_eq in E. injection H as H. subst. left. reflexivity.
  - right. apply IHr. exact H.
Qed.

Lemma lp_lookup_some_key : forall A (k : str) (l : list (str * A)) v, lookup k l = Some v -> In k (map fst l).
Proof.
  intros A k l v H. apply lp_lookup_some_in in H. change k with (fst (k, v)). apply in_map. exact H.
Qed.

Lemma lp_lookup_in_keys : forall A (k : str) (l : list (str * A)), In k (map fst l) -> lookup k l <> None.
Proof.
  intros A k l. induction l as [|[k' v'] r IHr]; cbn [lookup map fst]; intros H; [destruct H|].
  destruct (str_eqb k k') eqn:E; [discriminate|].
  destruct H as [H|H]; [subst; rewrite lp_eqb_refl in E; discriminate|]. apply IHr. exact H.
Qed.

Lemma lp_lookup_key_in : forall A (k : str) (l : list (str * A)), lookup k l <> None -> In k (map fst l).
Proof.
  intros A k l H. destruct (lookup k l) as [v|] eqn:E; [|contradiction].
  eapply lp_lookup_some_key. exact E.
Qed.

Lemma lp_lookup_in_nodup : forall A (k : str) (v : A) (l : list (str * A)),
  NoDup (map fst l) -> In (k, v) l -> lookup k l = Some v.
Proof.
  intros A k v l. induction l as [|[k' v'] r IHr]; intros Hnd Hin; [destruct Hin|].
  cbn in Hnd. inversion Hnd as [|? ? Hni Hnd']; subst.
  cbn [lookup]. destruct Hin as [Heq|Hin].
  - inversion Heq; subst. rewrite lp_eqb_refl. reflexivity.
  - destruct (str_eqb k k') eqn:E.
    + apply lp_eqb_eq in E. subst. exfalso. apply Hni.
      change k' with (fst (k', v)). apply in_map. exact Hin.
    + apply IHr; assumption.
Qed.

Lemma lp_lookup_mapval : forall A B (f : A -> B) (k : str) (l : list (str * A)),
  lookup k (map (fun p => (fst p, f (snd p))) l) = option_map f (lookup k l).
Proof.
  intros A B f k l. induction l as [|[k' v'] r IHr]; cbn [map lookup fst snd]; [reflexivity|].
  destruct (str_eqb k k'); [reflexivity|exact IHr].
Qed.

Lemma lp_keys_mapval : forall A B (f : A -> B) (l : list (str * A)),
  map fst (map (fun p => (fst p, f (snd p))) l) = map fst l.
Proof.
  intros A B f l. induction l as [|[k' v'] r IHr]; cbn [map fst snd]; [reflexivity|].
  rewrite IHr. reflexivity.
Qed.

(* ================= the fuel measure ================= *)
(* every entry of the map whose key has no mark yet costs two steps plus one per dependency *)
Fixpoint W (l : depmap) (seen : list (str * bool)) : nat :=
  match l with
  | [] => 0
  | (k, ds) :: r => (match lookup k seen with None => 2 + length ds | Some _ => 0 end) + W r seen
  end.

Definition dom_le (s s' : list (str * bool)) : Prop := forall x, lookup x s <> None -> lookup x s' <> None.

Lemma W_mono : forall l s s', dom_le s s' -> W l s' <= W l s.
Proof.
  induction l as [|[k ds] r IH]; intros s s' H; cbn [W]; [lia|].
  specialize (IH s s' H). specialize (H k).
  destruct (lookup k s) as [b|] eqn:E1; destruct (lookup k s') as [b'|] eqn:E2; try lia.
  exfalso. apply H; [discriminate|reflexivity].
Qed.

Lemma dom_le_upsert : forall k b s, dom_le s (upsert k b s).
Proof.
  intros k b s x H. rewrite lp_lookup_upsert. destruct (str_eqb x k); [discriminate|exact H].
Qed.

Lemma W_mark : forall l k ds s b, lookup k l = Some ds -> lookup k s = None ->
  W l (upsert k b s) + 2 + length ds <= W l s.
Proof.
  induction l as [|[k' ds'] r IH]; intros k ds s b Hl Hs; cbn [lookup] in Hl; [discriminate|].
  cbn [W]. destruct (str_eqb k k') eqn:E.
  - apply lp_eqb_eq in E. subst k'. injection Hl as Hl. subst ds'.
    rewrite lk_same, Hs. pose proof (W_mono r s (upsert k b s) (dom_le_upsert k b s)). lia.
  - rewrite lk_other by (apply lp_eqb_sym_false; exact E).
    specialize (IH k ds s b Hl Hs). lia.
Qed.

Lemma W_nil : forall l, W l [] = deps_size l + length l.
Proof.
  induction l as [|[k ds] r IH]; [reflexivity|].
  cbn [W lookup]. unfold deps_size in *. cbn [fold_right length snd]. lia.
Qed.

(* ================= TopologicalSort ================= *)
Section Topo.
Variable m : depmap.

(* marks never change once set; a key without a mark either stays so or is completed *)
Definition ext (s s' : list (str * bool)) : Prop :=
  forall x, lookup x s' = lookup x s \/ (lookup x s = None /\ lookup x s' = Some true).

Lemma ext_refl : forall s, ext s s.
Proof. intros s x. left. reflexivity. Qed.

Lemma ext_trans : forall s1 s2 s3, ext s1 s2 -> ext s2 s3 -> ext s1 s3.
Proof.
  intros s1 s2 s3 H12 H23 x. destruct (H12 x) as [E12|[N1 T2]]; destruct (H23 x) as [E23|[N2 T3]].
  - left. congruence.
  - right. split; congruence.
  - right. split; congruence.
  - right. split; congruence.
Qed.

Lemma ext_dom_le : forall s s', ext s s' -> dom_le s s'.
Proof.
  intros s s' H x Hx. destruct (H x) as [E|[N _]]; [rewrite E; exact Hx|contradiction].
Qed.

Definition okkey (s : list (str * bool)) (k : str) : Prop := lookup k s = Some true \/ lookup k m = None.

Definition qdone (q : treq) (s : list (str * bool)) : Prop :=
  match q with
  | TVisit k => okkey s k
  | TVisitAll ks => forall k, In k ks -> okkey s k
  end.

Lemma okkey_ext : forall s s' k, ext s s' -> okkey s k -> okkey s' k.
Proof.
  intros s s' k H [Hk|Hk]; [|right; exact Hk]. left.
  destruct (H k) as [E|[N _]]; congruence.
Qed.

(* o is the reversed order: the most recently completed key first *)
Definition Inv (s : list (str * bool)) (o : list str) : Prop :=
  (forall x, lookup x s = Some true <-> In x o)
  /\ NoDup o
  /\ (forall x, In x o -> lookup x m <> None)
  /\ (forall l1 a l2 b, o = l1 ++ a :: l2 -> edge m a b -> lookup b m <> None -> In b l2).

Lemma Inv_nil : Inv [] [].
Proof.
  repeat split.
  - cbn. discriminate.
  - intros H. destruct H.
  - constructor.
  - intros x H. destruct H.
  - intros l1 a l2 b H. destruct l1; discriminate.
Qed.

Lemma Inv_begin : forall s o k, Inv s o -> lookup k s = None -> Inv (upsert k false s) o.
Proof.
  intros s o k (I1 & I2 & I3 & I4) Hk. repeat split; try assumption.
  - intros H. rewrite lp_lookup_upsert in H. destruct (str_eqb x k); [discriminate|]. apply I1. exact H.
  - intros H. rewrite lp_lookup_upsert. destruct (str_eqb x k) eqn:E.
    + apply lp_eqb_eq in E. subst x. apply I1 in H. congruence.
    + apply I1. exact H.
Qed.

Lemma Inv_finish : forall s o k ds, Inv s o -> lookup k s = Some false -> lookup k m = Some ds ->
  (forall d, In d ds -> okkey s d) -> Inv (upsert k true s) (k :: o).
Proof.
  intros s o k ds (I1 & I2 & I3 & I4) Hk Hm Hds. repeat split.
  - intros H. rewrite lp_lookup_upsert in H. destruct (str_eqb x k) eqn:E.
    + apply lp_eqb_eq in E. subst x. left. reflexivity.
    + right. apply I1. exact H.
  - intros H. rewrite lp_lookup_upsert. destruct (str_eqb x k) eqn:E; [reflexivity|].
    destruct H as [H|H]; [subst x; rewrite lp_eqb_refl in E; discriminate|]. apply I1. exact H.
  - constructor; [|exact I2]. intros Hin. apply I1 in Hin. congruence.
  - intros x [H|H]; [subst x; congruence|apply I3; exact H].
  - intros l1 a l2 b Heq Hedge Hb. destruct l1 as [|y l1]; cbn [app] in Heq; injection Heq as Hy Ho.
    + subst a l2. destruct Hedge as [ds' [Hds' Hin]]. rewrite Hm in Hds'. injection Hds' as Hds'. subst ds'.
      destruct (Hds b Hin) as [Hd|Hd]; [apply I1; exact Hd|contradiction].
    + eapply I4; eassumption.
Qed.

Lemma tvisit_ok : forall fuel q s o s' o',
  tvisit fuel m q s o = TOk s' o' ->
  ext s s' /\ (exists nw, o' = nw ++ o) /\ (Inv s o -> Inv s' o') /\ qdone q s'.
Proof.
  induction fuel as [|f IH]; intros q s o s' o' H; [discriminate|].
  cbn [tvisit] in H. destruct q as [k|ks].
  - destruct (lookup k s) as [[|]|] eqn:Eks.
    + injection H as Hs Ho. subst s' o'. split; [apply ext_refl|]. split; [exists []; reflexivity|].
      split; [tauto|]. left. exact Eks.
    + discriminate.
    + destruct (lookup k m) as [ds|] eqn:Ekm.
      * destruct (tvisit f m (TVisitAll ds) (upsert k false s) o) as [s2 o2| |] eqn:Er; try discriminate.
        injection H as Hs Ho. subst s' o'.
        apply IH in Er. destruct Er as (Hext & [nw Hnw] & Hinv & Hdone). cbn [qdone] in Hdone.
        assert (Hk2 : lookup k s2 = Some false).
        { destruct (Hext k) as [E|[N _]]; rewrite lk_same in *; [exact E|discriminate]. }
        split; [|split; [|split]].
        -- intros x. destruct (str_eqb x k) eqn:E.
           ++ apply lp_eqb_eq in E. subst x. right. split; [exact Eks|apply lk_same].
           ++ rewrite (lk_other _ k x true s2 E). specialize (Hext x).
              rewrite (lk_other _ k x false s E) in Hext. destruct Hext as [E'|[N T]]; [left|right]; tauto.
        -- exists (k :: nw). subst o2. reflexivity.
        -- intros HI. eapply Inv_finish; [|exact Hk2|exact Ekm|exact Hdone].
           apply Hinv. apply Inv_begin; assumption.
        -- cbn [qdone]. left. apply lk_same.
      * injection H as Hs Ho. subst s' o'. split; [apply ext_refl|]. split; [exists []; reflexivity|].
        split; [tauto|]. right. exact Ekm.
  - destruct ks as [|k r].
    + injection H as Hs Ho. subst s' o'. split; [apply ext_refl|]. split; [exists []; reflexivity|].
      split; [tauto|]. intros k Hk. destruct Hk.
    + destruct (tvisit f m (TVisit k) s o) as [s1 o1| |] eqn:E1; try discriminate.
      apply IH in E1. apply IH in H.
      destruct E1 as (Hext1 & [nw1 Hnw1] & Hinv1 & Hdone1).
      destruct H as (Hext2 & [nw2 Hnw2] & Hinv2 & Hdone2). cbn [qdone] in *.
      split; [eapply ext_trans; eassumption|]. split; [|split].
      * exists (nw2 ++ nw1). subst o' o1. rewrite app_assoc. reflexivity.
      * intros HI. apply Hinv2. apply Hinv1. exact HI.
      * intros k' [Hk'|Hk']; [subst k'; eapply okkey_ext; eassumption|apply Hdone2; exact Hk'].
Qed.

(* ---- 1. the fuel is sufficient ---- *)
Definition qbound (q : treq) (s : list (str * bool)) : nat :=
  match q with
  | TVisit _ => 1 + W m s
  | TVisitAll ks => length ks + 2 + W m s
  end.

Lemma tvisit_fuel : forall fuel q s o, qbound q s <= fuel -> tvisit fuel m q s o <> TFuel.
Proof.
  induction fuel as [|f IH]; intros q s o Hb.
  - destruct q; cbn [qbound] in Hb; lia.
  - cbn [tvisit]. destruct q as [k|ks].
    + destruct (lookup k s) as [[|]|] eqn:Eks; try discriminate.
      destruct (lookup k m) as [ds|] eqn:Ekm; [|discriminate].
      pose proof (W_mark m k ds s false Ekm Eks) as HW.
      destruct (tvisit f m (TVisitAll ds) (upsert k false s) o) as [s2 o2| |] eqn:Er; try discriminate.
      exfalso. revert Er. apply IH. cbn [qbound] in *. lia.
    + destruct ks as [|k r]; [discriminate|].
      destruct (tvisit f m (TVisit k) s o) as [s1 o1| |] eqn:E1; try discriminate.
      * apply IH. apply tvisit_ok in E1. destruct E1 as (Hext & _).
        pose proof (W_mono m s s1 (ext_dom_le s s1 Hext)). cbn [qbound length] in *. lia.
      * exfalso. revert E1. apply IH. cbn [qbound length] in *. lia.
Qed.

(* ---- 3. a reported cycle is one ---- *)
Lemma path_snoc : forall a b c, path m a b -> edge m b c -> path m a c.
Proof.
  intros a b c H. induction H as [a b Hab|a b b' Hab Hp IHp]; intros Hc.
  - eapply path_step; [exact Hab|]. apply path_one. exact Hc.
  - eapply path_step; [exact Hab|]. apply IHp. exact Hc.
Qed.

Lemma path_src_key : forall a b, path m a b -> exists ds, lookup a m = Some ds.
Proof.
  intros a b H. destruct H as [a b [ds [H _]]|a b c [ds [H _]] _]; exists ds; exact H.
Qed.

Definition reach (x : str) (q : treq) : Prop :=
  match q with
  | TVisit k => path m x k
  | TVisitAll ks => forall k, In k ks -> path m x k
  end.

Lemma tvisit_cycle : forall fuel q s o c,
  tvisit fuel m q s o = TCycle c ->
  (forall x, lookup x s = Some false -> reach x q) -> path m c c.
Proof.
  induction fuel as [|f IH]; intros q s o c H Hpre; [discriminate|].
  cbn [tvisit] in H. destruct q as [k|ks].
  - destruct (lookup k s) as [[|]|] eqn:Eks.
    + discriminate.
    + injection H as H. subst c. apply (Hpre k Eks).
    + destruct (lookup k m) as [ds|] eqn:Ekm; [|discriminate].
      destruct (tvisit f m (TVisitAll ds) (upsert k false s) o) as [s2 o2|c'|] eqn:Er; try discriminate.
      injection H as H. subst c'. eapply IH; [exact Er|].
      intros x Hx. cbn [reach]. intros d Hd.
      assert (Hkd : edge m k d) by (exists ds; split; assumption).
      rewrite lp_lookup_upsert in Hx. destruct (str_eqb x k) eqn:E.
      * apply lp_eqb_eq in E. subst x. apply path_one. exact Hkd.
      * eapply path_snoc; [|exact Hkd]. apply (Hpre x Hx).
  - destruct ks as [|k r]; [discriminate|].
    destruct (tvisit f m (TVisit k) s o) as [s1 o1|c'|] eqn:E1; try discriminate.
    + eapply IH; [exact H|]. apply tvisit_ok in E1. destruct E1 as (Hext & _).
      intros x Hx. cbn [reach]. intros k' Hk'.
      assert (Hxs : lookup x s = Some false).
      { destruct (Hext x) as [E|[_ T]]; congruence. }
      apply (Hpre x Hxs). right. exact Hk'.
    + injection H as H. subst c'. eapply IH; [exact E1|].
      intros x Hx. cbn [reach]. apply (Hpre x Hx). left. reflexivity.
Qed.

(* ---- 2. what a completed run guarantees ---- *)
Lemma Inv_path : forall s o, Inv s o ->
  forall a c, path m a c -> forall l1 l2, o = l1 ++ a :: l2 -> lookup c m <> None -> In c l2.
Proof.
  intros s o (I1 & I2 & I3 & I4) a c Hp.
  induction Hp as [a b Hab|a b c Hab Hp IHp]; intros l1 l2 Ho Hc.
  - eapply I4; eassumption.
  - destruct (path_src_key b c Hp) as [ds Hds].
    assert (Hb : In b l2) by (eapply I4; [exact Ho|exact Hab|congruence]).
    apply in_split in Hb. destruct Hb as [l3 [l4 Hl2]].
    assert (Ho' : o = (l1 ++ a :: l3) ++ b :: l4).
    { rewrite Ho, Hl2. rewrite <- app_assoc. reflexivity. }
    specialize (IHp _ _ Ho' Hc). subst l2. apply in_or_app. right. right. exact IHp.
Qed.

End Topo.

Lemma topo_fuel_enough : forall m, qbound m (TVisitAll (map fst m)) [] <= topo_fuel m.
Proof.
  intros m. cbn [qbound]. rewrite map_length, W_nil. unfold topo_fuel. lia.
Qed.

Lemma C12_topo_total : C12_topo_total_stmt.
Proof.
  intros m H. unfold get_order in H.
  destruct (tvisit (topo_fuel m) m (TVisitAll (map fst m)) [] []) as [s o|c|] eqn:E; try discriminate.
  revert E. apply tvisit_fuel. apply topo_fuel_enough.
Qed.
Print Assumptions C12_topo_total.

Lemma C12_topo_complete : C12_topo_complete_stmt.
Proof.
  intros m k H. unfold get_order in H.
  destruct (tvisit (topo_fuel m) m (TVisitAll (map fst m)) [] []) as [s o|c|] eqn:E; try discriminate.
  injection H as H. subst c. eapply tvisit_cycle; [exact E|].
  intros x Hx. cbn in Hx. discriminate.
Qed.
Print Assumptions C12_topo_complete.

Lemma C12_topo_sound : C12_topo_sound_stmt.
Proof.
  intros m ord H. unfold get_order in H.
  destruct (tvisit (topo_fuel m) m (TVisitAll (map fst m)) [] []) as [s o|c|] eqn:E; try discriminate.
  injection H as H. subst ord.
  apply tvisit_ok in E. destruct E as (_ & _ & Hinv & Hdone). cbn [qdone] in Hdone.
  specialize (Hinv (Inv_nil m)). pose proof Hinv as (I1 & I2 & I3 & I4).
  assert (HA : forall k, In k (map fst m) -> In k o).
  { intros k Hk. destruct (Hdone k Hk) as [Hd|Hd]; [apply I1; exact Hd|].
    exfalso. revert Hd. apply lp_lookup_in_keys. exact Hk. }
  split; [|split; [|split]].
  - intros [k Hp]. destruct (path_src_key m k k Hp) as [ds Hds].
    assert (Hk : In k o) by (apply HA; eapply lp_lookup_some_key; exact Hds).
    apply in_split in Hk. destruct Hk as [l1 [l2 Ho]].
    assert (Hin : In k l2) by (eapply Inv_path; [exact Hinv|exact Hp|exact Ho|congruence]).
    rewrite Ho in I2. apply NoDup_remove_2 in I2. apply I2. apply in_or_app. right. exact Hin.
  - apply NoDup_rev. exact I2.
  - intros k. rewrite <- in_rev. split.
    + intros Hk. apply lp_lookup_key_in. apply I3. exact Hk.
    + apply HA.
  - intros a b Hab Hb. pose proof Hab as [ds [Hds _]].
    assert (Ha : In a o) by (apply HA; eapply lp_lookup_some_key; exact Hds).
    apply in_split in Ha. destruct Ha as [l1 [l2 Ho]].
    assert (Hin : In b l2) by (eapply I4; [exact Ho|exact Hab|apply lp_lookup_in_keys; exact Hb]).
    apply in_split in Hin. destruct Hin as [l3 [l4 Hl2]].
    exists (rev l4), (rev l3), (rev l1). subst o l2.
    rewrite rev_app_distr. cbn [rev]. rewrite rev_app_distr. cbn [rev].
    repeat rewrite <- app_assoc. reflexivity.
Qed.
Print Assumptions C12_topo_sound.

(* ================= the acceptance pipeline ================= *)
Lemma smem_In : forall x l, smem x l = true <-> In x l.
Proof.
  intros x l. unfold smem. rewrite existsb_exists. split.
  - intros [y [Hy E]]. apply lp_eqb_eq in E. subst y. exact Hy.
  - intros H. exists x. split; [exact H|apply lp_eqb_refl].
Qed.

Lemma first_missing_none : forall want have, first_missing want have = None ->
  forall x, In x want -> In x have.
Proof.
  intros want have H x Hx. unfold first_missing in H.
  pose proof (find_none _ _ H x Hx) as Hf. cbv beta in Hf.
  apply negb_false_iff in Hf. apply smem_In. exact Hf.
Qed.

Lemma insert_keys_ok : forall keys vars vars', insert_keys vars keys = LOk vars' ->
  NoDup keys /\ (forall k, In k keys -> ~ In k vars) /\ (forall x, In x vars' <-> In x vars \/ In x keys).
Proof.
  induction keys as [|k r IH]; intros vars vars' H; cbn [insert_keys] in H.
  - injection H as H. subst vars'. split; [constructor|]. split; [intros k Hk; destruct Hk|].
    intros x. cbn [In]. tauto.
  - destruct (smem k vars) eqn:Es; [discriminate|].
    assert (Hk : ~ In k vars) by (intros Hin; apply smem_In in Hin; congruence).
    apply IH in H. destruct H as (Hnd & Hfresh & Hin). split; [|split].
    + constructor; [|exact Hnd]. intros Hkr. apply (Hfresh k Hkr). left. reflexivity.
    + intros k' [Hk'|Hk']; [subst k'; exact Hk|]. intros Hv. apply (Hfresh k' Hk'). right. exact Hv.
    + intros x. rewrite Hin. cbn [In]. tauto.
Qed.

Lemma insert_keys_err : forall keys vars e, insert_keys vars keys = LErr e -> exists k, e = EAlreadyDefined k.
Proof.
  induction keys as [|k r IH]; intros vars e H; cbn [insert_keys] in H; [discriminate|].
  destruct (smem k vars); [injection H as H; exists k; symmetry; exact H|]. eapply IH. exact H.
Qed.

Lemma cvt_ok : forall vars tr vars', check_var_in_transform vars tr = LOk vars' ->
  NoDup (trans_keys tr)
  /\ (forall key, In key (trans_keys tr) -> ~ In key vars)
  /\ (forall x, In x vars' <-> In x vars \/ In x (trans_keys tr))
  /\ (forall ts, tr = Some ts -> forall key t, In (key, t) ts -> In (tf_used_var t) vars').
Proof.
  intros vars tr vars' H. unfold check_var_in_transform in H. destruct tr as [ts|]; cbn [trans_keys].
  - destruct (insert_keys vars (map fst ts)) as [v2|e] eqn:Ei; [|discriminate].
    destruct (first_missing (map (fun p => tf_used_var (snd p)) ts) v2) as [v|] eqn:Ef; [discriminate|].
    injection H as H. subst v2. apply insert_keys_ok in Ei. destruct Ei as (Hnd & Hfresh & Hin).
    split; [exact Hnd|]. split; [exact Hfresh|]. split; [exact Hin|].
    intros ts' Hts key t Hkt. injection Hts as Hts. subst ts'.
    apply (first_missing_none _ _ Ef).
    change (tf_used_var t) with ((fun p : str * transf => tf_used_var (snd p)) (key, t)).
    apply in_map. exact Hkt.
  - injection H as H. subst vars'. split; [constructor|]. split; [intros key Hk; destruct Hk|].
    split; [intros x; cbn [In]; tauto|]. intros ts Hts. discriminate.
Qed.

Lemma base_vars_eq : forall k,
  (defined_vars (k_rule k) ++ util_vars k) ++ flat_map (fun p => defined_vars (snd p)) (k_cons k) = core_base_vars k.
Proof. intros k. unfold core_base_vars. rewrite app_assoc. reflexivity. Qed.

Lemma check_vars_ok : forall k upper u, check_vars k upper = LOk u ->
  (forall v, In v (map fst (k_cons k)) -> In v (core_base_vars k))
  /\ NoDup (trans_keys (k_trans k))
  /\ (forall key, In key (trans_keys (k_trans k)) -> ~ In key (core_base_vars k))
  /\ (forall ts, k_trans k = Some ts -> forall key t, In (key, t) ts ->
        In (tf_used_var t) (core_base_vars k ++ map fst ts))
  /\ (forall v, In v (fix_used_vars k) -> In v (core_base_vars k ++ trans_keys (k_trans k) ++ upper)).
Proof.
  intros k upper u H. cbv beta zeta delta [check_vars check_var_in_constraints] in H.
  rewrite base_vars_eq in H.
  destruct (first_missing (map fst (k_cons k)) (core_base_vars k)) as [v|] eqn:Ec; [discriminate|].
  destruct (check_var_in_transform (core_base_vars k) (k_trans k)) as [v2|e] eqn:Et; [|discriminate].
  unfold check_var_in_fix in H.
  destruct (first_missing (fix_used_vars k) (v2 ++ upper)) as [v|] eqn:Ef; [discriminate|].
  apply cvt_ok in Et. destruct Et as (Hnd & Hfresh & Hin & Hused).
  split; [apply (first_missing_none _ _ Ec)|]. split; [exact Hnd|]. split; [exact Hfresh|]. split.
  - intros ts Hts key t Hkt. specialize (Hused ts Hts key t Hkt). apply Hin in Hused.
    rewrite Hts in Hused. cbn [trans_keys] in Hused. apply in_or_app. exact Hused.
  - intros v Hv. pose proof (first_missing_none _ _ Ef v Hv) as Hvv.
    apply in_app_or in Hvv. apply in_or_app. destruct Hvv as [Hvv|Hvv].
    + apply Hin in Hvv. destruct Hvv as [Hvv|Hvv]; [left; exact Hvv|]. right. apply in_or_app. left. exact Hvv.
    + right. apply in_or_app. right. exact Hvv.
Qed.

Lemma trans_depmap_keys : forall ts, map fst (trans_depmap ts) = map fst ts.
Proof.
  intros ts. unfold trans_depmap.
  apply (lp_keys_mapval transf (list str) (fun t => [tf_used_var t]) ts).
Qed.

Lemma util_depmap_keys : forall us, map fst (util_depmap us) = map fst us.
Proof. intros us. unfold util_depmap. apply (lp_keys_mapval rule (list str) rule_deps us). Qed.

Lemma global_depmap_keys : forall gs, map fst (global_depmap gs) = map fst gs.
Proof. intros gs. unfold global_depmap. apply (lp_keys_mapval core (list str) global_deps gs). Qed.

Lemma trans_depmap_lookup : forall ts key,
  lookup key (trans_depmap ts) = option_map (fun t => [tf_used_var t]) (lookup key ts).
Proof.
  intros ts key. unfold trans_depmap.
  apply (lp_lookup_mapval transf (list str) (fun t => [tf_used_var t]) key ts).
Qed.

Lemma transform_order_ok : forall k tord, transform_order k = LOk tord ->
  forall ts, k_trans k = Some ts ->
    get_order (trans_depmap ts) = OrderOk tord
    /\ (NoDup (map fst ts) -> forall key t, In (key, t) ts ->
          extract_meta_var DOLLAR_C (tf_source t) <> None).
Proof.
  intros k tord H ts Hts. unfold transform_order in H. rewrite Hts in H.
  destruct (get_order (trans_depmap ts)) as [ord|c|] eqn:Eo; try discriminate.
  match type of H with (match find ?f ?l with _ => _ end) = _ => destruct (find f l) as [p|] eqn:Ef end;
    [discriminate|].
  injection H as H. subst ord. split; [reflexivity|].
  intros Hnd key t Hkt.
  pose proof (C12_topo_sound _ _ Eo) as (_ & _ & Hkeys & _).
  assert (Hin : In key tord).
  { apply Hkeys. rewrite trans_depmap_keys. change key with (fst (key, t)). apply in_map. exact Hkt. }
  pose proof (find_none _ _ Ef (key, t)) as Hf. cbv beta in Hf. cbn [snd] in Hf.
  destruct (extract_meta_var DOLLAR_C (tf_source t)); [discriminate|].
  assert (Hgoal : true = false); [|discriminate].
  apply Hf. apply in_flat_map. exists key. split; [exact Hin|].
  rewrite (lp_lookup_in_nodup _ key t ts Hnd Hkt). left. reflexivity.
Qed.

Lemma C12_core_accept : C12_core_accept_stmt.
Proof.
  intros k globals upper uord tord H. unfold load_core in H.
  destruct (get_order (util_depmap (k_utils k))) as [uo|c|] eqn:Eu; try discriminate.
  destruct (transform_order k) as [to|e] eqn:Et; [|discriminate].
  destruct (check_utils_defined k globals) as [u1|e] eqn:Ec; [|discriminate].
  destruct (check_vars k upper) as [u2|e] eqn:Ev; [|discriminate].
  injection H as Huo Hto. subst uo to.
  apply check_vars_ok in Ev. destruct Ev as (Hcons & Hnd & Hfresh & Hused & Hfix).
  pose proof (C12_topo_sound _ _ Eu) as (Hacyc & _ & _ & Hbefore).
  unfold core_ok. repeat match goal with |- _ /\ _ => split end.
  - exact Hcons.
  - intros key t ts Hts Hkt. split; [eapply Hused; eassumption|].
    destruct (transform_order_ok k tord Et ts Hts) as [_ Hmv].
    rewrite Hts in Hnd. cbn [trans_keys] in Hnd. eapply Hmv; eassumption.
  - exact Hfresh.
  - exact Hnd.
  - exact Hfix.
  - unfold check_utils_defined in Ec.
    destruct (first_missing (core_refs k) (map fst (k_utils k) ++ globals)) as [id|] eqn:Ef; [discriminate|].
    apply (first_missing_none _ _ Ef).
  - exact Hacyc.
  - intros a b Hab Hb. apply Hbefore; [exact Hab|]. rewrite util_depmap_keys. exact Hb.
  - intros ts Hts. destruct (transform_order_ok k tord Et ts Hts) as [Ho _].
    pose proof (C12_topo_sound _ _ Ho) as (Hacyc' & _ & Hkeys & Hbefore').
    split; [exact Hacyc'|]. split.
    + intros key. rewrite (Hkeys key), trans_depmap_keys. tauto.
    + intros key t Hl Hin. apply Hbefore'.
      * exists [tf_used_var t]. split; [rewrite trans_depmap_lookup, Hl; reflexivity|left; reflexivity].
      * rewrite trans_depmap_keys. exact Hin.
Qed.
Print Assumptions C12_core_accept.

(* ---- rewriters, the whole document ---- *)
Lemma load_rewriters_ok : forall rws globals upper u, load_rewriters rws globals upper = LOk u ->
  forall id k', In (id, k') rws ->
    k_fix k' <> None /\ exists uo to, load_core k' globals upper = LOk (uo, to).
Proof.
  induction rws as [|[id0 k0] rest IH]; intros globals upper u H id k' Hin; [destruct Hin|].
  cbn [load_rewriters] in H.
  destruct (k_fix k0) as [fx|] eqn:Efx; [|discriminate].
  destruct (load_core k0 globals upper) as [[uo to]|e] eqn:El; [|discriminate].
  destruct Hin as [Heq|Hin].
  - injection Heq as Hid Hk. subst id0 k0. split; [congruence|]. exists uo, to. exact El.
  - eapply IH; eassumption.
Qed.

Lemma check_rewriters_ok : forall k rws u, check_rewriters k rws = LOk u ->
  (forall id, In id (used_rewriters k) -> In id (map fst rws))
  /\ (forall id0 k' id, In (id0, k') rws -> In id (used_rewriters k') -> In id (map fst rws)).
Proof.
  intros k rws u H. cbv beta zeta delta [check_rewriters] in H.
  destruct (first_missing (used_rewriters k) (map fst rws)) as [id|] eqn:E1; [discriminate|].
  destruct (first_missing (flat_map (fun p => used_rewriters (snd p)) rws) (map fst rws)) as [id|] eqn:E2;
    [discriminate|].
  split; [apply (first_missing_none _ _ E1)|].
  intros id0 k' id Hin Hid. apply (first_missing_none _ _ E2).
  apply in_flat_map. exists (id0, k'). split; [exact Hin|exact Hid].
Qed.

Lemma C12_accept : C12_accept_stmt.
Proof.
  intros d uord tord H. cbv zeta. cbv beta zeta delta [load] in H.
  destruct (load_core (d_core d) (global_names d) []) as [[uo to]|e] eqn:El; [|discriminate].
  match type of H with (match ?x with _ => _ end) = _ => destruct x as [u|e] eqn:Erw end; [|discriminate].
  destruct (pkg (kinds_fuel (d_core d)) (k_utils (d_core d)) (d_globals d) (k_rule (d_core d))) as [ks|] eqn:Epk; [|discriminate].
  injection H as Huo Hto. subst uo to.
  split; [apply C12_core_accept; exact El|]. split; [exists ks; reflexivity|].
  cbv zeta in Erw.
  destruct (load_rewriters (doc_rewriters d) (global_names d) (core_defined_vars (d_core d))) as [u'|e] eqn:Elr; [|discriminate].
  apply check_rewriters_ok in Erw. destruct Erw as [Hr1 Hr2].
  split; [|split; [exact Hr1|exact Hr2]].
  intros id k' Hin. destruct (load_rewriters_ok _ _ _ _ Elr id k' Hin) as [Hfx [uo [to Hlc]]].
  split; [exact Hfx|]. exists uo, to. apply C12_core_accept. exact Hlc.
Qed.
Print Assumptions C12_accept.

(* ---- which errors each stage can produce ---- *)
Definition is_other (e : lerr) : bool :=
  match e with
  | ECyclicUtil _ | ECyclicTrans _ | EFuelOut | ERewriter _ _ | ENoFixInRewriter _ | EUndefRewriter _ | ENoKinds => false
  | _ => true
  end.

Lemma check_vars_err : forall k upper e, check_vars k upper = LErr e -> is_other e = true.
Proof.
  intros k upper e H. cbv beta zeta delta [check_vars check_var_in_constraints] in H.
  match type of H with (match (match ?x with _ => _ end) with _ => _ end) = _ => destruct x as [v|] eqn:Ec end.
  { injection H as H. subst e. reflexivity. }
  match type of H with (match ?x with _ => _ end) = _ => destruct x as [v2|e2] eqn:Et end.
  - unfold check_var_in_fix in H.
    match type of H with (match ?x with _ => _ end) = _ => destruct x as [v|] eqn:Ef end; [|discriminate].
    injection H as H. subst e. reflexivity.
  - injection H as H. subst e2. unfold check_var_in_transform in Et.
    destruct (k_trans k) as [ts|]; [|discriminate].
    match type of Et with (match ?x with _ => _ end) = _ => destruct x as [v3|e3] eqn:Ei end.
    + match type of Et with (match ?x with _ => _ end) = _ => destruct x as [v|] eqn:Ef end; [|discriminate].
      injection Et as Et. subst e. reflexivity.
    + injection Et as Et. subst e3. apply insert_keys_err in Ei. destruct Ei as [key Hk]. subst e. reflexivity.
Qed.

Lemma transform_order_err : forall k e, transform_order k = LErr e ->
  (exists key ts, e = ECyclicTrans key /\ k_trans k = Some ts /\ get_order (trans_depmap ts) = OrderCycle key)
  \/ is_other e = true.
Proof.
  intros k e H. unfold transform_order in H. destruct (k_trans k) as [ts|] eqn:Ets; [|discriminate].
  destruct (get_order (trans_depmap ts)) as [ord|c|] eqn:Eo.
  - match type of H with (match ?x with _ => _ end) = _ => destruct x as [p|] eqn:Ef end; [|discriminate].
    injection H as H. subst e. right. reflexivity.
  - injection H as H. subst e. left. exists c, ts. repeat split. exact Eo.
  - exfalso. exact (C12_topo_total _ Eo).
Qed.

Lemma load_core_err : forall k globals upper e, load_core k globals upper = LErr e ->
  (exists key, e = ECyclicUtil key /\ get_order (util_depmap (k_utils k)) = OrderCycle key)
  \/ (exists key ts, e = ECyclicTrans key /\ k_trans k = Some ts /\ get_order (trans_depmap ts) = OrderCycle key)
  \/ is_other e = true.
Proof.
  intros k globals upper e H. unfold load_core in H.
  destruct (get_order (util_depmap (k_utils k))) as [uo|c|] eqn:Eu.
  - destruct (transform_order k) as [to|e1] eqn:Et.
    + destruct (check_utils_defined k globals) as [u1|e2] eqn:Ec.
      * destruct (check_vars k upper) as [u2|e3] eqn:Ev; [discriminate|].
        injection H as H. subst e3. right. right. eapply check_vars_err. exact Ev.
      * injection H as H. subst e2. unfold check_utils_defined in Ec.
        match type of Ec with (match ?x with _ => _ end) = _ => destruct x as [id|] eqn:Ef end; [|discriminate].
        injection Ec as Ec. subst e. right. right. reflexivity.
    + injection H as H. subst e1. right. apply transform_order_err. exact Et.
  - injection H as H. subst e. left. exists c. split; reflexivity.
  - exfalso. exact (C12_topo_total _ Eu).
Qed.

Lemma C12_reject_cycle : C12_reject_cycle_stmt.
Proof.
  intros k globals upper. split.
  - intros key H. apply load_core_err in H. destruct H as [[key' [He Ho]]|[[key' [ts [He _]]]|He]].
    + injection He as He. subst key'. apply C12_topo_complete. exact Ho.
    + discriminate.
    + discriminate.
  - intros key H. apply load_core_err in H. destruct H as [[key' [He Ho]]|[[key' [ts [He [Hts Ho]]]]|He]].
    + discriminate.
    + injection He as He. subst key'. exists ts. split; [exact Hts|]. apply C12_topo_complete. exact Ho.
    + discriminate.
Qed.
Print Assumptions C12_reject_cycle.

Lemma C12_global_order : C12_global_order_stmt.
Proof.
  intros gs ord H. pose proof (C12_topo_sound _ _ H) as (Hacyc & _ & _ & Hbefore).
  split; [exact Hacyc|]. intros a b Hab Hb. apply Hbefore; [exact Hab|].
  rewrite global_depmap_keys. exact Hb.
Qed.
Print Assumptions C12_global_order.

Lemma load_rewriters_nofuel : forall rws globals upper, load_rewriters rws globals upper <> LErr EFuelOut.
Proof.
  induction rws as [|[id0 k0] rest IH]; intros globals upper H; cbn [load_rewriters] in H; [discriminate|].
  destruct (k_fix k0) as [fx|]; [|discriminate].
  destruct (load_core k0 globals upper) as [[uo to]|e]; [|discriminate].
  eapply IH. exact H.
Qed.

Lemma check_rewriters_nofuel : forall k rws, check_rewriters k rws <> LErr EFuelOut.
Proof.
  intros k rws H. cbv beta zeta delta [check_rewriters] in H.
  destruct (first_missing (used_rewriters k) (map fst rws)) as [id|]; [discriminate|].
  destruct (first_missing (flat_map (fun p => used_rewriters (snd p)) rws) (map fst rws)) as [id|]; discriminate.
Qed.

Lemma C11_load_total : C11_load_total_stmt.
Proof.
  intros d H. cbv beta zeta delta [load] in H.
  destruct (load_core (d_core d) (global_names d) []) as [[uo to]|e] eqn:El.
  - destruct (load_rewriters (doc_rewriters d) (global_names d) (core_defined_vars (d_core d))) as [u'|e] eqn:Elr.
    + destruct (check_rewriters (d_core d) (doc_rewriters d)) as [u2|e] eqn:Ecr.
      * destruct (pkg (kinds_fuel (d_core d)) (k_utils (d_core d)) (d_globals d) (k_rule (d_core d))); discriminate.
      * injection H as H. subst e. exact (check_rewriters_nofuel _ _ Ecr).
    + injection H as H. subst e. exact (load_rewriters_nofuel _ _ _ Elr).
  - injection H as H. subst e. apply load_core_err in El.
    destruct El as [[key [He _]]|[[key [ts [He _]]]|He]]; discriminate.
Qed.
Print Assumptions C11_load_total.
