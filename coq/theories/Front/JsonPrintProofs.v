(* C16 / C17 — proofs of the statements of Front/JsonPrintSpec.v about the JSON printer automaton
   and Node::display_context. *)
From Coq Require Import List NArith ZArith Bool Arith Permutation Lia.
From AG Require Import Base.Val Base.Sort Rule.Rule Rule.Traversal Front.JsonPrint Front.JsonPrintSpec.
Import ListNotations.

(* ------------------------------------------------------------------ print_docs / join_with *)

Lemma print_docs_join st docs : print_docs st docs = join_with (doc_sep st) docs.
Proof.
  induction docs as [|d r IH]; [reflexivity|].
  destruct r as [|d' r']; [reflexivity|].
  change (print_docs st (d :: d' :: r')) with (d ++ doc_sep st ++ print_docs st (d' :: r')).
  change (join_with (doc_sep st) (d :: d' :: r'))
    with (d ++ doc_sep st ++ join_with (doc_sep st) (d' :: r')).
  now rewrite IH.
Qed.

Definition nonempty_docs (docs : list str) : Prop := forall d, In d docs -> d <> [].

Lemma join_with_nil sep docs : nonempty_docs docs -> join_with sep docs = [] -> docs = [].
Proof.
  intros Hne Hj. destruct docs as [|d r]; [reflexivity|].
  exfalso. apply (Hne d (or_introl eq_refl)).
  destruct r as [|d' r'].
  - exact Hj.
  - change (d ++ sep ++ join_with sep (d' :: r') = []) in Hj.
    apply app_eq_nil in Hj. tauto.
Qed.

Lemma join_with_app sep a b : a <> [] -> b <> [] ->
  join_with sep (a ++ b) = join_with sep a ++ sep ++ join_with sep b.
Proof.
  intros Ha Hb. induction a as [|x a' IH]; [congruence|].
  destruct a' as [|y a''].
  - destruct b as [|z b']; [congruence|]. reflexivity.
  - change (join_with sep ((x :: y :: a'') ++ b))
      with (x ++ sep ++ join_with sep ((y :: a'') ++ b)).
    rewrite IH by discriminate.
    change (join_with sep (x :: y :: a'')) with (x ++ sep ++ join_with sep (y :: a'')).
    now rewrite <- !app_assoc.
Qed.

(* ------------------------------------------------------------------ the printer automaton *)

Definition pre_first (st : jstyle) : str := match st with Pretty => [NL] | _ => [] end.

Lemma process_nonempty st p buf : buf <> [] ->
  process st p buf =
  {| jp_matched := true;
     jp_out := jp_out p ++ (if jp_matched p then doc_sep st else pre_first st) ++ buf |}.
Proof. destruct buf; [congruence | reflexivity]. Qed.

Lemma fold_inv st p0 : jp_matched p0 = false -> forall bs : list (list str),
  (forall b d, In b bs -> In d b -> d <> []) ->
  jp_matched (fold_left (fun p docs => process st p (print_docs st docs)) bs p0)
    = match concat bs with [] => false | _ => true end /\
  jp_out (fold_left (fun p docs => process st p (print_docs st docs)) bs p0)
    = jp_out p0 ++ match concat bs with
                   | [] => []
                   | _ => pre_first st ++ join_with (doc_sep st) (concat bs)
                   end.
Proof.
  intros Hm0 bs. induction bs as [|b bs IH] using rev_ind; intros Hne.
  - cbn. rewrite app_nil_r. auto.
  - rewrite fold_left_app. cbn [fold_left]. rewrite concat_app. cbn [concat]. rewrite app_nil_r.
    destruct IH as [IHm IHo].
    { intros b' d Hb Hd. apply (Hne b' d); [apply in_or_app; auto | auto]. }
    assert (Hb : nonempty_docs b).
    { intros d Hd. apply (Hne b d); [apply in_or_app; right; left; reflexivity | auto]. }
    destruct b as [|d0 b'].
    + cbn [print_docs process]. rewrite app_nil_r. auto.
    + rewrite print_docs_join.
      assert (Hbuf : join_with (doc_sep st) (d0 :: b') <> []).
      { intros H. apply join_with_nil in H; [discriminate | exact Hb]. }
      rewrite process_nonempty by exact Hbuf. cbn [jp_matched jp_out].
      destruct (concat bs) as [|c cs] eqn:Hc.
      * cbn [app]. split; [reflexivity|]. rewrite IHo, IHm, app_nil_r. reflexivity.
      * rewrite (join_with_app (doc_sep st) (c :: cs) (d0 :: b')) by discriminate.
        cbn [app]. split; [reflexivity|]. rewrite IHo, IHm.
        now rewrite <- !app_assoc.
Qed.

Lemma C16_framing : C16_framing_stmt.
Proof.
  intros st buffers Hne. unfold run_printer.
  set (p0 := before_print st _).
  assert (Hm0 : jp_matched p0 = false) by (destruct st; reflexivity).
  match goal with |- jp_out (after_print st ?q) = _ =>
    assert (Hm : jp_matched q = match concat buffers with [] => false | _ => true end)
      by exact (proj1 (fold_inv st p0 Hm0 buffers Hne));
    assert (Ho : jp_out q = jp_out p0 ++ match concat buffers with
                                         | [] => []
                                         | _ => pre_first st ++ join_with (doc_sep st) (concat buffers)
                                         end)
      by exact (proj2 (fold_inv st p0 Hm0 buffers Hne));
    generalize dependent q
  end.
  intros p Hm Ho.
  destruct st; cbn [after_print jp_out jp_matched framed]; rewrite ?Hm, Ho;
    subst p0; cbn [before_print jp_out jp_matched pre_first doc_sep];
    destruct (concat buffers) as [|c cs]; cbn [app]; reflexivity.
Qed.
Print Assumptions C16_framing.

Lemma C16_framing_count : C16_framing_count_stmt.
Proof.
  intros st buffers Hne. exists (concat buffers). split; [|reflexivity].
  apply C16_framing; exact Hne.
Qed.
Print Assumptions C16_framing_count.

Lemma Permutation_concat_lists (A : Type) (l l' : list (list A)) :
  Permutation l l' -> Permutation (concat l) (concat l').
Proof.
  induction 1 as [|x l l' HP IH|x y l|l l' l'' HP1 IH1 HP2 IH2]; cbn [concat].
  - constructor.
  - apply Permutation_app_head; exact IH.
  - rewrite !app_assoc. apply Permutation_app_tail. apply Permutation_app_comm.
  - etransitivity; eauto.
Qed.

Lemma C17_order_insensitive : C17_order_insensitive_stmt.
Proof.
  intros st buffers buffers' HP Hne.
  exists (concat buffers), (concat buffers'). split; [|split].
  - apply C16_framing; exact Hne.
  - apply C16_framing. intros b d Hb Hd.
    apply (Hne b d); [|exact Hd].
    apply (Permutation_in b (Permutation_sym HP) Hb).
  - apply Permutation_concat_lists; exact HP.
Qed.
Print Assumptions C17_order_insensitive.

(* ------------------------------------------------------------------ display_context *)

Definition cnt (l : list N) : nat := length (filter (N.eqb 10) l).

Lemma count_nl_cnt l : N.to_nat (count_nl l) = cnt l.
Proof. unfold count_nl, cnt. apply Nat2N.id. Qed.

Lemma cnt_app1 l b : cnt (l ++ [b]) = cnt l + (if N.eqb b NL then 1 else 0).
Proof.
  unfold cnt, NL. rewrite filter_app, app_length. cbn [filter].
  rewrite (N.eqb_sym 10 b). destruct (N.eqb b 10); reflexivity.
Qed.

Lemma skipn_length_app (A : Type) (a b : list A) : skipn (length a) (a ++ b) = b.
Proof. induction a as [|x a IH]; [reflexivity | exact IH]. Qed.

Lemma firstn_length_app (A : Type) (a b : list A) : firstn (length a) (a ++ b) = a.
Proof. induction a as [|x a IH]; [reflexivity | cbn; now rewrite IH]. Qed.

Lemma nth_error_skipn_shift (A : Type) (l : list A) n i :
  n <= length l -> n <= i -> nth_error l i = nth_error (skipn n l) (i - n).
Proof.
  intros Hn Hi.
  transitivity (nth_error (firstn n l ++ skipn n l) i); [now rewrite firstn_skipn|].
  rewrite nth_error_app2; rewrite firstn_length_le by exact Hn; [reflexivity | exact Hi].
Qed.

(* the backward loop started with counter S k stops where the specification with counter k does *)
Lemma lead_loop_spec rp : forall k,
  fst (lead_loop rp (length rp) (S k)) = line_start_back rp (length rp) k.
Proof.
  induction rp as [|b r IH]; intros k; [reflexivity|].
  cbn [lead_loop line_start_back length].
  replace (S (length r) - 1) with (length r) by lia.
  destruct (N.eqb b NL).
  - destruct k as [|k']; [reflexivity|].
    replace (S (S k') - 1) with (S k') by lia. apply IH.
  - apply IH.
Qed.

(* decomposition of the scanned prefix at the stopping position *)
Lemma lead_loop_decomp rp : forall k l lb,
  lead_loop rp (length rp) (S k) = (l, lb) ->
  exists rest shown,
    rev rp = rest ++ shown /\ length rest = l /\
    (rest = [] \/ exists r0, rest = r0 ++ [NL]) /\
    ((lb = 0 /\ cnt shown = k) \/ (0 < lb <= S k /\ cnt shown = S k - lb)).
Proof.
  induction rp as [|b r IH]; intros k l lb H.
  - cbn in H. injection H as <- <-. exists [], []. cbn.
    repeat split; auto. right. split; [lia|]. unfold cnt; cbn; lia.
  - cbn [lead_loop length] in H.
    replace (S (length r) - 1) with (length r) in H by lia.
    destruct (N.eqb b NL) eqn:Hb.
    + apply N.eqb_eq in Hb. subst b. destruct k as [|k'].
      * injection H as <- <-. exists (rev r ++ [NL]), [].
        cbn [rev]. rewrite app_nil_r, app_length, rev_length. cbn [length].
        split; [reflexivity|]. split; [lia|]. split; [right; eauto|].
        left; split; reflexivity.
      * replace (S (S k') - 1) with (S k') in H by lia.
        destruct (IH _ _ _ H) as (rest & shown & Hr & Hl & Hs & Hc).
        exists rest, (shown ++ [NL]). cbn [rev]. rewrite Hr, <- app_assoc.
        split; [reflexivity|]. split; [exact Hl|]. split; [exact Hs|].
        rewrite cnt_app1, N.eqb_refl. destruct Hc as [[-> Hc]|[Hlb Hc]]; [left|right]; lia.
    + destruct (IH _ _ _ H) as (rest & shown & Hr & Hl & Hs & Hc).
      exists rest, (shown ++ [b]). cbn [rev]. rewrite Hr, <- app_assoc.
      split; [reflexivity|]. split; [exact Hl|]. split; [exact Hs|].
      rewrite cnt_app1, Hb, Nat.add_0_r. exact Hc.
Qed.

Lemma trail_loop_spec suf : forall pos k,
  trail_loop suf pos (S k) = line_end_fwd suf pos k.
Proof.
  induction suf as [|b r IH]; intros pos k; [reflexivity|].
  cbn [trail_loop line_end_fwd]. destruct (N.eqb b NL).
  - destruct k as [|k']; [reflexivity|].
    replace (S (S k') - 1) with (S k') by lia. apply IH.
  - apply IH.
Qed.

Lemma line_end_fwd_props suf : forall pos k,
  pos <= line_end_fwd suf pos k /\
  line_end_fwd suf pos k <= pos + length suf /\
  (line_end_fwd suf pos k = pos + length suf \/
   nth_error suf (line_end_fwd suf pos k - pos) = Some NL).
Proof.
  induction suf as [|b r IH]; intros pos k.
  - cbn. split; [lia|]. split; [lia|]. left; lia.
  - cbn [line_end_fwd length]. destruct (N.eqb b NL) eqn:Hb; [destruct k as [|k']|].
    + split; [lia|]. split; [lia|]. right. rewrite Nat.sub_diag. cbn.
      apply N.eqb_eq in Hb. now subst b.
    + destruct (IH (S pos) k') as (H1 & H2 & H3).
      split; [lia|]. split; [lia|]. destruct H3 as [H3|H3]; [left; lia|right].
      replace (line_end_fwd r (S pos) k' - pos) with (S (line_end_fwd r (S pos) k' - S pos)) by lia.
      exact H3.
    + destruct (IH (S pos) k) as (H1 & H2 & H3).
      split; [lia|]. split; [lia|]. destruct H3 as [H3|H3]; [left; lia|right].
      replace (line_end_fwd r (S pos) k - pos) with (S (line_end_fwd r (S pos) k - S pos)) by lia.
      exact H3.
Qed.

Lemma C16_lines : C16_lines_stmt.
Proof.
  intros src s e before after Hse Hel d. subst d.
  assert (HlenP : length (firstn s src) = s) by (apply firstn_length_le; lia).
  unfold display_context, lines_lo, lines_hi.
  rewrite <- rev_alt.
  destruct (lead_loop (rev (firstn s src)) s (S before)) as [l lb] eqn:HL.
  cbv zeta. rewrite Nat.min_l by exact Hel.
  cbn [dc_lead dc_trail dc_offset].
  rewrite trail_loop_spec.
  assert (Hlead : l = line_start_back (rev (firstn s src)) s before).
  { pose proof (lead_loop_spec (rev (firstn s src)) before) as Hspec.
    rewrite rev_length, HlenP, HL in Hspec. exact Hspec. }
  assert (HL' : lead_loop (rev (firstn s src)) (length (rev (firstn s src))) (S before) = (l, lb)).
  { rewrite rev_length, HlenP. exact HL. }
  destruct (lead_loop_decomp _ _ _ _ HL') as (rest & shown & Hr & Hl & Hs & Hc).
  rewrite rev_involutive in Hr.
  assert (Hsrc : src = rest ++ shown ++ skipn s src).
  { rewrite app_assoc, <- Hr. symmetry. apply firstn_skipn. }
  assert (Hs_len : s = length rest + length shown).
  { rewrite <- HlenP, Hr, app_length. reflexivity. }
  destruct (line_end_fwd_props (skipn e src) e after) as (T1 & T2 & T3).
  rewrite skipn_length in T2, T3.
  set (t := line_end_fwd (skipn e src) e after) in *.
  split; [exact Hlead|]. split; [reflexivity|].
  split; [lia|]. split; [exact T1|]. split; [lia|].
  split.
  { destruct Hs as [Hs|[r0 Hs]].
    - left. subst rest. cbn in Hl. lia.
    - right. rewrite Hsrc. subst rest. rewrite app_length in Hl. cbn [length] in Hl.
      replace (l - 1) with (length r0) by lia.
      rewrite <- app_assoc. rewrite nth_error_app2 by lia. rewrite Nat.sub_diag. reflexivity. }
  split.
  { destruct T3 as [T3|T3]; [left; lia|right].
    rewrite (nth_error_skipn_shift _ src e t) by lia. exact T3. }
  split.
  { rewrite count_nl_cnt.
    replace (firstn (s - l) (skipn l src)) with shown.
    - destruct Hc as [[-> Hc]|[Hlb Hc]]; [exact Hc|].
      destruct lb as [|lb']; [lia|exact Hc].
    - rewrite Hsrc at 1. rewrite <- Hl, skipn_length_app.
      replace (s - length rest) with (length shown) by lia.
      now rewrite firstn_length_app. }
  destruct Hc as [[-> Hc]|[Hlb Hc]]; [lia|].
  destruct lb as [|lb']; lia.
Qed.
Print Assumptions C16_lines.
