(* C09 — proofs of the statements in Front/LspSpec.v about the language-server document table. *)
From Coq Require Import List NArith ZArith Bool Arith Lia.
From AG Require Import Base.Val Front.Lsp Front.LspSpec.
Import ListNotations.

(* ---- association-list lemmas ---- *)
Lemma aget_aset_same : forall u x m, aget u (aset u x m) = Some x.
Proof.
  intros u x m. induction m as [|[k y] r IH]; cbn.
  - now rewrite N.eqb_refl.
  - destruct (N.eqb k u) eqn:E; cbn; rewrite E; auto.
Qed.

Lemma aget_aset_other : forall u u' x m, N.eqb u' u = false -> aget u (aset u' x m) = aget u m.
Proof.
  intros u u' x m H. induction m as [|[k y] r IH]; cbn.
  - now rewrite H.
  - destruct (N.eqb k u') eqn:E; cbn.
    + apply N.eqb_eq in E. subst k. rewrite H. reflexivity.
    + destruct (N.eqb k u); auto.
Qed.

Lemma aget_adel_same : forall u m, aget u (adel u m) = None.
Proof.
  intros u m. induction m as [|[k y] r IH]; cbn.
  - reflexivity.
  - destruct (N.eqb k u) eqn:E; cbn; try rewrite E; auto.
Qed.

Lemma aget_adel_other : forall u u' m, N.eqb u' u = false -> aget u (adel u' m) = aget u m.
Proof.
  intros u u' m H. induction m as [|[k y] r IH]; cbn.
  - reflexivity.
  - destruct (N.eqb k u') eqn:E; cbn.
    + apply N.eqb_eq in E. subst k. rewrite H. exact IH.
    + destruct (N.eqb k u); auto.
Qed.

(* ---- best ---- *)
Lemma best_snoc : forall l x,
  best (l ++ [x]) =
  match best l with
  | None => Some x
  | Some a => if Z.gtb (fst a) (fst x) then Some a else Some x
  end.
Proof. intros l x. unfold best. rewrite fold_left_app. reflexivity. Qed.

Lemma best_nonempty : forall l, l <> [] -> best l <> None.
Proof.
  intros l H. destruct (exists_last H) as [l' [a Hl]]. subst l.
  rewrite best_snoc. destruct (best l') as [b|].
  - destruct (Z.gtb (fst b) (fst a)); discriminate.
  - discriminate.
Qed.

Lemma best_single : forall x, best [x] = Some x.
Proof. reflexivity. Qed.

(* ---- the invariant, per uri ---- *)
Definition lsp_inv (u : N) (s : lstate) (acc : option (list (Z * N))) : Prop :=
  match acc with
  | None => aget u (ls_docs s) = None
  | Some l => l <> [] /\ aget u (ls_docs s) = best l /\ aget u (ls_pub s) = best l
  end.

Lemma lsp_inv_step_other : forall u s acc n,
  lsp_inv u s acc ->
  (match n with NOpen u' _ _ | NChange u' _ _ | NClose u' => N.eqb u' u end) = false ->
  lsp_inv u (lsp_step s n) acc.
Proof.
  intros u s acc n Hinv Hne.
  assert (Hgoal : aget u (ls_docs (lsp_step s n)) = aget u (ls_docs s) /\
                  aget u (ls_pub (lsp_step s n)) = aget u (ls_pub s)).
  { destruct n as [u' v t|u' v t|u']; cbn [lsp_step].
    - cbn. rewrite !aget_aset_other by exact Hne. auto.
    - destruct (aget u' (ls_docs s)) as [[cv ct]|] eqn:G; [|auto].
      destruct (Z.gtb cv v); [auto|]. cbn. rewrite !aget_aset_other by exact Hne. auto.
    - cbn. rewrite aget_adel_other by exact Hne. auto. }
  destruct Hgoal as [Hd Hp].
  unfold lsp_inv in *. destruct acc as [l|].
  - rewrite Hd, Hp. exact Hinv.
  - rewrite Hd. exact Hinv.
Qed.

Lemma lsp_inv_open : forall u s v t,
  lsp_inv u (lsp_step s (NOpen u v t)) (Some [(v, t)]).
Proof.
  intros u s v t. unfold lsp_inv. cbn [lsp_step ls_docs ls_pub].
  rewrite !aget_aset_same, best_single. repeat split. discriminate.
Qed.

Lemma lsp_inv_change : forall u s acc v t,
  lsp_inv u s acc ->
  lsp_inv u (lsp_step s (NChange u v t)) (option_map (fun l => l ++ [(v, t)]) acc).
Proof.
  intros u s acc v t Hinv. unfold lsp_inv in *. destruct acc as [l|]; cbn [option_map lsp_step].
  - destruct Hinv as [Hne [Hd Hp]].
    assert (Hnil : l ++ [(v, t)] <> []) by (destruct l; discriminate).
    rewrite best_snoc. rewrite Hd.
    destruct (best l) as [[cv ct]|] eqn:B.
    + cbn [fst]. destruct (Z.gtb cv v) eqn:G.
      * rewrite Hd, Hp. auto.
      * cbn [ls_docs ls_pub]. rewrite !aget_aset_same. auto.
    + exfalso. exact (best_nonempty l Hne B).
  - rewrite Hinv. exact Hinv.
Qed.

Lemma lsp_inv_close : forall u s, lsp_inv u (lsp_step s (NClose u)) None.
Proof.
  intros u s. unfold lsp_inv. cbn [lsp_step ls_docs]. apply aget_adel_same.
Qed.

Lemma lsp_inv_run : forall u hist s acc,
  lsp_inv u s acc ->
  lsp_inv u (fold_left lsp_step hist s) (session hist u acc).
Proof.
  intros u hist. induction hist as [|n r IH]; intros s acc Hinv.
  - exact Hinv.
  - cbn [fold_left session].
    destruct n as [u' v t|u' v t|u']; destruct (N.eqb u' u) eqn:E;
      try (apply IH; apply lsp_inv_step_other; [exact Hinv|exact E]).
    + apply N.eqb_eq in E. subst u'. apply IH. apply lsp_inv_open.
    + apply N.eqb_eq in E. subst u'. apply IH. apply lsp_inv_change. exact Hinv.
    + apply N.eqb_eq in E. subst u'. apply IH. apply lsp_inv_close.
Qed.

Lemma C09_lsp_latest : C09_lsp_latest_stmt.
Proof.
  intros hist u.
  assert (Hinv : lsp_inv u (lsp_run hist) (session hist u None)).
  { unfold lsp_run. apply lsp_inv_run. reflexivity. }
  unfold expected_doc. unfold lsp_inv in Hinv.
  destruct (session hist u None) as [l|].
  - destruct Hinv as [Hne [Hd Hp]]. split.
    + exact Hd.
    + intros x Hx. rewrite Hp. exact Hx.
  - split.
    + exact Hinv.
    + intros x Hx. discriminate.
Qed.
Print Assumptions C09_lsp_latest.

Lemma C09_best_is_max : C09_best_is_max_stmt.
Proof.
  intros l. induction l as [|x l IH] using rev_ind; intros b Hb.
  - discriminate.
  - rewrite best_snoc in Hb. destruct (best l) as [a|] eqn:B.
    + destruct (IH a eq_refl) as [Hin Hmax].
      destruct (Z.gtb (fst a) (fst x)) eqn:G; inversion Hb; subst b; clear Hb.
      * apply Z.gtb_lt in G. split.
        -- apply in_or_app. left. exact Hin.
        -- intros y Hy. apply in_app_or in Hy. destruct Hy as [Hy|[Hy|[]]].
           ++ apply Hmax. exact Hy.
           ++ subst y. lia.
      * assert (Hle : (fst a <= fst x)%Z).
        { rewrite Z.gtb_ltb in G. apply Z.ltb_ge in G. exact G. }
        split.
        -- apply in_or_app. right. left. reflexivity.
        -- intros y Hy. apply in_app_or in Hy. destruct Hy as [Hy|[Hy|[]]].
           ++ specialize (Hmax y Hy). lia.
           ++ subst y. lia.
    + inversion Hb; subst b; clear Hb.
      destruct l as [|z l'].
      * split.
        -- left. reflexivity.
        -- intros y [Hy|[]]. subst y. lia.
      * exfalso. apply (best_nonempty (z :: l')); [discriminate|exact B].
Qed.
Print Assumptions C09_best_is_max.
