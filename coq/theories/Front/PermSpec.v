(* C13 — results do not depend on map order or file order: statements (proved in Front/PermProofs.v).
   Every HashMap iteration of the modelled code is either sorted before use or order-insensitive;
   the statements below are over ALL permutations. *)
From Coq Require Import List NArith ZArith Bool Arith Permutation.
From AG Require Import Base.Val Base.Sort Tree.Tree Rule.Rule Rule.Traversal Rule.Scan Front.Select.
Import ListNotations.

(* CombinedScan::new sorts the rules by (has fix, id): any two orders of the same rule files (distinct
   ids) give the same dispatch order, hence the same scan result *)
Definition C13_sort_rules_perm_stmt : Prop :=
  forall rules rules', Permutation rules rules' -> NoDup (map sr_id rules) -> sort_rules rules = sort_rules rules'.
Definition C13_scan_perm_stmt : Prop :=
  forall src root rules rules', Permutation rules rules' -> NoDup (map sr_id rules) ->
    scan src root rules = scan src root rules'.

(* rule selection for a file (RuleCollection::for_path sorts by id) is invariant under any reordering
   of the rule files *)
Definition C13_select_perm_stmt : Prop :=
  forall a rules rules' f, Permutation rules rules' -> NoDup (map fr_id rules) ->
    rules_for_file a rules f = rules_for_file a rules' f.

(* the constraints are walked in sorted variable order (after the fix): any order in which the
   captured variables come out of the hash map gives the same walk *)
Definition C13_sort_kv_perm_stmt : Prop :=
  forall (A : Type) (l l' : list (str * A)), Permutation l l' -> NoDup (map fst l) -> sort_kv l = sort_kv l'.

(* transformations: any two topological orders compute the same values.  Abstractly: every key k is
   computed from the environment restricted to its dependencies; an order is admissible when it
   lists every key once with its dependencies before it *)
Section Topo.
  Variable V : Type.
  Variable deps : nat -> list nat.
  Variable compute : nat -> (nat -> option V) -> V.
  Definition upd (e : nat -> option V) (k : nat) (v : V) : nat -> option V :=
    fun x => if Nat.eqb x k then Some v else e x.
  Definition run_order (order : list nat) (e : nat -> option V) : nat -> option V :=
    fold_left (fun e k => upd e k (compute k e)) order e.
  Fixpoint admissible (done : list nat) (order : list nat) : Prop :=
    match order with
    | [] => True
    | k :: r => ~ In k done /\ (forall d, In d (deps k) -> In d done) /\ admissible (k :: done) r
    end.
  Definition local : Prop :=
    forall k e e', (forall d, In d (deps k) -> e d = e' d) -> compute k e = compute k e'.
  Definition C13_topo_confluence_stmt : Prop :=
    local ->
    forall o1 o2 e, admissible [] o1 -> admissible [] o2 -> Permutation o1 o2 ->
      (forall k, In k o1 -> e k = None) ->
      forall x, run_order o1 e x = run_order o2 e x.
End Topo.
