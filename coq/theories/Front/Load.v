(* Acceptance of a rule document: what `from_yaml_string` / `RuleConfig::try_from` decide after the YAML
   has been read into rule objects
     crates/config/src/rule/deserialize_env.rs : TopologicalSort, visit_dependent_rule_ids, with_utils,
                                                 parse_global_utils
     crates/config/src/rule_core.rs            : get_matcher_with_hint, get_matcher_from_env
     crates/config/src/check_var.rs            : check_rule_with_hint and everything below it
     crates/config/src/transform/mod.rs        : Transform::deserialize (order of the transformations)
     crates/config/src/rule_config.rs          : get_matcher, register_rewriters, try_from
   Hash maps are association lists; the iteration order of a hash map is the order of the list, and no
   theorem depends on it. *)
From Coq Require Import List NArith ZArith Bool Arith.
From AG Require Import Base.Val Base.Sort Str.MetaVar Tree.Tree Match.MatchNode Rule.Rule Rule.Kinds
  Rewrite.Template.
Import ListNotations.

Definition smem (x : str) (l : list str) : bool := existsb (str_eqb x) l.

(* ================= TopologicalSort ================= *)
(* [deps k] = the keys `visit_dependency` visits for the item stored under k, in order *)
Definition depmap := list (str * list str).

Inductive tres :=
| TOk (seen : list (str * bool)) (order_rev : list str)     (* seen: key -> completed *)
| TCycle (key : str)
| TFuel.

(* TopologicalSort::visit, and the loop over the dependencies of an item *)
Inductive treq := TVisit (k : str) | TVisitAll (ks : list str).

Fixpoint tvisit (fuel : nat) (m : depmap) (q : treq) (seen : list (str * bool)) (ord : list str) : tres :=
  match fuel with
  | O => TFuel
  | S f =>
      match q with
      | TVisit k =>
          match lookup k seen with
          | Some true => TOk seen ord
          | Some false => TCycle k
          | None =>
              match lookup k m with
              | None => TOk seen ord                       (* "key can be found elsewhere" *)
              | Some ds =>
                  match tvisit f m (TVisitAll ds) (upsert k false seen) ord with
                  | TOk seen' ord' => TOk (upsert k true seen') (k :: ord')
                  | other => other
                  end
              end
          end
      | TVisitAll ks =>
          match ks with
          | [] => TOk seen ord
          | k :: r =>
              match tvisit f m (TVisit k) seen ord with
              | TOk seen' ord' => tvisit f m (TVisitAll r) seen' ord'
              | other => other
              end
          end
      end
  end.

Definition deps_size (m : depmap) : nat := fold_right (fun p a => S (length (snd p)) + a) 0 m.
(* enough for any map: every key is expanded at most once, every dependency edge is looked at once *)
Definition topo_fuel (m : depmap) : nat := 2 * (deps_size m + length m) + 4.

Inductive order_res := OrderOk (order : list str) | OrderCycle (key : str) | OrderFuel.

(* TopologicalSort::get_order *)
Definition get_order (m : depmap) : order_res :=
  match tvisit (topo_fuel m) m (TVisitAll (map fst m)) [] [] with
  | TOk _ ord => OrderOk (rev ord)
  | TCycle k => OrderCycle k
  | TFuel => OrderFuel
  end.

(* visit_dependent_rule_ids: the utilities a rule requires ON THE SAME NODE *)
Fixpoint rule_deps (r : rule) : list str :=
  match r with
  | RMatches id => [id]
  | RAll rs | RAny rs => flat_map rule_deps rs
  | RNot r' => rule_deps r'
  | RNth _ _ _ (Some r') => rule_deps r'
  | _ => []
  end.

(* ================= variables and references ================= *)
Fixpoint pnode_vars (p : pnode) : list str :=
  match p with
  | PMeta (Capture name _) => [name]
  | PMeta (MultiCapture name) => [name]
  | PMeta _ => []
  | PTerm _ _ _ => []
  | PInt _ cs => flat_map pnode_vars cs
  end.

(* Rule::defined_vars *)
Fixpoint defined_vars (r : rule) : list str :=
  let stop_vars (s : stopby) : list str := match s with SRule r' => defined_vars r' | _ => [] end in
  match r with
  | RPattern p => pnode_vars (p_node p)
  | RKind _ | RRegex _ | RRange _ _ _ _ | RMatches _ => []
  | RNth _ _ _ o => match o with Some r' => defined_vars r' | None => [] end
  | RInside r' s _ | RHas r' s _ | RPrecedes r' s | RFollows r' s => defined_vars r' ++ stop_vars s
  | RAll rs | RAny rs => flat_map defined_vars rs
  | RNot r' => defined_vars r'
  end.

(* every `matches` anywhere in the rule: what Rule::verify_util looks at *)
Fixpoint rule_refs (r : rule) : list str :=
  let stop_refs (s : stopby) : list str := match s with SRule r' => rule_refs r' | _ => [] end in
  match r with
  | RMatches id => [id]
  | RPattern _ | RKind _ | RRegex _ | RRange _ _ _ _ => []
  | RNth _ _ _ o => match o with Some r' => rule_refs r' | None => [] end
  | RInside r' s _ | RHas r' s _ | RPrecedes r' s | RFollows r' s => rule_refs r' ++ stop_refs s
  | RAll rs | RAny rs => flat_map rule_refs rs
  | RNot r' => rule_refs r'
  end.

(* ================= documents ================= *)
Record transf := {
  tf_source : str;              (* as written: `$A`, `$$$A`, or anything *)
  tf_rewriters : list str       (* `rewrite` only *)
}.

Record fixv := {
  fx_template : str;
  fx_expansions : list (rule * stopby)     (* expandStart / expandEnd, when present *)
}.

Record core := {
  k_rule : rule;
  k_utils : list (str * rule);
  k_cons : list (str * rule);
  k_trans : option (list (str * transf));
  k_fix : option fixv
}.

Record doc := {
  d_core : core;
  d_rewriters : option (list (str * core));
  d_globals : list (str * option (list N))  (* the global utility rules already registered: id, potential kinds *)
}.

Inductive lerr :=
| ECyclicUtil (key : str)
| EUndefinedUtil (id : str)
| EUndefVarCons (v : str)
| EAlreadyDefined (v : str)
| EUndefVarTrans (v : str)
| ECyclicTrans (key : str)
| EMalformedVar (src : str)
| EUndefVarFix (v : str)
| ENoFixInRewriter (id : str)
| ERewriter (id : str) (e : lerr)
| EUndefRewriter (id : str)
| ENoKinds
| EFuelOut.

Inductive lres {A} := LOk (a : A) | LErr (e : lerr).
Arguments lres : clear implicits.

Definition DOLLAR_C : N := 36%N.

(* Transformation::used_vars *)
Definition tf_used_var (t : transf) : str :=
  let s := tf_source t in
  match strip_prefix [36;36;36]%N s with
  | Some r => r
  | None =>
      match strip_prefix [36;36]%N s with            (* `$$VAR` names VAR too (fix: used_vars) *)
      | Some r => r
      | None => match strip_prefix [36]%N s with Some r => r | None => s end
      end
  end.

Definition first_missing (want have : list str) : option str := find (fun x => negb (smem x have)) want.

(* check_var_in_constraints *)
Definition check_var_in_constraints (vars : list str) (cons : list (str * rule)) : lres (list str) :=
  let vars' := vars ++ flat_map (fun p => defined_vars (snd p)) cons in
  match first_missing (map fst cons) vars' with
  | Some v => LErr (EUndefVarCons v)
  | None => LOk vars'
  end.

(* check_var_in_transform *)
Fixpoint insert_keys (vars : list str) (keys : list str) : lres (list str) :=
  match keys with
  | [] => LOk vars
  | k :: r => if smem k vars then LErr (EAlreadyDefined k) else insert_keys (k :: vars) r
  end.

Definition check_var_in_transform (vars : list str) (tr : option (list (str * transf))) : lres (list str) :=
  match tr with
  | None => LOk vars
  | Some ts =>
      match insert_keys vars (map fst ts) with
      | LErr e => LErr e
      | LOk vars' =>
          match first_missing (map (fun p => tf_used_var (snd p)) ts) vars' with
          | Some v => LErr (EUndefVarTrans v)
          | None => LOk vars'
          end
      end
  end.

Definition trans_keys (tr : option (list (str * transf))) : list str :=
  match tr with Some ts => map fst ts | None => [] end.

(* Fixer::used_vars of the template parsed with the transformation names (Fixer::with_transform) *)
Definition fix_used_vars (k : core) : list str :=
  match k_fix k with
  | Some f => used_vars (create_template DOLLAR_C (trans_keys (k_trans k)) (fx_template f))
  | None => []
  end.

(* check_var_in_fix *)
Definition check_var_in_fix (vars : list str) (k : core) : lres unit :=
  match first_missing (fix_used_vars k) vars with
  | Some v => LErr (EUndefVarFix v)
  | None => LOk tt
  end.

(* get_local_util_vars *)
Definition util_vars (k : core) : list str := flat_map (fun p => defined_vars (snd p)) (k_utils k).

(* check_vars / check_vars_in_rewriter: [upper] is empty for an ordinary rule *)
Definition check_vars (k : core) (upper : list str) : lres unit :=
  let vars := defined_vars (k_rule k) ++ util_vars k in
  match check_var_in_constraints vars (k_cons k) with
  | LErr e => LErr e
  | LOk vars1 =>
      match check_var_in_transform vars1 (k_trans k) with
      | LErr e => LErr e
      | LOk vars2 => check_var_in_fix (vars2 ++ upper) k
      end
  end.

Definition stop_rule_refs (s : stopby) : list str := match s with SRule r => rule_refs r | _ => [] end.

(* every reference check_utils_defined verifies, in its order: rule, local utilities, constraints, fix *)
Definition core_refs (k : core) : list str :=
  rule_refs (k_rule k)
  ++ flat_map (fun p => rule_refs (snd p)) (k_utils k)
  ++ flat_map (fun p => rule_refs (snd p)) (k_cons k)
  ++ match k_fix k with
     | Some f => flat_map (fun p => rule_refs (fst p) ++ stop_rule_refs (snd p)) (fx_expansions f)
     | None => []
     end.

Definition check_utils_defined (k : core) (globals : list str) : lres unit :=
  match first_missing (core_refs k) (map fst (k_utils k) ++ globals) with
  | Some id => LErr (EUndefinedUtil id)
  | None => LOk tt
  end.

Definition util_depmap (utils : list (str * rule)) : depmap := map (fun p => (fst p, rule_deps (snd p))) utils.
Definition trans_depmap (ts : list (str * transf)) : depmap := map (fun p => (fst p, [tf_used_var (snd p)])) ts.

(* Transform::deserialize: order, then every source must be a meta-variable *)
Definition transform_order (k : core) : lres (list str) :=
  match k_trans k with
  | None => LOk []
  | Some ts =>
      match get_order (trans_depmap ts) with
      | OrderCycle key => LErr (ECyclicTrans key)
      | OrderFuel => LErr EFuelOut
      | OrderOk ord =>
          match find (fun p => match extract_meta_var DOLLAR_C (tf_source (snd p)) with None => true | Some _ => false end)
                     (flat_map (fun key => match lookup key ts with Some t => [(key, t)] | None => [] end) ord) with
          | Some p => LErr (EMalformedVar (tf_source (snd p)))
          | None => LOk ord
          end
      end
  end.

(* get_matcher_with_hint (Normal or Rewriter): on success the order in which the utilities are registered
   and the order in which the transformations will be applied *)
Definition load_core (k : core) (globals upper : list str) : lres (list str * list str) :=
  match get_order (util_depmap (k_utils k)) with
  | OrderCycle key => LErr (ECyclicUtil key)
  | OrderFuel => LErr EFuelOut
  | OrderOk uord =>
      match transform_order k with
      | LErr e => LErr e
      | LOk tord =>
          match check_utils_defined k globals with
          | LErr e => LErr e
          | LOk _ =>
              match check_vars k upper with
              | LErr e => LErr e
              | LOk _ => LOk (uord, tord)
              end
          end
      end
  end.

(* RuleCore::defined_vars: what a rewriter may use from the enclosing rule *)
Definition core_defined_vars (k : core) : list str :=
  defined_vars (k_rule k) ++ util_vars k ++ flat_map (fun p => defined_vars (snd p)) (k_cons k) ++ trans_keys (k_trans k).

Definition used_rewriters (k : core) : list str :=
  match k_trans k with Some ts => flat_map (fun p => tf_rewriters (snd p)) ts | None => [] end.

(* register_rewriters *)
Fixpoint load_rewriters (rws : list (str * core)) (globals upper : list str) : lres unit :=
  match rws with
  | [] => LOk tt
  | (id, k) :: rest =>
      match k_fix k with
      | None => LErr (ENoFixInRewriter id)
      | Some _ =>
          match load_core k globals upper with
          | LErr e => LErr (ERewriter id e)
          | LOk _ => load_rewriters rest globals upper
          end
      end
  end.

(* check_rewriters_in_transform *)
Definition check_rewriters (k : core) (rws : list (str * core)) : lres unit :=
  let ids := map fst rws in
  match first_missing (used_rewriters k) ids with
  | Some id => LErr (EUndefRewriter id)
  | None =>
      match first_missing (flat_map (fun p => used_rewriters (snd p)) rws) ids with
      | Some id => LErr (EUndefRewriter id)
      | None => LOk tt
      end
  end.

Definition kinds_fuel (k : core) : nat := 4000.

Definition doc_rewriters (d : doc) : list (str * core) :=
  match d_rewriters d with Some rws => rws | None => [] end.

(* RuleConfig::try_from *)
(* Matcher::potential_kinds of the rule with ReferentRule::potential_kinds as coded: a reference answers with the
   LOCAL utility of that name when there is one (whatever it knows), with the global rule's kinds otherwise *)
Fixpoint pkg (fuel : nat) (utils : list (str * rule)) (gk : list (str * option (list N))) (r : rule) {struct fuel}
  : option (list N) :=
  match fuel with
  | O => None
  | S f =>
      match r with
      | RPattern p => pk_pattern p
      | RKind k => Some [k]
      | RRegex _ => None
      | RRange _ _ _ _ => None
      | RNth _ _ _ o => match o with Some r' => pkg f utils gk r' | None => None end
      | RInside _ _ _ | RHas _ _ _ | RPrecedes _ _ | RFollows _ _ => None
      | RNot _ => None
      | RAll rs =>
          fold_left (fun (acc : option (list N)) (x : rule) =>
                       match pkg f utils gk x with
                       | None => acc
                       | Some ks => match acc with Some a => Some (inter a ks) | None => Some ks end
                       end) rs None
      | RAny rs =>
          fold_left (fun (acc : option (list N)) (x : rule) =>
                       match acc, pkg f utils gk x with
                       | Some a, Some ks => Some (union a ks)
                       | _, _ => None
                       end) rs (Some [])
      | RMatches id =>
          match lookup id utils with
          | Some ur => pkg f utils gk ur
          | None => match lookup id gk with Some o => o | None => None end
          end
      end
  end.

Definition global_names (d : doc) : list str := map fst (d_globals d).

Definition load (d : doc) : lres (list str * list str) :=
  let k := d_core d in
  match load_core k (global_names d) [] with
  | LErr e => LErr e
  | LOk orders =>
      (* a document without a `rewriters` section defines no rewriter *)
      match (let rws := doc_rewriters d in
             match load_rewriters rws (global_names d) (core_defined_vars k) with
             | LErr e => LErr e
             | LOk _ => check_rewriters k rws
             end) with
      | LErr e => LErr e
      | LOk _ =>
          match pkg (kinds_fuel k) (k_utils k) (d_globals d) (k_rule k) with
          | None => LErr ENoKinds
          | Some _ => LOk orders
          end
      end
  end.

(* ================= global utility rules ================= *)
(* parse_global_utils: a global rule requires what its body, its local utilities and its constraints refer to *)
Definition global_deps (k : core) : list str :=
  rule_deps (k_rule k) ++ flat_map (fun p => rule_deps (snd p)) (k_utils k) ++ flat_map (fun p => rule_deps (snd p)) (k_cons k).
Definition global_depmap (gs : list (str * core)) : depmap := map (fun p => (fst p, global_deps (snd p))) gs.
