(* C09 — the language server converges to the newest text: statement (proved in Front/LspProofs.v). *)
From Coq Require Import List NArith ZArith Bool Arith.
From AG Require Import Base.Val Front.Lsp.
Import ListNotations.

(* after ANY sequence of open/change/close notifications — stale versions arriving late included —
   for every document: it is open iff it was opened and not closed since; the stored text is the
   highest-version text received since it was last opened (the latest among equal versions); and the
   diagnostics last published for an open document are those of exactly that text and version *)
Definition C09_lsp_latest_stmt : Prop :=
  forall hist u,
    aget u (ls_docs (lsp_run hist)) = expected_doc hist u /\
    (forall x, expected_doc hist u = Some x -> aget u (ls_pub (lsp_run hist)) = Some x).

(* every version in a session is at most the best one *)
Definition C09_best_is_max_stmt : Prop :=
  forall l b, best l = Some b -> In b l /\ (forall x, In x l -> (fst x <= fst b)%Z).
