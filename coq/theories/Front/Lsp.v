(* Model of the language server's document state machine (crates/lsp/src/lib.rs: on_open, on_change,
   on_close, publish_diagnostics): a map uri -> (version, text) and, per uri, what was last
   published.  The list of notifications is the order in which the handlers' critical sections run
   (that a handler's get_mut .. publish section is atomic per uri is an assumption about DashMap /
   tokio, named in the trusted base).  Texts are opaque (an index); diagnostics are a function of the text. *)
From Coq Require Import List NArith ZArith Bool Arith.
From AG Require Import Base.Val.
Import ListNotations.

Inductive notif :=
| NOpen (u : N) (v : Z) (t : N)
| NChange (u : N) (v : Z) (t : N)
| NClose (u : N).

Definition amap := list (N * (Z * N)).
Fixpoint aget (u : N) (m : amap) : option (Z * N) :=
  match m with [] => None | (k, x) :: r => if N.eqb k u then Some x else aget u r end.
Fixpoint aset (u : N) (x : Z * N) (m : amap) : amap :=
  match m with
  | [] => [(u, x)]
  | (k, y) :: r => if N.eqb k u then (k, x) :: r else (k, y) :: aset u x r
  end.
Fixpoint adel (u : N) (m : amap) : amap :=
  match m with [] => [] | (k, y) :: r => if N.eqb k u then adel u r else (k, y) :: adel u r end.

Record lstate := { ls_docs : amap; ls_pub : amap }.
Definition ls_init : lstate := {| ls_docs := []; ls_pub := [] |}.

Definition lsp_step (s : lstate) (n : notif) : lstate :=
  match n with
  | NOpen u v t =>
      (* diagnostics of the new text are published, then the document is inserted unconditionally *)
      {| ls_docs := aset u (v, t) (ls_docs s); ls_pub := aset u (v, t) (ls_pub s) |}
  | NChange u v t =>
      match aget u (ls_docs s) with
      | None => s                                             (* not open: ignored *)
      | Some (cv, _) =>
          if Z.gtb cv v then s                                (* skip old version update *)
          else {| ls_docs := aset u (v, t) (ls_docs s); ls_pub := aset u (v, t) (ls_pub s) |}
      end
  | NClose u => {| ls_docs := adel u (ls_docs s); ls_pub := ls_pub s |}
  end.

Definition lsp_run (hist : list notif) : lstate := fold_left lsp_step hist ls_init.

(* ---- the specification, independent of the step function: the texts received for u since it was
        last opened (None when it is not open), and the best of them: highest version, the latest
        among equal versions ---- *)
Fixpoint session (hist : list notif) (u : N) (acc : option (list (Z * N))) : option (list (Z * N)) :=
  match hist with
  | [] => acc
  | NOpen u' v t :: r => if N.eqb u' u then session r u (Some [(v, t)]) else session r u acc
  | NChange u' v t :: r =>
      if N.eqb u' u then session r u (option_map (fun l => l ++ [(v, t)]) acc) else session r u acc
  | NClose u' :: r => if N.eqb u' u then session r u None else session r u acc
  end.
Definition best (l : list (Z * N)) : option (Z * N) :=
  fold_left (fun (acc : option (Z * N)) x =>
               match acc with
               | None => Some x
               | Some a => if Z.gtb (fst a) (fst x) then Some a else Some x
               end) l None.
Definition expected_doc (hist : list notif) (u : N) : option (Z * N) :=
  match session hist u None with Some l => best l | None => None end.
