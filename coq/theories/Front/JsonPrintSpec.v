(* C16 / C17 — statements about the JSON printer and display_context (proved in Front/JsonPrintProofs.v). *)
From Coq Require Import List NArith ZArith Bool Arith Permutation.
From AG Require Import Base.Val Base.Sort Rule.Rule Rule.Traversal Front.JsonPrint.
Import ListNotations.

(* however the documents are grouped into buffers (empty buffers included), the output is the
   framing of the concatenated documents: a JSON array for pretty/compact, one document per line
   for stream; serialised documents are never empty *)
Definition C16_framing_stmt : Prop :=
  forall st buffers,
    (forall b d, In b buffers -> In d b -> d <> []) ->
    run_printer st buffers = framed st (concat buffers).

(* the number of documents printed is the total number of documents received *)
Definition C16_framing_count_stmt : Prop :=
  forall st buffers, (forall b d, In b buffers -> In d b -> d <> []) ->
    exists docs, run_printer st buffers = framed st docs /\ length docs = length (concat buffers).

(* C17: whatever order the buffers arrive in, the printed documents are the same multiset *)
Definition C17_order_insensitive_stmt : Prop :=
  forall st buffers buffers',
    Permutation buffers buffers' ->
    (forall b d, In b buffers -> In d b -> d <> []) ->
    exists docs docs', run_printer st buffers = framed st docs /\ run_printer st buffers' = framed st docs' /\
                       Permutation docs docs'.

(* `lines` is the whole lines from `before` lines above the line where the match starts to `after`
   lines below the line where it ends (clipped at the text's ends), without the final newline;
   the reported first line is the match's start line minus the lines actually shown above it *)
Definition C16_lines_stmt : Prop :=
  forall src s e before after,
    s <= e -> e <= length src ->
    let d := display_context src s e before after in
    dc_lead d = lines_lo src s before /\ dc_trail d = lines_hi src e after /\
    dc_lead d <= s /\ e <= dc_trail d /\ dc_trail d <= length src /\
    (* leading starts at a line start, trailing ends at a line end *)
    (dc_lead d = 0 \/ nth_error src (dc_lead d - 1) = Some NL) /\
    (dc_trail d = length src \/ nth_error src (dc_trail d) = Some NL) /\
    (* number of newlines in the leading text = lines shown above = offset *)
    N.to_nat (count_nl (firstn (s - dc_lead d) (skipn (dc_lead d) src))) = dc_offset d /\
    dc_offset d <= before.
