(* C17 — statements (proved in Front/WorkerProofs.v). *)
From Coq Require Import List NArith ZArith Bool Arith Permutation.
From AG Require Import Base.Val Front.JsonPrint Front.Worker.
Import ListNotations.

(* any interleaving is a permutation of all the buffers: nothing lost, nothing duplicated *)
Definition C17_interleave_perm_stmt : Prop :=
  forall (A : Type) (ls : list (list A)) (out : list A), interleave ls out -> Permutation out (concat ls).

(* whatever the schedule, the printed output is the well-formed framing of a permutation of the
   union over files of the documents obtained by processing each file alone *)
Definition C17_union_stmt : Prop :=
  forall st (files : list (list (list str))) (received : list (list str)),
    (forall f b d, In f files -> In b f -> In d b -> d <> []) ->
    interleave files received ->
    exists docs, run_printer st received = framed st docs /\
                 Permutation docs (concat (map file_docs files)).

(* making a file unprocessable removes exactly its documents and nothing else *)
Definition C17_skip_stmt : Prop :=
  forall (files : list (list (list str))) i,
    i < length files ->
    exists pre f post, files = pre ++ f :: post /\ length pre = i /\
      concat (map file_docs (skip_file i files)) = concat (map file_docs pre) ++ concat (map file_docs post).
