(* C12 / C13 (transformation pass) — proofs of the statements of Apply.v.
   A source parsed as a single capture is spelled `$N` or `$$N`; Transformation::used_vars names N in
   both spellings, so the order computed by the loader is the order the pass needs. *)
From Coq Require Import List NArith ZArith Bool Arith Lia.
From AG Require Import Base.Val Base.Sort Str.MetaVar Tree.Tree Match.MatchNode Rule.Rule Rule.Kinds
  Rewrite.Template Front.Load Front.LoadSpec Front.LoadProofs Front.Apply.
Import ListNotations.

(* ---------- lists without duplicates, [before] ---------- *)
Lemma nodup_split_unique : forall (a : str) l1 l2 m1 m2,
  NoDup (l1 ++ a :: l2) -> l1 ++ a :: l2 = m1 ++ a :: m2 -> l1 = m1 /\ l2 = m2.
Proof.
  intros a. induction l1 as [|x l1 IH]; intros l2 m1 m2 Hnd Heq.
  - destruct m1 as [|y m1]; cbn in Heq.
    + injection Heq as Heq. split; [reflexivity|exact Heq].
    + injection Heq as Hy Heq. subst y. cbn in Hnd. inversion Hnd as [|? ? Hni _]; subst.
      exfalso. apply Hni. apply in_elt.
  - destruct m1 as [|y m1]; cbn in Heq.
    + injection Heq as Hx Heq. subst x. cbn in Hnd. inversion Hnd as [|? ? Hni _]; subst.
      exfalso. apply Hni. apply in_elt.
    + injection Heq as Hx Heq. subst y. cbn in Hnd. inversion Hnd as [|? ? _ Hnd']; subst.
      destruct (IH _ _ _ Hnd' Heq) as [H1 H2]. subst. split; reflexivity.
Qed.

Lemma before_irrefl : forall a l, NoDup l -> ~ before a a l.
Proof.
  intros a l Hnd (l1 & l2 & l3 & E). subst l. apply NoDup_remove_2 in Hnd. apply Hnd.
  apply in_or_app. right. apply in_elt.
Qed.

Lemma before_in_prefix : forall b a d r, NoDup (d ++ a :: r) -> before b a (d ++ a :: r) -> In b d.
Proof.
  intros b a d r Hnd (l1 & l2 & l3 & E).
  assert (E' : d ++ a :: r = (l1 ++ b :: l2) ++ a :: l3).
  { rewrite E, <- app_assoc. reflexivity. }
  destruct (nodup_split_unique _ _ _ _ _ Hnd E') as [Hd _]. subst d. apply in_elt.
Qed.

Lemma before_not_after : forall K key d r, NoDup (d ++ K :: r) -> In key d -> ~ before K key (d ++ K :: r).
Proof.
  intros K key d r Hnd Hin Hb. apply in_split in Hin. destruct Hin as (d1 & d2 & Ed). subst d.
  rewrite <- app_assoc in Hnd, Hb. cbn [app] in Hnd, Hb.
  pose proof (before_in_prefix _ _ _ _ Hnd Hb) as HK.
  apply in_split in HK. destruct HK as (x & y & Ex). subst d1.
  rewrite <- app_assoc in Hnd. cbn [app] in Hnd. apply NoDup_remove_2 in Hnd. apply Hnd.
  apply in_or_app. right. apply in_or_app. right. right. apply in_elt.
Qed.

Lemma upsert_keys : forall A (k : str) (v : A) l x,
  In x (map fst (upsert k v l)) <-> x = k \/ In x (map fst l).
Proof.
  intros A k v l x. induction l as [|[k' v'] r IHr]; cbn [upsert map fst In].
  - intuition.
  - destruct (str_eqb k k') eqn:E; cbn [map fst In].
    + apply lp_eqb_eq in E. subst k'. intuition.
    + rewrite IHr. intuition.
Qed.

Lemma lookup_none_notin : forall A (k : str) (l : list (str * A)), ~ In k (map fst l) -> lookup k l = None.
Proof.
  intros A k l H. destruct (lookup k l) as [v|] eqn:E; [|reflexivity].
  exfalso. apply H. eapply lp_lookup_some_key. exact E.
Qed.

(* ---------- the shape of a source that is a single capture ---------- *)
Lemma capture_source : forall s n b,
  extract_meta_var DOLLAR_C s = Some (Capture n b) ->
  strip_prefix [36;36;36]%N s = None
  /\ ((b = true /\ s = 36%N :: n /\ strip_prefix [36;36]%N s = None)
      \/ (b = false /\ s = 36%N :: 36%N :: n)).
Proof.
  intros s n b H. unfold extract_meta_var, DOLLAR_C in H.
  destruct (strip_prefix [36;36;36]%N s) as [tr|] eqn:E3.
  - exfalso. destruct tr as [|c tr]; [discriminate|].
    destruct (negb (forallb is_mv_char (c :: tr))); [discriminate|].
    destruct (starts_with_c UNDERSCORE (c :: tr)); discriminate.
  - split; [reflexivity|].
    destruct s as [|c t1]; [discriminate|].
    destruct (N.eqb c 36) eqn:Ec; cbn [negb] in H; [|discriminate].
    apply N.eqb_eq in Ec. subst c.
    destruct t1 as [|c2 t2].
    + cbn in H. discriminate.
    + destruct (N.eqb c2 36) eqn:Ec2.
      * apply N.eqb_eq in Ec2. subst c2. right.
        destruct (negb (starts_with_first t2) || negb (forallb is_mv_char t2)); [discriminate|].
        destruct (starts_with_c UNDERSCORE t2); [discriminate|].
        injection H as H1 H2. subst. split; reflexivity.
      * left.
        destruct (negb (starts_with_first (c2 :: t2)) || negb (forallb is_mv_char (c2 :: t2))); [discriminate|].
        destruct (starts_with_c UNDERSCORE (c2 :: t2)); [discriminate|].
        injection H as H1 H2. subst. split; [reflexivity|]. split; [reflexivity|].
        cbn [strip_prefix]. rewrite N.eqb_refl.
        rewrite N.eqb_sym. rewrite Ec2. reflexivity.
Qed.

Lemma capture_used_var : forall t n b,
  source_var t = Some (Capture n b) -> tf_used_var t = n.
Proof.
  intros t n b H. unfold source_var in H. apply capture_source in H.
  destruct H as [H3 [(_ & Hs & H2)|(_ & Hs)]]; unfold tf_used_var; rewrite H3.
  - rewrite H2, Hs. cbn [strip_prefix]. rewrite N.eqb_refl. reflexivity.
  - rewrite Hs. cbn [strip_prefix]. rewrite N.eqb_refl. reflexivity.
Qed.

(* what the pass needs from the order: a source that is a transformation is applied before its reader *)
Definition reads_ok (ts : list (str * transf)) (ord : list str) : Prop :=
  forall key t n b, lookup key ts = Some t -> source_var t = Some (Capture n b) ->
    In n (map fst ts) -> before n key ord.

Lemma reads_ok_of_order : forall ts ord,
  (forall key t, lookup key ts = Some t -> In (tf_used_var t) (map fst ts) -> before (tf_used_var t) key ord) ->
  reads_ok ts ord.
Proof.
  intros ts ord Hord key t n b Hl Hs Hn.
  pose proof (capture_used_var t n b Hs) as Hu.
  rewrite <- Hu. apply Hord; [exact Hl|]. rewrite Hu. exact Hn.
Qed.

Lemma var_bytes_ext : forall e e' mv,
  a_single e = a_single e' -> a_multi e = a_multi e' ->
  (forall n b, mv = Some (Capture n b) -> lookup n (a_single e) = None ->
     lookup n (a_trans e) = lookup n (a_trans e')) ->
  var_bytes e mv = var_bytes e' mv.
Proof.
  intros e e' mv Hs Hm Ht. unfold var_bytes.
  destruct mv as [[n b| | |n]|]; try reflexivity.
  - rewrite <- Hs. destruct (lookup n (a_single e)) eqn:E; [reflexivity|].
    eapply Ht; [reflexivity|exact E].
  - rewrite Hm. reflexivity.
Qed.

Section PassProofs.
  Variable compute : str -> transf -> option str -> str.

  Definition step (ts : list (str * transf)) (e : aenv) (key : str) : aenv :=
    match lookup key ts with Some t => apply_one compute e key t | None => e end.

  Definition solves (ts : list (str * transf)) (e0 f : aenv) : Prop :=
    (forall key t, lookup key ts = Some t ->
       lookup key (a_trans f) = Some (compute key t (var_bytes f (source_var t))))
    /\ (forall key, In key (map fst (a_trans f)) <-> In key (map fst ts))
    /\ a_single f = a_single e0 /\ a_multi f = a_multi e0.

  Lemma apply_inv : forall ts ord e0,
    NoDup ord -> (forall key, In key ord -> In key (map fst ts)) -> reads_ok ts ord ->
    forall rest done e, ord = done ++ rest ->
      a_single e = a_single e0 -> a_multi e = a_multi e0 ->
      (forall key, In key (map fst (a_trans e)) <-> In key done) ->
      (forall key t, In key done -> lookup key ts = Some t ->
         lookup key (a_trans e) = Some (compute key t (var_bytes e (source_var t)))) ->
      let f := fold_left (step ts) rest e in
      a_single f = a_single e0 /\ a_multi f = a_multi e0
      /\ (forall key, In key (map fst (a_trans f)) <-> In key ord)
      /\ (forall key t, In key ord -> lookup key ts = Some t ->
            lookup key (a_trans f) = Some (compute key t (var_bytes f (source_var t)))).
  Proof.
    intros ts ord e0 Hnd Hsub Hreads.
    induction rest as [|K r IH]; intros done e Hord Hs Hm Hkeys Hvals; cbn [fold_left].
    - rewrite app_nil_r in Hord. subst done. repeat split; try assumption; apply Hkeys.
    - assert (HKord : In K ord). { rewrite Hord. apply in_elt. }
      pose proof (Hsub K HKord) as HKts.
      destruct (lookup K ts) as [t|] eqn:ElK; [|exfalso; exact (lp_lookup_in_keys _ _ _ HKts ElK)].
      assert (Hstep : step ts e K = apply_one compute e K t). { unfold step. rewrite ElK. reflexivity. }
      rewrite Hstep.
      assert (Hord' : ord = (done ++ [K]) ++ r). { rewrite <- app_assoc. exact Hord. }
      rewrite Hord in Hnd.
      apply (IH (done ++ [K]) (apply_one compute e K t) Hord').
      + exact Hs.
      + exact Hm.
      + intros key. unfold apply_one, set_trans. cbn [a_trans].
        rewrite upsert_keys, upsert_keys, Hkeys, in_app_iff. cbn [In]. intuition.
      + intros key t' Hin Hl'.
        destruct (str_eqb key K) eqn:EkK.
        * apply lp_eqb_eq in EkK. subst key. rewrite ElK in Hl'. injection Hl' as Hl'. subst t'.
          unfold apply_one. cbn [set_trans a_trans]. rewrite lk_same.
          f_equal. f_equal. apply var_bytes_ext; [reflexivity|reflexivity|].
          intros n b Hsv Hnone. cbn [set_trans a_trans a_single] in *.
          destruct (str_eqb n K) eqn:EnK.
          -- exfalso. apply lp_eqb_eq in EnK. subst n.
             apply (before_irrefl K (done ++ K :: r) Hnd).
             rewrite <- Hord. eapply Hreads; eassumption.
          -- rewrite (lk_other _ K n _ _ EnK). rewrite (lk_other _ K n _ _ EnK).
             rewrite (lk_other _ K n _ _ EnK). reflexivity.
        * assert (Hd : In key done).
          { apply in_app_or in Hin. destruct Hin as [Hd|[Hd|[]]]; [exact Hd|].
            subst key. rewrite lp_eqb_refl in EkK. discriminate. }
          unfold apply_one. cbn [set_trans a_trans].
          rewrite (lk_other _ K key _ _ EkK). rewrite (lk_other _ K key _ _ EkK).
          rewrite (Hvals key t' Hd Hl'). f_equal. f_equal.
          apply var_bytes_ext; [reflexivity|reflexivity|].
          intros n b Hsv Hnone. cbn [set_trans a_trans a_single] in *.
          destruct (str_eqb n K) eqn:EnK.
          -- exfalso. apply lp_eqb_eq in EnK. subst n.
             apply (before_not_after K key done r Hnd Hd).
             rewrite <- Hord. eapply Hreads; eassumption.
          -- rewrite (lk_other _ K n _ _ EnK). rewrite (lk_other _ K n _ _ EnK). reflexivity.
  Qed.

  Lemma apply_all_step : forall ts ord e, apply_all compute ts ord e = fold_left (step ts) ord e.
  Proof. intros. reflexivity. Qed.

  (* the equations, for any order with the three properties *)
  Lemma apply_solves : forall ts ord e0,
    NoDup ord -> (forall key, In key ord <-> In key (map fst ts)) -> reads_ok ts ord ->
    a_trans e0 = [] ->
    solves ts e0 (apply_all compute ts ord e0).
  Proof.
    intros ts ord e0 Hnd Hkeys Hreads He0.
    rewrite apply_all_step.
    pose proof (apply_inv ts ord e0 Hnd (fun key H => proj1 (Hkeys key) H) Hreads ord [] e0
                  eq_refl eq_refl eq_refl) as H.
    cbv zeta in H.
    destruct H as (Hs & Hm & Hk & Hv).
    - intros key. rewrite He0. cbn. tauto.
    - intros key t [].
    - unfold solves. split; [|split; [|split]].
      + intros key t Hl. apply Hv; [|exact Hl]. apply Hkeys. eapply lp_lookup_some_key. exact Hl.
      + intros key. rewrite Hk. apply Hkeys.
      + exact Hs.
      + exact Hm.
  Qed.

  (* the equation system has one solution *)
  Lemma solves_unique : forall ts ord e0 f1 f2,
    NoDup ord -> (forall key, In key ord <-> In key (map fst ts)) -> reads_ok ts ord ->
    solves ts e0 f1 -> solves ts e0 f2 ->
    forall key, lookup key (a_trans f1) = lookup key (a_trans f2).
  Proof.
    intros ts ord e0 f1 f2 Hnd Hkeys Hreads (Hv1 & Hk1 & Hs1 & Hm1) (Hv2 & Hk2 & Hs2 & Hm2).
    assert (Hpre : forall rest done, ord = done ++ rest ->
              (forall key, In key done -> lookup key (a_trans f1) = lookup key (a_trans f2)) ->
              forall key, In key ord -> lookup key (a_trans f1) = lookup key (a_trans f2)).
    { induction rest as [|K r IH]; intros done Hord Hdone.
      - rewrite app_nil_r in Hord. subst done. exact Hdone.
      - apply (IH (done ++ [K])); [rewrite <- app_assoc; exact Hord|].
        intros key Hin. apply in_app_or in Hin. destruct Hin as [Hd|[Hd|[]]]; [apply Hdone; exact Hd|].
        subst key.
        assert (HKord : In K ord). { rewrite Hord. apply in_elt. }
        pose proof (proj1 (Hkeys K) HKord) as HKts.
        destruct (lookup K ts) as [t|] eqn:ElK; [|exfalso; exact (lp_lookup_in_keys _ _ _ HKts ElK)].
        rewrite (Hv1 K t ElK), (Hv2 K t ElK). f_equal. f_equal.
        apply var_bytes_ext; [congruence|congruence|].
        intros n b Hsv Hnone.
        destruct (lookup n ts) as [tn|] eqn:Eln.
        + apply Hdone. apply (before_in_prefix n K done r); [rewrite <- Hord; exact Hnd|].
          rewrite <- Hord. eapply Hreads; [exact ElK|exact Hsv|]. eapply lp_lookup_some_key. exact Eln.
        + assert (Hni : ~ In n (map fst ts)). { intros Hc. exact (lp_lookup_in_keys _ _ _ Hc Eln). }
          rewrite (lookup_none_notin _ n (a_trans f1)), (lookup_none_notin _ n (a_trans f2)); [reflexivity| |].
          * intros Hc. apply Hni. apply Hk2. exact Hc.
          * intros Hc. apply Hni. apply Hk1. exact Hc. }
    intros key.
    destruct (lookup key ts) as [t|] eqn:El.
    - apply (Hpre ord [] eq_refl); [intros k []|]. apply Hkeys. eapply lp_lookup_some_key. exact El.
    - assert (Hni : ~ In key (map fst ts)). { intros Hc. exact (lp_lookup_in_keys _ _ _ Hc El). }
      rewrite (lookup_none_notin _ key (a_trans f1)), (lookup_none_notin _ key (a_trans f2)); [reflexivity| |].
      + intros Hc. apply Hni. apply Hk2. exact Hc.
      + intros Hc. apply Hni. apply Hk1. exact Hc.
  Qed.

  Lemma load_core_tord : forall k globals upper uord tord ts,
    load_core k globals upper = LOk (uord, tord) -> k_trans k = Some ts ->
    NoDup tord
    /\ (forall key, In key tord <-> In key (map fst ts))
    /\ (forall key t, lookup key ts = Some t -> In (tf_used_var t) (map fst ts) ->
          before (tf_used_var t) key tord).
  Proof.
    intros k globals upper uord tord ts H Hts.
    pose proof (C12_core_accept _ _ _ _ _ H) as Hok.
    destruct Hok as (_ & _ & _ & _ & _ & _ & _ & _ & Hlast).
    destruct (Hlast ts Hts) as (_ & Hkeys & Hbef).
    split; [|split; assumption].
    unfold load_core in H.
    destruct (get_order (util_depmap (k_utils k))) as [uo|c|] eqn:Eu; try discriminate.
    destruct (transform_order k) as [to|e] eqn:Et; [|discriminate].
    destruct (check_utils_defined k globals) as [u1|e] eqn:Ec; [|discriminate].
    destruct (check_vars k upper) as [u2|e] eqn:Ev; [|discriminate].
    injection H as Huo Hto. subst uo to.
    destruct (transform_order_ok k tord Et ts Hts) as [Ho _].
    pose proof (C12_topo_sound _ _ Ho) as (_ & Hnd & _ & _). exact Hnd.
  Qed.

  Lemma C12_apply_equations_sec : C12_apply_equations_stmt compute.
  Proof.
    intros k globals upper uord tord ts e0 H Hts He0 final.
    destruct (load_core_tord _ _ _ _ _ _ H Hts) as (Hnd & Hkeys & Hbef).
    exact (apply_solves ts tord e0 Hnd Hkeys (reads_ok_of_order ts tord Hbef) He0).
  Qed.

  Lemma C13_apply_order_independent_sec : C13_apply_order_independent_stmt compute.
  Proof.
    intros ts o1 o2 e0 _ _ (Hnd1 & Hk1 & Hb1) (Hnd2 & Hk2 & Hb2) He0 _.
    pose proof (reads_ok_of_order ts o1 Hb1) as Hr1.
    pose proof (reads_ok_of_order ts o2 Hb2) as Hr2.
    apply (solves_unique ts o1 e0 _ _ Hnd1 Hk1 Hr1).
    - apply apply_solves; assumption.
    - apply apply_solves; assumption.
  Qed.
End PassProofs.

Lemma C12_apply_equations : forall compute, C12_apply_equations_stmt compute.
Proof. exact C12_apply_equations_sec. Qed.
Print Assumptions C12_apply_equations.

Lemma C13_apply_order_independent : forall compute, C13_apply_order_independent_stmt compute.
Proof. exact C13_apply_order_independent_sec. Qed.
Print Assumptions C13_apply_order_independent.
