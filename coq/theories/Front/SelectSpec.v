(* C15 — statements about rule selection (proved in Front/SelectProofs.v). *)
From Coq Require Import List NArith ZArith Bool Arith.
From AG Require Import Base.Val Base.Sort Gen.Tables Front.Select.
Import ListNotations.

(* a rule is applied to a file iff language, globs and effective severity say so — through the
   tenured/contingent split, whatever the order of the rules; the rule handed to the scan carries the
   effective severity *)
Definition C15_applies_stmt : Prop :=
  forall a rules f r,
    NoDup (map fr_id rules) -> In r rules ->
    ((exists r', In r' (rules_for_file a rules f) /\ fr_id r' = fr_id r) <-> applies a r f = true) /\
    (forall r', In r' (rules_for_file a rules f) -> fr_id r' = fr_id r ->
                fr_sev r' = eff_severity (overwrite_new a) (fr_id r) (fr_sev r) /\ fr_lang r' = fr_lang r).

(* nothing is applied twice *)
Definition C15_no_dup_stmt : Prop :=
  forall a rules f, NoDup (map fr_id rules) -> NoDup (map fr_id (rules_for_file a rules f)).

(* effective severity: per-id overrides beat the bare flags; among the flags the fixed order
   error < warning < info < hint < off decides (a later one wins) *)
Definition C15_severity_stmt : Prop :=
  forall a id yaml,
    let o := overwrite_new a in
    (forall s, slookup id (ow_by_id o) = Some s -> eff_severity o id yaml = s) /\
    (slookup id (ow_by_id o) = None -> ow_default o = None -> eff_severity o id yaml = yaml) /\
    (slookup id (ow_by_id o) = None -> forall s, ow_default o = Some s -> eff_severity o id yaml = s) /\
    (* which flag provides the default: the last bare flag in the fixed order *)
    ow_default o =
      (if match oa_off a with Some [] => true | _ => false end then Some SOff
       else if match oa_hint a with Some [] => true | _ => false end then Some SHint
       else if match oa_info a with Some [] => true | _ => false end then Some SInfo
       else if match oa_warning a with Some [] => true | _ => false end then Some SWarning
       else if match oa_error a with Some [] => true | _ => false end then Some SError
       else None).

(* the walker's type filter selects an extension iff language detection maps it to an active
   language: holds because no extension belongs to two languages in the table scraped from the
   source (a finite obligation re-proved against the code as it is) *)
Definition C15_extensions_unique_stmt : Prop := NoDup all_extensions.
Definition C15_walker_stmt : Prop :=
  forall langs ext,
    walker_selects langs ext = true <->
    exists l, from_extension ext = Some l /\ existsb (str_eqb l) langs = true.

(* exit status *)
Definition C15_exit_stmt : Prop :=
  forall findings, exit_nonzero findings = true <-> exists r, In r findings /\ fr_sev r = SError.
