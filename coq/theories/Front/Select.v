(* Model of rule selection: crates/cli/src/utils/rule_overwrite.rs (RuleOverwrite::new / find /
   process_configs, --filter), crates/config/src/rule_collection.rs (RuleCollection::try_new with
   tenured buckets per language and contingent rules; get_rule_from_lang; matches_path: ignores
   before files; for_path sorted by id), crates/language/src/lib.rs (from_extension over the
   generated extension table; the walker's type filter) and the scan's exit status.
   Globs (globset) and the --filter regex are oracles: the set of globs / ids they match. *)
From Coq Require Import List NArith ZArith Bool Arith.
From AG Require Import Base.Val Base.Sort Tree.Tree Gen.Tables.
Import ListNotations.

Inductive sev := SError | SWarning | SInfo | SHint | SOff.
Definition sev_eqb (a b : sev) : bool :=
  match a, b with
  | SError, SError | SWarning, SWarning | SInfo, SInfo | SHint, SHint | SOff, SOff => true
  | _, _ => false
  end.

Fixpoint slookup {A} (k : str) (l : list (str * A)) : option A :=
  match l with [] => None | (k', v) :: r => if str_eqb k k' then Some v else slookup k r end.
Fixpoint sinsert {A} (k : str) (v : A) (l : list (str * A)) : list (str * A) :=
  match l with
  | [] => [(k, v)]
  | (k', v') :: r => if str_eqb k k' then (k, v) :: r else (k', v') :: sinsert k v r
  end.

(* ---- command-line overrides ---- *)
Record overwrite_args := {
  oa_error : option (list str); oa_warning : option (list str); oa_info : option (list str);
  oa_hint : option (list str); oa_off : option (list str);
  oa_filter : option (list str)           (* oracle: the rule ids the --filter regex matches *)
}.
Record overwrite := { ow_default : option sev; ow_by_id : list (str * sev) }.

(* read_severity *)
Definition read_severity (s : sev) (ids : option (list str)) (o : overwrite) : overwrite :=
  match ids with
  | None => o
  | Some [] => {| ow_default := Some s; ow_by_id := ow_by_id o |}
  | Some l => {| ow_default := ow_default o; ow_by_id := fold_left (fun m id => sinsert id s m) l (ow_by_id o) |}
  end.
(* RuleOverwrite::new: fixed order error, warning, info, hint, off *)
Definition overwrite_new (a : overwrite_args) : overwrite :=
  read_severity SOff (oa_off a)
    (read_severity SHint (oa_hint a)
       (read_severity SInfo (oa_info a)
          (read_severity SWarning (oa_warning a)
             (read_severity SError (oa_error a) {| ow_default := None; ow_by_id := [] |})))).
(* RuleOverwrite::find + OverwriteResult::overwrite *)
Definition eff_severity (o : overwrite) (id : str) (yaml : sev) : sev :=
  match slookup id (ow_by_id o) with
  | Some s => s
  | None => match ow_default o with Some s => s | None => yaml end
  end.

(* ---- rules and files ---- *)
Record frule := {
  fr_id : str; fr_lang : N; fr_sev : sev;
  fr_files : option (list N); fr_ignores : option (list N)       (* glob ids *)
}.
(* process_configs: --filter first, then the severity override *)
Definition process_configs (a : overwrite_args) (rules : list frule) : list frule :=
  let o := overwrite_new a in
  let kept := match oa_filter a with
              | None => rules
              | Some ids => filter (fun r => existsb (str_eqb (fr_id r)) ids) rules
              end in
  map (fun r => {| fr_id := fr_id r; fr_lang := fr_lang r; fr_sev := eff_severity o (fr_id r) (fr_sev r);
                   fr_files := fr_files r; fr_ignores := fr_ignores r |}) kept.

(* RuleCollection *)
Record collection := { co_tenured : list (N * list frule); co_contingent : list frule }.
Fixpoint add_tenured (t : list (N * list frule)) (r : frule) : list (N * list frule) :=
  match t with
  | [] => [(fr_lang r, [r])]
  | (l, rs) :: rest => if N.eqb l (fr_lang r) then (l, rs ++ [r]) :: rest else (l, rs) :: add_tenured rest r
  end.
Definition try_new (rules : list frule) : collection :=
  fold_left (fun c r =>
               if sev_eqb (fr_sev r) SOff then c
               else match fr_files r, fr_ignores r with
                    | None, None => {| co_tenured := add_tenured (co_tenured c) r; co_contingent := co_contingent c |}
                    | _, _ => {| co_tenured := co_tenured c; co_contingent := co_contingent c ++ [r] |}
                    end) rules {| co_tenured := []; co_contingent := [] |}.

(* a file: its language (by extension or language globs) and the globs that match its path *)
Record ffile := { ff_lang : option N; ff_globs : list N }.
Definition glob_set_match (gs : list N) (f : ffile) : bool := existsb (fun g => existsb (N.eqb g) (ff_globs f)) gs.
(* ContingentRule::matches_path *)
Definition matches_path (r : frule) (f : ffile) : bool :=
  if match fr_ignores r with Some ig => glob_set_match ig f | None => false end then false
  else match fr_files r with Some fs => glob_set_match fs f | None => true end.
Fixpoint tenured_for (t : list (N * list frule)) (lang : N) : list frule :=
  match t with [] => [] | (l, rs) :: rest => if N.eqb l lang then rs else tenured_for rest lang end.
Definition get_rule_from_lang (c : collection) (f : ffile) (lang : N) : list frule :=
  tenured_for (co_tenured c) lang ++
  filter (fun r => N.eqb (fr_lang r) lang && matches_path r f) (co_contingent c).
Fixpoint insert_by_id (r : frule) (l : list frule) : list frule :=
  match l with [] => [r] | x :: t => if str_leb (fr_id r) (fr_id x) then r :: l else x :: insert_by_id r t end.
Definition for_path (c : collection) (f : ffile) : list frule :=
  match ff_lang f with
  | None => []
  | Some lang => fold_right insert_by_id [] (get_rule_from_lang c f lang)
  end.

(* the whole pipeline for one file *)
Definition rules_for_file (a : overwrite_args) (rules : list frule) (f : ffile) : list frule :=
  for_path (try_new (process_configs a rules)) f.

(* ---- the specification, from the property text ---- *)
Definition selected (a : overwrite_args) (r : frule) : bool :=
  match oa_filter a with None => true | Some ids => existsb (str_eqb (fr_id r)) ids end.
Definition applies (a : overwrite_args) (r : frule) (f : ffile) : bool :=
  selected a r &&
  negb (sev_eqb (eff_severity (overwrite_new a) (fr_id r) (fr_sev r)) SOff) &&
  match ff_lang f with Some l => N.eqb l (fr_lang r) | None => false end &&
  match fr_files r with Some fs => glob_set_match fs f | None => true end &&
  negb (match fr_ignores r with Some ig => glob_set_match ig f | None => false end).

(* exit status: non-zero iff some (unsuppressed) finding belongs to a rule of effective severity error *)
Definition exit_nonzero (findings : list frule) : bool := existsb (fun r => sev_eqb (fr_sev r) SError) findings.

(* ---- SgLang::from_path: the language configured by languageGlobs for the path, else a custom language
        registered for its extension, else the builtin extension table ---- *)
Definition from_path (glob_lang custom_lang builtin_lang : option N) : option N :=
  match glob_lang with
  | Some l => Some l
  | None => match custom_lang with Some l => Some l | None => builtin_lang end
  end.

(* lang_globs::register registers the configured entries in name order (fix 86ecb80: the YAML map arrives as a
   HashMap) and lang_globs::from_path answers with the first registered language one of whose globs matches
   the path.  Globs are oracle tables as for files/ignores: an entry is (name, (language, glob ids)). *)
Definition registered (regs : list (str * (N * list N))) : list (str * (N * list N)) := sort_kv regs.
Definition lang_globs_from_path (regs : list (str * (N * list N))) (f : ffile) : option N :=
  match find (fun e => glob_set_match (snd (snd e)) f) (registered regs) with
  | Some e => Some (fst (snd e))
  | None => None
  end.

(* ---- language detection over the generated extension table ---- *)
Fixpoint from_extension_in (tbl : list (list N * list (list N))) (ext : list N) : option (list N) :=
  match tbl with
  | [] => None
  | (lang, exts) :: r => if existsb (str_eqb ext) exts then Some lang else from_extension_in r ext
  end.
Definition from_extension (ext : list N) : option (list N) := from_extension_in extension_table ext.
(* the walker's type filter for a set of active languages: *.ext for every extension of every language *)
Definition walker_selects (langs : list (list N)) (ext : list N) : bool :=
  existsb (fun p => existsb (str_eqb (fst p)) langs && existsb (str_eqb ext) (snd p)) extension_table.
Definition all_extensions : list (list N) := flat_map snd extension_table.
