(* C17 — proofs of the statements in Front/WorkerSpec.v. *)
From Coq Require Import List NArith ZArith Bool Arith Permutation Lia.
From AG Require Import Base.Val Front.JsonPrint Front.JsonPrintSpec Front.JsonPrintProofs
  Front.Worker Front.WorkerSpec.
Import ListNotations.

Lemma concat_all_nil (A : Type) (ls : list (list A)) :
  (forall l, In l ls -> l = []) -> concat ls = [].
Proof.
  induction ls as [|l r IH]; intros Hall; cbn [concat].
  - reflexivity.
  - rewrite (Hall l (or_introl eq_refl)). cbn [app].
    apply IH. intros l' Hl'. apply Hall. right. exact Hl'.
Qed.

Lemma C17_interleave_perm : C17_interleave_perm_stmt.
Proof.
  intros A ls out Hil.
  induction Hil as [ls Hall|pre x xs post out Hil IH].
  - rewrite (concat_all_nil A ls Hall). constructor.
  - rewrite concat_app. cbn [concat app].
    rewrite concat_app in IH. cbn [concat] in IH.
    apply Permutation_cons_app. exact IH.
Qed.
Print Assumptions C17_interleave_perm.

(* every element received was sent by some producer *)
Lemma interleave_in (A : Type) (ls : list (list A)) (out : list A) :
  interleave ls out -> forall b, In b out -> exists f, In f ls /\ In b f.
Proof.
  intros Hil.
  induction Hil as [ls Hall|pre x xs post out Hil IH]; intros b Hb.
  - destruct Hb.
  - destruct Hb as [Hb|Hb].
    + subst b. exists (x :: xs). split.
      * apply in_or_app. right. left. reflexivity.
      * left. reflexivity.
    + destruct (IH b Hb) as [f [Hf Hbf]].
      apply in_app_or in Hf. destruct Hf as [Hf|[Hf|Hf]].
      * exists f. split; [apply in_or_app; left; exact Hf|exact Hbf].
      * subst f. exists (x :: xs). split.
        -- apply in_or_app. right. left. reflexivity.
        -- right. exact Hbf.
      * exists f. split; [apply in_or_app; right; right; exact Hf|exact Hbf].
Qed.

Lemma concat_map_file_docs (files : list (list (list str))) :
  concat (map file_docs files) = concat (concat files).
Proof.
  induction files as [|f r IH]; cbn [map concat].
  - reflexivity.
  - rewrite concat_app. rewrite IH. reflexivity.
Qed.

Lemma C17_union : C17_union_stmt.
Proof.
  intros st files received Hne Hil.
  exists (concat received). split.
  - apply C16_framing. intros b d Hb Hd.
    destruct (interleave_in _ files received Hil b Hb) as [f [Hf Hbf]].
    exact (Hne f b d Hf Hbf Hd).
  - rewrite concat_map_file_docs.
    apply Permutation_concat_lists.
    apply C17_interleave_perm. exact Hil.
Qed.
Print Assumptions C17_union.

Lemma C17_skip : C17_skip_stmt.
Proof.
  intros files. induction files as [|l r IH]; intros i Hi.
  - cbn [length] in Hi. lia.
  - destruct i as [|k].
    + exists [], l, r. split; [reflexivity|]. split; [reflexivity|].
      cbn [skip_file map concat app]. unfold file_docs at 1. cbn [concat app]. reflexivity.
    + cbn [length] in Hi. assert (Hk : k < length r) by lia.
      destruct (IH k Hk) as [pre [f [post [Heq [Hlen Hc]]]]].
      exists (l :: pre), f, post. split; [|split].
      * rewrite Heq. reflexivity.
      * cbn [length]. rewrite Hlen. reflexivity.
      * cbn [skip_file map concat]. rewrite Hc. rewrite app_assoc. reflexivity.
Qed.
Print Assumptions C17_skip.
