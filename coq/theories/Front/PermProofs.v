(* C13 — proofs of the statements of Front/PermSpec.v: the modelled results do not depend on the
   order in which rules / captured variables / transformation keys are presented. *)
From Coq Require Import List NArith ZArith Bool Arith Lia Permutation.
From AG Require Import Base.Val Base.Sort Tree.Tree Rule.Rule Rule.Traversal Rule.Scan
  Front.Select Front.SelectSpec Front.SelectProofs Front.PermSpec.
Import ListNotations.

(* ---------- the order on byte strings ---------- *)
Lemma str_leb_cons : forall x a y b,
  str_leb (x :: a) (y :: b) = true <-> (x < y)%N \/ (x = y /\ str_leb a b = true).
Proof.
  intros x a y b. cbn [str_leb].
  destruct (N.ltb_spec x y) as [Hlt|Hge].
  - split; [intros _; left; exact Hlt | intros _; reflexivity].
  - destruct (N.eqb_spec x y) as [He|Hne].
    + split.
      * intros H. right. split; assumption.
      * intros [H|[_ H]]; [lia | exact H].
    + split; [discriminate|].
      intros [H|[H _]]; [lia | contradiction].
Qed.

Lemma str_leb_nil_r : forall a, str_leb a [] = true -> a = [].
Proof. intros [|x a] H; [reflexivity | cbn in H; discriminate]. Qed.

Lemma str_leb_total : forall a b, str_leb a b = true \/ str_leb b a = true.
Proof.
  induction a as [|x a IH]; intros b.
  - left. reflexivity.
  - destruct b as [|y b]; [right; reflexivity|].
    rewrite !str_leb_cons.
    destruct (N.lt_trichotomy x y) as [H|[H|H]].
    + left. left. exact H.
    + subst y. destruct (IH b) as [H|H].
      * left. right. split; [reflexivity | exact H].
      * right. right. split; [reflexivity | exact H].
    + right. left. exact H.
Qed.

Lemma str_leb_antisym : forall a b, str_leb a b = true -> str_leb b a = true -> a = b.
Proof.
  induction a as [|x a IH]; intros b H1 H2.
  - symmetry. apply str_leb_nil_r. exact H2.
  - destruct b as [|y b]; [cbn in H1; discriminate|].
    apply str_leb_cons in H1. apply str_leb_cons in H2.
    destruct H1 as [H1|[E1 H1]]; destruct H2 as [H2|[E2 H2]]; try lia.
    subst y. f_equal. apply IH; assumption.
Qed.

Lemma str_leb_trans : forall a b c, str_leb a b = true -> str_leb b c = true -> str_leb a c = true.
Proof.
  induction a as [|x a IH]; intros b c H1 H2.
  - reflexivity.
  - destruct b as [|y b]; [cbn in H1; discriminate|].
    destruct c as [|z c]; [cbn in H2; discriminate|].
    apply str_leb_cons in H1. apply str_leb_cons in H2. apply str_leb_cons.
    destruct H1 as [H1|[E1 H1]]; destruct H2 as [H2|[E2 H2]].
    + left. lia.
    + left. lia.
    + left. lia.
    + right. split; [congruence|]. eapply IH; eassumption.
Qed.

(* ---------- generic insertion sort: sorted permutations are unique ---------- *)
Section InsSort.
  Variable A : Type.
  Variable leb : A -> A -> bool.
  Hypothesis leb_total : forall a b, leb a b = true \/ leb b a = true.
  Hypothesis leb_trans : forall a b c, leb a b = true -> leb b c = true -> leb a c = true.

  Fixpoint ins (x : A) (l : list A) : list A :=
    match l with
    | [] => [x]
    | y :: t => if leb x y then x :: l else y :: ins x t
    end.
  Definition isort (l : list A) : list A := fold_right ins [] l.

  Fixpoint ssorted (l : list A) : Prop :=
    match l with
    | [] => True
    | x :: t => (forall y, In y t -> leb x y = true) /\ ssorted t
    end.

  Lemma ins_perm : forall x l, Permutation (ins x l) (x :: l).
  Proof.
    intros x l. induction l as [|y t IH]; cbn [ins].
    - apply Permutation_refl.
    - destruct (leb x y).
      + apply Permutation_refl.
      + eapply Permutation_trans; [apply perm_skip; exact IH | apply perm_swap].
  Qed.

  Lemma isort_perm : forall l, Permutation (isort l) l.
  Proof.
    induction l as [|x l IH]; cbn [isort fold_right].
    - apply perm_nil.
    - eapply Permutation_trans; [apply ins_perm | apply perm_skip; exact IH].
  Qed.

  Lemma ins_sorted : forall x l, ssorted l -> ssorted (ins x l).
  Proof.
    intros x l. induction l as [|y t IH]; intros Hs; cbn [ins].
    - cbn. split; [intros z [] | exact I].
    - destruct Hs as [Hy Ht]. destruct (leb x y) eqn:E.
      + cbn [ssorted]. split; [|split; assumption].
        intros z [Hz|Hz].
        * subst z. exact E.
        * apply (leb_trans x y z E). apply Hy. exact Hz.
      + cbn [ssorted]. split; [|apply IH; exact Ht].
        intros z Hz. apply (Permutation_in _ (ins_perm x t)) in Hz.
        destruct Hz as [Hz|Hz].
        * subst z. destruct (leb_total x y) as [H|H]; [rewrite H in E; discriminate | exact H].
        * apply Hy. exact Hz.
  Qed.

  Lemma isort_sorted : forall l, ssorted (isort l).
  Proof.
    induction l as [|x l IH]; cbn [isort fold_right].
    - exact I.
    - apply ins_sorted. exact IH.
  Qed.

  Lemma sorted_unique : forall l1 l2,
    ssorted l1 -> ssorted l2 -> Permutation l1 l2 ->
    (forall a b, In a l1 -> In b l1 -> leb a b = true -> leb b a = true -> a = b) ->
    l1 = l2.
  Proof.
    induction l1 as [|x l1 IH]; intros l2 Hs1 Hs2 Hp Hanti.
    - apply Permutation_nil in Hp. subst. reflexivity.
    - destruct l2 as [|y l2].
      + apply Permutation_sym in Hp. apply Permutation_nil in Hp. discriminate.
      + destruct Hs1 as [Hx Hs1]. destruct Hs2 as [Hy Hs2].
        assert (Hxy : x = y).
        { assert (Hin1 : In x (y :: l2)) by (apply (Permutation_in _ Hp); left; reflexivity).
          assert (Hin2 : In y (x :: l1))
            by (apply (Permutation_in _ (Permutation_sym Hp)); left; reflexivity).
          destruct Hin1 as [Hin1|Hin1]; [symmetry; exact Hin1|].
          destruct Hin2 as [Hin2|Hin2]; [exact Hin2|].
          apply Hanti.
          - left. reflexivity.
          - right. exact Hin2.
          - apply Hx. exact Hin2.
          - apply Hy. exact Hin1. }
        subst y. f_equal. apply Permutation_cons_inv in Hp.
        apply IH; try assumption.
        intros a b Ha Hb. apply Hanti; right; assumption.
  Qed.

  Lemma isort_perm_eq : forall l l',
    Permutation l l' ->
    (forall a b, In a l -> In b l -> leb a b = true -> leb b a = true -> a = b) ->
    isort l = isort l'.
  Proof.
    intros l l' Hp Hanti. apply sorted_unique.
    - apply isort_sorted.
    - apply isort_sorted.
    - eapply Permutation_trans; [apply isort_perm|].
      eapply Permutation_trans; [exact Hp|]. apply Permutation_sym. apply isort_perm.
    - intros a b Ha Hb. apply Hanti.
      + apply (Permutation_in _ (isort_perm l)). exact Ha.
      + apply (Permutation_in _ (isort_perm l)). exact Hb.
  Qed.
End InsSort.

Lemma nodup_key_inj : forall (A K : Type) (g : A -> K) (l : list A) a b,
  NoDup (map g l) -> In a l -> In b l -> g a = g b -> a = b.
Proof.
  intros A K g l. induction l as [|x l IH]; cbn; intros a b Hnd Ha Hb Heq.
  - contradiction.
  - inversion Hnd as [|y ys Hnotin Hnd']; subst.
    destruct Ha as [Ha|Ha]; destruct Hb as [Hb|Hb].
    + congruence.
    + subst x. exfalso. apply Hnotin. rewrite Heq. apply in_map. exact Hb.
    + subst x. exfalso. apply Hnotin. rewrite <- Heq. apply in_map. exact Ha.
    + apply IH; assumption.
Qed.

(* ---------- C13_sort_kv_perm ---------- *)
Definition kv_leb {A : Type} (p q : str * A) : bool := str_leb (fst p) (fst q).

Lemma kv_leb_total : forall A (a b : str * A), kv_leb a b = true \/ kv_leb b a = true.
Proof. intros A a b. unfold kv_leb. apply str_leb_total. Qed.

Lemma kv_leb_trans : forall A (a b c : str * A),
  kv_leb a b = true -> kv_leb b c = true -> kv_leb a c = true.
Proof. intros A a b c. unfold kv_leb. apply str_leb_trans. Qed.

Lemma insert_kv_ins : forall A (p : str * A) l, insert_kv (fst p) (snd p) l = ins _ kv_leb p l.
Proof.
  intros A [k v] l. cbn [fst snd]. induction l as [|[k' v'] t IH]; cbn [insert_kv ins].
  - reflexivity.
  - unfold kv_leb at 1. cbn [fst]. destruct (str_leb k k'); [reflexivity|].
    rewrite IH. reflexivity.
Qed.

Lemma sort_kv_isort : forall A (l : list (str * A)), sort_kv l = isort _ kv_leb l.
Proof.
  intros A l. unfold sort_kv, isort. induction l as [|p l IH]; cbn [fold_right].
  - reflexivity.
  - rewrite IH. apply insert_kv_ins.
Qed.

Lemma C13_sort_kv_perm : C13_sort_kv_perm_stmt.
Proof.
  unfold C13_sort_kv_perm_stmt. intros A l l' Hp Hnd.
  rewrite !sort_kv_isort.
  apply isort_perm_eq.
  - apply kv_leb_total.
  - apply kv_leb_trans.
  - exact Hp.
  - intros a b Ha Hb H1 H2. apply (nodup_key_inj _ _ fst l a b Hnd Ha Hb).
    apply str_leb_antisym; assumption.
Qed.
Print Assumptions C13_sort_kv_perm.

(* ---------- C13_sort_rules_perm / C13_scan_perm ---------- *)
Lemma rule_leb_total : forall a b, rule_leb a b = true \/ rule_leb b a = true.
Proof.
  intros a b. unfold rule_leb.
  destruct (sr_fix a); destruct (sr_fix b); try (apply str_leb_total).
  - right. reflexivity.
  - left. reflexivity.
Qed.

Lemma rule_leb_trans : forall a b c,
  rule_leb a b = true -> rule_leb b c = true -> rule_leb a c = true.
Proof.
  intros a b c. unfold rule_leb.
  destruct (sr_fix a); destruct (sr_fix b); destruct (sr_fix c); intros H1 H2;
    try discriminate; try reflexivity; eapply str_leb_trans; eassumption.
Qed.

Lemma rule_leb_antisym_id : forall a b,
  rule_leb a b = true -> rule_leb b a = true -> sr_id a = sr_id b.
Proof.
  intros a b. unfold rule_leb.
  destruct (sr_fix a); destruct (sr_fix b); intros H1 H2; try discriminate;
    apply str_leb_antisym; assumption.
Qed.

Lemma insert_rule_ins : forall r l, insert_rule r l = ins _ rule_leb r l.
Proof.
  intros r l. induction l as [|x t IH]; cbn [insert_rule ins].
  - reflexivity.
  - destruct (rule_leb r x); [reflexivity|]. rewrite IH. reflexivity.
Qed.

Lemma sort_rules_isort : forall l, sort_rules l = isort _ rule_leb l.
Proof.
  intros l. unfold sort_rules, isort. induction l as [|r l IH]; cbn [fold_right].
  - reflexivity.
  - rewrite IH. apply insert_rule_ins.
Qed.

Lemma C13_sort_rules_perm : C13_sort_rules_perm_stmt.
Proof.
  unfold C13_sort_rules_perm_stmt. intros rules rules' Hp Hnd.
  rewrite !sort_rules_isort.
  apply isort_perm_eq.
  - apply rule_leb_total.
  - apply rule_leb_trans.
  - exact Hp.
  - intros a b Ha Hb H1 H2. apply (nodup_key_inj _ _ sr_id rules a b Hnd Ha Hb).
    apply rule_leb_antisym_id; assumption.
Qed.
Print Assumptions C13_sort_rules_perm.

Lemma C13_scan_perm : C13_scan_perm_stmt.
Proof.
  unfold C13_scan_perm_stmt. intros src root rules rules' Hp Hnd.
  unfold scan. rewrite (C13_sort_rules_perm rules rules' Hp Hnd). reflexivity.
Qed.
Print Assumptions C13_scan_perm.

(* ---------- C13_select_perm ---------- *)
Definition id_leb (a b : frule) : bool := str_leb (fr_id a) (fr_id b).

Lemma id_leb_total : forall a b, id_leb a b = true \/ id_leb b a = true.
Proof. intros a b. unfold id_leb. apply str_leb_total. Qed.

Lemma id_leb_trans : forall a b c, id_leb a b = true -> id_leb b c = true -> id_leb a c = true.
Proof. intros a b c. unfold id_leb. apply str_leb_trans. Qed.

Lemma insert_by_id_ins : forall r l, insert_by_id r l = ins _ id_leb r l.
Proof.
  intros r l. induction l as [|x t IH]; cbn [insert_by_id ins].
  - reflexivity.
  - unfold id_leb at 1. destruct (str_leb (fr_id r) (fr_id x)); [reflexivity|].
    rewrite IH. reflexivity.
Qed.

Lemma sort_by_id_isort : forall l, fold_right insert_by_id [] l = isort _ id_leb l.
Proof.
  intros l. unfold isort. induction l as [|r l IH]; cbn [fold_right].
  - reflexivity.
  - rewrite IH. apply insert_by_id_ins.
Qed.

Lemma rules_for_file_sorted : forall a rules f, ssorted _ id_leb (rules_for_file a rules f).
Proof.
  intros a rules f. unfold rules_for_file, for_path.
  destruct (ff_lang f) as [lang|]; [|exact I].
  rewrite sort_by_id_isort. apply isort_sorted.
  - apply id_leb_total.
  - apply id_leb_trans.
Qed.

Lemma in_process_perm : forall a rules rules' r,
  Permutation rules rules' -> In r (process_configs a rules) -> In r (process_configs a rules').
Proof.
  intros a rules rules' r Hp Hin. apply in_process in Hin. apply in_process.
  destruct Hin as [r0 [Hr0 H]]. exists r0. split; [|exact H].
  apply (Permutation_in _ Hp). exact Hr0.
Qed.

Lemma C13_select_perm : C13_select_perm_stmt.
Proof.
  unfold C13_select_perm_stmt. intros a rules rules' f Hp Hnd.
  assert (Hnd' : NoDup (map fr_id rules')).
  { eapply Permutation_NoDup; [apply Permutation_map; exact Hp | exact Hnd]. }
  assert (Hn1 := C15_no_dup a rules f Hnd).
  assert (Hn2 := C15_no_dup a rules' f Hnd').
  apply (sorted_unique _ id_leb).
  - apply rules_for_file_sorted.
  - apply rules_for_file_sorted.
  - apply NoDup_Permutation.
    + eapply NoDup_map_inv. exact Hn1.
    + eapply NoDup_map_inv. exact Hn2.
    + intros x. rewrite (in_rules_for_file a rules f x Hnd), (in_rules_for_file a rules' f x Hnd').
      split; intros [H1 [H2 H3]]; (split; [exact H1|]; split; [|exact H3]).
      * apply (in_process_perm a rules rules' x Hp H2).
      * apply (in_process_perm a rules' rules x (Permutation_sym Hp) H2).
  - intros x y Hx Hy H1 H2.
    apply (nodup_key_inj _ _ fr_id (rules_for_file a rules f) x y Hn1 Hx Hy).
    apply str_leb_antisym; assumption.
Qed.
Print Assumptions C13_select_perm.

(* ---------- C13_topo_confluence ---------- *)
Section TopoProofs.
  Variable V : Type.
  Variable deps : nat -> list nat.
  Variable compute : nat -> (nat -> option V) -> V.
  Hypothesis Hlocal : local V deps compute.

  Lemma admissible_done_fresh : forall o done,
    admissible deps done o -> forall x, In x done -> ~ In x o.
  Proof.
    induction o as [|k r IH]; intros done Ha x Hx Hin.
    - destruct Hin.
    - cbn [admissible] in Ha. destruct Ha as [Hk [_ Hr]].
      destruct Hin as [Hin|Hin].
      + subst x. contradiction.
      + apply (IH (k :: done) Hr x); [right; exact Hx | exact Hin].
  Qed.

  (* the final environment is a fixed point of [compute] on the keys of the order and is [e] elsewhere *)
  Lemma run_order_fix : forall o done e,
    admissible deps done o ->
    (forall x, ~ In x o -> run_order V compute o e x = e x) /\
    (forall k, In k o -> run_order V compute o e k = Some (compute k (run_order V compute o e))).
  Proof.
    induction o as [|k r IH]; intros done e Ha.
    - split; [intros x _; reflexivity | intros k []].
    - cbn [admissible] in Ha. destruct Ha as [Hk [Hd Hr]].
      assert (Hstep : run_order V compute (k :: r) e =
                      run_order V compute r (upd V e k (compute k e))) by reflexivity.
      rewrite Hstep.
      destruct (IH (k :: done) (upd V e k (compute k e)) Hr) as [IH1 IH2].
      assert (Hkr : ~ In k r).
      { apply (admissible_done_fresh r (k :: done) Hr). left. reflexivity. }
      split.
      + intros x Hx. rewrite IH1 by (intros H; apply Hx; right; exact H).
        unfold upd. destruct (Nat.eqb_spec x k) as [E|E]; [|reflexivity].
        exfalso. apply Hx. left. symmetry. exact E.
      + intros k' [Hk'|Hk'].
        * subst k'. rewrite (IH1 k Hkr). unfold upd at 1. rewrite Nat.eqb_refl.
          f_equal. apply Hlocal. intros d Hdd.
          assert (Hdone : In d done) by (apply Hd; exact Hdd).
          assert (Hdr : ~ In d r).
          { apply (admissible_done_fresh r (k :: done) Hr). right. exact Hdone. }
          rewrite (IH1 d Hdr). unfold upd.
          destruct (Nat.eqb_spec d k) as [E|E]; [|reflexivity].
          subst d. contradiction.
        * apply IH2. exact Hk'.
  Qed.

  (* two such fixed points agreeing on [done] agree on the keys of an admissible order *)
  Lemma fix_unique : forall o done (F1 F2 : nat -> option V),
    admissible deps done o ->
    (forall d, In d done -> F1 d = F2 d) ->
    (forall k, In k o -> F1 k = Some (compute k F1)) ->
    (forall k, In k o -> F2 k = Some (compute k F2)) ->
    forall k, In k o -> F1 k = F2 k.
  Proof.
    induction o as [|k r IH]; intros done F1 F2 Ha Hdone H1 H2 x Hx.
    - destruct Hx.
    - cbn [admissible] in Ha. destruct Ha as [Hk [Hd Hr]].
      assert (Hkk : F1 k = F2 k).
      { rewrite (H1 k (or_introl eq_refl)), (H2 k (or_introl eq_refl)). f_equal.
        apply Hlocal. intros d Hdd. apply Hdone. apply Hd. exact Hdd. }
      destruct Hx as [Hx|Hx]; [subst x; exact Hkk|].
      apply (IH (k :: done) F1 F2 Hr); try assumption.
      + intros d [E|Hdn]; [subst d; exact Hkk | apply Hdone; exact Hdn].
      + intros k' Hk'. apply H1. right. exact Hk'.
      + intros k' Hk'. apply H2. right. exact Hk'.
  Qed.

  Lemma topo_confluence_aux :
    forall o1 o2 e, admissible deps [] o1 -> admissible deps [] o2 -> Permutation o1 o2 ->
      forall x, run_order V compute o1 e x = run_order V compute o2 e x.
  Proof.
    intros o1 o2 e Ha1 Ha2 Hp x.
    destruct (run_order_fix o1 [] e Ha1) as [A1 B1].
    destruct (run_order_fix o2 [] e Ha2) as [A2 B2].
    destruct (in_dec Nat.eq_dec x o1) as [Hin|Hnin].
    - apply (fix_unique o1 [] _ _ Ha1).
      + intros d [].
      + exact B1.
      + intros k Hk. apply B2. apply (Permutation_in _ Hp). exact Hk.
      + exact Hin.
    - rewrite (A1 x Hnin). symmetry. apply A2.
      intros H. apply Hnin. apply (Permutation_in _ (Permutation_sym Hp)). exact H.
  Qed.
End TopoProofs.

Lemma C13_topo_confluence : forall V deps compute, C13_topo_confluence_stmt V deps compute.
Proof.
  intros V deps compute. unfold C13_topo_confluence_stmt.
  intros Hlocal o1 o2 e Ha1 Ha2 Hp _ x.
  apply (topo_confluence_aux V deps compute Hlocal o1 o2 e Ha1 Ha2 Hp).
Qed.
Print Assumptions C13_topo_confluence.
