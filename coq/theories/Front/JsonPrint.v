(* Model of crates/cli/src/print/json_print.rs (the printer automaton: before_print, process with
   its separator state, after_print, JSONProcessor::print_docs) over opaque, individually
   well-formed documents, and of Node::display_context (crates/core/src/node.rs) which produces
   the `lines` / `charCount` fields. *)
From Coq Require Import List NArith ZArith Bool Arith.
From AG Require Import Base.Val Base.Sort Rule.Rule Rule.Traversal.
Import ListNotations.

Inductive jstyle := Pretty | Stream | Compact.

Definition NL : N := 10.  Definition COMMA : N := 44.  Definition LBR : N := 91.  Definition RBR : N := 93.

(* JSONProcessor::print_docs: the documents of one file joined into a buffer *)
Definition doc_sep (st : jstyle) : str :=
  match st with Pretty => [COMMA; NL] | Stream => [NL] | Compact => [COMMA] end.
Fixpoint print_docs (st : jstyle) (docs : list str) : str :=
  match docs with
  | [] => []
  | [d] => d
  | d :: r => d ++ doc_sep st ++ print_docs st r
  end.

Record jprinter := { jp_matched : bool; jp_out : str }.

Definition before_print (st : jstyle) (p : jprinter) : jprinter :=
  match st with
  | Stream => p
  | _ => {| jp_matched := jp_matched p; jp_out := jp_out p ++ [LBR] |}
  end.

(* Printer::process on one buffer *)
Definition process (st : jstyle) (p : jprinter) (buf : str) : jprinter :=
  match buf with
  | [] => p
  | _ =>
      let pre :=
        if jp_matched p then doc_sep st
        else match st with Pretty => [NL] | _ => [] end in
      {| jp_matched := true; jp_out := jp_out p ++ pre ++ buf |}
  end.

Definition after_print (st : jstyle) (p : jprinter) : jprinter :=
  match st with
  | Stream => p
  | _ => {| jp_matched := jp_matched p;
            jp_out := jp_out p ++ (if jp_matched p then match st with Pretty => [NL] | _ => [] end else []) ++ [RBR; NL] |}
  end.

(* a whole run: the buffers arrive in the order the consumer receives them *)
Definition run_printer (st : jstyle) (buffers : list (list str)) : str :=
  jp_out (after_print st
            (fold_left (fun p docs => process st p (print_docs st docs)) buffers
                       (before_print st {| jp_matched := false; jp_out := [] |}))).

(* the specification: what the output must be for the documents d1 .. dk *)
Fixpoint join_with (sep : str) (docs : list str) : str :=
  match docs with
  | [] => []
  | [d] => d
  | d :: r => d ++ sep ++ join_with sep r
  end.
Definition framed (st : jstyle) (docs : list str) : str :=
  match st with
  | Stream => join_with [NL] docs
  | Compact => [LBR] ++ join_with [COMMA] docs ++ [RBR; NL]
  | Pretty => match docs with
              | [] => [LBR; RBR; NL]
              | _ => [LBR; NL] ++ join_with [COMMA; NL] docs ++ [NL; RBR; NL]
              end
  end.

(* ---------------------------------------------------------------- display_context *)
(* the backward loop: `leading` walks from `start` towards 0, counting newlines *)
Fixpoint lead_loop (rev_prefix : list N) (leading lines_before : nat) : nat * nat :=
  match rev_prefix with
  | [] => (leading, lines_before)
  | b :: r =>
      if N.eqb b NL then
        match lines_before with
        | 1 => (leading, 0)                       (* lines_before -= 1; == 0: break *)
        | _ => lead_loop r (leading - 1) (lines_before - 1)
        end
      else lead_loop r (leading - 1) lines_before
  end.
(* the forward loop: `trailing` walks from `end` towards the end of the text *)
Fixpoint trail_loop (suffix : list N) (trailing lines_after : nat) : nat :=
  match suffix with
  | [] => trailing
  | b :: r =>
      if N.eqb b NL then
        match lines_after with
        | 1 => trailing
        | _ => trail_loop r (S trailing) (lines_after - 1)
        end
      else trail_loop r (S trailing) lines_after
  end.

Record dctx := { dc_lead : nat; dc_trail : nat; dc_offset : nat }.
(* Node::display_context: (start of leading text, end of trailing text, how many lines above the match start line) *)
Definition display_context (src : str) (s e before after : nat) : dctx :=
  let '(leading, lb) := lead_loop (rev_append (firstn s src) []) s (S before) in
  let e' := Nat.min e (length src) in
  let trailing := trail_loop (skipn e' src) e' (S after) in
  {| dc_lead := leading; dc_trail := trailing;
     dc_offset := match lb with O => before | _ => S before - lb end |}.

(* the specification of `lines`: start of the line `k` lines above the line containing offset s *)
Fixpoint line_start_back (rev_prefix : list N) (pos : nat) (k : nat) : nat :=
  match rev_prefix with
  | [] => 0
  | b :: r => if N.eqb b NL then match k with O => pos | S k' => line_start_back r (pos - 1) k' end
              else line_start_back r (pos - 1) k
  end.
(* end (exclusive, before the newline) of the line `k` lines below the line containing offset e *)
Fixpoint line_end_fwd (suffix : list N) (pos : nat) (k : nat) : nat :=
  match suffix with
  | [] => pos
  | b :: r => if N.eqb b NL then match k with O => pos | S k' => line_end_fwd r (S pos) k' end
              else line_end_fwd r (S pos) k
  end.
Definition lines_lo (src : str) (s before : nat) : nat := line_start_back (rev_append (firstn s src) []) s before.
Definition lines_hi (src : str) (e after : nat) : nat :=
  let e' := Nat.min e (length src) in line_end_fwd (skipn e' src) e' after.
