(* Model of the producer/consumer hand-off of the CLI (crates/cli/src/utils/worker.rs: run_worker;
   scan.rs / run.rs produce_item): every eligible file yields a finite list of self-contained
   buffers — a function of the file and the configuration only; walker threads send them over ONE
   channel, each file's buffers in order; the single consumer receives ANY interleaving of the
   per-file sequences (for any number of threads and any assignment of files to threads) and feeds
   them to the printer.  A file whose produce_item fails (unreadable, empty, not UTF-8, oversized)
   contributes the empty list. *)
From Coq Require Import List NArith ZArith Bool Arith Permutation.
From AG Require Import Base.Val Front.JsonPrint.
Import ListNotations.

(* [interleave ls out]: out is an interleaving of the lists in ls, the order inside each list kept *)
Inductive interleave {A : Type} : list (list A) -> list A -> Prop :=
| il_done : forall ls, (forall l, In l ls -> l = []) -> interleave ls []
| il_step : forall pre x xs post out,
    interleave (pre ++ xs :: post) out -> interleave (pre ++ (x :: xs) :: post) (x :: out).

(* the documents of one file: its buffers, each a list of documents *)
Definition file_docs (buffers : list (list str)) : list str := concat buffers.

(* replace the i-th file by a file that cannot be processed *)
Fixpoint skip_file {A : Type} (i : nat) (ls : list (list A)) : list (list A) :=
  match ls, i with
  | [], _ => []
  | _ :: r, O => [] :: r
  | l :: r, S k => l :: skip_file k r
  end.
