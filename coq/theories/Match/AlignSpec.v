(* C03 — statements (proved in Match/AlignProofs.v, restated verbatim in Props/C03.v). *)
From Coq Require Import List NArith ZArith Bool Arith.
From AG Require Import Base.Val Base.Sort Str.MetaVar Tree.Tree Tree.Wf Match.MatchNode Match.Align.
Import ListNotations.

(* every match the matcher reports, at any fuel, from any environment, is justified by an alignment *)
Definition C03_sound_stmt : Prop :=
  forall fuel s src g c e a',
    run fuel s src (RNode g c) (AEnv e) = (ROne MatchedBoth, a') ->
    Aligned s src g c.

Definition C03_sound_pattern_stmt : Prop :=
  forall src p c e e',
    pattern_match src p c e = Matched e' ->
    Aligned (p_strict p) src (p_node p) c.

(* the length reported for the matched prefix never exceeds the node and never splits a child *)
Definition C03_len_stmt : Prop :=
  forall src p c n,
    wfb c = true ->
    match_len src p c = LenSome n ->
    (0 < n <= tend c - tstart c)%N /\ ends_at_descendant c (tstart c + n).
