(* C11: the step bound [match_fuel] of the pattern matcher is sufficient.
   [run] passes the same remaining fuel to every recursive call, so fuel bounds the DEPTH of the
   call tree.  [need] is a linear upper bound of that depth for every request form; the generic
   adequacy lemma is [run_enough_fuel]. *)
From Coq Require Import List NArith ZArith Bool Arith Lia.
From AG Require Import Base.Val Base.Sort Str.MetaVar Tree.Tree Match.MatchNode Front.LoadSpec.
Import ListNotations.

(* ---- sizes ---- *)
Lemma fp_psize_int : forall k gcs, psize (PInt k gcs) = S (psizel gcs).
Proof.
  intros k gcs. reflexivity.
Qed.

Lemma fp_size_eq : forall c, size c = S (sizel (children c)).
Proof.
  intros [i cs]. reflexivity.
Qed.

Lemma fp_psizel_cons : forall g gs, psizel (g :: gs) = psize g + psizel gs.
Proof. reflexivity. Qed.

Lemma fp_sizel_cons : forall c cs, sizel (c :: cs) = size c + sizel cs.
Proof. reflexivity. Qed.

Lemma fp_psize_pos : forall g, 1 <= psize g.
Proof. intros [m|t n k|k gcs]; cbn [psize]; lia. Qed.

Lemma fp_size_pos : forall c, 1 <= size c.
Proof. intros c. rewrite fp_size_eq. lia. Qed.

Lemma fp_skip_trivials_psizel : forall gs k, psizel (snd (skip_trivials gs k)) <= psizel gs.
Proof.
  induction gs as [|g r IHr]; intros k; cbn [skip_trivials].
  - cbn. lia.
  - destruct (is_trivial g).
    + specialize (IHr (S k)). rewrite fp_psizel_cons. lia.
    + cbn [snd]. lia.
Qed.

(* ---- the depth bound ---- *)
Definition need (r : req) : nat :=
  match r with
  | RNode g c => 2 * (psize g + size c) + 1
  | RList gs cs => 2 * (psizel gs + sizel cs) + 4
  | RLoop gs cs => 2 * (psizel gs + sizel cs) + 3
  | RLook _ _ _ gs cs => 2 * (psizel gs + sizel cs) + 3
  | RSkip gs cs => 2 * (psizel gs + sizel cs) + 2
  end.

(* with enough fuel the result has the shape the callers expect (which in particular is not RFuel):
   RNode answers with a [one], all the list requests with a boolean *)
Definition shape (r : req) (x : res) : Prop :=
  match r, x with
  | RNode _ _, ROne _ => True
  | RNode _ _, _ => False
  | _, ROk _ => True
  | _, _ => False
  end.

Lemma shape_fin : forall r o a, (match r with RNode _ _ => False | _ => True end) -> shape r (fst (fin o a)).
Proof. intros r o a Hr. destruct o; destruct r; cbn; tauto. Qed.

Ltac sizes :=
  repeat match goal with
  | H : context [psizel (_ :: _)] |- _ => rewrite fp_psizel_cons in H
  | H : context [sizel (_ :: _)] |- _ => rewrite fp_sizel_cons in H
  | |- context [psizel (_ :: _)] => rewrite fp_psizel_cons
  | |- context [sizel (_ :: _)] => rewrite fp_sizel_cons
  end.

Ltac pos :=
  repeat match goal with
  | g : pnode |- _ => lazymatch goal with
                      | _ : 1 <= psize g |- _ => fail
                      | _ => pose proof (fp_psize_pos g)
                      end
  | c : tree |- _ => lazymatch goal with
                     | _ : 1 <= size c |- _ => fail
                     | _ => pose proof (fp_size_pos c)
                     end
  end.

(* perform the recursive call [run f s src rq ag]: get its shape from the IH, name its result *)
Ltac call IH rq ag :=
  let H := fresh "Hsh" in
  match goal with
  | |- context [run ?f ?s ?src rq ag] =>
      assert (H : shape rq (fst (run f s src rq ag)))
        by (apply IH; cbn [need] in *; sizes; pos; lia);
      let r' := fresh "r" in let a' := fresh "a" in
      destruct (run f s src rq ag) as [r' a']; cbn [fst] in H;
      destruct r'; cbn [shape] in H; try contradiction
  end.

Lemma run_shape : forall f s src r a, need r <= f -> shape r (fst (run f s src r a)).
Proof.
  induction f as [|f IH]; intros s src r a Hn.
  - destruct r; cbn [need] in Hn; lia.
  - destruct r as [g c | gs cs | gs cs | name mr sk gs cs | gs cs]; cbn [run].
    + (* RNode *)
      destruct g as [mv | text nm k | k gcs].
      * destruct (agg_meta src a mv c); exact I.
      * destruct (st_match_terminal s src nm text k c); try exact I.
        destruct (agg_terminal a c); exact I.
      * destruct (kinds_matching k (kind c)); [|exact I].
        cbn [need] in Hn. rewrite fp_psize_int, (fp_size_eq c) in Hn.
        call IH (RList gcs (children c)) a.
        destruct b; exact I.
    + (* RList *)
      destruct cs as [|c cs1]; [exact I|].
      call IH (RLoop gs (c :: cs1)) a. exact I.
    + (* RLoop *)
      destruct gs as [|g gs1]; [exact I|].
      destruct (ellipsis_mode g) as [nm|].
      * destruct gs1 as [|g1 gs1']; [apply shape_fin; exact I|].
        pose proof (fp_skip_trivials_psizel (g1 :: gs1') 0) as Hst.
        destruct (skip_trivials (g1 :: gs1') 0) as [skipped gs2]. cbn [snd] in Hst.
        destruct gs2 as [|g2 gs2']; [apply shape_fin; exact I|].
        destruct (ellipsis_mode g2).
        -- destruct cs as [|c cs1]; [exact I|].
           destruct cs1 as [|c1 cs1']; [exact I|].
           destruct (agg_ellipsis src a nm [c] skipped) as [a1|]; [|exact I].
           call IH (RLoop (g2 :: gs2') (c1 :: cs1')) a1. exact I.
        -- call IH (RLook nm [] skipped (g2 :: gs2') cs) a. exact I.
      * call IH (RSkip (g :: gs1) cs) a. exact I.
    + (* RLook *)
      destruct gs as [|g gs1]; [exact I|].
      destruct cs as [|c cs1]; [exact I|].
      call IH (RNode g c) a.
      destruct o.
      * destruct (agg_ellipsis src a0 name (rev mr) sk) as [a2|]; [|exact I].
        call IH (RSkip (g :: gs1) (c :: cs1)) a2. exact I.
      * destruct cs1 as [|c1 cs1']; [exact I|].
        call IH (RLook name (c :: mr) sk (g :: gs1) (c1 :: cs1')) a0. exact I.
      * destruct cs1 as [|c1 cs1']; [exact I|].
        call IH (RLook name (c :: mr) sk (g :: gs1) (c1 :: cs1')) a0. exact I.
      * destruct cs1 as [|c1 cs1']; [exact I|].
        call IH (RLook name (c :: mr) sk (g :: gs1) (c1 :: cs1')) a0. exact I.
      * destruct cs1 as [|c1 cs1']; [exact I|].
        call IH (RLook name (c :: mr) sk (g :: gs1) (c1 :: cs1')) a0. exact I.
    + (* RSkip *)
      destruct cs as [|c cs1].
      * destruct (should_skip_goal s gs); exact I.
      * destruct gs as [|g gs1]; [exact I|].
        call IH (RNode g c) a.
        destruct o.
        -- (* MatchedBoth: tail gs cs *)
           destruct gs1 as [|g1 gs1']; [exact I|]. cbn [tl].
           destruct cs1 as [|c1 cs1']; [exact I|].
           call IH (RLoop (g1 :: gs1') (c1 :: cs1')) a0. exact I.
        -- (* SkipBoth *)
           destruct gs1 as [|g1 gs1']; [exact I|].
           call IH (RSkip (g1 :: gs1') cs1) a0. exact I.
        -- (* SkipGoal *)
           destruct gs1 as [|g1 gs1']; [exact I|].
           call IH (RSkip (g1 :: gs1') (c :: cs1)) a0. exact I.
        -- (* SkipCandidate *)
           call IH (RSkip (g :: gs1) cs1) a0. exact I.
        -- exact I.
Qed.

(* the generic adequacy lemma *)
Lemma run_enough_fuel : forall f s src req a, need req <= f -> fst (run f s src req a) <> RFuel.
Proof.
  intros f s src r a Hn Hf. pose proof (run_shape f s src r a Hn) as Hs.
  rewrite Hf in Hs. destruct r; exact Hs.
Qed.
Print Assumptions run_enough_fuel.

Lemma need_match_fuel : forall g c, need (RNode g c) <= match_fuel g c.
Proof. intros g c. unfold match_fuel. cbn [need]. lia. Qed.

Lemma run_match_fuel : forall s src g c a, fst (run (match_fuel g c) s src (RNode g c) a) <> RFuel.
Proof. intros s src g c a. apply run_enough_fuel. apply need_match_fuel. Qed.

Lemma C11_match_terminates : C11_match_terminates_stmt.
Proof.
  intros src p t e. unfold pattern_match.
  pose proof (run_match_fuel (p_strict p) src (p_node p) t (AEnv e)) as Hr.
  destruct (run (match_fuel (p_node p) t) (p_strict p) src (RNode (p_node p) t) (AEnv e)) as [r a].
  cbn [fst] in Hr.
  destruct (p_root_kind p) as [k|].
  - destruct (negb (N.eqb (kind t) k)); [discriminate|].
    destruct r as [o|b|]; [destruct o; try discriminate; destruct a; discriminate | discriminate | congruence].
  - destruct r as [o|b|]; [destruct o; try discriminate; destruct a; discriminate | discriminate | congruence].
Qed.
Print Assumptions C11_match_terminates.

Lemma C11_match_len_terminates : C11_match_len_terminates_stmt.
Proof.
  intros src p t. unfold match_len.
  pose proof (run_match_fuel (p_strict p) src (p_node p) t (AEnd 0)) as Hr.
  destruct (run (match_fuel (p_node p) t) (p_strict p) src (RNode (p_node p) t) (AEnd 0)) as [r a].
  cbn [fst] in Hr.
  destruct r as [o|b|]; [ | discriminate | congruence].
  destruct o; try discriminate. destruct a; try discriminate.
  destruct (N.leb n (tstart t)); discriminate.
Qed.
Print Assumptions C11_match_len_terminates.
