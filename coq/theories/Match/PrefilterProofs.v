(* C01 — proofs about the literal prefilter.

   The stated property [C01_prefilter_stmt] is FALSE of the model for the strictness levels cst and
   smart: after an ellipsis the matcher unconditionally drops the run of unnamed pattern tokens that
   follows it ([skip_trivials] in the RLoop request, at EVERY strictness), so such a token never has
   to occur in the candidate, while [fixed_string] (cst/smart: all terminals) may well select it.
   - [C01_prefilter_refuted]        : refutation with a two-node document.
   - [C01_terminals_occur]          : the strongest positive fact: every pattern terminal that counts
                                      for the strictness and does not sit in the run of unnamed
                                      tokens directly after an ellipsis occurs in the source.
   - [C01_prefilter_partial]        : the stated property with one added executable hypothesis
                                      ([C01_ellipsis_hyp]: under cst/smart no unnamed token directly
                                      follows an ellipsis among the children of a pattern node).
   - [C01_prefilter_ast_relaxed_signature] : the stated property as is for ast/relaxed/signature.
   - [C01_prefilter_fixed]          : a corrected fixed string (same selection, but ignoring the
                                      tokens the matcher drops) makes the prefilter sound with no
                                      added hypothesis.
   The core is one induction on the fuel over all five requests of [run] ([claim_all]). *)
From Coq Require Import List NArith ZArith Bool Arith Lia.
From AG Require Import Base.Val Base.Sort Str.MetaVar Tree.Tree Tree.Wf Match.MatchNode Match.Align
  Match.AlignSpec Match.AlignProofs Match.Prefilter Match.PrefilterSpec.
Import ListNotations.

(* ====================================================================================== *)
(* Refutation                                                                              *)
(* ====================================================================================== *)

(* document "a": a node of kind 1 with one named child of kind 3; pattern (smart):
   a node of kind 1 whose children are [$$$ ";"], the ";" being an unnamed token of kind 2 *)
Definition rf_leaf : tree :=
  T {| nid := 1; nkind := 3; nnamed := true; ncomment := false; nmissing := false; nfld := 0;
       ns := 0; ne := 1 |} [].
Definition rf_root : tree :=
  T {| nid := 0; nkind := 1; nnamed := true; ncomment := false; nmissing := false; nfld := 0;
       ns := 0; ne := 1 |} [rf_leaf].
Definition rf_src : str := [97%N].
Definition rf_pat (s : strictness) : pattern :=
  {| p_node := PInt 1 [PMeta Multiple; PTerm [59%N] false 2]; p_root_kind := None; p_strict := s |}.

Lemma rf_unnamed_by_kind : forall s, unnamed_by_kind rf_src (p_node (rf_pat s)) rf_root.
Proof.
  intros s text k d Hin Hd Hk. cbn in Hin. destruct Hin as [Heq|[]]. inversion Heq; subst.
  cbn in Hd. destruct Hd as [<-|[<-|[]]]; vm_compute in Hk; discriminate Hk.
Qed.

Lemma C01_counterexample : forall s, s = Cst \/ s = Smart ->
  pwf (p_node (rf_pat s)) = true /\ wfb rf_root = true /\ in_source rf_src rf_root /\
  In rf_root (preorder rf_root) /\ unnamed_by_kind rf_src (p_node (rf_pat s)) rf_root /\
  pattern_match rf_src (rf_pat s) rf_root empty_env = Matched empty_env /\
  prefilter_keeps (rf_pat s) rf_src = false.
Proof.
  intros s Hs.
  split; [reflexivity|]. split; [reflexivity|]. split; [vm_compute; apply le_n|].
  split; [left; reflexivity|]. split; [apply rf_unnamed_by_kind|].
  destruct Hs as [->| ->]; split; vm_compute; reflexivity.
Qed.

Lemma C01_prefilter_refuted : ~ C01_prefilter_stmt.
Proof.
  intros H.
  destruct (C01_counterexample Smart (or_intror eq_refl)) as [H1 [H2 [H3 [H4 [H5 [H6 H7]]]]]].
  rewrite (H _ _ _ _ _ _ H2 H3 H4 H5 H6) in H7. discriminate H7.
Qed.
Print Assumptions C01_prefilter_refuted.

(* ====================================================================================== *)
(* The terminals the matcher really has to find                                            *)
(* ====================================================================================== *)

(* named_only flag of [fixed_string] for a strictness (signature claims nothing, see below) *)
Definition no_of (s : strictness) : bool :=
  match s with Cst | Smart => false | Ast | Relaxed | Signature => true end.

(* [cl no p]: the terminals of p that count ([no] = named only) and are not in the run of unnamed
   tokens directly after an ellipsis ([after] flag) *)
Fixpoint cl (no : bool) (p : pnode) : list pnode :=
  match p with
  | PTerm _ nm _ => if no && negb nm then [] else [p]
  | PMeta _ => []
  | PInt _ cs =>
      (fix go (after : bool) (l : list pnode) {struct l} : list pnode :=
         match l with
         | [] => []
         | x :: r => if after && is_trivial x then go true r
                     else cl no x ++ go (is_ellipsis x) r
         end) false cs
  end.

Fixpoint cll (no after : bool) (l : list pnode) {struct l} : list pnode :=
  match l with
  | [] => []
  | x :: r => if after && is_trivial x then cll no true r
              else cl no x ++ cll no (is_ellipsis x) r
  end.

Lemma cl_int : forall no k cs, cl no (PInt k cs) = cll no false cs.
Proof.
  intros no k cs. cbn [cl]. generalize false as b.
  induction cs as [|x r IHr]; intros b; [reflexivity|].
  cbn [cll]. rewrite <- (IHr true), <- (IHr (is_ellipsis x)). reflexivity.
Qed.

(* executable hypothesis of the partial statement: no unnamed token directly after an ellipsis *)
Fixpoint no_trivial_after_ellipsis (p : pnode) : bool :=
  match p with
  | PInt _ cs =>
      (fix go (after : bool) (l : list pnode) {struct l} : bool :=
         match l with
         | [] => true
         | x :: r => negb (after && is_trivial x) && no_trivial_after_ellipsis x && go (is_ellipsis x) r
         end) false cs
  | _ => true
  end.

Fixpoint ntal (after : bool) (l : list pnode) {struct l} : bool :=
  match l with
  | [] => true
  | x :: r => negb (after && is_trivial x) && no_trivial_after_ellipsis x && ntal (is_ellipsis x) r
  end.

Lemma nta_int : forall k cs, no_trivial_after_ellipsis (PInt k cs) = ntal false cs.
Proof.
  intros k cs. cbn [no_trivial_after_ellipsis]. generalize false as b.
  induction cs as [|x r IHr]; intros b; [reflexivity|].
  cbn [ntal]. rewrite <- (IHr (is_ellipsis x)). reflexivity.
Qed.

Definition C01_ellipsis_hyp (p : pattern) : bool :=
  match p_strict p with
  | Cst | Smart => no_trivial_after_ellipsis (p_node p)
  | Ast | Relaxed | Signature => true
  end.

(* list versions of the nested fixpoints of the model *)
Fixpoint ptermsl (l : list pnode) : list pnode :=
  match l with [] => [] | x :: r => pterms x ++ ptermsl r end.

Lemma pterms_int : forall k cs, pterms (PInt k cs) = ptermsl cs.
Proof.
  intros k cs. cbn [pterms]. induction cs as [|x r IHr]; [reflexivity|].
  cbn [ptermsl]. rewrite <- IHr. reflexivity.
Qed.

Fixpoint fixl (no : bool) (l : list pnode) (longest : str) {struct l} : str :=
  match l with
  | [] => longest
  | x :: r => let cur := fixed_node no x in
              fixl no r (if Nat.leb (length cur) (length longest) then longest else cur)
  end.

Lemma fixed_int : forall no k cs, fixed_node no (PInt k cs) = fixl no cs [].
Proof.
  intros no k cs. cbn [fixed_node]. generalize (@nil N) as lg.
  induction cs as [|x r IHr]; intros lg; [reflexivity|].
  cbn [fixl]. cbv zeta. rewrite <- IHr. reflexivity.
Qed.

Lemma pnode_ind2 : forall (P : pnode -> Prop),
  (forall m, P (PMeta m)) -> (forall t nm k, P (PTerm t nm k)) ->
  (forall k cs, (forall x, In x cs -> P x) -> P (PInt k cs)) -> forall p, P p.
Proof.
  intros P Hm Ht Hi. fix IH 1. intros [m|t nm k|k cs]; [apply Hm|apply Ht|].
  apply Hi. induction cs as [|x r IHr]; intros y Hy; [destruct Hy|].
  destruct Hy as [<-|Hy]; [apply IH|apply IHr; exact Hy].
Qed.

Lemma trivial_inv : forall x, is_trivial x = true -> exists t k, x = PTerm t false k.
Proof.
  intros [m|t nm k|k cs] H; cbn in H; try discriminate H.
  destruct nm; [discriminate H|]. exists t, k. reflexivity.
Qed.

Lemma trivial_not_ellipsis : forall x, is_trivial x = true -> is_ellipsis x = false.
Proof. intros x H. destruct (trivial_inv x H) as [t [k ->]]. reflexivity. Qed.

(* the [after] flag only removes terminals *)
Lemma cll_flag_incl : forall no l b, incl (cll no b l) (cll no false l).
Proof.
  intros no l. induction l as [|x r IHr]; intros b; [apply incl_refl|].
  cbn [cll]. cbn [andb]. destruct (b && is_trivial x) eqn:E; [|apply incl_refl].
  apply andb_true_iff in E. destruct E as [_ E]. rewrite (trivial_not_ellipsis x E).
  apply incl_appr. apply IHr.
Qed.

Lemma cll_skip_trivials : forall no gs k k' gs2,
  skip_trivials gs k = (k', gs2) -> cll no true gs = cll no true gs2.
Proof.
  intros no gs. induction gs as [|g r IHr]; intros k k' gs2 H; cbn [skip_trivials] in H.
  - inversion H; subst. reflexivity.
  - destruct (is_trivial g) eqn:Eg.
    + cbn [cll]. rewrite Eg. cbn [andb]. eapply IHr. exact H.
    + inversion H; subst. reflexivity.
Qed.

Lemma ellipsis_cl_nil : forall no g n, ellipsis_mode g = Some n -> cl no g = [].
Proof. intros no [[nm b|b| |nm]|t b k|k l] n H; cbn in *; try discriminate; reflexivity. Qed.

Lemma cll_ell_skip : forall no g n gs1 k k' gs2,
  ellipsis_mode g = Some n -> skip_trivials gs1 k = (k', gs2) ->
  incl (cll no false (g :: gs1)) (cll no false gs2).
Proof.
  intros no g n gs1 k k' gs2 Eg Est. cbn [cll andb].
  rewrite (ellipsis_cl_nil no g n Eg), (ellipsis_mode_is g n Eg). cbn [app].
  rewrite (cll_skip_trivials no _ _ _ _ Est). apply cll_flag_incl.
Qed.

Lemma cll_cons_incl : forall no g gs1, incl (cll no false (g :: gs1)) (cl no g ++ cll no false gs1).
Proof.
  intros no g gs1. cbn [cll andb]. apply incl_app; [apply incl_appl; apply incl_refl|].
  apply incl_appr. apply cll_flag_incl.
Qed.

Lemma skippable_cl_nil : forall s g, goal_skippable s g = true -> cl (no_of s) g = [].
Proof.
  intros s g H. destruct g as [mv|t nm k|k l]; [reflexivity| |].
  - destruct s; cbn in H; try discriminate H; destruct nm; try discriminate H; reflexivity.
  - destruct s; cbn in H; discriminate H.
Qed.

Lemma all_nil_cll_nil : forall no gs, (forall g, In g gs -> cl no g = []) -> forall b, cll no b gs = [].
Proof.
  intros no gs. induction gs as [|g r IHr]; intros H b; [reflexivity|].
  cbn [cll]. destruct (b && is_trivial g).
  - apply IHr. intros x Hx. apply H. right. exact Hx.
  - rewrite (H g (or_introl eq_refl)). cbn [app]. apply IHr. intros x Hx. apply H. right. exact Hx.
Qed.

Lemma should_skip_cll_nil : forall s gs b, should_skip_goal s gs = true -> cll (no_of s) b gs = [].
Proof.
  intros s gs b H. apply all_nil_cll_nil. intros g Hg. apply skippable_cl_nil.
  unfold should_skip_goal in H. rewrite forallb_forall in H. apply H. exact Hg.
Qed.

(* ====================================================================================== *)
(* The invariant of [run]                                                                  *)
(* ====================================================================================== *)
Section Core.
Variable src : str.

(* every terminal of l has a witness among the nodes below the candidates cs: a node of a matching
   kind and, for a named token, of the same text *)
Definition claim (cs : list tree) (l : list pnode) : Prop :=
  forall text nm k, In (PTerm text nm k) l ->
    exists c d, In c cs /\ In d (preorder c) /\ kinds_matching k (kind d) = true /\
                (nm = true -> text_of src d = text).

Lemma claim_nil : forall cs, claim cs [].
Proof. intros cs text nm k []. Qed.

Lemma claim_app : forall cs l1 l2, claim cs l1 -> claim cs l2 -> claim cs (l1 ++ l2).
Proof.
  intros cs l1 l2 H1 H2 text nm k Hin. apply in_app_or in Hin.
  destruct Hin as [Hin|Hin]; [exact (H1 _ _ _ Hin)|exact (H2 _ _ _ Hin)].
Qed.

Lemma claim_sub : forall cs l l', incl l' l -> claim cs l -> claim cs l'.
Proof. intros cs l l' Hi H text nm k Hin. apply (H text nm k). apply Hi. exact Hin. Qed.

Lemma claim_mono : forall cs cs' l, incl cs cs' -> claim cs l -> claim cs' l.
Proof.
  intros cs cs' l Hi H text nm k Hin. destruct (H _ _ _ Hin) as [c [d [Hc R]]].
  exists c, d. split; [apply Hi; exact Hc|exact R].
Qed.

Lemma claim_children : forall c l, claim (children c) l -> claim [c] l.
Proof.
  intros c l H text nm k Hin. destruct (H _ _ _ Hin) as [c' [d [Hc [Hd R]]]].
  exists c, d. split; [left; reflexivity|]. split; [|exact R].
  eapply ap_preorder_child; eassumption.
Qed.

Lemma claim_cons : forall no cs g gs1,
  claim cs (cl no g) -> claim cs (cll no false gs1) -> claim cs (cll no false (g :: gs1)).
Proof.
  intros no cs g gs1 H1 H2. eapply claim_sub; [apply cll_cons_incl|]. apply claim_app; assumption.
Qed.

Lemma claim_ell_skip : forall no cs g n gs1 k k' gs2,
  ellipsis_mode g = Some n -> skip_trivials gs1 k = (k', gs2) ->
  claim cs (cll no false gs2) -> claim cs (cll no false (g :: gs1)).
Proof.
  intros no cs g n gs1 k k' gs2 Eg Est H. eapply claim_sub; [|exact H].
  eapply cll_ell_skip; eassumption.
Qed.

(* what [match_terminal] guarantees outside signature strictness *)
Lemma st_term_claim : forall s nm text k c, s <> Signature ->
  match st_match_terminal s src nm text k c with
  | MatchedBoth => kinds_matching k (kind c) = true /\ (nm = true -> text_of src c = text)
  | SkipGoal | SkipBoth => no_of s = true /\ nm = false
  | _ => True
  end.
Proof.
  intros s nm text k c Hs.
  unfold st_match_terminal, skip_comment_or_unnamed.
  destruct (kinds_matching k (kind c)) eqn:Ek; destruct nm;
    destruct (str_eqb text (text_of src c)) eqn:Et;
    destruct s; try (contradiction Hs; reflexivity);
    destruct (named c); destruct (is_comment c); cbn;
    try exact I; try (split; reflexivity);
    (split; [reflexivity|]); intros Hn; try discriminate Hn;
    symmetry; apply ap_str_eqb_eq; exact Et.
Qed.

Definition cpost (s : strictness) (r : req) (o : res) : Prop :=
  match r with
  | RNode g c =>
      match o with
      | ROne MatchedBoth => claim [c] (cl (no_of s) g)
      | ROne SkipGoal | ROne SkipBoth => cl (no_of s) g = []
      | _ => True
      end
  | RList gs cs | RLoop gs cs | RSkip gs cs | RLook _ _ _ gs cs =>
      o = ROk true -> claim cs (cll (no_of s) false gs)
  end.

Definition claim_at (s : strictness) (f : nat) : Prop :=
  forall r a o a', run f s src r a = (o, a') -> cpost s r o.

Lemma tail_claim : forall s f, claim_at s f ->
  forall gs' cs' a o a', tailf f s src gs' cs' a = (o, a') -> o = ROk true ->
  match gs' with
  | [] => True
  | _ :: gs1 => claim (tl cs') (cll (no_of s) false gs1)
  end.
Proof.
  intros s f IH gs' cs' a o a' H Ho. unfold tailf in H. destruct gs' as [|g gs1]; [exact I|].
  cbv zeta in H. destruct gs1 as [|g1 gs1']; [apply claim_nil|].
  destruct (tl cs') as [|c1 cs1'] eqn:Etl.
  - rewrite Ho in H. discriminate H.
  - apply IH in H. exact (H Ho).
Qed.

Ltac cfail H := inversion H; subst; intros Hcf; discriminate Hcf.
Ltac incl_tac := intros ? ?; repeat rewrite in_app_iff in *; cbn [In] in *; tauto.

Lemma claim_all : forall s, s <> Signature -> forall fuel, claim_at s fuel.
Proof.
  intros s Hs fuel. induction fuel as [|f IH]; intros r a o a' H.
  - cbn [run] in H. inversion H; subst. destruct r; cbn [cpost]; try discriminate; exact I.
  - destruct r as [g c|gs cs|gs cs|name mrev sk gs cs|gs cs].
    + (* RNode *)
      destruct g as [mv|text nm k|k gcs]; cbn [run] in H.
      * destruct (agg_meta src a mv c) as [a1|]; inversion H; subst; cbn [cpost cl];
          [apply claim_nil|exact I].
      * pose proof (st_term_claim s nm text k c Hs) as P.
        destruct (st_match_terminal s src nm text k c).
        -- destruct P as [Pk Pt].
           assert (Ho : o = ROne MatchedBoth).
           { destruct a as [e|n]; cbn [agg_terminal] in H; inversion H; reflexivity. }
           subst o. cbn [cpost cl]. destruct (no_of s && negb nm); [apply claim_nil|].
           intros text' nm' k' Hin. destruct Hin as [Heq|[]]. inversion Heq; subst.
           exists c, c. split; [left; reflexivity|]. split; [apply ap_preorder_root|].
           split; [exact Pk|exact Pt].
        -- inversion H; subst. destruct P as [Pn ->]. cbn [cpost cl]. rewrite Pn. reflexivity.
        -- inversion H; subst. destruct P as [Pn ->]. cbn [cpost cl]. rewrite Pn. reflexivity.
        -- inversion H; subst. exact I.
        -- inversion H; subst. exact I.
      * destruct (kinds_matching k (kind c)) eqn:Ek; [|inversion H; subst; exact I].
        destruct (run f s src (RList gcs (children c)) a) as [o1 a1] eqn:E1.
        apply IH in E1. cbn [cpost] in E1.
        destruct o1 as [x|b|]; [|destruct b|]; inversion H; subst; cbn [cpost]; try exact I.
        rewrite cl_int. apply claim_children. apply E1. reflexivity.
    + (* RList *)
      cbn [run] in H. destruct cs as [|c cs1]; [cbn [cpost]; cfail H|].
      apply IH in H. exact H.
    + (* RLoop *)
      cbn [cpost]. destruct gs as [|g gs1]; cbn [run] in H.
      { inversion H; subst. intros _. apply claim_nil. }
      destruct (ellipsis_mode g) as [name|] eqn:Eg.
      * destruct gs1 as [|g1 gs1'].
        -- intros _. eapply (claim_ell_skip _ _ _ _ [] 0 0 []); [exact Eg|reflexivity|apply claim_nil].
        -- cbv beta iota in H.
           destruct (skip_trivials (g1 :: gs1') 0) as [skipped gs2] eqn:Est.
           destruct gs2 as [|g2 gs2'].
           ++ intros _. eapply claim_ell_skip; [exact Eg|exact Est|apply claim_nil].
           ++ destruct (ellipsis_mode g2) as [n2|] eqn:Eg2.
              ** destruct cs as [|c cs1]; [cfail H|].
                 destruct cs1 as [|c1 cs1']; [cfail H|].
                 destruct (agg_ellipsis src a name [c] skipped) as [a1|] eqn:Ea; [|cfail H].
                 apply IH in H. cbn [cpost] in H. intros Ho.
                 eapply claim_ell_skip; [exact Eg|exact Est|].
                 eapply claim_mono; [|exact (H Ho)]. incl_tac.
              ** apply IH in H. cbn [cpost] in H. intros Ho.
                 eapply claim_ell_skip; [exact Eg|exact Est|exact (H Ho)].
      * apply IH in H. exact H.
    + (* RLook *)
      cbn [cpost]. cbn [run] in H.
      destruct gs as [|g gs']; [cfail H|].
      destruct cs as [|c cs1]; [cfail H|].
      cbv beta iota in H.
      destruct (run f s src (RNode g c) a) as [o1 a1] eqn:E1.
      assert (Hcont :
        match cs1 with
        | [] => (ROk false, a1)
        | _ :: _ => run f s src (RLook name (c :: mrev) sk (g :: gs') cs1) a1
        end = (o, a') ->
        o = ROk true -> claim (c :: cs1) (cll (no_of s) false (g :: gs'))).
      { intros H'. destruct cs1 as [|c1 cs1']; [cfail H'|].
        apply IH in H'. cbn [cpost] in H'. intros Ho.
        eapply claim_mono; [|exact (H' Ho)]. incl_tac. }
      destruct o1 as [x|b|]; [destruct x| |]; try (apply Hcont; exact H).
      * destruct (agg_ellipsis src a1 name (rev mrev) sk) as [a2|] eqn:Ea; [|cfail H].
        apply IH in H. exact H.
      * cfail H.
    + (* RSkip *)
      cbn [cpost]. rewrite run_RSkip in H.
      destruct cs as [|c cs1].
      * destruct (should_skip_goal s gs) eqn:Esk; [|cfail H].
        intros _. rewrite (should_skip_cll_nil s gs false Esk). apply claim_nil.
      * destruct gs as [|g gs1]; [cfail H|].
        destruct (run f s src (RNode g c) a) as [o1 a1] eqn:E1.
        apply IH in E1. cbn [cpost] in E1.
        destruct o1 as [x|b|]; [destruct x| |].
        -- (* MatchedBoth *)
           intros Ho. pose proof (tail_claim s f IH _ _ _ _ _ H Ho) as P. cbn [tl] in P.
           apply claim_cons.
           ++ eapply claim_mono; [|exact E1]. incl_tac.
           ++ eapply claim_mono; [|exact P]. incl_tac.
        -- (* SkipBoth *)
           intros Ho. apply claim_cons; [rewrite E1; apply claim_nil|].
           destruct gs1 as [|g1 gs1']; [apply claim_nil|].
           apply IH in H. cbn [cpost] in H. eapply claim_mono; [|exact (H Ho)]. incl_tac.
        -- (* SkipGoal *)
           intros Ho. apply claim_cons; [rewrite E1; apply claim_nil|].
           destruct gs1 as [|g1 gs1']; [apply claim_nil|].
           apply IH in H. cbn [cpost] in H. exact (H Ho).
        -- (* SkipCandidate *)
           apply IH in H. cbn [cpost] in H. intros Ho.
           eapply claim_mono; [|exact (H Ho)]. incl_tac.
        -- cfail H.
        -- cfail H.
        -- cfail H.
Qed.

Lemma claim_pattern : forall p t e e',
  p_strict p <> Signature ->
  pattern_match src p t e = Matched e' ->
  claim [t] (cl (no_of (p_strict p)) (p_node p)).
Proof.
  intros p t e e' Hs H. unfold pattern_match in H.
  destruct (p_root_kind p) as [k|]; [destruct (negb (N.eqb (kind t) k)); [discriminate H|]|];
    (destruct (run (match_fuel (p_node p) t) (p_strict p) src (RNode (p_node p) t) (AEnv e))
       as [o a] eqn:E;
     destruct o as [x|b|]; [destruct x| |]; try discriminate H;
     exact (claim_all _ Hs _ _ _ _ _ E)).
Qed.

End Core.

(* ====================================================================================== *)
(* Node texts are substrings of the source                                                 *)
(* ====================================================================================== *)
Lemma prefix_firstn : forall n (l : str), prefix_of (firstn n l) l = true.
Proof.
  induction n as [|n IHn]; intros l; [reflexivity|].
  destruct l as [|x r]; [reflexivity|]. cbn [firstn prefix_of].
  rewrite N.eqb_refl, IHn. reflexivity.
Qed.

Lemma substr_prefix : forall p l, prefix_of p l = true -> substr p l = true.
Proof. intros p l H. destruct l as [|x r]; cbn [substr]; rewrite H; reflexivity. Qed.

Lemma substr_skipn : forall p n l, substr p (skipn n l) = true -> substr p l = true.
Proof.
  intros p n. induction n as [|n IHn]; intros l H; [exact H|].
  destruct l as [|x r]; [exact H|]. cbn [skipn] in H. cbn [substr].
  rewrite (IHn r H). apply orb_true_r.
Qed.

(* the model's slicing truncates, so this needs neither [wfb] nor [in_source] *)
Lemma text_of_substr : forall src d, substr (text_of src d) src = true.
Proof.
  intros src d. unfold text_of. eapply substr_skipn. apply substr_prefix. apply prefix_firstn.
Qed.

(* ====================================================================================== *)
(* [cl] versus the terminals [fixed_node] chooses from                                     *)
(* ====================================================================================== *)
Lemma ptermsl_in : forall x l, In x l -> incl (pterms x) (ptermsl l).
Proof.
  intros x l. induction l as [|y r IHr]; intros H; [destruct H|]. cbn [ptermsl].
  destruct H as [->|H]; [apply incl_appl; apply incl_refl|apply incl_appr; apply IHr; exact H].
Qed.

Lemma cl_incl_pterms : forall no p, incl (cl no p) (pterms p).
Proof.
  intros no. apply (pnode_ind2 (fun p => incl (cl no p) (pterms p))).
  - intros m. apply incl_refl.
  - intros t nm k. cbn [cl pterms]. destruct (no && negb nm); [intros x []|apply incl_refl].
  - intros k cs IHcs. rewrite cl_int, pterms_int. generalize false as b.
    induction cs as [|x r IHr]; intros b; [apply incl_refl|].
    assert (IHr' : forall b, incl (cll no b r) (ptermsl r)).
    { apply IHr. intros y Hy. apply IHcs. right. exact Hy. }
    cbn [cll ptermsl]. destruct (b && is_trivial x).
    + apply incl_appr. apply IHr'.
    + apply incl_app; [apply incl_appl; apply IHcs; left; reflexivity|apply incl_appr; apply IHr'].
Qed.

(* completeness of [cl]: with named-only selection always, otherwise under the hypothesis *)
Lemma cl_complete : forall no p,
  no = true \/ no_trivial_after_ellipsis p = true ->
  forall text nm k, In (PTerm text nm k) (pterms p) -> (no = true -> nm = true) ->
  In (PTerm text nm k) (cl no p).
Proof.
  intros no.
  apply (pnode_ind2 (fun p => no = true \/ no_trivial_after_ellipsis p = true ->
    forall text nm k, In (PTerm text nm k) (pterms p) -> (no = true -> nm = true) ->
    In (PTerm text nm k) (cl no p))).
  - intros m _ text nm k [].
  - intros t nm0 k0 _ text nm k Hin Hn. cbn [pterms] in Hin. destruct Hin as [Heq|[]].
    inversion Heq; subst. cbn [cl]. destruct no; [rewrite (Hn eq_refl)|]; left; reflexivity.
  - intros k0 cs IHcs Hh text nm k Hin Hn. rewrite cl_int. rewrite pterms_int in Hin.
    rewrite nta_int in Hh. revert Hh Hin. generalize false as b.
    induction cs as [|x r IHr]; intros b Hh Hin; [destruct Hin|].
    assert (IHr' : forall b, no = true \/ ntal b r = true -> In (PTerm text nm k) (ptermsl r) ->
                             In (PTerm text nm k) (cll no b r)).
    { apply IHr. intros y Hy. apply IHcs. right. exact Hy. }
    cbn [ptermsl] in Hin. cbn [ntal] in Hh. cbn [cll].
    destruct (b && is_trivial x) eqn:Eb.
    + cbn [negb andb] in Hh. destruct Hh as [Hno|Hh]; [|discriminate Hh].
      apply andb_true_iff in Eb. destruct Eb as [_ Etr].
      destruct (trivial_inv x Etr) as [tx [kx ->]].
      apply in_app_or in Hin. destruct Hin as [Hin|Hin].
      * pose proof (Hn Hno) as Hnm.
        cbn [pterms] in Hin. destruct Hin as [Heq|[]]. inversion Heq as [[E1 E2 E3]].
        rewrite <- E2 in Hnm. discriminate Hnm.
      * apply IHr'; [left; exact Hno|exact Hin].
    + cbn [negb andb] in Hh. apply in_or_app. apply in_app_or in Hin. destruct Hin as [Hin|Hin].
      * left. apply (IHcs x (or_introl eq_refl)); [|exact Hin|exact Hn].
        destruct Hh as [Hno|Hh]; [left; exact Hno|right].
        apply andb_true_iff in Hh. destruct Hh as [Hh _]. exact Hh.
      * right. apply IHr'; [|exact Hin].
        destruct Hh as [Hno|Hh]; [left; exact Hno|right].
        apply andb_true_iff in Hh. destruct Hh as [_ Hh]. exact Hh.
Qed.

Lemma fixl_choice : forall no l longest,
  fixl no l longest = longest \/ exists x, In x l /\ fixl no l longest = fixed_node no x.
Proof.
  intros no l. induction l as [|x r IHr]; intros longest; [left; reflexivity|].
  cbn [fixl]. cbv zeta.
  destruct (IHr (if Nat.leb (length (fixed_node no x)) (length longest) then longest
                 else fixed_node no x)) as [E|[y [Hy E]]].
  - rewrite E. destruct (Nat.leb (length (fixed_node no x)) (length longest));
      [left; reflexivity|right; exists x; split; [left; reflexivity|reflexivity]].
  - right. exists y. split; [right; exact Hy|exact E].
Qed.

(* [fixed_node] returns nothing or the text of a counting terminal *)
Lemma fixed_in_pterms : forall no p,
  fixed_node no p = [] \/
  exists nm k, In (PTerm (fixed_node no p) nm k) (pterms p) /\ (no = true -> nm = true).
Proof.
  intros no.
  apply (pnode_ind2 (fun p => fixed_node no p = [] \/
    exists nm k, In (PTerm (fixed_node no p) nm k) (pterms p) /\ (no = true -> nm = true))).
  - intros m. left. reflexivity.
  - intros t nm k. cbn [fixed_node pterms]. destruct (no && negb nm) eqn:E; [left; reflexivity|].
    right. exists nm, k. split; [left; reflexivity|]. intros ->. destruct nm; [reflexivity|discriminate E].
  - intros k cs IHcs. rewrite fixed_int, pterms_int.
    destruct (fixl_choice no cs []) as [E|[x [Hx E]]]; [left; exact E|]. rewrite E.
    destruct (IHcs x Hx) as [E0|[nm [k' [Hin Hn]]]]; [left; exact E0|].
    right. exists nm, k'. split; [|exact Hn]. eapply ptermsl_in; eassumption.
Qed.

(* ====================================================================================== *)
(* Main results                                                                            *)
(* ====================================================================================== *)

(* Every terminal the matcher cannot drop occurs in the source text. *)
Definition C01_terminals_occur_stmt : Prop :=
  forall src p t e e' text nm k,
    p_strict p <> Signature ->
    unnamed_by_kind src (p_node p) t ->
    pattern_match src p t e = Matched e' ->
    In (PTerm text nm k) (cl (no_of (p_strict p)) (p_node p)) ->
    substr text src = true.

Lemma C01_terminals_occur : C01_terminals_occur_stmt.
Proof.
  intros src p t e e' text nm k Hs Hu Hm Hin.
  destruct (claim_pattern src p t e e' Hs Hm text nm k Hin) as [c [d [Hc [Hd [Hk Ht]]]]].
  destruct Hc as [<-|[]].
  assert (E : text_of src d = text).
  { destruct nm; [apply Ht; reflexivity|].
    apply (Hu text k d); [|exact Hd|exact Hk]. apply (cl_incl_pterms _ _ _ Hin). }
  rewrite <- E. apply text_of_substr.
Qed.
Print Assumptions C01_terminals_occur.

Lemma fixed_string_cases : forall p,
  fixed_string p = [] \/
  (p_strict p <> Signature /\ fixed_string p = fixed_node (no_of (p_strict p)) (p_node p)).
Proof.
  intros p. unfold fixed_string. destruct (p_strict p); try (left; reflexivity);
    right; (split; [discriminate|reflexivity]).
Qed.

Lemma hyp_cl_complete : forall p, C01_ellipsis_hyp p = true ->
  no_of (p_strict p) = true \/ no_trivial_after_ellipsis (p_node p) = true.
Proof.
  intros p H. unfold C01_ellipsis_hyp in H. destruct (p_strict p); cbn [no_of];
    first [left; reflexivity|right; exact H].
Qed.

(* the partial statement without the hypotheses the proof does not use *)
Lemma C01_prefilter_partial_min : forall src p t e e',
  unnamed_by_kind src (p_node p) t ->
  C01_ellipsis_hyp p = true ->
  pattern_match src p t e = Matched e' ->
  prefilter_keeps p src = true.
Proof.
  intros src p t e e' Hu Hh Hm. unfold prefilter_keeps.
  destruct (fixed_string p) as [|x f] eqn:Ef; [reflexivity|]. rewrite <- Ef.
  destruct (fixed_string_cases p) as [E|[Hs E]]; [rewrite E in Ef; discriminate Ef|].
  rewrite E in *.
  destruct (fixed_in_pterms (no_of (p_strict p)) (p_node p)) as [E0|[nm [k [Hin Hn]]]];
    [rewrite E0 in Ef; discriminate Ef|].
  eapply (C01_terminals_occur src p t e e' _ nm k Hs Hu Hm).
  apply cl_complete; [apply hyp_cl_complete; exact Hh|exact Hin|exact Hn].
Qed.

(* the stated property plus ONE hypothesis: [C01_ellipsis_hyp p = true] *)
Definition C01_prefilter_partial_stmt : Prop :=
  forall src root p t e e',
    wfb root = true -> in_source src root ->
    In t (preorder root) ->
    unnamed_by_kind src (p_node p) t ->
    C01_ellipsis_hyp p = true ->
    pattern_match src p t e = Matched e' ->
    prefilter_keeps p src = true.

Lemma C01_prefilter_partial : C01_prefilter_partial_stmt.
Proof.
  intros src root p t e e' _ _ _ Hu Hh Hm. eapply C01_prefilter_partial_min; eassumption.
Qed.
Print Assumptions C01_prefilter_partial.

(* the stated property holds as is for the strictness levels ast, relaxed and signature *)
Definition C01_prefilter_ast_relaxed_signature_stmt : Prop :=
  forall src root p t e e',
    p_strict p = Ast \/ p_strict p = Relaxed \/ p_strict p = Signature ->
    wfb root = true -> in_source src root ->
    In t (preorder root) ->
    unnamed_by_kind src (p_node p) t ->
    pattern_match src p t e = Matched e' ->
    prefilter_keeps p src = true.

Lemma C01_prefilter_ast_relaxed_signature : C01_prefilter_ast_relaxed_signature_stmt.
Proof.
  intros src root p t e e' Hs _ _ _ Hu Hm. eapply C01_prefilter_partial_min; [exact Hu| |exact Hm].
  unfold C01_ellipsis_hyp. destruct Hs as [->|[->| ->]]; reflexivity.
Qed.
Print Assumptions C01_prefilter_ast_relaxed_signature.

(* ---- a corrected fixed string: same selection rule over the terminals the matcher keeps ---- *)
Fixpoint longest_text (l : list pnode) (longest : str) : str :=
  match l with
  | [] => longest
  | PTerm text _ _ :: r =>
      longest_text r (if Nat.leb (length text) (length longest) then longest else text)
  | _ :: r => longest_text r longest
  end.

Definition fixed_string_fixed (p : pattern) : str :=
  match p_strict p with
  | Signature => []
  | s => longest_text (cl (no_of s) (p_node p)) []
  end.

Definition prefilter_keeps_fixed (p : pattern) (file : str) : bool :=
  match fixed_string_fixed p with [] => true | f => substr f file end.

Lemma longest_text_choice : forall l longest,
  longest_text l longest = longest \/ exists nm k, In (PTerm (longest_text l longest) nm k) l.
Proof.
  induction l as [|x r IHr]; intros longest; [left; reflexivity|].
  destruct x as [m|text nm k|k cs]; cbn [longest_text].
  - destruct (IHr longest) as [E|[nm [k H]]]; [left; exact E|right; exists nm, k; right; exact H].
  - destruct (IHr (if Nat.leb (length text) (length longest) then longest else text))
      as [E|[nm' [k' H]]].
    + rewrite E. destruct (Nat.leb (length text) (length longest)); [left; reflexivity|].
      right. exists nm, k. left. reflexivity.
    + right. exists nm', k'. right. exact H.
  - destruct (IHr longest) as [E|[nm [k' H]]]; [left; exact E|right; exists nm, k'; right; exact H].
Qed.

Definition C01_prefilter_fixed_stmt : Prop :=
  forall src p t e e',
    unnamed_by_kind src (p_node p) t ->
    pattern_match src p t e = Matched e' ->
    prefilter_keeps_fixed p src = true.

Lemma C01_prefilter_fixed : C01_prefilter_fixed_stmt.
Proof.
  intros src p t e e' Hu Hm. unfold prefilter_keeps_fixed.
  destruct (fixed_string_fixed p) as [|x f] eqn:Ef; [reflexivity|]. rewrite <- Ef.
  assert (Hs : p_strict p <> Signature).
  { intros E. unfold fixed_string_fixed in Ef. rewrite E in Ef. discriminate Ef. }
  assert (E : fixed_string_fixed p = longest_text (cl (no_of (p_strict p)) (p_node p)) []).
  { unfold fixed_string_fixed. destruct (p_strict p); try reflexivity. contradiction Hs; reflexivity. }
  rewrite E in *.
  destruct (longest_text_choice (cl (no_of (p_strict p)) (p_node p)) []) as [E0|[nm [k Hin]]];
    [rewrite E0 in Ef; discriminate Ef|].
  exact (C01_terminals_occur src p t e e' _ nm k Hs Hu Hm Hin).
Qed.
Print Assumptions C01_prefilter_fixed.

(* under the hypothesis of the partial statement the corrected and the original fixed string select
   from the same terminals; on the counterexample they differ *)
Lemma C01_fixed_on_counterexample :
  fixed_string (rf_pat Smart) = [59%N] /\ fixed_string_fixed (rf_pat Smart) = [] /\
  C01_ellipsis_hyp (rf_pat Smart) = false.
Proof. repeat split; vm_compute; reflexivity. Qed.
