(* C01 — the literal prefilter never drops a file that contains a match: statement. *)
From Coq Require Import List NArith ZArith Bool Arith.
From AG Require Import Base.Val Base.Sort Str.MetaVar Tree.Tree Tree.Wf Match.MatchNode Match.Align Match.Prefilter.
Import ListNotations.

(* all terminals of a pattern tree *)
Fixpoint pterms (p : pnode) : list pnode :=
  match p with
  | PInt _ cs => (fix go (l : list pnode) := match l with [] => [] | x :: r => pterms x ++ go r end) cs
  | PTerm _ _ _ => [p]
  | PMeta _ => []
  end.

(* W6, relative to the pattern: the matcher compares UNNAMED tokens by kind only (work-around for
   tree-sitter-typescript#306), so the prefilter is sound only where an unnamed token's text is
   determined by its kind.  Stated exactly as needed: every unnamed, non-ERROR token of the pattern
   has the text of every node of that kind in the candidate. *)
Definition unnamed_by_kind (src : str) (g : pnode) (c : tree) : Prop :=
  forall text k d,
    In (PTerm text false k) (pterms g) -> In d (preorder c) ->
    kinds_matching k (kind d) = true -> text_of src d = text.

(* the document's ranges lie inside the source text *)
Definition in_source (src : str) (root : tree) : Prop := (N.to_nat (tend root) <= length src)%nat.

(* if the pattern matches some node of the document, the prefilter keeps the file *)
Definition C01_prefilter_stmt : Prop :=
  forall src root p t e e',
    wfb root = true -> in_source src root ->
    In t (preorder root) ->
    unnamed_by_kind src (p_node p) t ->
    pattern_match src p t e = Matched e' ->
    prefilter_keeps p src = true.
