(* C02 — proofs.  One strong induction on the fuel over the two requests that a cut pattern
   can reach (RNode, RLoop; RList and RSkip are stepped through inline, RLook is never reached). *)
From Coq Require Import List NArith Bool Arith Lia Wf_nat.
From AG Require Import Base.Val Base.Sort Str.MetaVar Tree.Tree Match.MatchNode Match.Cut.
Import ListNotations.

(* ---------- strings, association lists ---------- *)
Lemma str_eqb_refl : forall a, str_eqb a a = true.
Proof.
  induction a as [|x a IHa]; cbn; [reflexivity|].
  rewrite N.eqb_refl, IHa. reflexivity.
Qed.

Lemma str_eqb_eq : forall a b, str_eqb a b = true -> a = b.
Proof.
  induction a as [|x a IHa]; intros [|y b] H; cbn in H; try discriminate; [reflexivity|].
  apply andb_true_iff in H. destruct H as [H1 H2].
  apply N.eqb_eq in H1. apply IHa in H2. subst. reflexivity.
Qed.

Lemma lookup_notin : forall A (k : str) (l : list (str * A)),
  ~ In k (map fst l) -> lookup k l = None.
Proof.
  intros A k l. induction l as [|[k' v'] r IHr]; intros Hn; cbn; [reflexivity|].
  destruct (str_eqb k k') eqn:E.
  - apply str_eqb_eq in E. subst. exfalso. apply Hn. cbn. left. reflexivity.
  - apply IHr. intros Hi. apply Hn. cbn. right. exact Hi.
Qed.

Lemma lookup_app : forall A (k : str) (l1 l2 : list (str * A)),
  lookup k (l1 ++ l2) = match lookup k l1 with Some v => Some v | None => lookup k l2 end.
Proof.
  intros A k l1 l2. induction l1 as [|[k' v'] r IHr]; cbn; [reflexivity|].
  destruct (str_eqb k k'); [reflexivity|exact IHr].
Qed.

Lemma upsert_fresh : forall A (k : str) (v : A) (l : list (str * A)),
  lookup k l = None -> upsert k v l = l ++ [(k, v)].
Proof.
  intros A k v l. induction l as [|[k' v'] r IHr]; intros H; cbn in *; [reflexivity|].
  destruct (str_eqb k k'); [discriminate|]. rewrite IHr by exact H. reflexivity.
Qed.

Lemma lookup_in_nodup : forall A (k : str) (v : A) (l : list (str * A)),
  NoDup (map fst l) -> In (k, v) l -> lookup k l = Some v.
Proof.
  intros A k v l. induction l as [|[k' v'] r IHr]; intros Hnd Hin; [destruct Hin|].
  cbn in Hnd. inversion Hnd as [|? ? Hni Hnd']; subst.
  cbn. destruct Hin as [Heq|Hin].
  - inversion Heq; subst. rewrite str_eqb_refl. reflexivity.
  - destruct (str_eqb k k') eqn:E.
    + apply str_eqb_eq in E. subst. exfalso. apply Hni.
      change k' with (fst (k', v)). apply in_map. exact Hin.
    + apply IHr; assumption.
Qed.

Lemma nodup_app_inv : forall A (a b : list A),
  NoDup (a ++ b) -> NoDup a /\ NoDup b /\ (forall k, In k b -> ~ In k a).
Proof.
  intros A a b. induction a as [|x a IHa]; intros H; cbn in *.
  - split; [constructor|]. split; [exact H|]. intros k _ [].
  - inversion H as [|? ? Hni Hnd]; subst. destruct (IHa Hnd) as [Ha [Hb Hd]].
    split; [|split].
    + constructor; [|exact Ha]. intros Hi. apply Hni. apply in_or_app. left. exact Hi.
    + exact Hb.
    + intros k Hk [Heq|Hi]; [subst; apply Hni; apply in_or_app; right; exact Hk|].
      exact (Hd k Hk Hi).
Qed.

(* [fresh l ks]: the keys of ks are pairwise distinct and none is bound in l *)
Definition fresh {A} (l ks : list (str * A)) : Prop :=
  NoDup (map fst ks) /\ forall k, In k (map fst ks) -> lookup k l = None.

Lemma fresh_nil : forall A (l : list (str * A)), fresh l [].
Proof. intros A l. split; [constructor|]. intros k []. Qed.

Lemma fresh_app : forall A (l k1 k2 : list (str * A)),
  fresh l (k1 ++ k2) -> fresh l k1 /\ fresh (l ++ k1) k2.
Proof.
  intros A l k1 k2 [Hnd Hl]. rewrite map_app in Hnd, Hl.
  destruct (nodup_app_inv _ _ _ Hnd) as [H1 [H2 Hd]].
  split; split.
  - exact H1.
  - intros k Hk. apply Hl. apply in_or_app. left. exact Hk.
  - exact H2.
  - intros k Hk. rewrite lookup_app. rewrite (Hl k) by (apply in_or_app; right; exact Hk).
    apply lookup_notin. exact (Hd k Hk).
Qed.

(* environment extension *)
Definition ext (e : env) (ss : list (str * tree)) (ms : list (str * list tree)) : env :=
  {| m_single := m_single e ++ ss; m_multi := m_multi e ++ ms; m_trans := m_trans e |}.

Lemma ext_nil : forall e, ext e [] [] = e.
Proof. intros [a b c]. unfold ext. cbn. rewrite !app_nil_r. reflexivity. Qed.

Lemma ext_ext : forall e s1 m1 s2 m2, ext (ext e s1 m1) s2 m2 = ext e (s1 ++ s2) (m1 ++ m2).
Proof. intros e s1 m1 s2 m2. unfold ext. cbn. rewrite !app_assoc. reflexivity. Qed.

(* ---------- sizes, preorder ---------- *)
Lemma size_eq : forall t, size t = S (sizel (children t)).
Proof.
  intros [i cs]. reflexivity.
Qed.

Lemma size_pos : forall t, 1 <= size t.
Proof. intros t. rewrite size_eq. lia. Qed.

Lemma sizel_cons : forall c cs, sizel (c :: cs) = size c + sizel cs.
Proof. reflexivity. Qed.

Lemma sizel_in : forall c cs, In c cs -> size c <= sizel cs.
Proof.
  intros c cs. induction cs as [|x r IHr]; intros H; [destruct H|].
  rewrite sizel_cons. destruct H as [->|H]; [lia|]. apply IHr in H. lia.
Qed.

Lemma preorder_root : forall t, In t (preorder t).
Proof. intros [i cs]. cbn. left. reflexivity. Qed.

Lemma preorder_child : forall t c n, In c (children t) -> In n (preorder c) -> In n (preorder t).
Proof.
  intros [i cs] c n Hc Hn. cbn [children] in Hc. cbn [preorder]. right.
  induction cs as [|x r IHr]; [destruct Hc|].
  apply in_or_app. destruct Hc as [->|Hc]; [left; exact Hn|right; exact (IHr Hc)].
Qed.

Lemma preorder_inv : forall t n,
  In n (preorder t) -> n = t \/ exists c, In c (children t) /\ In n (preorder c).
Proof.
  intros [i cs] n H. cbn [preorder] in H. destruct H as [H|H]; [left; symmetry; exact H|].
  right. cbn [children]. induction cs as [|x r IHr]; [destruct H|].
  apply in_app_or in H. destruct H as [H|H].
  - exists x. split; [left; reflexivity|exact H].
  - destruct (IHr H) as [c [Hc Hn]]. exists c. split; [right; exact Hc|exact Hn].
Qed.

Scheme CutT_mind := Minimality for CutT Sort Prop
  with CutL_mind := Minimality for CutL Sort Prop.
Combined Scheme Cut_mutind from CutT_mind, CutL_mind.

Section Conv.
Variable mvf : str -> option metavar.
Notation convert := (convert mvf).
Notation node_ok := (node_ok mvf).
Notation CutT := (CutT mvf).
Notation CutL := (CutL mvf).
Notation Cut := (Cut mvf).
Notation all_ok := (all_ok mvf).

(* ---------- convert is what the specification says ---------- *)
Lemma convert_eq : forall src t,
  convert src t =
  match mvf (text_of src t) with
  | Some mv => PMeta mv
  | None =>
      if is_leaf t then PTerm (text_of src t) (named t) (kind t)
      else PInt (kind t) (map (convert src)
                              (filter (fun c => negb (nmissing (info c))) (children t)))
  end.
Proof.
  intros src [i cs]. cbn [Cut.convert]. destruct (mvf (text_of src (T i cs))); [reflexivity|].
  unfold is_leaf. cbn [children].
  match goal with
  | |- context [PInt _ (?F cs)] =>
      assert (Haux : forall l, F l = map (convert src)
                                         (filter (fun c => negb (nmissing (info c))) l))
  end.
  { induction l as [|x r IHr]; [reflexivity|].
    cbn [filter]. destruct (negb (nmissing (info x))); cbn [map]; rewrite <- IHr; reflexivity. }
  destruct cs as [|c0 cs0]; [reflexivity|]. rewrite <- Haux. reflexivity.
Qed.

(* ---------- shape facts about cuts ---------- *)
Lemma cutT_not_ellipsis : forall src t p ss ms, CutT src t p ss ms -> ellipsis_mode p = None.
Proof. intros src t p ss ms H. destruct H; reflexivity. Qed.

Lemma cutL_nil_l : forall src ps ss ms, CutL src [] ps ss ms -> ps = [] /\ ss = [] /\ ms = [].
Proof.
  intros src ps ss ms H. inversion H; subst; auto.
Qed.

Lemma cutL_nil_r : forall src cs ss ms, CutL src cs [] ss ms -> cs = [] /\ ss = [] /\ ms = [].
Proof.
  intros src cs ss ms H. inversion H; subst; auto.
Qed.

Lemma trailing_convert : forall src u,
  trailing_token mvf src u -> convert src u = PTerm (text_of src u) false (kind u).
Proof.
  intros src u [Hn [Hc [_ Hm]]]. rewrite convert_eq, Hm. unfold is_leaf. rewrite Hc, Hn. reflexivity.
Qed.

Lemma skip_trivials_trailing : forall src trailing k,
  Forall (trailing_token mvf src) trailing ->
  skip_trivials (map (convert src) trailing) k = (k + length trailing, []).
Proof.
  intros src trailing. induction trailing as [|u r IHr]; intros k H; cbn [map skip_trivials length].
  - f_equal. lia.
  - inversion H as [|? ? Hu Hr]; subst. rewrite (trailing_convert _ _ Hu). cbn [is_trivial negb].
    rewrite IHr by exact Hr. f_equal. lia.
Qed.

Lemma firstn_run : forall A (run trailing : list A),
  firstn (length (run ++ trailing) - length trailing) (run ++ trailing) = run.
Proof.
  intros A run trailing. rewrite app_length.
  replace (length run + length trailing - length trailing) with (length run + 0) by lia.
  rewrite firstn_app_2. cbn. apply app_nil_r.
Qed.

(* ---------- the main invariant ---------- *)
Lemma cut_run : forall s src fuel,
  (forall t p ss ms e,
      CutT src t p ss ms -> fresh (m_single e) ss -> fresh (m_multi e) ms ->
      4 * size t <= fuel ->
      run fuel s src (RNode p t) (AEnv e) = (ROne MatchedBoth, AEnv (ext e ss ms)))
  /\
  (forall cs ps ss ms e,
      CutL src cs ps ss ms -> cs <> [] -> fresh (m_single e) ss -> fresh (m_multi e) ms ->
      4 * sizel cs + 2 <= fuel ->
      run fuel s src (RLoop ps cs) (AEnv e) = (ROk true, AEnv (ext e ss ms))).
Proof.
  intros s src fuel. induction fuel as [fuel IH] using lt_wf_ind. split.
  - (* RNode *)
    intros t p ss ms e HC Hfs Hfm Hfuel.
    pose proof (size_pos t) as Hpos.
    destruct fuel as [|f]; [lia|]. cbn [run].
    destruct HC as [t x Hnamed | t Hleaf Hok | t ps ss ms Hnl Hok HL].
    + (* hole *)
      cbn [agg_meta match_leaf_meta_var]. rewrite Hnamed. cbn [negb andb].
      unfold env_insert, match_variable.
      destruct Hfs as [_ Hl]. rewrite (Hl x) by (cbn; left; reflexivity).
      cbn [option_map]. rewrite upsert_fresh by (apply Hl; cbn; left; reflexivity).
      unfold ext. rewrite app_nil_r. reflexivity.
    + (* kept leaf *)
      unfold st_match_terminal, kinds_matching. rewrite N.eqb_refl, str_eqb_refl.
      rewrite orb_true_r. cbn [orb andb agg_terminal]. rewrite ext_nil. reflexivity.
    + (* kept internal node *)
      unfold kinds_matching. rewrite N.eqb_refl. cbn [orb].
      rewrite size_eq in Hfuel.
      destruct f as [|f']; [lia|]. cbn [run].
      destruct (children t) as [|c0 cs0] eqn:Ecs; [contradiction|].
      destruct (IH f' ltac:(lia)) as [_ IHL].
      rewrite (IHL (c0 :: cs0) ps ss ms e HL ltac:(discriminate) Hfs Hfm ltac:(lia)).
      reflexivity.
  - (* RLoop *)
    intros cs ps ss ms e HL Hne Hfs Hfm Hfuel.
    destruct fuel as [|f]; [lia|]. cbn [run].
    destruct HL as [ | c cs p ps ss1 ms1 ss2 ms2 HT HL' | r rs trailing y Hnamed Htr].
    + contradiction.
    + (* one child, then the rest *)
      rewrite (cutT_not_ellipsis _ _ _ _ _ HT).
      rewrite sizel_cons in Hfuel. pose proof (size_pos c) as Hpos.
      destruct f as [|f']; [lia|]. cbn [run].
      destruct (IH f' ltac:(lia)) as [IHT IHL].
      destruct (fresh_app _ _ _ _ Hfs) as [Hfs1 Hfs2].
      destruct (fresh_app _ _ _ _ Hfm) as [Hfm1 Hfm2].
      rewrite (IHT c p ss1 ms1 e HT Hfs1 Hfm1 ltac:(lia)).
      cbn [tl].
      destruct ps as [|p2 ps2].
      * apply cutL_nil_r in HL'. destruct HL' as [-> [-> ->]].
        cbn [forallb]. rewrite !app_nil_r. reflexivity.
      * destruct cs as [|c2 cs2].
        { apply cutL_nil_l in HL'. destruct HL' as [HF _]. discriminate. }
        rewrite (IHL (c2 :: cs2) (p2 :: ps2) ss2 ms2 (ext e ss1 ms1) HL' ltac:(discriminate)
                     Hfs2 Hfm2 ltac:(lia)).
        rewrite ext_ext. reflexivity.
    + (* the ellipsis: a run followed by unnamed tokens only *)
      cbn [ellipsis_mode].
      assert (Hins : forall k, k = length trailing ->
                fin (agg_ellipsis src (AEnv e) (Some y) ((r :: rs) ++ trailing) k) (AEnv e)
                = (ROk true, AEnv (ext e [] [(y, r :: rs)]))).
      { intros k ->. cbn [agg_ellipsis]. rewrite firstn_run.
        unfold env_insert_multi, match_multi_var.
        destruct Hfm as [_ Hl]. rewrite (Hl y) by (cbn; left; reflexivity).
        cbn [option_map fin]. rewrite upsert_fresh by (apply Hl; cbn; left; reflexivity).
        unfold ext. rewrite app_nil_r. reflexivity. }
      destruct trailing as [|u tr].
      * cbn [map]. apply Hins. reflexivity.
      * rewrite (skip_trivials_trailing _ _ 0 Htr).
        destruct (map (convert src) (u :: tr)) eqn:Emap; [discriminate|].
        apply Hins. reflexivity.
Qed.

(* fuel supplied by the driver is enough *)
Lemma match_fuel_ge : forall p t, 4 * size t <= match_fuel p t.
Proof. intros p t. unfold match_fuel. lia. Qed.

Lemma cutT_pattern_match : forall s src t p ss ms e,
  CutT src t p ss ms -> fresh (m_single e) ss -> fresh (m_multi e) ms ->
  pattern_match src {| p_node := p; p_root_kind := None; p_strict := s |} t e
  = Matched (ext e ss ms).
Proof.
  intros s src t p ss ms e HC Hfs Hfm. unfold pattern_match. cbn [p_root_kind p_node p_strict].
  destruct (cut_run s src (match_fuel p t)) as [HT _].
  rewrite (HT t p ss ms e HC Hfs Hfm (match_fuel_ge p t)). reflexivity.
Qed.

(* ---------- hole-free: [convert t] is a cut of t ---------- *)
Lemma filter_all_ok : forall (cs : list tree),
  (forall c, In c cs -> nmissing (info c) = false) ->
  filter (fun c => negb (nmissing (info c))) cs = cs.
Proof.
  induction cs as [|x r IHr]; intros H; [reflexivity|]. cbn [filter].
  rewrite (H x) by (left; reflexivity). cbn [negb]. f_equal. apply IHr.
  intros c Hc. apply H. right. exact Hc.
Qed.

Lemma cutL_map : forall src cs,
  (forall c, In c cs -> CutT src c (convert src c) [] []) ->
  CutL src cs (map (convert src) cs) [] [].
Proof.
  intros src cs. induction cs as [|x r IHr]; intros H; cbn [map]; [constructor|].
  change (@nil (str * tree)) with (@nil (str * tree) ++ []).
  change (@nil (str * list tree)) with (@nil (str * list tree) ++ []).
  constructor.
  - apply H. left. reflexivity.
  - apply IHr. intros c Hc. apply H. right. exact Hc.
Qed.

Lemma all_ok_cut : forall src n t, size t <= n -> all_ok src t -> CutT src t (convert src t) [] [].
Proof.
  intros src n. induction n as [|n IHn]; intros t Hsz Hok.
  - pose proof (size_pos t). lia.
  - pose proof (Hok t (preorder_root t)) as Hroot.
    rewrite convert_eq. destruct Hroot as [Hm Hv]. rewrite Hv.
    unfold is_leaf. destruct (children t) as [|c0 cs0] eqn:Ecs.
    + apply CutT_leaf; [exact Ecs|split; assumption].
    + rewrite filter_all_ok.
      2:{ intros c Hc. apply (Hok c). apply (preorder_child t c c); [rewrite Ecs; exact Hc|apply preorder_root]. }
      apply CutT_int; [rewrite Ecs; discriminate|split; assumption|].
      rewrite Ecs. apply cutL_map. intros c Hc. apply IHn.
      * rewrite size_eq, Ecs in Hsz. apply sizel_in in Hc. lia.
      * intros m Hm'. apply Hok. apply (preorder_child t c m); [rewrite Ecs; exact Hc|exact Hm'].
Qed.

(* conversely, a cut that records nothing is [convert] of an all-ok tree *)
Lemma cut_nil_is_convert : forall src,
  (forall t p ss ms, CutT src t p ss ms -> ss = [] -> ms = [] ->
                     p = convert src t /\ all_ok src t) /\
  (forall cs ps ss ms, CutL src cs ps ss ms -> ss = [] -> ms = [] ->
                       ps = map (convert src) cs /\ forall c, In c cs -> all_ok src c).
Proof.
  intros src.
  apply (Cut_mutind mvf src
           (fun t p ss ms => ss = [] -> ms = [] -> p = convert src t /\ all_ok src t)
           (fun cs ps ss ms => ss = [] -> ms = [] ->
                               ps = map (convert src) cs /\ forall c, In c cs -> all_ok src c)).
  - intros t x _ Hs _. discriminate.
  - intros t Hleaf Hok _ _. split.
    + rewrite convert_eq. destruct Hok as [_ Hv]. rewrite Hv. unfold is_leaf. rewrite Hleaf. reflexivity.
    + intros n Hn. apply preorder_inv in Hn. destruct Hn as [->|[c [Hc _]]]; [exact Hok|].
      rewrite Hleaf in Hc. destruct Hc.
  - intros t ps ss ms Hnl Hok _ IHL Hs Hm. destruct (IHL Hs Hm) as [Hps Hall]. split.
    + rewrite convert_eq. destruct Hok as [_ Hv]. rewrite Hv. unfold is_leaf.
      destruct (children t) as [|c0 cs0] eqn:Ecs; [contradiction|].
      rewrite filter_all_ok; [rewrite Hps; reflexivity|].
      intros c Hc. destruct (Hall c Hc c (preorder_root c)) as [Hmiss _]. exact Hmiss.
    + intros n Hn. apply preorder_inv in Hn. destruct Hn as [->|[c [Hc Hn]]]; [exact Hok|].
      exact (Hall c Hc n Hn).
  - intros _ _. split; [reflexivity|]. intros c [].
  - intros c cs p ps ss1 ms1 ss2 ms2 _ IHT _ IHL Hs Hm.
    apply app_eq_nil in Hs. apply app_eq_nil in Hm. destruct Hs as [Hs1 Hs2]. destruct Hm as [Hm1 Hm2].
    destruct (IHT Hs1 Hm1) as [Hp Hokc]. destruct (IHL Hs2 Hm2) as [Hps Hall].
    split; [cbn [map]; rewrite Hp, Hps; reflexivity|].
    intros c' [<-|Hc']; [exact Hokc|exact (Hall c' Hc')].
  - intros r rs trailing y _ _ _ Hm. discriminate.
Qed.

Lemma cutT_nil_iff : forall src t p,
  CutT src t p [] [] <-> (all_ok src t /\ p = convert src t).
Proof.
  intros src t p. split.
  - intros H. destruct (cut_nil_is_convert src) as [HT _].
    destruct (HT t p [] [] H eq_refl eq_refl) as [Hp Hok]. split; assumption.
  - intros [Hok ->]. exact (all_ok_cut src (size t) t (le_n _) Hok).
Qed.

(* general form of (B): any start environment in which the hole names are unbound *)
Lemma cut_matches_env : forall s src t p ss ms e,
  CutT src t p ss ms ->
  NoDup (map fst ss) -> (forall x, In x (map fst ss) -> lookup x (m_single e) = None) ->
  NoDup (map fst ms) -> (forall y, In y (map fst ms) -> lookup y (m_multi e) = None) ->
  pattern_match src {| p_node := p; p_root_kind := None; p_strict := s |} t e
  = Matched {| m_single := m_single e ++ ss; m_multi := m_multi e ++ ms; m_trans := m_trans e |}.
Proof.
  intros s src t p ss ms e HC Hs1 Hs2 Hm1 Hm2.
  exact (cutT_pattern_match s src t p ss ms e HC (conj Hs1 Hs2) (conj Hm1 Hm2)).
Qed.

(* (A) *)
Lemma self_match : forall s src t e,
  (forall n, In n (preorder t) -> nmissing (info n) = false) ->
  (forall n, In n (preorder t) -> mvf (text_of src n) = None) ->
  pattern_match src {| p_node := convert src t; p_root_kind := None; p_strict := s |} t e
  = Matched e.
Proof.
  intros s src t e Hm Hv.
  assert (Hok : all_ok src t) by (intros n Hn; split; [apply Hm|apply Hv]; exact Hn).
  rewrite (cutT_pattern_match s src t (convert src t) [] [] e
             (all_ok_cut src (size t) t (le_n _) Hok) (fresh_nil _ _) (fresh_nil _ _)).
  rewrite ext_nil. reflexivity.
Qed.

(* (B) *)
Lemma cut_matches : forall s src t p ss ms,
  Cut src t p ss ms ->
  exists e',
    pattern_match src {| p_node := p; p_root_kind := None; p_strict := s |} t empty_env = Matched e'
    /\ e' = {| m_single := ss; m_multi := ms; m_trans := [] |}
    /\ (forall x sub, In (x, sub) ss -> lookup x (m_single e') = Some sub)
    /\ (forall y run, In (y, run) ms -> lookup y (m_multi e') = Some run).
Proof.
  intros s src t p ss ms [HC Hnd].
  destruct (nodup_app_inv _ _ _ Hnd) as [Hs [Hm _]].
  exists {| m_single := ss; m_multi := ms; m_trans := [] |}.
  split; [|split; [reflexivity|split]].
  - rewrite (cutT_pattern_match s src t p ss ms empty_env HC).
    + reflexivity.
    + split; [exact Hs|reflexivity].
    + split; [exact Hm|reflexivity].
  - intros x sub Hin. cbn [m_single]. apply lookup_in_nodup; assumption.
  - intros y run Hin. cbn [m_multi]. apply lookup_in_nodup; assumption.
Qed.

End Conv.
