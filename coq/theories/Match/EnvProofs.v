(* C04 (coherence clause) — the pattern matcher [run] only ever replaces a single-capture binding
   after [exact] (= does_node_match_exactly) accepted the new node against the CURRENT binding.

   The statement C04_coherent_stmt of Rule/EvalSpec.v compares the FIRST binding with the LAST one,
   which needs transitivity of [exact]; [exact] is not transitive (it compares nodes without named
   children by text, other nodes by kind and children, and short-cuts on equal ids), so the
   statement is FALSE:
   see [C04_coherent_refuted] (a well-formed document with unique ids).  What is true is the chain
   version [C04_coherent_chain]: the old and the new binding are linked by a chain of pairwise
   [exact] nodes, every link after the first being a node of the matched candidate. *)
From Coq Require Import List NArith ZArith Bool Arith Lia.
From AG Require Import Base.Val Base.Sort Str.MetaVar Str.AnB Tree.Tree Tree.Wf Match.MatchNode
  Match.Cut Match.CutProofs Rule.Rule Rule.Eval Rule.Sem Rule.EvalSpec.
Import ListNotations.

(* ------------------------------------------------------------------ *)
(* 1. the stated property is false                                     *)
(* ------------------------------------------------------------------ *)
Module Counterexample.
  (* source text "x x x " : bytes 0..6 = x ' ' x ' ' x ' ' *)
  Definition src : str := [120; 32; 120; 32; 120; 32]%N.
  Definition mk (id k : N) (nm : bool) (s e : N) : ninfo :=
    {| nid := id; nkind := k; nnamed := nm; ncomment := false; nmissing := false; nfld := 0;
       ns := s; ne := e |}.
  (* [is_named_leaf] = "has no named children".
     a : a leaf "x" (no named children);
     b : inner node of kind 2 whose range is exactly "x", with ONE named child (a leaf "x");
     c : inner node of the same kind over one named child "x", but whose own range is "x "
         (the child does not fill the parent).
     exact a b by text, exact b c by shape (kind + children), not exact a c (text "x" vs "x "). *)
  Definition a  : tree := T (mk 1 1 true 0 1) [].
  Definition b1 : tree := T (mk 4 3 true 2 3) [].
  Definition b  : tree := T (mk 3 2 true 2 3) [b1].
  Definition c1 : tree := T (mk 6 3 true 4 5) [].
  Definition c  : tree := T (mk 5 2 true 4 6) [c1].
  Definition X  : tree := T (mk 2 7 true 2 6) [b; c].
  Definition root : tree := T (mk 0 9 true 0 6) [a; X].
  Definition A : str := [65]%N.
  Definition e0 : env := {| m_single := [(A, a)]; m_multi := []; m_trans := [] |}.
  Definition e1 : env := {| m_single := [(A, c)]; m_multi := []; m_trans := [] |}.
  (* the pattern  "$A $A"  under a node of kind 7 *)
  Definition pat : pattern :=
    {| p_node := PInt 7 [PMeta (Capture A true); PMeta (Capture A true)];
       p_root_kind := None; p_strict := Smart |}.

  Lemma doc_wf : wfb root = true /\ nonzero_widthb root = true /\ ids_unique root.
  Proof.
    split; [vm_compute; reflexivity|]. split; [vm_compute; reflexivity|].
    unfold ids_unique. vm_compute.
    repeat (constructor; [cbn; intuition discriminate|]). constructor.
  Qed.

  Lemma steps_exact : exact src a b = true /\ exact src b c = true /\ exact src a c = false.
  Proof. vm_compute. repeat split. Qed.

  Lemma matched : pattern_match src pat X e0 = Matched e1.
  Proof. vm_compute. reflexivity. Qed.
End Counterexample.

Lemma exact_not_transitive :
  exists src a b c, exact src a b = true /\ exact src b c = true /\ exact src a c = false.
Proof.
  exists Counterexample.src, Counterexample.a, Counterexample.b, Counterexample.c.
  exact Counterexample.steps_exact.
Qed.

Lemma C04_coherent_refuted : ~ C04_coherent_stmt.
Proof.
  intros H.
  pose proof (H Counterexample.src Counterexample.pat Counterexample.X Counterexample.e0
                Counterexample.e1 Counterexample.matched) as Hc.
  destruct (Hc Counterexample.A Counterexample.a eq_refl) as [t' [Hl Hx]].
  vm_compute in Hl. injection Hl as Hl. subst t'.
  vm_compute in Hx. discriminate.
Qed.
Print Assumptions C04_coherent_refuted.

(* ------------------------------------------------------------------ *)
(* 2. the corrected statement: a chain of pairwise-[exact] nodes        *)
(* ------------------------------------------------------------------ *)

(* [exact_chain src P t t']: t = u0, u1, ..., uk = t' with exact src u_i u_{i+1} = true and
   P u_i for every i >= 1 (every node that was ever written to the environment) *)
Inductive exact_chain (src : str) (P : tree -> Prop) : tree -> tree -> Prop :=
| ec_refl t : exact_chain src P t t
| ec_step t u v : exact_chain src P t u -> exact src u v = true -> P v -> exact_chain src P t v.

Definition env_coherent_chain (src : str) (P : tree -> Prop) (e e' : env) : Prop :=
  forall x t, lookup x (m_single e) = Some t ->
    exists t', lookup x (m_single e') = Some t' /\ exact_chain src P t t'.

Definition C04_coherent_chain_stmt : Prop :=
  forall src p c e e',
    pattern_match src p c e = Matched e' ->
    env_coherent_chain src (fun v => In v (preorder c)) e e'.

Lemma exact_refl : forall src t, exact src t t = true.
Proof. intros src [i cs]. cbn [exact]. rewrite N.eqb_refl. reflexivity. Qed.

Lemma exact_chain_trans : forall src P t u v,
  exact_chain src P t u -> exact_chain src P u v -> exact_chain src P t v.
Proof.
  intros src P t u v H1 H2. induction H2 as [u|u w v H2 IH Hx Hp]; [exact H1|].
  exact (ec_step src P t w v (IH H1) Hx Hp).
Qed.

Lemma exact_chain_end : forall src P t u, exact_chain src P t u -> u = t \/ P u.
Proof. intros src P t u H. destruct H as [t|t u v _ _ Hp]; [left; reflexivity|right; exact Hp]. Qed.

Lemma lookup_upsert : forall A (k : str) (v : A) (l : list (str * A)) x,
  lookup x (upsert k v l) = if str_eqb x k then Some v else lookup x l.
Proof.
  intros A k v l x. induction l as [|[k' v'] r IHr]; cbn [upsert lookup].
  - destruct (str_eqb x k); reflexivity.
  - destruct (str_eqb k k') eqn:Ekk.
    + apply str_eqb_eq in Ekk. subst k'. cbn [lookup]. destruct (str_eqb x k); reflexivity.
    + cbn [lookup]. destruct (str_eqb x k') eqn:Exk'.
      * destruct (str_eqb x k) eqn:Exk; [|reflexivity].
        apply str_eqb_eq in Exk. apply str_eqb_eq in Exk'. subst.
        rewrite str_eqb_refl in Ekk. discriminate.
      * exact IHr.
Qed.

Lemma preorder_trans : forall n c, size c <= n ->
  forall a b, In b (preorder c) -> In a (preorder b) -> In a (preorder c).
Proof.
  induction n as [|n IHn]; intros c Hs a b Hb Ha.
  - pose proof (size_pos c). lia.
  - destruct (preorder_inv c b Hb) as [->|[x [Hx Hbx]]]; [exact Ha|].
    apply (preorder_child c x a Hx).
    assert (Hsz : size x <= n).
    { pose proof (sizel_in x (children c) Hx). rewrite size_eq in Hs. lia. }
    exact (IHn x Hsz a b Hbx Ha).
Qed.

Lemma preorder_closed : forall c t ch,
  In t (preorder c) -> In ch (children t) -> In ch (preorder c).
Proof.
  intros c t ch Ht Hch. apply (preorder_trans (size c) c (le_n _) ch t Ht).
  exact (preorder_child t ch ch Hch (preorder_root ch)).
Qed.

Section Coherence.
Variable src : str.
Variable P : tree -> Prop.
Hypothesis P_closed : forall t ch, P t -> In ch (children t) -> P ch.

Definition env_le (e e' : env) : Prop := env_coherent_chain src P e e'.

Lemma env_le_refl : forall e, env_le e e.
Proof. intros e x t H. exists t. split; [exact H|constructor]. Qed.

Lemma env_le_trans : forall e1 e2 e3, env_le e1 e2 -> env_le e2 e3 -> env_le e1 e3.
Proof.
  intros e1 e2 e3 H12 H23 x t H.
  destruct (H12 x t H) as [t2 [Hl2 Hc2]].
  destruct (H23 x t2 Hl2) as [t3 [Hl3 Hc3]].
  exists t3. split; [exact Hl3|]. exact (exact_chain_trans src P t t2 t3 Hc2 Hc3).
Qed.

Definition agg_le (a a' : agg) : Prop :=
  match a, a' with
  | AEnv e, AEnv e' => env_le e e'
  | AEnd _, AEnd _ => True
  | _, _ => False
  end.

Lemma agg_le_refl : forall a, agg_le a a.
Proof. intros [e|n]; cbn; [apply env_le_refl|exact I]. Qed.

Lemma agg_le_trans : forall a b c, agg_le a b -> agg_le b c -> agg_le a c.
Proof.
  intros [e1|n1] [e2|n2] [e3|n3] H1 H2; cbn in *; try contradiction; try exact I.
  exact (env_le_trans e1 e2 e3 H1 H2).
Qed.

(* the only writer of single bindings *)
Lemma env_insert_le : forall e id t e',
  P t -> env_insert src e id t = Some e' -> env_le e e'.
Proof.
  intros e id t e' Hp H. unfold env_insert in H.
  destruct (match_variable src e id t) eqn:Emv; [|discriminate].
  injection H as H. subst e'. intros x u Hl. cbn [m_single].
  rewrite lookup_upsert. destruct (str_eqb x id) eqn:Ex.
  - apply str_eqb_eq in Ex. subst x. exists t. split; [reflexivity|].
    unfold match_variable in Emv. rewrite Hl in Emv.
    exact (ec_step src P u u t (ec_refl src P u) Emv Hp).
  - exists u. split; [exact Hl|constructor].
Qed.

Lemma env_insert_multi_le : forall e id ts e',
  env_insert_multi src e id ts = Some e' -> env_le e e'.
Proof.
  intros e id ts e' H. unfold env_insert_multi in H.
  destruct (match_multi_var src e id ts); [|discriminate].
  injection H as H. subst e'. intros x u Hl. cbn [m_single].
  exists u. split; [exact Hl|constructor].
Qed.

Lemma agg_terminal_le : forall a c a', agg_terminal a c = Some a' -> agg_le a a'.
Proof.
  intros [e|n] c a' H; cbn in H; injection H as H; subst a'; cbn; [apply env_le_refl|exact I].
Qed.

Lemma agg_meta_le : forall a mv c a', P c -> agg_meta src a mv c = Some a' -> agg_le a a'.
Proof.
  intros [e|n] mv c a' Hp H; cbn [agg_meta] in H.
  - destruct (match_leaf_meta_var src mv c e) as [e'|] eqn:Em; cbn [option_map] in H; [|discriminate].
    injection H as H. subst a'. cbn [agg_le].
    destruct mv as [name nm|nm| |name]; cbn [match_leaf_meta_var] in Em.
    + destruct (nm && negb (named c)); [discriminate|]. exact (env_insert_le e name c e' Hp Em).
    + destruct (nm && negb (named c)); [discriminate|]. injection Em as Em. subst e'. apply env_le_refl.
    + injection Em as Em. subst e'. apply env_le_refl.
    + exact (env_insert_le e name c e' Hp Em).
  - injection H as H. subst a'. exact I.
Qed.

Lemma agg_ellipsis_le : forall a name nodes k a',
  agg_ellipsis src a name nodes k = Some a' -> agg_le a a'.
Proof.
  intros [e|n] name nodes k a' H; cbn [agg_ellipsis] in H.
  - destruct name as [v|].
    + destruct (env_insert_multi src e v (firstn (length nodes - k) nodes)) as [e'|] eqn:Ei;
        cbn [option_map] in H; [|discriminate].
      injection H as H. subst a'. exact (env_insert_multi_le e v _ e' Ei).
    + injection H as H. subst a'. apply agg_le_refl.
  - destruct (rev nodes) as [|x r]; [discriminate|]. injection H as H. subst a'. exact I.
Qed.

(* every candidate node of a request satisfies P *)
Definition req_ok (r : req) : Prop :=
  match r with
  | RNode _ c => P c
  | RList _ cs | RLoop _ cs | RSkip _ cs => Forall P cs
  | RLook _ _ _ _ cs => Forall P cs
  end.

Lemma Forall_children : forall t, P t -> Forall P (children t).
Proof. intros t Hp. apply Forall_forall. intros ch Hch. exact (P_closed t ch Hp Hch). Qed.

Ltac scrut T :=
  lazymatch T with
  | match ?X with _ => _ end => scrut X
  | _ => T
  end.
Ltac step :=
  lazymatch goal with
  | |- (?L = _) -> _ =>
    lazymatch L with
    | match ?X with _ => _ end =>
        let Y := scrut X in
        destruct Y eqn:?; cbn [tl]
    end
  end.
Ltac steps H := revert H; repeat step; intro H.

Ltac ok_tac :=
  cbn [req_ok tl] in *;
  repeat match goal with
  | H : Forall P (_ :: _) |- _ =>
      let H1 := fresh "Hp" in let H2 := fresh "Hf" in
      pose proof (Forall_inv H) as H1; pose proof (Forall_inv_tail H) as H2; clear H
  end;
  first [ assumption | apply Forall_children; assumption | constructor; assumption ].

Ltac chain :=
  first [ assumption
        | apply agg_le_refl
        | match goal with
          | H : agg_le ?a ?b |- agg_le ?a ?c => apply (agg_le_trans a b c H); chain
          end ].

Lemma run_le : forall s fuel r a res a',
  req_ok r -> run fuel s src r a = (res, a') -> agg_le a a'.
Proof.
  intros s. induction fuel as [|f IH]; intros r a res a' Hok H.
  - cbn [run] in H. injection H as ? ?; subst. apply agg_le_refl.
  - cbn [run] in H. unfold fin in H.
    destruct r as [g c|gs cs|gs cs|name mrev skipped gs cs|gs cs]; cbn [req_ok] in Hok.
    all: steps H; subst; try discriminate.
    all: repeat match goal with
         | E : run _ _ _ ?r' ?a1 = (_, ?a2) |- _ =>
             assert (agg_le a1 a2) by (eapply (IH r' a1); [|exact E]; ok_tac); clear E
         | E : agg_meta _ ?a1 _ ?c = Some ?a2 |- _ =>
             assert (agg_le a1 a2) by (eapply (agg_meta_le a1); [|exact E]; ok_tac); clear E
         | E : agg_terminal ?a1 _ = Some ?a2 |- _ =>
             pose proof (agg_terminal_le _ _ _ E); clear E
         | E : agg_ellipsis _ ?a1 _ _ _ = Some ?a2 |- _ =>
             pose proof (agg_ellipsis_le _ _ _ _ _ E); clear E
         end.
    all: try (injection H as ? ?; subst).
    all: try chain.
    all: try (match goal with
              | H : run _ _ _ ?r' ?a1 = (_, ?a2) |- _ =>
                  apply (agg_le_trans _ a1 _); [chain|eapply (IH r' a1); [|exact H]; ok_tac]
              end).
Qed.

Lemma pattern_match_le : forall p c e e',
  P c -> pattern_match src p c e = Matched e' -> env_le e e'.
Proof.
  intros p c e e' Hp H. unfold pattern_match in H.
  destruct (run (match_fuel (p_node p) c) (p_strict p) src (RNode (p_node p) c) (AEnv e))
    as [rs a'] eqn:Er.
  pose proof (run_le (p_strict p) _ (RNode (p_node p) c) (AEnv e) rs a' Hp Er) as Hle.
  steps H; subst; try discriminate; injection H as H; subst; exact Hle.
Qed.

End Coherence.

Lemma C04_coherent_chain : C04_coherent_chain_stmt.
Proof.
  intros src p c e e' H.
  apply (pattern_match_le src (fun v => In v (preorder c))) with (p := p) (c := c).
  - intros t ch Ht Hch. exact (preorder_closed c t ch Ht Hch).
  - apply preorder_root.
  - exact H.
Qed.
Print Assumptions C04_coherent_chain.

(* ------------------------------------------------------------------ *)
(* 3. consequences                                                      *)
(* ------------------------------------------------------------------ *)

(* the stated conclusion holds as soon as [exact] composes along the nodes of the candidate *)
Definition exact_composes_on (src : str) (c : tree) : Prop :=
  forall t u v, In u (preorder c) -> In v (preorder c) ->
    exact src t u = true -> exact src u v = true -> exact src t v = true.

Definition C04_coherent_partial_stmt : Prop :=
  forall src p c e e',
    exact_composes_on src c ->
    pattern_match src p c e = Matched e' -> env_coherent_ext src e e'.

Lemma chain_exact : forall src c t t',
  exact_composes_on src c ->
  exact_chain src (fun v => In v (preorder c)) t t' -> exact src t t' = true.
Proof.
  intros src c t t' Htr Hch.
  induction Hch as [t|t u v Hch IHc Hx Hp]; [apply exact_refl|].
  destruct (exact_chain_end _ _ _ _ Hch) as [->|Hu]; [exact Hx|].
  exact (Htr t u v Hu Hp IHc Hx).
Qed.

Lemma C04_coherent_partial : C04_coherent_partial_stmt.
Proof.
  intros src p c e e' Htr H x t Hl.
  destruct (C04_coherent_chain src p c e e' H x t Hl) as [t' [Hl' Hch]].
  exists t'. split; [exact Hl'|]. exact (chain_exact src c t t' Htr Hch).
Qed.
Print Assumptions C04_coherent_partial.

(* the same with an EXECUTABLE hypothesis: [exact] composes from every node bound in [e] along
   the nodes of the candidate (a finite check over bindings x preorder x preorder) *)
Definition exact_composes_b (src : str) (e : env) (c : tree) : bool :=
  forallb (fun t =>
    forallb (fun u =>
      forallb (fun v => implb (exact src t u && exact src u v) (exact src t v)) (preorder c))
      (preorder c))
    (map snd (m_single e)).

Definition C04_coherent_partial_b_stmt : Prop :=
  forall src p c e e',
    exact_composes_b src e c = true ->
    pattern_match src p c e = Matched e' -> env_coherent_ext src e e'.

Lemma lookup_in_snd : forall A (k : str) (l : list (str * A)) v,
  lookup k l = Some v -> In v (map snd l).
Proof.
  intros A k l v. induction l as [|[k' v'] r IHr]; cbn [lookup map snd]; intros H; [discriminate|].
  destruct (str_eqb k k'); [injection H as H; left; exact H|right; exact (IHr H)].
Qed.

Lemma C04_coherent_partial_b : C04_coherent_partial_b_stmt.
Proof.
  intros src p c e e' Hb H x t Hl.
  destruct (C04_coherent_chain src p c e e' H x t Hl) as [t' [Hl' Hch]].
  exists t'. split; [exact Hl'|].
  unfold exact_composes_b in Hb. rewrite forallb_forall in Hb.
  pose proof (Hb t (lookup_in_snd _ _ _ _ Hl)) as Ht. rewrite forallb_forall in Ht.
  clear Hb Hl Hl' H.
  induction Hch as [t|t u v Hch IHc Hx Hp]; [apply exact_refl|].
  destruct (exact_chain_end _ _ _ _ Hch) as [->|Hu]; [exact Hx|].
  pose proof (Ht u Hu) as Hu'. rewrite forallb_forall in Hu'.
  pose proof (Hu' v Hp) as Hv. rewrite (IHc Ht), Hx in Hv. cbn in Hv. exact Hv.
Qed.
Print Assumptions C04_coherent_partial_b.

(* the counterexample violates exactly this check *)
Lemma counterexample_fails_check :
  exact_composes_b Counterexample.src Counterexample.e0 Counterexample.X = false.
Proof. vm_compute. reflexivity. Qed.

(* in particular a binding is never lost *)
Lemma C04_bindings_kept : forall src p c e e' x t,
  pattern_match src p c e = Matched e' ->
  lookup x (m_single e) = Some t -> exists t', lookup x (m_single e') = Some t'.
Proof.
  intros src p c e e' x t H Hl.
  destruct (C04_coherent_chain src p c e e' H x t Hl) as [t' [Hl' _]]. exists t'. exact Hl'.
Qed.
Print Assumptions C04_bindings_kept.
