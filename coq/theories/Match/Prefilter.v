(* Model of Pattern::fixed_string (crates/core/src/matcher/pattern.rs) and of the literal prefilter
   of the CLI (crates/cli/src/utils/mod.rs: filter_file_pattern): a file is searched only if its
   text contains the pattern's fixed string. *)
From Coq Require Import List NArith ZArith Bool Arith.
From AG Require Import Base.Val Base.Sort Str.MetaVar Tree.Tree Match.MatchNode.
Import ListNotations.

(* longest terminal text, the first one among equally long ones *)
Fixpoint fixed_node (named_only : bool) (p : pnode) : str :=
  match p with
  | PTerm text nm _ => if named_only && negb nm then [] else text
  | PMeta _ => []
  | PInt _ cs =>
      (fix go (l : list pnode) (longest : str) : str :=
         match l with
         | [] => longest
         | x :: r => let cur := fixed_node named_only x in
                     go r (if Nat.leb (length cur) (length longest) then longest else cur)
         end) cs []
  end.

Definition fixed_string (p : pattern) : str :=
  match p_strict p with
  | Signature => []
  | Ast | Relaxed => fixed_node true (p_node p)
  | Cst | Smart => fixed_node false (p_node p)
  end.

Fixpoint prefix_of (p s : str) : bool :=
  match p, s with
  | [], _ => true
  | a :: p', b :: s' => N.eqb a b && prefix_of p' s'
  | _ :: _, [] => false
  end.
Fixpoint substr (pat s : str) : bool :=
  prefix_of pat s || match s with [] => false | _ :: r => substr pat r end.

(* filter_file_pattern: the file is kept iff the fixed string is empty or occurs in the file *)
Definition prefilter_keeps (p : pattern) (file : str) : bool :=
  match fixed_string p with [] => true | f => substr f file end.
