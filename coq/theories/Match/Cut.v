(* C02 — definitions only.
   [convert]  : model of convert_node_to_pattern (crates/core/src/matcher/pattern.rs)
   [CutT/CutL]: "the pattern is [convert] of the tree, except at the recorded holes / runs"
   [Cut]      : CutT + all recorded names pairwise distinct.

   The meta-variable recogniser (Language::extract_meta_var applied to the node's text) is the
   Section variable [mvf]; after the section every definition/theorem is [forall mvf, ...]. *)
From Coq Require Import List NArith Bool Arith.
From AG Require Import Base.Val Base.Sort Str.MetaVar Tree.Tree Match.MatchNode.
Import ListNotations.

Section Conv.
Variable mvf : str -> option metavar.

(* convert_node_to_pattern.  Structural recursion through a nested [fix] over the child list
   (same shape as [size] in Tree.v); [convert_eq] in CutProofs.v shows it is
     match mvf (text_of src t) with
     | Some mv => PMeta mv
     | None => if is_leaf t then PTerm (text_of src t) (named t) (kind t)
               else PInt (kind t) (map (convert src)
                                       (filter (fun c => negb (nmissing (info c))) (children t)))
     end. *)
Fixpoint convert (src : str) (t : tree) : pnode :=
  match mvf (text_of src t) with
  | Some mv => PMeta mv
  | None =>
      match t with
      | T _ [] => PTerm (text_of src t) (named t) (kind t)
      | T _ cs =>
          PInt (kind t)
               ((fix cl (l : list tree) : list pnode :=
                   match l with
                   | [] => []
                   | x :: r => if negb (nmissing (info x)) then convert src x :: cl r else cl r
                   end) cs)
      end
  end.

(* the per-node side condition of C02: the node is not MISSING and its own text is not a
   meta-variable spelling *)
Definition node_ok (src : str) (n : tree) : Prop :=
  nmissing (info n) = false /\ mvf (text_of src n) = None.

(* an unnamed token that is kept verbatim after an ellipsis *)
Definition trailing_token (src : str) (u : tree) : Prop :=
  named u = false /\ children u = [] /\ node_ok src u.

(* [CutT src t p singles multis]:
     - CutT_hole : the whole (NAMED) subtree t is replaced by $x; records x |-> t.
                   Nothing is assumed about the nodes inside t.
     - CutT_leaf / CutT_int : t is kept; it must satisfy [node_ok] (these two constructors are
                   exactly "the nodes that are NOT inside a replaced subtree"), and its pattern is
                   what [convert] produces, children being cut recursively, position by position.
   [CutL src cs ps singles multis] for child lists:
     - CutL_cons : first child cut on its own, rest of the list cut recursively
                   (holes at different positions are therefore non-overlapping by construction);
     - CutL_run  : the list is  (r :: rs) ++ trailing  where r is NAMED, and [trailing] consists of
                   unnamed tokens (leaves) only; the run r :: rs is replaced by $$$y and the trailing
                   tokens are kept ([convert]ed).  At most one ellipsis per child list, since the
                   constructor ends the list.  Records y |-> r :: rs: the model binds y to the RAW
                   run, unnamed separators inside it included, trailing tokens excluded
                   (agg_ellipsis drops the [skipped] trailing candidates).
   The recorded lists are in left-to-right pre-order of the holes. *)
Inductive CutT (src : str) : tree -> pnode -> list (str * tree) -> list (str * list tree) -> Prop :=
| CutT_hole : forall t x,
    named t = true ->
    CutT src t (PMeta (Capture x true)) [(x, t)] []
| CutT_leaf : forall t,
    children t = [] -> node_ok src t ->
    CutT src t (PTerm (text_of src t) (named t) (kind t)) [] []
| CutT_int : forall t ps ss ms,
    children t <> [] -> node_ok src t ->
    CutL src (children t) ps ss ms ->
    CutT src t (PInt (kind t) ps) ss ms
with CutL (src : str) : list tree -> list pnode -> list (str * tree) -> list (str * list tree) -> Prop :=
| CutL_nil : CutL src [] [] [] []
| CutL_cons : forall c cs p ps ss1 ms1 ss2 ms2,
    CutT src c p ss1 ms1 ->
    CutL src cs ps ss2 ms2 ->
    CutL src (c :: cs) (p :: ps) (ss1 ++ ss2) (ms1 ++ ms2)
| CutL_run : forall r rs trailing y,
    named r = true ->
    Forall (trailing_token src) trailing ->
    CutL src ((r :: rs) ++ trailing)
         (PMeta (MultiCapture y) :: map (convert src) trailing)
         [] [(y, r :: rs)].

(* The C02 relation: structural cut + all hole names (single and multi) pairwise distinct. *)
Definition Cut (src : str) (t : tree) (p : pnode)
           (singles : list (str * tree)) (multis : list (str * list tree)) : Prop :=
  CutT src t p singles multis /\ NoDup (map fst singles ++ map fst multis).

(* every node of the tree satisfies the side condition *)
Definition all_ok (src : str) (t : tree) : Prop :=
  forall n, In n (preorder t) -> node_ok src n.

End Conv.
