(* C03 — proofs.  Two inductions on the fuel over ALL five requests of [run]:
   [sound_all] (AEnv aggregator: every success is justified by an alignment) and
   [len_all]   (AEnd aggregator: the recorded end is the initial one or the end of a node in the
                pre-order of one of the candidates handed to the request). *)
From Coq Require Import List NArith ZArith Bool Arith Lia.
From AG Require Import Base.Val Base.Sort Str.MetaVar Tree.Tree Tree.Wf Match.MatchNode Match.Align
  Match.AlignSpec.
Import ListNotations.

(* ---------- small generic facts ---------- *)
Lemma ap_str_eqb_eq : forall a b, str_eqb a b = true -> a = b.
Proof.
  induction a as [|x a IHa]; intros [|y b] H; cbn in H; try discriminate; [reflexivity|].
  apply andb_true_iff in H. destruct H as [H1 H2].
  apply N.eqb_eq in H1. apply IHa in H2. subst. reflexivity.
Qed.

Lemma forallb_imp : forall A (p q : A -> bool) l,
  (forall x, p x = true -> q x = true) -> forallb p l = true -> forallb q l = true.
Proof.
  intros A p q l Hpq. induction l as [|x r IHr]; intros H; [reflexivity|].
  cbn [forallb] in *. apply andb_true_iff in H. destruct H as [H1 H2].
  rewrite (Hpq x H1), (IHr H2). reflexivity.
Qed.

Lemma ap_size_eq : forall t, size t = S (sizel (children t)).
Proof. intros [i cs]. reflexivity. Qed.

Lemma ap_sizel_in : forall c cs, In c cs -> size c <= sizel cs.
Proof.
  intros c cs. induction cs as [|x r IHr]; intros H; [destruct H|].
  change (sizel (x :: r)) with (size x + sizel r).
  destruct H as [->|H]; [lia|]. apply IHr in H. lia.
Qed.

Lemma ap_preorder_root : forall t, In t (preorder t).
Proof. intros [i cs]. cbn. left. reflexivity. Qed.

Lemma ap_preorder_child : forall t c n, In c (children t) -> In n (preorder c) -> In n (preorder t).
Proof.
  intros [i cs] c n Hc Hn. cbn [children] in Hc. cbn [preorder]. right.
  induction cs as [|x r IHr]; [destruct Hc|].
  apply in_or_app. destruct Hc as [->|Hc]; [left; exact Hn|right; exact (IHr Hc)].
Qed.

Lemma ap_preorder_inv : forall t n,
  In n (preorder t) -> n = t \/ exists c, In c (children t) /\ In n (preorder c).
Proof.
  intros [i cs] n H. cbn [preorder] in H. destruct H as [H|H]; [left; symmetry; exact H|].
  right. cbn [children]. induction cs as [|x r IHr]; [destruct H|].
  apply in_app_or in H. destruct H as [H|H].
  - exists x. split; [left; reflexivity|exact H].
  - destruct (IHr H) as [c [Hc Hn]]. exists c. split; [right; exact Hc|exact Hn].
Qed.

(* ---------- unfolding of the RSkip request with its local [tail] closure named ---------- *)
Definition tailf (f : nat) (s : strictness) (src : str) (gs' : list pnode) (cs' : list tree) (a' : agg)
  : res * agg :=
  match gs' with
  | [] => (ROk (forallb (should_skip_trailing s) cs'), a')
  | _ :: gs1 =>
      let cs1 := tl cs' in
      match gs1 with
      | [] => (ROk (forallb (should_skip_trailing s) cs1), a')
      | _ => match cs1 with
             | [] => (ROk false, a')
             | _ => run f s src (RLoop gs1 cs1) a'
             end
      end
  end.

Lemma run_RSkip : forall f s src gs cs a,
  run (S f) s src (RSkip gs cs) a =
  match cs with
  | [] => if should_skip_goal s gs then tailf f s src [] [] a else (ROk false, a)
  | c :: cs1 =>
      match gs with
      | [] => (ROk false, a)
      | g :: gs1 =>
          match run f s src (RNode g c) a with
          | (ROne MatchedBoth, a') => tailf f s src gs cs a'
          | (ROne SkipGoal, a') =>
              match gs1 with
              | [] => tailf f s src [] cs a'
              | _ => run f s src (RSkip gs1 cs) a'
              end
          | (ROne SkipBoth, a') =>
              match gs1 with
              | [] => tailf f s src [] cs1 a'
              | _ => run f s src (RSkip gs1 cs1) a'
              end
          | (ROne SkipCandidate, a') => run f s src (RSkip gs cs1) a'
          | (ROne NoMatch, a') => (ROk false, a')
          | (_, a') => (RFuel, a')
          end
      end
  end.
Proof. reflexivity. Qed.

(* ---------- facts about the strictness tables ---------- *)
Definition node_post (s : strictness) (src : str) (g : pnode) (c : tree) (o : res) : Prop :=
  match o with
  | ROne MatchedBoth => Aligned s src g c
  | ROne SkipGoal => may_stay_unmatched g = true
  | ROne SkipCandidate => cand_skippable s c = true
  | ROne SkipBoth => may_stay_unmatched g = true /\ cand_skippable s c = true
  | _ => True
  end.

Lemma st_term_post : forall s src nm text k c,
  node_post s src (PTerm text nm k) c (ROne (st_match_terminal s src nm text k c)).
Proof.
  intros s src nm text k c.
  unfold st_match_terminal, skip_comment_or_unnamed, node_post, cand_skippable, may_stay_unmatched.
  destruct (kinds_matching k (kind c)) eqn:Ek; destruct nm;
    destruct (str_eqb text (text_of src c)) eqn:Et;
    destruct s; destruct (named c); destruct (is_comment c); cbn;
    try reflexivity; try exact I; try (split; reflexivity);
    (apply A_term; [exact Ek|]);
    first [ left; reflexivity
          | right; left; reflexivity
          | right; right; apply ap_str_eqb_eq; exact Et ].
Qed.

Lemma leaf_hole_ok : forall src mv c e e',
  match_leaf_meta_var src mv c e = Some e' -> hole_ok mv c = true.
Proof.
  intros src mv c e e' H. destruct mv as [name nm|nm| |name]; cbn [hole_ok]; try reflexivity;
    cbn [match_leaf_meta_var] in H; destruct nm; destruct (named c); cbn in *;
    try reflexivity; discriminate H.
Qed.

Lemma ellipsis_mode_is : forall g n, ellipsis_mode g = Some n -> is_ellipsis g = true.
Proof. intros [[nm b|b| |nm]|t b k|k l] n H; cbn in *; try discriminate; reflexivity. Qed.

Lemma skip_trivials_spec : forall gs k k' gs2,
  skip_trivials gs k = (k', gs2) -> exists tr, gs = tr ++ gs2 /\ forallb is_trivial tr = true.
Proof.
  induction gs as [|g r IHr]; intros k k' gs2 H; cbn [skip_trivials] in H.
  - inversion H; subst. exists []. split; reflexivity.
  - destruct (is_trivial g) eqn:Eg.
    + destruct (IHr _ _ _ H) as [tr [-> Htr]]. exists (g :: tr). split; [reflexivity|].
      cbn [forallb]. rewrite Eg, Htr. reflexivity.
    + inversion H; subst. exists []. split; reflexivity.
Qed.

Lemma trivial_may_stay : forall g, is_trivial g = true -> may_stay_unmatched g = true.
Proof. intros [mv|t nm k|k l] H; cbn in *; [reflexivity|exact H|discriminate]. Qed.

Lemma goal_skippable_may_stay : forall s p, goal_skippable s p = true -> may_stay_unmatched p = true.
Proof.
  intros s p H. destruct p as [mv|t nm k|k l]; [reflexivity| |];
    destruct s; cbn in *; try discriminate; exact H.
Qed.

Lemma trailing_one : forall s c,
  should_skip_trailing s c = true -> s = Smart \/ cand_skippable s c = true.
Proof.
  intros s c H. destruct s; cbn in *; try discriminate;
    [left; reflexivity|right; exact H|right; exact H].
Qed.

Lemma strictness_eq_dec : forall s, {s = Smart} + {s <> Smart}.
Proof. intros s. destruct s; first [left; reflexivity|right; discriminate]. Qed.

Lemma trailing_done : forall s cs,
  forallb (should_skip_trailing s) cs = true -> s = Smart \/ forallb (cand_skippable s) cs = true.
Proof.
  intros s cs H. destruct (strictness_eq_dec s) as [E|E]; [left; exact E|right].
  revert H. apply forallb_imp. intros x Hx. destruct (trailing_one s x Hx) as [F|F]; [contradiction|exact F].
Qed.

Lemma AlignedL_skip_goals : forall s src tr gs cs,
  forallb may_stay_unmatched tr = true -> AlignedL s src gs cs -> AlignedL s src (tr ++ gs) cs.
Proof.
  intros s src tr gs cs. induction tr as [|g r IHr]; intros H HA; [exact HA|].
  cbn [forallb] in H. apply andb_true_iff in H. destruct H as [H1 H2].
  cbn [app]. apply AL_skip_goal; [exact H1|]. apply IHr; assumption.
Qed.

Lemma AlignedL_nil_nil : forall s src, AlignedL s src [] [].
Proof. intros s src. apply AL_done. right. reflexivity. Qed.

Lemma skippable_all_aligned : forall s src gs,
  should_skip_goal s gs = true -> AlignedL s src gs [].
Proof.
  intros s src gs H. rewrite <- (app_nil_r gs). apply AlignedL_skip_goals; [|apply AlignedL_nil_nil].
  revert H. unfold should_skip_goal. apply forallb_imp. apply goal_skippable_may_stay.
Qed.

(* ---------- the AEnv aggregator stays an AEnv ---------- *)
Definition is_env (a : agg) : Prop := exists e, a = AEnv e.

Lemma is_env_env : forall e, is_env (AEnv e).
Proof. intros e. exists e. reflexivity. Qed.

Lemma agg_ellipsis_env : forall src e name cs k a',
  agg_ellipsis src (AEnv e) name cs k = Some a' -> is_env a'.
Proof.
  intros src e name cs k a' H. cbn [agg_ellipsis] in H. destruct name as [v|].
  - destruct (env_insert_multi src e v (firstn (length cs - k) cs)) as [e1|]; cbn [option_map] in H;
      inversion H; subst. apply is_env_env.
  - inversion H; subst. apply is_env_env.
Qed.

Lemma fin_env : forall src e name cs k o a',
  fin (agg_ellipsis src (AEnv e) name cs k) (AEnv e) = (o, a') -> is_env a'.
Proof.
  intros src e name cs k o a' H.
  destruct (agg_ellipsis src (AEnv e) name cs k) as [a1|] eqn:Ea; cbn [fin] in H; inversion H; subst.
  - eapply agg_ellipsis_env; eassumption.
  - apply is_env_env.
Qed.

(* ---------- the soundness invariant over all requests ---------- *)
Definition post (s : strictness) (src : str) (r : req) (o : res) : Prop :=
  match r with
  | RNode g c => node_post s src g c o
  | RList gs cs | RLoop gs cs | RSkip gs cs => o = ROk true -> AlignedL s src gs cs
  | RLook _ _ _ gs cs =>
      o = ROk true -> exists rn rest, cs = rn ++ rest /\ AlignedL s src gs rest
  end.

Definition sound_at (s : strictness) (src : str) (f : nat) : Prop :=
  forall r e o a', run f s src r (AEnv e) = (o, a') -> is_env a' /\ post s src r o.

Lemma tail_sound : forall s src f, sound_at s src f ->
  forall gs' cs' e o a',
  tailf f s src gs' cs' (AEnv e) = (o, a') ->
  is_env a' /\
  (o = ROk true ->
   match gs' with
   | [] => s = Smart \/ forallb (cand_skippable s) cs' = true
   | _ :: gs1 => AlignedL s src gs1 (tl cs')
   end).
Proof.
  intros s src f IH gs' cs' e o a' H. unfold tailf in H. destruct gs' as [|g gs1].
  - inversion H; subst. split; [apply is_env_env|]. intros Ho. injection Ho as Ho'.
    apply trailing_done. exact Ho'.
  - cbv zeta in H. destruct gs1 as [|g1 gs1'].
    + inversion H; subst. split; [apply is_env_env|]. intros Ho. injection Ho as Ho'.
      apply AL_done. apply trailing_done. exact Ho'.
    + destruct (tl cs') as [|c1 cs1'] eqn:Etl.
      * inversion H; subst. split; [apply is_env_env|discriminate].
      * apply IH in H. exact H.
Qed.

Ltac fail_case H := inversion H; subst; split; [apply is_env_env|discriminate].

Lemma sound_all : forall s src fuel, sound_at s src fuel.
Proof.
  intros s src fuel. induction fuel as [|f IH]; intros r e o a' H.
  - cbn [run] in H. inversion H; subst. split; [apply is_env_env|].
    destruct r; cbn; try discriminate; exact I.
  - destruct r as [g c|gs cs|gs cs|name mrev sk gs cs|gs cs].
    + (* RNode *)
      cbn [post]. destruct g as [mv|text nm k|k gcs]; cbn [run] in H.
      * cbn [agg_meta] in H.
        destruct (match_leaf_meta_var src mv c e) as [e1|] eqn:E; cbn [option_map] in H;
          inversion H; subst; (split; [apply is_env_env|]); cbn [node_post]; [|exact I].
        apply A_hole. eapply leaf_hole_ok; eassumption.
      * pose proof (st_term_post s src nm text k c) as P.
        destruct (st_match_terminal s src nm text k c); cbn [agg_terminal] in H;
          inversion H; subst; (split; [apply is_env_env|exact P]).
      * destruct (kinds_matching k (kind c)) eqn:Ek.
        -- destruct (run f s src (RList gcs (children c)) (AEnv e)) as [o1 a1] eqn:E1.
           apply IH in E1. destruct E1 as [Henv P]. cbn [post] in P.
           destruct o1 as [x|b|]; [|destruct b|]; inversion H; subst; (split; [exact Henv|]);
             cbn [node_post]; try exact I.
           apply A_int; [exact Ek|apply P; reflexivity].
        -- inversion H; subst. split; [apply is_env_env|exact I].
    + (* RList *)
      cbn [run] in H. destruct cs as [|c cs1]; [fail_case H|].
      apply IH in H. exact H.
    + (* RLoop *)
      cbn [post]. destruct gs as [|g gs1]; cbn [run] in H.
      { (* a pattern node without children: all (zero) goals found, trailing check *)
        inversion H; subst. split; [apply is_env_env|]. intros Ho. injection Ho as Ho'.
        apply AL_done. apply trailing_done. exact Ho'. }
      destruct (ellipsis_mode g) as [name|] eqn:Eg.
      * pose proof (ellipsis_mode_is _ _ Eg) as Hell.
        destruct gs1 as [|g1 gs1'].
        -- split; [eapply fin_env; eassumption|]. intros _. rewrite <- (app_nil_r cs).
           apply AL_ellipsis; [exact Hell|apply AlignedL_nil_nil].
        -- cbv beta iota in H.
           destruct (skip_trivials (g1 :: gs1') 0) as [skipped gs2] eqn:Est.
           destruct (skip_trivials_spec _ _ _ _ Est) as [tr [Etr Htr]].
           assert (Hskip : forall cs', AlignedL s src gs2 cs' -> AlignedL s src (g1 :: gs1') cs').
           { rewrite Etr. intros cs' HA. apply AlignedL_skip_goals; [|exact HA].
             revert Htr. apply forallb_imp. apply trivial_may_stay. }
           destruct gs2 as [|g2 gs2'].
           ++ split; [eapply fin_env; eassumption|]. intros _. rewrite <- (app_nil_r cs).
              apply AL_ellipsis; [exact Hell|]. apply Hskip. apply AlignedL_nil_nil.
           ++ destruct (ellipsis_mode g2) as [n2|] eqn:Eg2.
              ** destruct cs as [|c cs1]; [fail_case H|].
                 destruct cs1 as [|c1 cs1']; [fail_case H|].
                 destruct (agg_ellipsis src (AEnv e) name [c] skipped) as [a1|] eqn:Ea; [|fail_case H].
                 destruct (agg_ellipsis_env _ _ _ _ _ _ Ea) as [e1 ->].
                 apply IH in H. destruct H as [Henv P].
                 split; [exact Henv|]. intros Ho. cbn [post] in P.
                 change (c :: c1 :: cs1') with ([c] ++ (c1 :: cs1')).
                 apply AL_ellipsis; [exact Hell|]. apply Hskip. apply P. exact Ho.
              ** apply IH in H. destruct H as [Henv P].
                 split; [exact Henv|]. intros Ho. cbn [post] in P.
                 destruct (P Ho) as [rn [rest [-> HA]]].
                 apply AL_ellipsis; [exact Hell|]. apply Hskip. exact HA.
      * apply IH in H. exact H.
    + (* RLook *)
      cbn [post]. cbn [run] in H.
      destruct gs as [|g gs']; [fail_case H|].
      destruct cs as [|c cs1]; [fail_case H|].
      cbv beta iota in H.
      destruct (run f s src (RNode g c) (AEnv e)) as [o1 a1] eqn:E1.
      apply IH in E1. destruct E1 as [[e1 ->] P1]. cbn [post] in P1.
      assert (Hcont :
        match cs1 with
        | [] => (ROk false, AEnv e1)
        | _ :: _ => run f s src (RLook name (c :: mrev) sk (g :: gs') cs1) (AEnv e1)
        end = (o, a') ->
        is_env a' /\
        (o = ROk true -> exists rn rest, c :: cs1 = rn ++ rest /\ AlignedL s src (g :: gs') rest)).
      { intros H'. destruct cs1 as [|c1 cs1']; [fail_case H'|].
        apply IH in H'. destruct H' as [Henv P]. split; [exact Henv|].
        intros Ho. cbn [post] in P. destruct (P Ho) as [rn [rest [E HA]]].
        exists (c :: rn), rest. split; [rewrite E; reflexivity|exact HA]. }
      destruct o1 as [x|b|]; [destruct x| |]; try (apply Hcont; exact H).
      * destruct (agg_ellipsis src (AEnv e1) name (rev mrev) sk) as [a2|] eqn:Ea; [|fail_case H].
        destruct (agg_ellipsis_env _ _ _ _ _ _ Ea) as [e2 ->].
        apply IH in H. destruct H as [Henv P]. split; [exact Henv|].
        intros Ho. cbn [post] in P. exists [], (c :: cs1). split; [reflexivity|apply P; exact Ho].
      * fail_case H.
    + (* RSkip *)
      cbn [post]. rewrite run_RSkip in H.
      destruct cs as [|c cs1].
      * destruct (should_skip_goal s gs) eqn:Esk; [|fail_case H].
        cbn [tailf] in H. inversion H; subst. split; [apply is_env_env|]. intros _.
        apply skippable_all_aligned. exact Esk.
      * destruct gs as [|g gs1]; [fail_case H|].
        destruct (run f s src (RNode g c) (AEnv e)) as [o1 a1] eqn:E1.
        apply IH in E1. destruct E1 as [[e1 ->] P1]. cbn [post] in P1.
        destruct o1 as [x|b|]; [destruct x| |]; cbn [node_post] in P1.
        -- (* MatchedBoth *)
           apply (tail_sound s src f IH) in H. destruct H as [Henv P].
           split; [exact Henv|]. intros Ho. apply AL_match; [exact P1|exact (P Ho)].
        -- (* SkipBoth *)
           destruct P1 as [Pg Pc]. destruct gs1 as [|g1 gs1'].
           ++ apply (tail_sound s src f IH) in H. destruct H as [Henv P].
              split; [exact Henv|]. intros Ho. apply AL_skip_cand; [exact Pc|].
              apply AL_skip_goal; [exact Pg|]. apply AL_done. exact (P Ho).
           ++ apply IH in H. destruct H as [Henv P].
              split; [exact Henv|]. intros Ho. apply AL_skip_cand; [exact Pc|].
              apply AL_skip_goal; [exact Pg|]. exact (P Ho).
        -- (* SkipGoal *)
           destruct gs1 as [|g1 gs1'].
           ++ apply (tail_sound s src f IH) in H. destruct H as [Henv P].
              split; [exact Henv|]. intros Ho.
              apply AL_skip_goal; [exact P1|]. apply AL_done. exact (P Ho).
           ++ apply IH in H. destruct H as [Henv P].
              split; [exact Henv|]. intros Ho. apply AL_skip_goal; [exact P1|]. exact (P Ho).
        -- (* SkipCandidate *)
           apply IH in H. destruct H as [Henv P].
           split; [exact Henv|]. intros Ho. apply AL_skip_cand; [exact P1|]. exact (P Ho).
        -- fail_case H.
        -- fail_case H.
        -- fail_case H.
Qed.

Lemma C03_sound : C03_sound_stmt.
Proof.
  intros fuel s src g c e a' H.
  destruct (sound_all s src fuel (RNode g c) e _ _ H) as [_ P]. exact P.
Qed.
Print Assumptions C03_sound.

Lemma C03_sound_pattern : C03_sound_pattern_stmt.
Proof.
  intros src p c e e' H. unfold pattern_match in H.
  destruct (p_root_kind p) as [k|]; [destruct (negb (N.eqb (kind c) k)); [discriminate H|]|];
    (destruct (run (match_fuel (p_node p) c) (p_strict p) src (RNode (p_node p) c) (AEnv e))
       as [o a] eqn:E;
     destruct o as [x|b|]; [destruct x| |]; try discriminate H;
     destruct a as [e1|m]; try discriminate H;
     exact (C03_sound _ _ _ _ _ _ _ E)).
Qed.
Print Assumptions C03_sound_pattern.

(* ====================================================================================== *)
(* C03_len: the AEnd aggregator                                                            *)
(* ====================================================================================== *)

(* [ends_in cs n0 a]: a is an AEnd whose offset is the initial one or the end of a node in the
   pre-order of a member of cs *)
Definition ends_in (cs : list tree) (n0 : N) (a : agg) : Prop :=
  exists m, a = AEnd m /\
            (m = n0 \/ exists c d, In c cs /\ In d (preorder c) /\ tend d = m).

Lemma ends_refl : forall cs n0, ends_in cs n0 (AEnd n0).
Proof. intros cs n0. exists n0. split; [reflexivity|left; reflexivity]. Qed.

Lemma ends_node : forall cs n0 c, In c cs -> ends_in cs n0 (AEnd (tend c)).
Proof.
  intros cs n0 c Hc. exists (tend c). split; [reflexivity|right].
  exists c, c. split; [exact Hc|]. split; [apply ap_preorder_root|reflexivity].
Qed.

Lemma ends_is_end : forall cs n0 a, ends_in cs n0 a -> exists n1, a = AEnd n1.
Proof. intros cs n0 a [m [E _]]. exists m. exact E. Qed.

Lemma ends_mono : forall cs cs' n0 a, incl cs cs' -> ends_in cs n0 a -> ends_in cs' n0 a.
Proof.
  intros cs cs' n0 a Hi [m [E [H|[c [d [Hc [Hd Ht]]]]]]]; exists m; (split; [exact E|]).
  - left. exact H.
  - right. exists c, d. split; [apply Hi; exact Hc|]. split; assumption.
Qed.

Lemma ends_trans : forall cs n0 n1 a, ends_in cs n0 (AEnd n1) -> ends_in cs n1 a -> ends_in cs n0 a.
Proof.
  intros cs n0 n1 a [m1 [E1 H1]] [m [E H]]. inversion E1; subst m1. exists m. split; [exact E|].
  destruct H as [->|H]; [exact H1|right; exact H].
Qed.

(* one step: a first phase on cs1 from n0 to n1, then a second phase on cs2 from n1 *)
Lemma ends_step : forall cs cs1 cs2 n0 n1 a,
  ends_in cs1 n0 (AEnd n1) -> ends_in cs2 n1 a -> incl cs1 cs -> incl cs2 cs -> ends_in cs n0 a.
Proof.
  intros cs cs1 cs2 n0 n1 a H1 H2 I1 I2.
  eapply ends_trans; [eapply ends_mono; [exact I1|exact H1]|eapply ends_mono; [exact I2|exact H2]].
Qed.

Lemma ends_children : forall c n0 a, ends_in (children c) n0 a -> ends_in [c] n0 a.
Proof.
  intros c n0 a [m [E [H|[c' [d [Hc [Hd Ht]]]]]]]; exists m; (split; [exact E|]).
  - left. exact H.
  - right. exists c, d. split; [left; reflexivity|]. split; [|exact Ht].
    eapply ap_preorder_child; eassumption.
Qed.

Lemma agg_ellipsis_end : forall src n0 name nodes k a',
  agg_ellipsis src (AEnd n0) name nodes k = Some a' -> exists c, In c nodes /\ a' = AEnd (tend c).
Proof.
  intros src n0 name nodes k a' H. cbn [agg_ellipsis] in H.
  destruct (rev nodes) as [|x r] eqn:Er; [discriminate H|]. inversion H; subst.
  exists x. split; [|reflexivity]. apply in_rev. rewrite Er. left. reflexivity.
Qed.

Lemma fin_end : forall src n0 name cs k o a',
  fin (agg_ellipsis src (AEnd n0) name cs k) (AEnd n0) = (o, a') -> ends_in cs n0 a'.
Proof.
  intros src n0 name cs k o a' H.
  destruct (agg_ellipsis src (AEnd n0) name cs k) as [a1|] eqn:Ea; cbn [fin] in H; inversion H; subst.
  - destruct (agg_ellipsis_end _ _ _ _ _ _ Ea) as [c [Hc ->]]. apply ends_node. exact Hc.
  - apply ends_refl.
Qed.

Definition cands (r : req) : list tree :=
  match r with
  | RNode _ c => [c]
  | RList _ cs | RLoop _ cs | RSkip _ cs => cs
  | RLook _ mrev _ _ cs => mrev ++ cs
  end.

Definition len_at (s : strictness) (src : str) (f : nat) : Prop :=
  forall r n0 o a', run f s src r (AEnd n0) = (o, a') -> ends_in (cands r) n0 a'.

Ltac inc := intros ? ?; repeat rewrite in_app_iff in *; cbn [In] in *; tauto.

Lemma incl_tl_self : forall A (l : list A), incl (tl l) l.
Proof. intros A [|x l]; cbn [tl]; [apply incl_refl|apply incl_tl; apply incl_refl]. Qed.

Lemma tail_len : forall s src f, len_at s src f ->
  forall gs' cs' n0 o a', tailf f s src gs' cs' (AEnd n0) = (o, a') -> ends_in cs' n0 a'.
Proof.
  intros s src f IH gs' cs' n0 o a' H. unfold tailf in H. destruct gs' as [|g gs1].
  - inversion H; subst. apply ends_refl.
  - cbv zeta in H. destruct gs1 as [|g1 gs1'].
    + inversion H; subst. apply ends_refl.
    + pose proof (incl_tl_self _ cs') as Hi. destruct (tl cs') as [|c1 cs1'] eqn:Etl.
      * inversion H; subst. apply ends_refl.
      * apply IH in H. cbn [cands] in H. eapply ends_mono; [exact Hi|exact H].
Qed.

Ltac refl_case H := inversion H; subst; apply ends_refl.

Lemma len_all : forall s src fuel, len_at s src fuel.
Proof.
  intros s src fuel. induction fuel as [|f IH]; intros r n0 o a' H.
  - cbn [run] in H. refl_case H.
  - destruct r as [g c|gs cs|gs cs|name mrev sk gs cs|gs cs]; cbn [cands].
    + (* RNode *)
      destruct g as [mv|text nm k|k gcs]; cbn [run] in H.
      * cbn [agg_meta] in H. inversion H; subst. apply ends_node. left. reflexivity.
      * destruct (st_match_terminal s src nm text k c); cbn [agg_terminal] in H;
          inversion H; subst; first [apply ends_refl|apply ends_node; left; reflexivity].
      * destruct (kinds_matching k (kind c)); [|refl_case H].
        destruct (run f s src (RList gcs (children c)) (AEnd n0)) as [o1 a1] eqn:E1.
        apply IH in E1. cbn [cands] in E1. apply ends_children in E1.
        destruct o1 as [x|b|]; [|destruct b|]; inversion H; subst; exact E1.
    + (* RList *)
      cbn [run] in H. destruct cs as [|c cs1]; [refl_case H|].
      apply IH in H. exact H.
    + (* RLoop *)
      destruct gs as [|g gs1]; cbn [run] in H; [refl_case H|].
      destruct (ellipsis_mode g) as [name|] eqn:Eg.
      * destruct gs1 as [|g1 gs1'].
        -- eapply fin_end; eassumption.
        -- cbv beta iota in H.
           destruct (skip_trivials (g1 :: gs1') 0) as [skipped gs2] eqn:Est.
           destruct gs2 as [|g2 gs2'].
           ++ eapply fin_end; eassumption.
           ++ destruct (ellipsis_mode g2) as [n2|] eqn:Eg2.
              ** destruct cs as [|c cs1]; [refl_case H|].
                 destruct cs1 as [|c1 cs1']; [refl_case H|].
                 destruct (agg_ellipsis src (AEnd n0) name [c] skipped) as [a1|] eqn:Ea; [|refl_case H].
                 destruct (agg_ellipsis_end _ _ _ _ _ _ Ea) as [c' [Hc' ->]].
                 apply IH in H. cbn [cands] in H.
                 eapply ends_step; [apply (ends_node [c] n0 c' Hc')|exact H| |]; inc.
              ** apply IH in H. exact H.
      * apply IH in H. exact H.
    + (* RLook *)
      cbn [run] in H.
      destruct gs as [|g gs']; [refl_case H|].
      destruct cs as [|c cs1]; [refl_case H|].
      cbv beta iota in H.
      destruct (run f s src (RNode g c) (AEnd n0)) as [o1 a1] eqn:E1.
      apply IH in E1. cbn [cands] in E1.
      destruct (ends_is_end _ _ _ E1) as [n1 ->].
      assert (E1' : ends_in (mrev ++ c :: cs1) n0 (AEnd n1)) by (eapply ends_mono; [|exact E1]; inc).
      assert (Hcont :
        match cs1 with
        | [] => (ROk false, AEnd n1)
        | _ :: _ => run f s src (RLook name (c :: mrev) sk (g :: gs') cs1) (AEnd n1)
        end = (o, a') -> ends_in (mrev ++ c :: cs1) n0 a').
      { intros H'. destruct cs1 as [|c1 cs1']; [inversion H'; subst; exact E1'|].
        apply IH in H'. cbn [cands] in H'.
        eapply ends_trans; [exact E1'|]. eapply ends_mono; [|exact H']. inc. }
      destruct o1 as [x|b|]; [destruct x| |]; try (apply Hcont; exact H).
      * destruct (agg_ellipsis src (AEnd n1) name (rev mrev) sk) as [a2|] eqn:Ea;
          [|inversion H; subst; exact E1'].
        destruct (agg_ellipsis_end _ _ _ _ _ _ Ea) as [c' [Hc' ->]].
        apply in_rev in Hc'.
        apply IH in H. cbn [cands] in H.
        eapply ends_trans; [exact E1'|].
        eapply ends_step; [apply (ends_node mrev n1 c' Hc')|exact H| |]; inc.
      * inversion H; subst. exact E1'.
    + (* RSkip *)
      rewrite run_RSkip in H.
      destruct cs as [|c cs1].
      * destruct (should_skip_goal s gs); [cbn [tailf] in H|]; refl_case H.
      * destruct gs as [|g gs1]; [refl_case H|].
        destruct (run f s src (RNode g c) (AEnd n0)) as [o1 a1] eqn:E1.
        apply IH in E1. cbn [cands] in E1.
        destruct (ends_is_end _ _ _ E1) as [n1 ->].
        assert (E1' : ends_in (c :: cs1) n0 (AEnd n1)) by (eapply ends_mono; [|exact E1]; inc).
        destruct o1 as [x|b|]; [destruct x| |]; try (inversion H; subst; exact E1').
        -- (* MatchedBoth *)
           apply (tail_len s src f IH) in H. eapply ends_trans; [exact E1'|exact H].
        -- (* SkipBoth *)
           destruct gs1 as [|g1 gs1'].
           ++ apply (tail_len s src f IH) in H. eapply ends_trans; [exact E1'|].
              eapply ends_mono; [|exact H]. inc.
           ++ apply IH in H. cbn [cands] in H. eapply ends_trans; [exact E1'|].
              eapply ends_mono; [|exact H]. inc.
        -- (* SkipGoal *)
           destruct gs1 as [|g1 gs1'].
           ++ apply (tail_len s src f IH) in H. eapply ends_trans; [exact E1'|exact H].
           ++ apply IH in H. cbn [cands] in H. eapply ends_trans; [exact E1'|exact H].
        -- (* SkipCandidate *)
           apply IH in H. cbn [cands] in H. eapply ends_trans; [exact E1'|].
           eapply ends_mono; [|exact H]. inc.
Qed.

(* ---------- ranges in a well-formed tree ---------- *)
Lemma wfb_range : forall t, wfb t = true -> (tstart t <= tend t)%N.
Proof.
  intros [i cs] H. cbn [wfb] in H. apply andb_true_iff in H. destruct H as [H _].
  apply N.leb_le in H. exact H.
Qed.

Lemma wfb_go : forall hi cs lo,
  (fix go (lo : N) (l : list tree) : bool :=
     match l with
     | [] => N.leb lo hi
     | c :: r => N.leb lo (tstart c) && wfb c && go (tend c) r
     end) lo cs = true ->
  (lo <= hi)%N /\ forall c, In c cs -> wfb c = true /\ (lo <= tstart c)%N /\ (tend c <= hi)%N.
Proof.
  intros hi cs. induction cs as [|x r IHr]; intros lo H.
  - apply N.leb_le in H. split; [exact H|]. intros c [].
  - apply andb_true_iff in H. destruct H as [H H3]. apply andb_true_iff in H. destruct H as [H1 H2].
    apply N.leb_le in H1. pose proof (wfb_range x H2) as Hx.
    destruct (IHr _ H3) as [Hhi Hall]. split; [lia|].
    intros c [<-|Hc].
    + split; [exact H2|]. split; [exact H1|exact Hhi].
    + destruct (Hall c Hc) as [Hw [Hlo Hh]]. split; [exact Hw|]. split; [lia|exact Hh].
Qed.

Lemma wfb_children : forall t c, wfb t = true -> In c (children t) ->
  wfb c = true /\ (tstart t <= tstart c)%N /\ (tend c <= tend t)%N.
Proof.
  intros [i cs] c H Hc. cbn [wfb] in H. apply andb_true_iff in H. destruct H as [_ H].
  apply wfb_go in H. destruct H as [_ H]. exact (H c Hc).
Qed.

Lemma wfb_desc : forall n t d, size t <= n -> wfb t = true -> In d (preorder t) ->
  (tstart t <= tstart d)%N /\ (tstart d <= tend d)%N /\ (tend d <= tend t)%N.
Proof.
  induction n as [|n IHn]; intros t d Hsz Hw Hd.
  - rewrite ap_size_eq in Hsz. lia.
  - apply ap_preorder_inv in Hd. destruct Hd as [->|[c [Hc Hd]]].
    + pose proof (wfb_range t Hw). lia.
    + destruct (wfb_children t c Hw Hc) as [Hwc [Hs He]].
      assert (Hszc : size c <= n).
      { rewrite ap_size_eq in Hsz. apply ap_sizel_in in Hc. lia. }
      destruct (IHn c d Hszc Hwc Hd) as [A [B C]]. lia.
Qed.

(* the recorded end of a successful length query lies strictly after the node's start and is the
   end of a descendant (the initial 0 is filtered out by the [n <= tstart c] test) *)
Lemma match_len_end : forall src p c n,
  match_len src p c = LenSome n ->
  exists m, (tstart c < m)%N /\ n = (m - tstart c)%N /\
            (m = 0%N \/ exists d, In d (preorder c) /\ tend d = m).
Proof.
  intros src p c n H. unfold match_len in H.
  destruct (run (match_fuel (p_node p) c) (p_strict p) src (RNode (p_node p) c) (AEnd 0))
    as [o a] eqn:E.
  destruct o as [x|b|]; [destruct x| |]; try discriminate H.
  destruct a as [e|m]; [discriminate H|].
  destruct (N.leb m (tstart c)) eqn:El; [discriminate H|]. inversion H; subst n.
  apply N.leb_gt in El.
  apply len_all in E. cbn [cands] in E. destruct E as [m' [Em Hm]]. inversion Em; subst m'.
  exists m. split; [exact El|]. split; [reflexivity|].
  destruct Hm as [->|[c' [d [Hc [Hd Ht]]]]]; [left; reflexivity|right].
  destruct Hc as [<-|[]]. exists d. split; assumption.
Qed.

Lemma C03_len : C03_len_stmt.
Proof.
  intros src p c n Hw H.
  destruct (match_len_end src p c n H) as [m [Hlt [-> [->|[d [Hd Ht]]]]]].
  - lia.
  - destruct (wfb_desc (size c) c d (le_n _) Hw Hd) as [A [B C]].
    split; [lia|]. exists d. split; [exact Hd|lia].
Qed.
Print Assumptions C03_len.

(* Sanity check of the "nothing aligned" case: under relaxed strictness an unnamed pattern token and
   an unnamed candidate token of a different kind are skipped together (SkipBoth); the node
   "matches" with nothing recorded, the end stays at its initial 0, and no length is reported. *)
Definition len0_leaf : tree :=
  T {| nid := 1; nkind := 3; nnamed := false; ncomment := false; nmissing := false; nfld := 0;
       ns := 5; ne := 6 |} [].
Definition len0_node : tree :=
  T {| nid := 0; nkind := 1; nnamed := true; ncomment := false; nmissing := false; nfld := 0;
       ns := 5; ne := 9 |} [len0_leaf].
Definition len0_pat : pattern :=
  {| p_node := PInt 1 [PTerm [] false 2]; p_root_kind := None; p_strict := Relaxed |}.

Lemma C03_len_nothing_aligned :
  pwf (p_node len0_pat) = true /\ wfb len0_node = true /\
  run (match_fuel (p_node len0_pat) len0_node) Relaxed [] (RNode (p_node len0_pat) len0_node) (AEnd 0)
    = (ROne MatchedBoth, AEnd 0) /\
  match_len [] len0_pat len0_node = LenNone.
Proof. repeat split; vm_compute; reflexivity. Qed.
Print Assumptions C03_len_nothing_aligned.

(* a hole marked as named never accepts an unnamed node — whatever the environment already holds for the
   variable (a back-reference is no exception: the guard comes before the look-up) *)
Lemma named_hole_binds_named_any_env : forall src name c e e',
  match_leaf_meta_var src (Capture name true) c e = Some e' -> named c = true.
Proof.
  intros src name c e e'. unfold match_leaf_meta_var. destruct (named c); [reflexivity | cbn; discriminate].
Qed.

Lemma named_dropped_hole_binds_named : forall src c e e',
  match_leaf_meta_var src (Dropped true) c e = Some e' -> named c = true.
Proof.
  intros src c e e'. unfold match_leaf_meta_var. destruct (named c); [reflexivity | cbn; discriminate].
Qed.
