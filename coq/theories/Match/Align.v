(* C03 — the specification side: what it means for a reported match to be justified by the
   documented strictness rules.  Written from the property text as the EXISTENCE of an
   order-preserving partial matching, independently of the matching algorithm. *)
From Coq Require Import List NArith ZArith Bool Arith.
From AG Require Import Base.Val Base.Sort Str.MetaVar Tree.Tree Match.MatchNode.
Import ListNotations.

(* which candidate nodes a strictness level allows to be left unmatched inside the aligned region:
   never under cst; unnamed nodes under smart/ast; unnamed or comment nodes under relaxed/signature —
   never a named non-comment node *)
Definition cand_skippable (s : strictness) (c : tree) : bool :=
  match s with
  | Cst => false
  | Smart | Ast => negb (named c)
  | Relaxed | Signature => negb (named c) || is_comment c
  end.

(* which pattern nodes may stay unmatched: the property only demands that every NAMED pattern node
   is matched, so holes, ellipses and unnamed tokens may stay unmatched *)
Definition may_stay_unmatched (p : pnode) : bool :=
  match p with
  | PMeta _ => true
  | PTerm _ nm _ => negb nm
  | PInt _ _ => false
  end.

Definition is_ellipsis (p : pnode) : bool :=
  match p with PMeta Multiple | PMeta (MultiCapture _) => true | _ => false end.

(* holes marked as named bind only named nodes *)
Definition hole_ok (mv : metavar) (c : tree) : bool :=
  match mv with
  | Capture _ nm | Dropped nm => negb nm || named c
  | Multiple | MultiCapture _ => true
  end.

Inductive Aligned (s : strictness) (src : str) : pnode -> tree -> Prop :=
| A_hole mv c : hole_ok mv c = true -> Aligned s src (PMeta mv) c
| A_term text nm k c :
    kinds_matching k (kind c) = true ->                       (* kinds agree, ERROR stands for any kind *)
    (s = Signature \/ nm = false \/ text = text_of src c) ->  (* token text agrees, except under signature;
                                                                 unnamed tokens are compared by kind (W6) *)
    Aligned s src (PTerm text nm k) c
| A_int k gs c :
    kinds_matching k (kind c) = true ->
    AlignedL s src gs (children c) ->
    Aligned s src (PInt k gs) c
with AlignedL (s : strictness) (src : str) : list pnode -> list tree -> Prop :=
| AL_done cs :                                                 (* candidates after the last aligned child *)
    (s = Smart \/ forallb (cand_skippable s) cs = true) ->
    AlignedL s src [] cs
| AL_match g c gs cs : Aligned s src g c -> AlignedL s src gs cs -> AlignedL s src (g :: gs) (c :: cs)
| AL_skip_cand c gs cs : cand_skippable s c = true -> AlignedL s src gs cs -> AlignedL s src gs (c :: cs)
| AL_skip_goal g gs cs : may_stay_unmatched g = true -> AlignedL s src gs cs -> AlignedL s src (g :: gs) cs
| AL_ellipsis g run gs cs :                                    (* $$$ absorbs only consecutive siblings *)
    is_ellipsis g = true -> AlignedL s src gs cs -> AlignedL s src (g :: gs) (run ++ cs).

(* pattern well-formedness: no internal pattern node without children (only arises when every child
   of a pattern node is a MISSING recovery node, ast-grep issue #1688) *)
Fixpoint pwf (p : pnode) : bool :=
  match p with
  | PInt _ cs => negb (match cs with [] => true | _ => false end) &&
                 (fix all (l : list pnode) := match l with [] => true | x :: r => pwf x && all r end) cs
  | _ => true
  end.

(* "the length never splits a child": the reported end is the end offset of the node or of one of
   its descendants *)
Definition ends_at_descendant (t : tree) (off : N) : Prop :=
  exists d, In d (preorder t) /\ tend d = off.
