(* Model of crates/core/src/match_tree/{match_node.rs,strictness.rs,mod.rs}: the pattern matcher.
   The two Peekable iterators are two lists; every loop iteration is one step of ONE fuelled
   function [run] over a request type (DESIGN §2).  The aggregator state is returned on failure
   too, because the Rust mutates it in place (this is what makes the ellipsis look-ahead leak
   observable). *)
From Coq Require Import List NArith ZArith Bool Arith.
From AG Require Import Base.Val Base.Sort Str.MetaVar Tree.Tree.
Import ListNotations.

Inductive one := MatchedBoth | SkipBoth | SkipGoal | SkipCandidate | NoMatch.

Definition kinds_matching (goal cand : N) : bool := N.eqb goal cand || is_error_kind goal.

Definition skip_comment_or_unnamed (c : tree) : bool := negb (named c) || is_comment c.

(* MatchStrictness::match_terminal *)
Definition st_match_terminal (s : strictness) (src : str) (is_named : bool) (text : str)
           (goal_kind : N) (c : tree) : one :=
  let km := kinds_matching goal_kind (kind c) in
  if km && (negb is_named || str_eqb text (text_of src c)) then MatchedBoth else
  let decide (sg sc : bool) :=
    match sg, sc with
    | true, true => SkipBoth
    | true, false => SkipGoal
    | false, true => SkipCandidate
    | false, false => NoMatch
    end in
  match s with
  | Cst => decide false false
  | Smart => decide false (negb (named c))
  | Ast => decide (negb is_named) (negb (named c))
  | Relaxed => decide (negb is_named) (skip_comment_or_unnamed c)
  | Signature => if km then MatchedBoth else decide (negb is_named) (skip_comment_or_unnamed c)
  end.

Definition should_skip_trailing (s : strictness) (c : tree) : bool :=
  match s with
  | Cst => false
  | Smart => true
  | Ast => false
  | Relaxed | Signature => skip_comment_or_unnamed c
  end.

Definition goal_skippable (s : strictness) (p : pnode) : bool :=
  match s with
  | Cst => false
  | Smart => match p with
             | PMeta Multiple | PMeta (MultiCapture _) => true
             | _ => false
             end
  | Ast | Relaxed | Signature =>
      match p with
      | PMeta Multiple | PMeta (MultiCapture _) => true
      | PMeta (Dropped nm) => negb nm
      | PMeta (Capture _ nm) => negb nm
      | PTerm _ nm _ => negb nm
      | PInt _ _ => false
      end
  end.

(* should_skip_goal: true iff every remaining goal is skippable *)
Definition should_skip_goal (s : strictness) (gs : list pnode) : bool := forallb (goal_skippable s) gs.

Definition ellipsis_mode (p : pnode) : option (option str) :=
  match p with
  | PMeta Multiple => Some None
  | PMeta (MultiCapture n) => Some (Some n)
  | _ => None
  end.

Definition is_trivial (p : pnode) : bool :=
  match p with PTerm _ nm _ => negb nm | _ => false end.

(* ---- aggregators ---- *)
Inductive agg := AEnv (e : env) | AEnd (n : N).

Definition agg_terminal (a : agg) (c : tree) : option agg :=
  match a with AEnv e => Some (AEnv e) | AEnd _ => Some (AEnd (tend c)) end.

Definition match_leaf_meta_var (src : str) (mv : metavar) (c : tree) (e : env) : option env :=
  match mv with
  | Capture name nm => if nm && negb (named c) then None else env_insert src e name c
  | Dropped nm => if nm && negb (named c) then None else Some e
  | Multiple => Some e
  | MultiCapture name => env_insert src e name c
  end.

Definition agg_meta (src : str) (a : agg) (mv : metavar) (c : tree) : option agg :=
  match a with
  | AEnv e => option_map AEnv (match_leaf_meta_var src mv c e)
  | AEnd _ => Some (AEnd (tend c))
  end.

Definition agg_ellipsis (src : str) (a : agg) (name : option str) (nodes : list tree) (skipped : nat)
  : option agg :=
  match a with
  | AEnv e =>
      match name with
      | Some v => option_map AEnv (env_insert_multi src e v (firstn (length nodes - skipped) nodes))
      | None => Some a
      end
  | AEnd _ =>
      match rev nodes with
      | [] => None
      | n :: _ => Some (AEnd (tend n))
      end
  end.

(* ---- the single fuelled function ---- *)
Inductive req :=
| RNode (g : pnode) (c : tree)                       (* match_node_impl *)
| RList (gs : list pnode) (cs : list tree)           (* match_nodes_impl_recursive *)
| RLoop (gs : list pnode) (cs : list tree)           (* its loop head; cs is non-empty *)
| RLook (name : option str) (matched_rev : list tree) (skipped : nat)
        (gs : list pnode) (cs : list tree)           (* look-ahead loop of may_match_ellipsis_impl *)
| RSkip (gs : list pnode) (cs : list tree).          (* match_single_node_while_skip_trivial, then the loop tail *)

Inductive res :=
| ROne (o : one)
| ROk (b : bool)
| RFuel.

(* drop leading trivial goals, counting them *)
Fixpoint skip_trivials (gs : list pnode) (k : nat) : nat * list pnode :=
  match gs with
  | g :: r => if is_trivial g then skip_trivials r (S k) else (k, gs)
  | [] => (k, [])
  end.

Definition fin (o : option agg) (a : agg) : res * agg :=
  match o with Some a' => (ROk true, a') | None => (ROk false, a) end.

Fixpoint run (fuel : nat) (s : strictness) (src : str) (r : req) (a : agg) {struct fuel} : res * agg :=
  match fuel with
  | O => (RFuel, a)
  | S f =>
    match r with
    | RNode g c =>
        match g with
        | PTerm text nm k =>
            match st_match_terminal s src nm text k c with
            | MatchedBoth =>
                match agg_terminal a c with
                | Some a' => (ROne MatchedBoth, a')
                | None => (ROne NoMatch, a)
                end
            | o => (ROne o, a)
            end
        | PMeta mv =>
            match agg_meta src a mv c with
            | Some a' => (ROne MatchedBoth, a')
            | None => (ROne NoMatch, a)
            end
        | PInt k gcs =>
            if kinds_matching k (kind c) then
              match run f s src (RList gcs (children c)) a with
              | (ROk true, a') => (ROne MatchedBoth, a')
              | (ROk false, a') => (ROne NoMatch, a')
              | (_, a') => (RFuel, a')
              end
            else (ROne NoMatch, a)
        end
    | RList gs cs =>
        match cs with
        | [] => (ROk false, a)
        | _ => run f s src (RLoop gs cs) a
        end
    | RLoop gs cs =>
        match gs with
        | [] => (ROk (forallb (should_skip_trailing s) cs), a)   (* empty goal children: all (zero) goals found *)
        | g :: gs1 =>
            match ellipsis_mode g with
            | None => run f s src (RSkip gs cs) a                (* Fallthrough *)
            | Some name =>
                match gs1 with
                | [] => fin (agg_ellipsis src a name cs 0) a
                | _ =>
                    let '(skipped, gs2) := skip_trivials gs1 0 in
                    match gs2 with
                    | [] => fin (agg_ellipsis src a name cs skipped) a
                    | g2 :: _ =>
                        match ellipsis_mode g2 with
                        | Some _ =>
                            (* next goal is an ellipsis too: this one consumes exactly one candidate *)
                            match cs with
                            | [] => (ROk false, a)
                            | c :: cs1 =>
                                match cs1 with
                                | [] => (ROk false, a)
                                | _ =>
                                    match agg_ellipsis src a name [c] skipped with
                                    | Some a' => run f s src (RLoop gs2 cs1) a'
                                    | None => (ROk false, a)
                                    end
                                end
                            end
                        | None => run f s src (RLook name [] skipped gs2 cs) a
                        end
                    end
                end
            end
        end
    | RLook name matched_rev skipped gs cs =>
        match gs, cs with
        | g :: _, c :: cs1 =>
            match run f s src (RNode g c) a with
            | (ROne MatchedBoth, a') =>
                match agg_ellipsis src a' name (rev matched_rev) skipped with
                | Some a'' => run f s src (RSkip gs cs) a''
                | None => (ROk false, a')
                end
            | (RFuel, a') => (RFuel, a')
            | (_, a') =>
                match cs1 with
                | [] => (ROk false, a')
                | _ => run f s src (RLook name (c :: matched_rev) skipped gs cs1) a'
                end
            end
        | _, _ => (ROk false, a)
        end
    | RSkip gs cs =>
        (* after Fallthrough: consume one goal and one candidate, then trailing check / next round *)
        let tail (gs' : list pnode) (cs' : list tree) (a' : agg) : res * agg :=
          match gs' with
          | [] => (ROk (forallb (should_skip_trailing s) cs'), a')
          | _ :: gs1 =>
              let cs1 := tl cs' in
              match gs1 with
              | [] => (ROk (forallb (should_skip_trailing s) cs1), a')
              | _ => match cs1 with
                     | [] => (ROk false, a')
                     | _ => run f s src (RLoop gs1 cs1) a'
                     end
              end
          end in
        match cs with
        | [] => if should_skip_goal s gs then tail [] [] a else (ROk false, a)
        | c :: cs1 =>
            match gs with
            | [] => (ROk false, a)
            | g :: gs1 =>
                match run f s src (RNode g c) a with
                | (ROne MatchedBoth, a') => tail gs cs a'
                | (ROne SkipGoal, a') =>
                    match gs1 with
                    | [] => tail [] cs a'
                    | _ => run f s src (RSkip gs1 cs) a'
                    end
                | (ROne SkipBoth, a') =>
                    match gs1 with
                    | [] => tail [] cs1 a'
                    | _ => run f s src (RSkip gs1 cs1) a'
                    end
                | (ROne SkipCandidate, a') => run f s src (RSkip gs cs1) a'
                | (ROne NoMatch, a') => (ROk false, a')
                | (_, a') => (RFuel, a')
                end
            end
        end
    end
  end.

(* fuel that is always enough: every recursive call strictly decreases
   (pattern size + candidate size) lexicographically within a small constant factor *)
Definition match_fuel (p : pnode) (c : tree) : nat := 4 * (psize p + size c) + 8.

(* Pattern::match_node_with_env *)
Inductive outcome := Matched (e : env) | Unmatched | OutOfFuel.

Definition pattern_match (src : str) (p : pattern) (c : tree) (e : env) : outcome :=
  match p_root_kind p with
  | Some k => if negb (N.eqb (kind c) k) then Unmatched else
      match run (match_fuel (p_node p) c) (p_strict p) src (RNode (p_node p) c) (AEnv e) with
      | (ROne MatchedBoth, AEnv e') => Matched e'
      | (RFuel, _) => OutOfFuel
      | _ => Unmatched
      end
  | None =>
      match run (match_fuel (p_node p) c) (p_strict p) src (RNode (p_node p) c) (AEnv e) with
      | (ROne MatchedBoth, AEnv e') => Matched e'
      | (RFuel, _) => OutOfFuel
      | _ => Unmatched
      end
  end.

(* Pattern::get_match_len *)
Inductive lenres := LenSome (n : N) | LenNone | LenFuel.
Definition match_len (src : str) (p : pattern) (c : tree) : lenres :=
  match run (match_fuel (p_node p) c) (p_strict p) src (RNode (p_node p) c) (AEnd 0) with
  | (ROne MatchedBoth, AEnd n) =>
      (* end.checked_sub(start).filter(|len| *len > 0): nothing aligned => no prefix length *)
      if N.leb n (tstart c) then LenNone else LenSome (n - tstart c)
  | (RFuel, _) => LenFuel
  | _ => LenNone
  end.
