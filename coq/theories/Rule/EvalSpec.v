(* C04 / C05 — statements about the rule evaluator [eval] (proved in Rule/EvalProofs.v and
   Rule/SemProofs.v, restated verbatim in Props/C04.v and Props/C05.v). *)
From Coq Require Import List NArith ZArith Bool Arith.
From AG Require Import Base.Val Base.Sort Str.MetaVar Str.AnB Tree.Tree Tree.Wf Match.MatchNode
  Rule.Rule Rule.Eval Rule.Sem.
Import ListNotations.

(* ------------------------------------------------------------------ C04 *)

(* a rule that rejects a node leaves the environment exactly as it found it — for EVERY rule
   (all 13 operators, any nesting, any utilities), every node, every environment, every fuel *)
Definition C04_atomic_stmt : Prop :=
  forall fuel c r n e e',
    eval fuel c (QRule r n) e = (EFound None, e') -> e' = e.

(* relational rules: the reported candidate was evaluated from the ORIGINAL environment; every
   candidate tried before it was rejected and left no trace (has/inside/precedes/follows all go
   through QFind or QHasRule) *)
Definition C04_no_trace_find_stmt : Prop :=
  forall fuel c r stop cands e m e',
    eval fuel c (QFind r FPlain stop cands) e = (EFound (Some m), e') ->
    exists pre cand post,
      cands = pre ++ cand :: post /\
      (forall x, In x pre -> exists f', eval f' c (QRule r x) e = (EFound None, e)) /\
      exists f', eval f' c (QRule r cand) e = (EFound (Some m), e').

(* any: only the winning branch's bindings, evaluated from the original environment *)
Definition C04_any_winner_stmt : Prop :=
  forall fuel c rs n e m e',
    eval fuel c (QRule (RAny rs) n) e = (EFound (Some m), e') ->
    m = n /\
    exists pre r post,
      rs = pre ++ r :: post /\
      (forall x, In x pre -> exists f', eval f' c (QRule x n) e = (EFound None, e)) /\
      exists f' m', eval f' c (QRule r n) e = (EFound (Some m'), e').

(* all: the union — the environment is threaded left to right through every sub-rule *)
Inductive all_chain (c : ctx) (n : loc) : list rule -> env -> env -> Prop :=
| ac_nil e : all_chain c n [] e e
| ac_cons r rs e e1 e2 f m :
    eval f c (QRule r n) e = (EFound (Some m), e1) ->
    all_chain c n rs e1 e2 ->
    all_chain c n (r :: rs) e e2.
Definition C04_all_union_stmt : Prop :=
  forall fuel c rs n e m e',
    eval fuel c (QRule (RAll rs) n) e = (EFound (Some m), e') ->
    m = n /\ all_chain c n rs e e'.

(* coherence: the pattern matcher never overwrites a single-capture binding with a node that is
   not structurally identical ([exact] = does_node_match_exactly) *)
Definition env_coherent_ext (src : str) (e e' : env) : Prop :=
  forall x t, lookup x (m_single e) = Some t ->
    exists t', lookup x (m_single e') = Some t' /\ exact src t t' = true.
Definition C04_coherent_stmt : Prop :=
  forall src p c e e',
    pattern_match src p c e = Matched e' -> env_coherent_ext src e e'.

(* ------------------------------------------------------------------ C05 *)

(* patterns without capturing meta variables *)
Fixpoint pnode_closed (p : pnode) : bool :=
  match p with
  | PMeta (Capture _ _) | PMeta (MultiCapture _) => false
  | PMeta _ => true
  | PTerm _ _ _ => true
  | PInt _ cs => (fix go (l : list pnode) := match l with [] => true | x :: r => pnode_closed x && go r end) cs
  end.

Fixpoint rule_closed (r : rule) : bool :=
  let stop_closed (s : stopby) :=
    match s with SRule sr => rule_closed sr | _ => true end in
  match r with
  | RPattern p => pnode_closed (p_node p)
  | RKind _ | RRegex _ | RRange _ _ _ _ | RMatches _ => true
  | RNth _ _ _ o => match o with Some r' => rule_closed r' | None => true end
  | RInside r' s _ | RHas r' s _ => rule_closed r' && stop_closed s
  | RPrecedes r' s | RFollows r' s => rule_closed r' && stop_closed s
  | RAll rs | RAny rs => (fix go (l : list rule) := match l with [] => true | x :: t => rule_closed x && go t end) rs
  | RNot r' => rule_closed r'
  end.

Definition ctx_closed (c : ctx) : bool := forallb (fun p => rule_closed (snd p)) (c_utils c).

(* every field id mentioned by the rule labels at most one child of any node *)
Fixpoint rule_fields (r : rule) : list N :=
  let stop_fields (s : stopby) := match s with SRule sr => rule_fields sr | _ => [] end in
  match r with
  | RInside r' s f | RHas r' s f => (match f with Some x => [x] | None => [] end) ++ rule_fields r' ++ stop_fields s
  | RPrecedes r' s | RFollows r' s => rule_fields r' ++ stop_fields s
  | RNth _ _ _ (Some r') => rule_fields r'
  | RAll rs | RAny rs => (fix go (l : list rule) := match l with [] => [] | x :: t => rule_fields x ++ go t end) rs
  | RNot r' => rule_fields r'
  | _ => []
  end.

Definition doc_ok (c : ctx) (r : rule) : Prop :=
  wfb (c_root c) = true /\ nonzero_widthb (c_root c) = true /\ ids_unique (c_root c) /\
  (forall f, In f (rule_fields r ++ flat_map (fun p => rule_fields (snd p)) (c_utils c)) ->
             field_uniqueb f (c_root c) = true).

(* the evaluator decides exactly the reference semantics (whenever neither runs out of fuel) *)
Definition C05_eval_iff_sem_closed_stmt : Prop :=
  forall c r n e fuel1 fuel2 res e' b,
    rule_closed r = true -> ctx_closed c = true -> doc_ok c r ->
    eval fuel1 c (QRule r n) e = (EFound res, e') ->
    sem fuel2 c r n = Some b ->
    b = is_some res.

(* navigation facts the equivalence rests on (also C19) *)
Definition C19_next_all_stmt : Prop :=
  forall root p,
    wfb root = true -> nonzero_widthb root = true -> get root p <> None ->
    next_all root p = later_siblings root p /\ prev_all root p = earlier_siblings root p.
