(* C01 (scan part) / C14 — proofs of the statements of Rule/ScanSpec.v about CombinedScan. *)
From Coq Require Import List NArith ZArith Bool Arith Permutation Lia.
From AG Require Import Base.Val Base.Sort Tree.Tree Tree.Wf Rule.Rule Rule.Traversal Rule.TraversalSpec
  Rule.TraversalProofs Rule.Scan Rule.ScanSpec.
Import ListNotations.

(* ------------------------------------------------------------------ strings, lists *)

Lemma sc_str_eqb_refl : forall a, str_eqb a a = true.
Proof. induction a as [|x a IH]; [reflexivity|]. cbn [str_eqb]. rewrite N.eqb_refl. exact IH. Qed.

Lemma sc_str_eqb_eq : forall a b, str_eqb a b = true -> a = b.
Proof.
  induction a as [|x a IH]; intros [|y b] H; cbn [str_eqb] in H; try discriminate; [reflexivity|].
  apply andb_true_iff in H as [H1 H2]. apply N.eqb_eq in H1. subst. f_equal. apply IH. exact H2.
Qed.

Definition isnil {A} (l : list A) : bool := match l with [] => true | _ => false end.

Lemma sc_isnil_app : forall A (a b : list A), isnil (a ++ b) = isnil a && isnil b.
Proof. intros A [|x a] b; reflexivity. Qed.

Lemma sc_existsb_In : forall n l, existsb (N.eqb n) l = true <-> In n l.
Proof.
  intros n l. rewrite existsb_exists. split.
  - intros (x & Hx & E). apply N.eqb_eq in E. subst. exact Hx.
  - intros H. exists n. split; [exact H | apply N.eqb_refl].
Qed.

Lemma sc_flat_map_opt : forall A B C (f : A -> option B) (g : B -> list C) L P,
  map f L = map Some P ->
  flat_map (fun l => match f l with Some t => g t | None => [] end) L = flat_map g P.
Proof.
  induction L as [|a L IH]; intros [|b P] H; cbn [map] in H; try discriminate; [reflexivity|].
  injection H as H1 H2. cbn [flat_map]. rewrite H1. f_equal. apply IH. exact H2.
Qed.

Lemma sc_flat_map_filter : forall A B (p : A -> bool) (f : A -> B) l,
  flat_map (fun t => if p t then [f t] else []) l = map f (filter p l).
Proof.
  induction l as [|a l IH]; [reflexivity|]. cbn [flat_map filter]. destruct (p a); cbn [map app]; rewrite IH; reflexivity.
Qed.

Lemma sc_flat_map_nil : forall A B (h : A -> list B) l, (forall x, In x l -> h x = []) -> flat_map h l = [].
Proof.
  induction l as [|a l IH]; intros H; [reflexivity|]. cbn [flat_map]. rewrite (H a) by now left.
  apply IH. intros x Hx. apply H. now right.
Qed.

Lemma sc_id_inj : forall A B (f : A -> B) l a b, NoDup (map f l) -> In a l -> In b l -> f a = f b -> a = b.
Proof.
  induction l as [|x l IH]; intros a b Hn Ha Hb E; [contradiction|].
  cbn [map] in Hn. inversion Hn as [|? ? Hx Hn']; subst.
  destruct Ha as [<-|Ha]; destruct Hb as [<-|Hb].
  - reflexivity.
  - exfalso. apply Hx. rewrite E. apply in_map. exact Hb.
  - exfalso. apply Hx. rewrite <- E. apply in_map. exact Ha.
  - eapply IH; eassumption.
Qed.

Lemma sc_NoDup_map_inj : forall A B (f : A -> B) l, (forall a b, f a = f b -> a = b) -> NoDup l -> NoDup (map f l).
Proof.
  induction l as [|x l IH]; intros Hf Hn; [constructor|]. inversion Hn as [|? ? Hx Hn']; subst.
  cbn [map]. constructor; [|apply IH; assumption].
  intros Hi. apply in_map_iff in Hi as (y & E & Hy). apply Hf in E. subst. contradiction.
Qed.

(* ------------------------------------------------------------------ pre-order nodes and locations *)

Lemma sc_get_pre_locs : forall t top p, get top p = Some t ->
  map (get top) (pre_locs_t t p) = map Some (preorder t).
Proof.
  induction t as [x cs IH] using tree_ind'. intros top p Hg.
  rewrite pre_locs_t_eq, tv_preorder_unfold. cbn [map]. rewrite Hg. f_equal.
  assert (G : forall l i,
            Forall (fun t => forall top p, get top p = Some t ->
                                           map (get top) (pre_locs_t t p) = map Some (preorder t)) l ->
            (forall j c, nth_error l j = Some c -> get top (p ++ [i + j]) = Some c) ->
            map (get top) (pre_list p l i) = map Some (flat_map preorder l)).
  { induction l as [|c r IHl]; intros i HF Hn; [reflexivity|].
    inversion HF as [|? ? Hc Hr]; subst.
    rewrite pre_list_cons. cbn [flat_map]. rewrite !map_app. f_equal.
    - apply Hc. specialize (Hn 0 c eq_refl). rewrite Nat.add_0_r in Hn. exact Hn.
    - apply IHl; [exact Hr|]. intros j c' Hj. specialize (Hn (S j) c' Hj).
      replace (S i + j) with (i + S j) by lia. exact Hn. }
  apply G; [exact IH|]. intros j c Hj. rewrite tv_get_snoc, Hg. cbn [children plus]. exact Hj.
Qed.

Lemma sc_get_pre : forall top, map (get top) (pre_locs_t top []) = map Some (preorder top).
Proof. intros top. apply sc_get_pre_locs. reflexivity. Qed.

Lemma sc_in_preorder_loc : forall top t, In t (preorder top) ->
  exists l, In l (pre_locs_t top []) /\ get top l = Some t.
Proof.
  intros top t H. assert (H' : In (Some t) (map (get top) (pre_locs_t top []))).
  { rewrite sc_get_pre. apply in_map. exact H. }
  apply in_map_iff in H' as (l & E & Hl). exists l. auto.
Qed.

Lemma sc_loc_in_pre : forall top l t, get top l = Some t -> In l (pre_locs_t top []).
Proof. intros top l t H. apply in_pre_locs_root. congruence. Qed.

Lemma sc_node_inj : forall root t t', ids_unique root ->
  In t (preorder root) -> In t' (preorder root) -> tid t = tid t' -> t = t'.
Proof. intros root t t' Hu Ht Ht' E. eapply sc_id_inj; eassumption. Qed.

Lemma sc_loc_inj : forall root l l' c c', ids_unique root ->
  get root l = Some c -> get root l' = Some c' -> tid c = tid c' -> l = l'.
Proof.
  intros root l l' c c' Hu Hl Hl' E.
  apply (sc_id_inj _ _ (fun l => option_map tid (get root l)) (pre_locs_t root [])).
  - rewrite <- (map_map (get root) (option_map tid)), sc_get_pre, map_map. cbn [option_map].
    rewrite <- (map_map tid Some). apply sc_NoDup_map_inj; [|exact Hu].
    intros a b H. injection H as H. exact H.
  - eapply sc_loc_in_pre; eassumption.
  - eapply sc_loc_in_pre; eassumption.
  - cbv beta. rewrite Hl, Hl'. cbn [option_map]. f_equal. exact E.
Qed.

(* ------------------------------------------------------------------ the suppression table *)

Definition mk_supp (src : str) (c : tree) : supp :=
  {| su_set := parse_suppression_set (text_of src c); su_node := tid c |}.

(* what the collection pass pushes for one location: (governed line, entry) *)
Definition entry (src : str) (root : tree) (l : loc) : option (N * supp) :=
  match get root l with
  | Some t => if is_supp_comment src t then Some (governed_line src root l, mk_supp src t) else None
  | None => None
  end.

Definition picks (src : str) (root : tree) (line : N) (l : loc) : list supp :=
  match entry src root l with
  | Some (k, x) => if N.eqb k line then [x] else []
  | None => []
  end.

Lemma sc_get_push : forall line k x tb,
  table_get line (table_push k x tb) = table_get line tb ++ (if N.eqb k line then [x] else []).
Proof.
  intros line k x. induction tb as [|[l xs] r IH].
  - cbn [table_push table_get]. destruct (N.eqb k line); reflexivity.
  - cbn [table_push]. destruct (N.eqb l k) eqn:E.
    + apply N.eqb_eq in E. subst l. cbn [table_get].
      destruct (N.eqb k line); [reflexivity | now rewrite app_nil_r].
    + cbn [table_get]. destruct (N.eqb l line) eqn:E2; [|exact IH].
      apply N.eqb_eq in E2. subst l. rewrite N.eqb_sym in E. rewrite E. now rewrite app_nil_r.
Qed.

Lemma sc_collect_entry : forall src root tb l,
  collect_one src root tb l =
  match entry src root l with Some (k, x) => table_push k x tb | None => tb end.
Proof.
  intros src root tb l. unfold collect_one, entry, governed_line, own_line, is_supp_comment, mk_supp.
  destruct (get root l) as [t|]; [|reflexivity].
  destruct (is_comment t && containsb IGNORE_TEXT (text_of src t)); reflexivity.
Qed.

Lemma sc_table_get_fold : forall src root line locs tb,
  table_get line (fold_left (collect_one src root) locs tb) =
  table_get line tb ++ flat_map (picks src root line) locs.
Proof.
  intros src root line. induction locs as [|l locs IH]; intros tb; cbn [fold_left flat_map]; [now rewrite app_nil_r|].
  rewrite IH, sc_collect_entry, app_assoc. f_equal. unfold picks.
  destruct (entry src root l) as [[k x]|]; [apply sc_get_push | now rewrite app_nil_r].
Qed.

Definition all_ids (tb : table) : list N := flat_map (fun e => map su_node (snd e)) tb.

Lemma sc_all_push : forall n k x tb,
  In n (all_ids (table_push k x tb)) <-> n = su_node x \/ In n (all_ids tb).
Proof.
  intros n k x. unfold all_ids. induction tb as [|[l xs] r IH].
  - cbn. intuition congruence.
  - cbn [table_push]. destruct (N.eqb l k).
    + cbn [flat_map snd]. rewrite !in_app_iff, map_app, in_app_iff. cbn. intuition congruence.
    + cbn [flat_map snd]. rewrite !in_app_iff, IH. tauto.
Qed.

Lemma sc_all_fold : forall src root n locs tb,
  In n (all_ids (fold_left (collect_one src root) locs tb)) <->
  In n (all_ids tb) \/ exists l k x, In l locs /\ entry src root l = Some (k, x) /\ su_node x = n.
Proof.
  intros src root n. induction locs as [|l locs IH]; intros tb; cbn [fold_left].
  - split; [now left|]. intros [H|(l & k & x & [] & _)]. exact H.
  - rewrite IH, sc_collect_entry. destruct (entry src root l) as [[k x]|] eqn:E.
    + rewrite sc_all_push. split.
      * intros [[->|H]|(l' & k' & x' & H1 & H2 & H3)].
        -- right. exists l, k, x. split; [now left|]. auto.
        -- now left.
        -- right. exists l', k', x'. split; [now right|]. auto.
      * intros [H|(l' & k' & x' & [<-|H1] & H2 & H3)].
        -- left. now right.
        -- rewrite E in H2. injection H2 as <- <-. left. left. now symmetry.
        -- right. exists l', k', x'. auto.
    + split.
      * intros [H|(l' & k' & x' & H1 & H2 & H3)]; [now left|].
        right. exists l', k', x'. split; [now right|]. auto.
      * intros [H|(l' & k' & x' & [<-|H1] & H2 & H3)]; [now left | congruence |].
        right. exists l', k', x'. auto.
Qed.

Lemma sc_entry_inv : forall src root l k x, entry src root l = Some (k, x) ->
  exists c, get root l = Some c /\ is_supp_comment src c = true /\
            k = governed_line src root l /\ x = mk_supp src c.
Proof.
  intros src root l k x H. unfold entry in H. destruct (get root l) as [c|]; [|discriminate].
  destruct (is_supp_comment src c) eqn:E; [|discriminate]. injection H as <- <-. exists c. auto.
Qed.

Lemma sc_entry_intro : forall src root l c, get root l = Some c -> is_supp_comment src c = true ->
  entry src root l = Some (governed_line src root l, mk_supp src c).
Proof. intros src root l c Hg Hs. unfold entry. rewrite Hg, Hs. reflexivity. Qed.

Lemma sc_in_picks : forall src root line s locs,
  In s (flat_map (picks src root line) locs) <->
  exists l k, In l locs /\ entry src root l = Some (k, s) /\ N.eqb k line = true.
Proof.
  intros src root line s locs. rewrite in_flat_map. split.
  - intros (l & Hl & Hs). unfold picks in Hs. destruct (entry src root l) as [[k x]|] eqn:E; [|contradiction].
    destruct (N.eqb k line) eqn:Ek; [|contradiction]. destruct Hs as [<-|[]]. exists l, k. auto.
  - intros (l & k & Hl & E & Ek). exists l. split; [exact Hl|]. unfold picks. rewrite E, Ek. now left.
Qed.

(* the declarative [silenced] reads the same entries *)
Lemma sc_silenced_picks : forall src root rid t,
  silenced src root rid t =
  negb (isnil (filter (silences rid) (flat_map (picks src root (start_line src t)) (pre_locs_t root [])))).
Proof.
  intros src root rid t. unfold silenced. induction (pre_locs_t root []) as [|l L IH]; [reflexivity|].
  cbn [existsb flat_map]. rewrite filter_app, sc_isnil_app, negb_andb, IH. f_equal.
  unfold picks, entry. destruct (get root l) as [c|]; [|reflexivity].
  destruct (is_supp_comment src c); [|reflexivity]. cbn [andb].
  destruct (N.eqb (governed_line src root l) (start_line src t)); [|reflexivity]. cbn [andb filter].
  fold (mk_supp src c). destruct (silences rid (mk_supp src c)); reflexivity.
Qed.

(* ------------------------------------------------------------------ the matching pass on one node *)

Definition step (t : tree) (sups : list supp) (a : scan_out) (r : srule) : scan_out :=
  if existsb (N.eqb (tid t)) (sr_hits r) then
    match filter (silences (sr_id r)) sups with
    | [] => {| so_found := so_found a ++ [(sr_id r, tid t)]; so_used := so_used a |}
    | _ => {| so_found := so_found a;
              so_used := so_used a ++ map su_node (filter (silences (sr_id r)) sups) |}
    end
  else a.

Lemma sc_scan_node_some : forall src root rules tb acc l t, get root l = Some t ->
  scan_node src root rules tb acc l =
  fold_left (step t (table_get (start_line src t) tb)) (rules_for_kind rules (kind t)) acc.
Proof. intros src root rules tb acc l t Hg. unfold scan_node. rewrite Hg. reflexivity. Qed.

Lemma sc_scan_node_none : forall src root rules tb acc l, get root l = None ->
  scan_node src root rules tb acc l = acc.
Proof. intros src root rules tb acc l Hg. unfold scan_node. rewrite Hg. reflexivity. Qed.

Lemma sc_found_of_snoc : forall rid l id n,
  found_of rid (l ++ [(id, n)]) = found_of rid l ++ (if str_eqb id rid then [n] else []).
Proof.
  intros rid l id n. unfold found_of. rewrite filter_app, map_app. cbn [filter fst].
  destruct (str_eqb id rid); reflexivity.
Qed.

Definition contrib (t : tree) (sups : list supp) (rid : str) (r : srule) : list N :=
  if str_eqb (sr_id r) rid && hit r t && isnil (filter (silences (sr_id r)) sups) then [tid t] else [].

Lemma sc_step_found1 : forall t sups rid a r,
  found_of rid (so_found (step t sups a r)) = found_of rid (so_found a) ++ contrib t sups rid r.
Proof.
  intros t sups rid a r. unfold step, contrib, hit. destruct (existsb (N.eqb (tid t)) (sr_hits r)).
  - destruct (filter (silences (sr_id r)) sups) as [|s0 ss].
    + cbn [so_found isnil]. rewrite sc_found_of_snoc, !andb_true_r. reflexivity.
    + cbn [so_found isnil]. rewrite andb_false_r, app_nil_r. reflexivity.
  - rewrite andb_false_r, app_nil_r. reflexivity.
Qed.

Lemma sc_step_found : forall t sups rid rs a,
  found_of rid (so_found (fold_left (step t sups) rs a)) =
  found_of rid (so_found a) ++ flat_map (contrib t sups rid) rs.
Proof.
  intros t sups rid. induction rs as [|r rs IH]; intros a; cbn [fold_left flat_map]; [now rewrite app_nil_r|].
  rewrite IH, sc_step_found1, app_assoc. reflexivity.
Qed.

Lemma sc_step_used1 : forall t sups a r n,
  In n (so_used (step t sups a r)) <->
  In n (so_used a) \/
  (hit r t = true /\ exists s, In s sups /\ silences (sr_id r) s = true /\ su_node s = n).
Proof.
  intros t sups a r n. unfold step, hit. destruct (existsb (N.eqb (tid t)) (sr_hits r)).
  - destruct (filter (silences (sr_id r)) sups) as [|s0 ss] eqn:EF.
    + cbn [so_used]. split; [now left|]. intros [H|(_ & s & Hs & Hsil & _)]; [exact H|].
      exfalso. assert (Hi : In s (filter (silences (sr_id r)) sups)) by (apply filter_In; auto).
      rewrite EF in Hi. contradiction.
    + cbn [so_used]. rewrite <- EF, in_app_iff, in_map_iff. split.
      * intros [H|(s & E & Hs)]; [now left|]. apply filter_In in Hs as [Hs1 Hs2].
        right. split; [reflexivity|]. exists s. auto.
      * intros [H|(_ & s & Hs & Hsil & E)]; [now left|]. right. exists s. split; [exact E|].
        apply filter_In. auto.
  - split; [now left|]. intros [H|(H & _)]; [exact H | discriminate].
Qed.

Lemma sc_step_used : forall t sups n rs a,
  In n (so_used (fold_left (step t sups) rs a)) <->
  In n (so_used a) \/
  exists r s, In r rs /\ hit r t = true /\ In s sups /\ silences (sr_id r) s = true /\ su_node s = n.
Proof.
  intros t sups n. induction rs as [|r rs IH]; intros a; cbn [fold_left].
  - split; [now left|]. intros [H|(r & s & [] & _)]. exact H.
  - rewrite IH, sc_step_used1. split.
    + intros [[H|(Hh & s & H1 & H2 & H3)]|(r' & s & H0 & H1)].
      * now left.
      * right. exists r, s. split; [now left|]. auto.
      * right. exists r', s. split; [now right|]. auto.
    + intros [H|(r' & s & [<-|H0] & H1 & H2 & H3 & H4)].
      * left. now left.
      * left. right. split; [exact H1|]. exists s. auto.
      * right. exists r', s. auto.
Qed.

(* ------------------------------------------------------------------ sorting the rules *)

Lemma sc_insert_perm : forall r l, Permutation (insert_rule r l) (r :: l).
Proof.
  intros r. induction l as [|x t IH]; cbn [insert_rule]; [reflexivity|].
  destruct (rule_leb r x); [reflexivity|].
  eapply perm_trans; [apply perm_skip, IH | apply perm_swap].
Qed.

Lemma sc_sort_perm : forall l, Permutation (sort_rules l) l.
Proof.
  induction l as [|r l IH]; [constructor|]. unfold sort_rules in *. cbn [fold_right].
  eapply perm_trans; [apply sc_insert_perm | apply perm_skip, IH].
Qed.

Lemma sc_sort_in : forall r l, In r (sort_rules l) <-> In r l.
Proof.
  intros r l. split; apply Permutation_in; [apply sc_sort_perm | apply Permutation_sym, sc_sort_perm].
Qed.

Lemma sc_sort_nodup : forall l, NoDup (map sr_id l) -> NoDup (map sr_id (sort_rules l)).
Proof.
  intros l H. eapply Permutation_NoDup; [|exact H]. apply Permutation_map, Permutation_sym, sc_sort_perm.
Qed.

(* only the rule itself contributes to its findings *)
Lemma sc_flat_map_unique : forall (h : srule -> list N) (p : srule -> bool) rules r,
  NoDup (map sr_id rules) -> In r rules ->
  (forall r', sr_id r' <> sr_id r -> h r' = []) ->
  (p r = false -> h r = []) ->
  flat_map h (filter p rules) = h r.
Proof.
  intros h p rules r Hn Hin Hother Hp. induction rules as [|x rest IH]; [contradiction|].
  cbn [map] in Hn. inversion Hn as [|? ? Hx Hn']; subst. destruct Hin as [->|Hin].
  - assert (Hrest : flat_map h (filter p rest) = []).
    { apply sc_flat_map_nil. intros y Hy. apply filter_In in Hy as [Hy _]. apply Hother.
      intros E. apply Hx. rewrite <- E. apply in_map. exact Hy. }
    cbn [filter]. destruct (p r) eqn:Epr.
    + cbn [flat_map]. rewrite Hrest. apply app_nil_r.
    + rewrite Hrest. symmetry. apply Hp. reflexivity.
  - assert (Hx' : h x = []).
    { apply Hother. intros E. apply Hx. rewrite E. apply in_map. exact Hin. }
    cbn [filter]. destruct (p x); [cbn [flat_map]; rewrite Hx'; cbn [app]|]; apply IH; assumption.
Qed.

(* ------------------------------------------------------------------ C01: the findings of one rule *)

Definition tb_ok (src : str) (root : tree) (tb : table) : Prop :=
  forall line, table_get line tb = flat_map (picks src root line) (pre_locs_t root []).

Definition node_contrib (src : str) (root : tree) (r : srule) (t : tree) : list N :=
  if hit r t && negb (silenced src root (sr_id r) t) then [tid t] else [].

Lemma sc_node_found : forall src root rules tb r acc l,
  tb_ok src root tb -> NoDup (map sr_id rules) -> In r rules -> kinds_sound root r ->
  found_of (sr_id r) (so_found (scan_node src root rules tb acc l)) =
  found_of (sr_id r) (so_found acc) ++
  match get root l with Some t => node_contrib src root r t | None => [] end.
Proof.
  intros src root rules tb r acc l Htb Hn Hin Hk. destruct (get root l) as [t|] eqn:Hg.
  - rewrite (sc_scan_node_some _ _ _ _ _ _ _ Hg), sc_step_found. f_equal.
    unfold rules_for_kind. rewrite (sc_flat_map_unique _ _ rules r Hn Hin).
    + unfold contrib, node_contrib. rewrite sc_str_eqb_refl, Htb, sc_silenced_picks, negb_involutive.
      reflexivity.
    + intros r' Hne. unfold contrib. destruct (str_eqb (sr_id r') (sr_id r)) eqn:E; [|reflexivity].
      apply sc_str_eqb_eq in E. contradiction.
    + intros Hp. unfold contrib. destruct (hit r t) eqn:Hh; [|now rewrite andb_false_r].
      exfalso. unfold hit in Hh. apply sc_existsb_In in Hh.
      destruct (Hk t (tv_get_in_preorder _ _ _ Hg) Hh) as (ks & Eks & Hks).
      rewrite Eks, Hks in Hp. discriminate.
  - rewrite (sc_scan_node_none _ _ _ _ _ _ Hg). now rewrite app_nil_r.
Qed.

Lemma sc_fold_found : forall src root rules tb r,
  tb_ok src root tb -> NoDup (map sr_id rules) -> In r rules -> kinds_sound root r ->
  forall locs acc,
  found_of (sr_id r) (so_found (fold_left (scan_node src root rules tb) locs acc)) =
  found_of (sr_id r) (so_found acc) ++
  flat_map (fun l => match get root l with Some t => node_contrib src root r t | None => [] end) locs.
Proof.
  intros src root rules tb r Htb Hn Hin Hk. induction locs as [|l locs IH]; intros acc; cbn [fold_left flat_map].
  - now rewrite app_nil_r.
  - rewrite IH, (sc_node_found _ _ _ _ _ _ _ Htb Hn Hin Hk), app_assoc. reflexivity.
Qed.

Lemma sc_tb_ok : forall src root, tb_ok src root (fold_left (collect_one src root) (pre_locs_t root []) []).
Proof. intros src root line. rewrite sc_table_get_fold. reflexivity. Qed.

Lemma C01_scan : C01_scan_stmt.
Proof.
  intros src root rules r Hu Hn Hin Hk. unfold scan. cbn [res_found]. rewrite (C19_pre root Hu).
  rewrite (sc_fold_found src root (sort_rules rules) _ r (sc_tb_ok src root) (sc_sort_nodup _ Hn)
             (proj2 (sc_sort_in _ _) Hin) Hk).
  cbn [so_found found_of filter map app].
  rewrite (sc_flat_map_opt _ _ _ (get root) (node_contrib src root r) _ _ (sc_get_pre root)).
  unfold node_contrib. apply sc_flat_map_filter.
Qed.
Print Assumptions C01_scan.

(* ------------------------------------------------------------------ C14: suppressed iff silenced *)

Lemma sc_in_found_of : forall rid n l, In n (found_of rid l) <-> In (rid, n) l.
Proof.
  intros rid n l. unfold found_of. rewrite in_map_iff. split.
  - intros ([a b] & E & H). cbn [snd] in E. subst b. apply filter_In in H as [H1 H2]. cbn [fst] in H2.
    apply sc_str_eqb_eq in H2. subst a. exact H1.
  - intros H. exists (rid, n). split; [reflexivity|]. apply filter_In. split; [exact H|].
    cbn [fst]. apply sc_str_eqb_refl.
Qed.

Lemma C14_iff : C14_iff_stmt.
Proof.
  intros src root rules r t Hu Hn Hin Hk Ht Hh.
  rewrite <- sc_in_found_of, (C01_scan src root rules r Hu Hn Hin Hk), in_map_iff. split.
  - intros (t' & E & Hf). apply filter_In in Hf as [Ht' Hb].
    assert (t' = t) by (eapply sc_node_inj; eassumption). subst t'.
    rewrite Hh in Hb. cbn [andb] in Hb. apply negb_true_iff in Hb. exact Hb.
  - intros Hs. exists t. split; [reflexivity|]. apply filter_In. split; [exact Ht|].
    rewrite Hh, Hs. reflexivity.
Qed.
Print Assumptions C14_iff.

(* ------------------------------------------------------------------ C14: unused suppressions *)

Lemma sc_node_used : forall src root rules tb n acc l,
  In n (so_used (scan_node src root rules tb acc l)) <->
  In n (so_used acc) \/
  exists t r s, get root l = Some t /\ In r (rules_for_kind rules (kind t)) /\ hit r t = true /\
                In s (table_get (start_line src t) tb) /\ silences (sr_id r) s = true /\ su_node s = n.
Proof.
  intros src root rules tb n acc l. destruct (get root l) as [t|] eqn:Hg.
  - rewrite (sc_scan_node_some _ _ _ _ _ _ _ Hg), sc_step_used. split.
    + intros [H|(r & s & H)]; [now left|]. right. exists t, r, s. split; [reflexivity | exact H].
    + intros [H|(t' & r & s & E & H)]; [now left|]. injection E as <-. right. exists r, s. exact H.
  - rewrite (sc_scan_node_none _ _ _ _ _ _ Hg). split; [now left|].
    intros [H|(t' & r & s & E & _)]; [exact H | discriminate].
Qed.

Lemma sc_fold_used : forall src root rules tb n locs acc,
  In n (so_used (fold_left (scan_node src root rules tb) locs acc)) <->
  In n (so_used acc) \/
  exists l t r s, In l locs /\ get root l = Some t /\ In r (rules_for_kind rules (kind t)) /\ hit r t = true /\
                  In s (table_get (start_line src t) tb) /\ silences (sr_id r) s = true /\ su_node s = n.
Proof.
  intros src root rules tb n. induction locs as [|l locs IH]; intros acc; cbn [fold_left].
  - split; [now left|]. intros [H|(l & t & r & s & [] & _)]. exact H.
  - rewrite IH, sc_node_used. split.
    + intros [[H|(t & r & s & H)]|(l' & t & r & s & H0 & H)].
      * now left.
      * right. exists l, t, r, s. split; [now left | exact H].
      * right. exists l', t, r, s. split; [now right | exact H].
    + intros [H|(l' & t & r & s & [<-|H0] & H)].
      * left. now left.
      * left. right. exists t, r, s. exact H.
      * right. exists l', t, r, s. split; [exact H0 | exact H].
Qed.

Lemma C14_unused : C14_unused_stmt.
Proof.
  intros src root rules c l Hu Hn Hk Hg. unfold scan. cbn [res_unused]. rewrite (C19_pre root Hu).
  set (L := pre_locs_t root []).
  set (tb := fold_left (collect_one src root) L []).
  fold (all_ids tb).
  set (out := fold_left (scan_node src root (sort_rules rules) tb) L {| so_found := []; so_used := [] |}).
  assert (Htb : tb_ok src root tb) by apply sc_tb_ok.
  assert (HlL : In l L) by (eapply sc_loc_in_pre; eassumption).
  assert (Hcpre : In c (preorder root)) by (eapply tv_get_in_preorder; eassumption).
  (* membership in the table *)
  assert (Hall : In (tid c) (all_ids tb) <-> is_supp_comment src c = true).
  { unfold tb. rewrite sc_all_fold. split.
    - intros [[]|(l' & k & x & Hl' & E & Ex)]. apply sc_entry_inv in E as (c' & Hg' & Hs' & _ & ->).
      cbn [mk_supp su_node] in Ex.
      assert (c' = c).
      { eapply sc_node_inj; [exact Hu | eapply tv_get_in_preorder; eassumption | exact Hcpre | exact Ex]. }
      subst c'. exact Hs'.
    - intros Hs. right. exists l, (governed_line src root l), (mk_supp src c).
      split; [exact HlL|]. split; [apply sc_entry_intro; assumption | reflexivity]. }
  (* being used *)
  assert (Hused : is_supp_comment src c = true ->
            (In (tid c) (so_used out) <->
             exists r t, In r rules /\ In t (preorder root) /\ hit r t = true /\
                         N.eqb (governed_line src root l) (start_line src t) = true /\
                         silences (sr_id r) {| su_set := parse_suppression_set (text_of src c); su_node := tid c |} = true)).
  { intros Hs. unfold out. rewrite sc_fold_used. cbn [so_used]. split.
    - intros [[]|(lt & t & r & s & Hlt & Hgt & Hr & Hh & Hin & Hsil & Eid)].
      rewrite Htb in Hin. apply sc_in_picks in Hin as (l' & k & Hl' & E & Ek).
      apply sc_entry_inv in E as (c' & Hg' & Hs' & -> & ->). cbn [mk_supp su_node] in Eid.
      assert (l' = l) by (eapply sc_loc_inj; eassumption). subst l'.
      assert (c' = c) by congruence. subst c'.
      exists r, t. unfold rules_for_kind in Hr. apply filter_In in Hr as [Hr _]. apply (proj1 (sc_sort_in _ _)) in Hr.
      split; [exact Hr|]. split; [eapply tv_get_in_preorder; eassumption|]. auto.
    - intros (r & t & Hr & Ht & Hh & Ek & Hsil). right.
      destruct (sc_in_preorder_loc root t Ht) as (lt & Hlt & Hgt).
      exists lt, t, r, (mk_supp src c). split; [exact Hlt|]. split; [exact Hgt|]. split.
      { unfold rules_for_kind. apply filter_In. split; [apply sc_sort_in; exact Hr|].
        unfold hit in Hh. apply sc_existsb_In in Hh.
        destruct (Hk r Hr t Ht Hh) as (ks & Eks & Hks). rewrite Eks. exact Hks. }
      split; [exact Hh|]. split.
      { rewrite Htb. apply sc_in_picks. exists l, (governed_line src root l).
        split; [exact HlL|]. split; [apply sc_entry_intro; assumption | exact Ek]. }
      split; [exact Hsil | reflexivity]. }
  rewrite filter_In, sc_existsb_In, filter_In, negb_true_iff. split.
  - intros (_ & Hin & Hnu). apply Hall in Hin. split; [exact Hin|]. intros Hex.
    apply (Hused Hin) in Hex. apply sc_existsb_In in Hex. congruence.
  - intros (Hs & Hnex). split.
    + apply in_map_iff. exists l. split; [now rewrite Hg | exact HlL].
    + split; [apply Hall; exact Hs|]. destruct (existsb (N.eqb (tid c)) (so_used out)) eqn:E; [|reflexivity].
      exfalso. apply Hnex. apply (Hused Hs). apply sc_existsb_In. exact E.
Qed.
Print Assumptions C14_unused.

(* ------------------------------------------------------------------ C14: the id list *)

Lemma sc_split_once_unfold : forall pat s,
  split_once pat s =
  if prefixb pat s then Some ([], skipn (length pat) s)
  else match s with
       | [] => None
       | b :: r => match split_once pat r with Some (x, y) => Some (b :: x, y) | None => None end
       end.
Proof. intros pat [|b r]; reflexivity. Qed.

Lemma sc_prefixb_app : forall p b, prefixb p (p ++ b) = true.
Proof. induction p as [|a p IH]; intros b; [reflexivity|]. cbn [app prefixb]. now rewrite N.eqb_refl, IH. Qed.

Lemma sc_prefixb_app_long : forall p s b, length p <= length s -> prefixb p (s ++ b) = prefixb p s.
Proof.
  induction p as [|a p IH]; intros s b H.
  - destruct s; reflexivity.
  - destruct s as [|c s]; cbn [length] in H; [lia|]. cbn [app prefixb]. rewrite IH by lia. reflexivity.
Qed.

Lemma sc_skipn_app_len : forall (p b : str), skipn (length p) (p ++ b) = b.
Proof. induction p as [|a p IH]; intros b; [reflexivity|]. cbn [length app skipn]. apply IH. Qed.

(* the only occurrence of [pat] in [a ++ pat] is the final one *)
Definition first_at (pat a : str) : Prop :=
  forall k, prefixb pat (skipn k (a ++ pat)) = true -> k = length a.

Lemma sc_split_once_first : forall pat a b, first_at pat a -> split_once pat (a ++ pat ++ b) = Some (a, b).
Proof.
  intros pat. induction a as [|x a IH]; intros b H.
  - cbn [app]. rewrite sc_split_once_unfold, sc_prefixb_app, sc_skipn_app_len. reflexivity.
  - rewrite sc_split_once_unfold. destruct (prefixb pat ((x :: a) ++ pat ++ b)) eqn:E.
    + exfalso. rewrite app_assoc in E. rewrite sc_prefixb_app_long in E by (rewrite app_length; lia).
      specialize (H 0 E). discriminate.
    + cbn [app]. rewrite IH; [reflexivity|]. intros k Hk. specialize (H (S k)). cbn [app skipn] in H.
      apply H in Hk. cbn [length] in Hk. lia.
Qed.

Lemma sc_first_at_tail : forall pat x a, first_at pat (x :: a) -> first_at pat a.
Proof.
  intros pat x a H k Hk. specialize (H (S k)). cbn [app skipn] in H. apply H in Hk. cbn [length] in Hk. lia.
Qed.

Lemma sc_first_at_trim : forall pat a, first_at pat a -> first_at pat (trim_start a).
Proof.
  intros pat. induction a as [|x a IH]; intros H; [exact H|]. cbn [trim_start].
  destruct (is_ws x); [|exact H]. apply IH. eapply sc_first_at_tail. exact H.
Qed.

Definition hd_nonws (s : str) : bool := match s with c :: _ => negb (is_ws c) | [] => false end.
Definition last_nonws (s : str) : bool := hd_nonws (rev s).

Lemma sc_trim_start_app : forall p m, hd_nonws m = true -> trim_start (p ++ m) = trim_start p ++ m.
Proof.
  induction p as [|x p IH]; intros m H.
  - cbn [app trim_start]. destruct m as [|c m]; [discriminate|]. cbn [hd_nonws] in H.
    apply negb_true_iff in H. cbn [trim_start]. rewrite H. reflexivity.
  - cbn [app trim_start]. destruct (is_ws x); [apply IH; exact H | reflexivity].
Qed.

Lemma sc_trim_start_id : forall m, hd_nonws m = true -> trim_start m = m.
Proof. intros m H. rewrite <- (app_nil_l m) at 1. rewrite sc_trim_start_app by exact H. reflexivity. Qed.

Lemma sc_hd_nonws_app : forall a b, hd_nonws a = true -> hd_nonws (a ++ b) = true.
Proof. intros [|c a] b H; [discriminate | exact H]. Qed.

Lemma sc_last_nonws_app : forall a b, last_nonws b = true -> last_nonws (a ++ b) = true.
Proof. intros a b H. unfold last_nonws. rewrite rev_app_distr. apply sc_hd_nonws_app. exact H. Qed.

Lemma sc_trim_end : forall s, last_nonws (trim_start s) = true -> trim s = trim_start s.
Proof. intros s H. unfold trim. rewrite sc_trim_start_id by exact H. apply rev_involutive. Qed.

Lemma sc_clean_hd : forall x, x <> [] -> (forall b, In b x -> is_ws b = false) -> hd_nonws x = true.
Proof.
  intros [|c x] Hne H; [congruence|]. cbn [hd_nonws]. rewrite (H c) by now left. reflexivity.
Qed.

Lemma sc_clean_last : forall x, x <> [] -> (forall b, In b x -> is_ws b = false) -> last_nonws x = true.
Proof.
  intros x Hne H. unfold last_nonws. apply sc_clean_hd.
  - intros E. apply Hne. rewrite <- (rev_involutive x), E. reflexivity.
  - intros b Hb. apply H. apply in_rev. exact Hb.
Qed.

Lemma sc_trim_clean : forall x, clean_id x -> trim (32%N :: x) = x.
Proof.
  intros x [Hne Hx].
  assert (Hws : forall b, In b x -> is_ws b = false) by (intros b Hb; apply Hx; exact Hb).
  assert (E : trim_start (32%N :: x) = x).
  { cbn [trim_start]. change (is_ws 32) with true. cbv iota. apply sc_trim_start_id, sc_clean_hd; assumption. }
  rewrite sc_trim_end; rewrite E; [reflexivity | apply sc_clean_last; assumption].
Qed.

Lemma sc_join_last : forall ids, ids <> [] -> (forall x, In x ids -> clean_id x) -> last_nonws (join_ids ids) = true.
Proof.
  induction ids as [|x ids IH]; intros Hne H; [congruence|]. destruct ids as [|y r].
  - cbn [join_ids]. destruct (H x (or_introl eq_refl)) as [Hx1 Hx2].
    apply sc_clean_last; [exact Hx1|]. intros b Hb. apply Hx2. exact Hb.
  - change (join_ids (x :: y :: r)) with (x ++ [44; 32]%N ++ join_ids (y :: r)).
    apply sc_last_nonws_app, sc_last_nonws_app, IH; [discriminate|].
    intros z Hz. apply H. now right.
Qed.

Lemma sc_split_on_app : forall x rest cur, (forall b, In b x -> b <> 44%N) ->
  split_on 44 (x ++ rest) cur = split_on 44 rest (cur ++ x).
Proof.
  induction x as [|b x IH]; intros rest cur H; [now rewrite app_nil_r|].
  cbn [app split_on]. destruct (N.eqb b 44) eqn:E.
  - apply N.eqb_eq in E. exfalso. apply (H b); [now left | exact E].
  - rewrite IH by (intros b' Hb'; apply H; now right). rewrite <- app_assoc. reflexivity.
Qed.

Lemma sc_split_join : forall ids, ids <> [] -> (forall x, In x ids -> clean_id x) ->
  map trim (split_on 44 (32%N :: join_ids ids) []) = ids.
Proof.
  induction ids as [|x ids IH]; intros Hne H; [congruence|].
  assert (Hx : clean_id x) by (apply H; now left).
  assert (Hnc : forall b, In b (32%N :: x) -> b <> 44%N).
  { intros b [<-|Hb]; [discriminate|]. apply Hx. exact Hb. }
  destruct ids as [|y r].
  - cbn [join_ids]. rewrite <- (app_nil_r (32%N :: x)), sc_split_on_app by exact Hnc.
    cbn [split_on app map]. rewrite sc_trim_clean by exact Hx. reflexivity.
  - change (32%N :: join_ids (x :: y :: r)) with ((32%N :: x) ++ 44%N :: 32%N :: join_ids (y :: r)).
    rewrite sc_split_on_app by exact Hnc. cbn [split_on]. change (N.eqb 44 44) with true. cbv iota.
    cbn [app map]. rewrite sc_trim_clean by exact Hx. f_equal.
    apply IH; [discriminate|]. intros z Hz. apply H. now right.
Qed.

Lemma sc_ignore_hd : forall b, hd_nonws (IGNORE_TEXT ++ b) = true.
Proof. intros b. reflexivity. Qed.

Lemma sc_ignore_last : last_nonws IGNORE_TEXT = true.
Proof. reflexivity. Qed.

Lemma C14_ids : C14_ids_stmt.
Proof.
  split.
  - intros pre ids _ Hfirst Hne Hclean.
    assert (Hf : first_at IGNORE_TEXT (trim_start pre)) by (apply sc_first_at_trim; exact Hfirst).
    assert (Hj : last_nonws (join_ids ids) = true) by (apply sc_join_last; assumption).
    assert (Etrim : trim (pre ++ IGNORE_TEXT ++ [58; 32]%N ++ join_ids ids) =
                    trim_start pre ++ IGNORE_TEXT ++ [58; 32]%N ++ join_ids ids).
    { rewrite sc_trim_end; rewrite sc_trim_start_app by apply sc_ignore_hd; [reflexivity|].
      apply sc_last_nonws_app, sc_last_nonws_app, sc_last_nonws_app. exact Hj. }
    assert (Eafter : trim ([58; 32]%N ++ join_ids ids) = 58%N :: 32%N :: join_ids ids).
    { assert (E : trim_start ([58; 32]%N ++ join_ids ids) = 58%N :: 32%N :: join_ids ids) by reflexivity.
      rewrite sc_trim_end; rewrite E; [reflexivity|].
      change (58%N :: 32%N :: join_ids ids) with ([58; 32]%N ++ join_ids ids).
      apply sc_last_nonws_app. exact Hj. }
    unfold parse_suppression_set. rewrite Etrim, (sc_split_once_first _ _ _ Hf). cbv zeta. rewrite Eafter.
    rewrite sc_split_once_unfold. cbn [prefixb]. change (N.eqb 58 58) with true. cbn [andb length skipn].
    f_equal. apply sc_split_join; assumption.
  - intros pre _ Hfirst.
    assert (Hf : first_at IGNORE_TEXT (trim_start pre)) by (apply sc_first_at_trim; exact Hfirst).
    assert (Etrim : trim (pre ++ IGNORE_TEXT) = trim_start pre ++ IGNORE_TEXT ++ []).
    { rewrite app_nil_r.
      rewrite sc_trim_end; rewrite sc_trim_start_app by (apply (sc_ignore_hd [])); rewrite ?app_nil_r; [reflexivity|].
      apply sc_last_nonws_app. exact sc_ignore_last. }
    unfold parse_suppression_set. rewrite Etrim, (sc_split_once_first _ _ _ Hf). reflexivity.
Qed.
Print Assumptions C14_ids.
