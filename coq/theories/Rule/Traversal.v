(* Model of crates/core/src/traversal.rs (Pre, Post, Level, Visit with calibrate_for_match) and of
   the position helpers (Content::get_char_column for String), over a tree-sitter cursor that is
   scoped to the node the walk started from: a path relative to [top]; goto_parent and
   goto_next_sibling fail on the empty path. *)
From Coq Require Import List NArith ZArith Bool Arith.
From AG Require Import Base.Val Base.Sort Tree.Tree Rule.Rule.
Import ListNotations.

Definition has_child (top : tree) (p : loc) : bool :=
  match get top p with Some t => negb (is_leaf t) | None => false end.

(* cursor.node().id() == start *)
Definition at_start (top : tree) (p : loc) : bool :=
  match get top p with Some t => N.eqb (tid t) (tid top) | None => true end.

(* ---------------------------------------------------------------- Pre *)
Record pre := { pr_path : loc; pr_live : bool; pr_depth : nat }.

Definition pre_init : pre := {| pr_path := []; pr_live := true; pr_depth := 0 |}.

(* Pre::trace_up; one loop iteration per unit of fuel, the path shrinks on every iteration *)
Fixpoint trace_up (fuel : nat) (top : tree) (path : loc) (depth : nat) : pre :=
  match fuel with
  | O => {| pr_path := path; pr_live := false; pr_depth := depth |}
  | S f =>
      if at_start top path then {| pr_path := path; pr_live := false; pr_depth := depth |}
      else match next_loc top path with
           | Some q => {| pr_path := q; pr_live := true; pr_depth := depth |}
           | None =>
               match parent_loc path with
               | Some pp => trace_up f top pp (depth - 1)
               | None => {| pr_path := path; pr_live := false; pr_depth := depth - 1 |}  (* goto_parent failed: break *)
               end
           end
  end.

(* Iterator::next *)
Definition pre_next (top : tree) (s : pre) : option (loc * pre) :=
  if pr_live s then
    let p := pr_path s in
    if has_child top p
    then Some (p, {| pr_path := p ++ [0]; pr_live := true; pr_depth := S (pr_depth s) |})
    else Some (p, trace_up (S (length p)) top p (pr_depth s))
  else None.

Fixpoint pre_iter (fuel : nat) (top : tree) (s : pre) : list loc :=
  match fuel with
  | O => []
  | S f => match pre_next top s with
           | None => []
           | Some (p, s') => p :: pre_iter f top s'
           end
  end.

(* Node::dfs collected *)
Definition dfs (top : tree) : list loc := pre_iter (S (size top)) top pre_init.

(* Traversal::calibrate_for_match for Pre *)
Definition calibrate_pre (top : tree) (s : pre) (d : option nat) : pre :=
  match d with
  | None => s
  | Some depth =>
      if Nat.leb (pr_depth s) depth then s
      else if pr_live s then
        let pp := match parent_loc (pr_path s) with Some q => q | None => pr_path s end in
        trace_up (S (length pp)) top pp (pr_depth s)    (* current_depth is NOT decremented by the goto_parent *)
      else s
  end.

(* Visit::next over Pre, collected; [m] = "the matcher matches the node at this location" *)
Fixpoint visit_pre (fuel : nat) (top : tree) (reentrant : bool) (m : loc -> bool) (s : pre) : list loc :=
  match fuel with
  | O => []
  | S f =>
      let md := pr_depth s in
      match pre_next top s with
      | None => []
      | Some (p, s') =>
          if m p
          then p :: visit_pre f top reentrant m (if reentrant then s' else calibrate_pre top s' (Some md))
          else visit_pre f top reentrant m s'
      end
  end.
Definition visit_pre_all (top : tree) (reentrant : bool) (m : loc -> bool) : list loc :=
  visit_pre (S (size top)) top reentrant m pre_init.

(* FindAllNodes: dfs filtered by potential kinds, then the matcher *)
Definition find_all_locs (top : tree) (kinds : option (list N)) (m : loc -> bool) : list loc :=
  filter (fun p =>
            (match kinds with
             | None => true
             | Some ks => match get top p with Some t => existsb (N.eqb (kind t)) ks | None => false end
             end) && m p) (dfs top).

(* ---------------------------------------------------------------- Post *)
Record post := { po_path : loc; po_live : bool; po_depth : nat; po_mdepth : nat }.

(* Post::trace_down *)
Fixpoint leftmost (t : tree) (p : loc) (d : nat) : loc * nat :=
  match t with
  | T _ [] => (p, d)
  | T _ (c :: _) => leftmost c (p ++ [0]) (S d)
  end.

Definition post_init (top : tree) : post :=
  let '(p, d) := leftmost top [] 0 in {| po_path := p; po_live := true; po_depth := d; po_mdepth := 0 |}.

Definition post_next (top : tree) (s : post) : option (loc * post) :=
  if po_live s then
    let p := po_path s in
    if at_start top p
    then Some (p, {| po_path := p; po_live := false; po_depth := po_depth s; po_mdepth := po_mdepth s |})
    else match next_loc top p with
         | Some q =>
             let '(q', d') := match get top q with Some t => leftmost t q (po_depth s) | None => (q, po_depth s) end in
             Some (p, {| po_path := q'; po_live := true; po_depth := d'; po_mdepth := po_mdepth s |})
         | None =>
             let pp := match parent_loc p with Some x => x | None => p end in
             Some (p, {| po_path := pp; po_live := true; po_depth := po_depth s - 1; po_mdepth := po_mdepth s |})
         end
  else None.

Fixpoint post_iter (fuel : nat) (top : tree) (s : post) : list loc :=
  match fuel with
  | O => []
  | S f => match post_next top s with
           | None => []
           | Some (p, s') => p :: post_iter f top s'
           end
  end.
Definition post_all (top : tree) : list loc := post_iter (S (size top)) top (post_init top).

(* ---------------------------------------------------------------- Level *)
Fixpoint level_iter (fuel : nat) (top : tree) (q : list loc) : list loc :=
  match fuel with
  | O => []
  | S f => match q with
           | [] => []
           | p :: r => p :: level_iter f top (r ++ child_locs top p)
           end
  end.
Definition level_all (top : tree) : list loc := level_iter (S (size top)) top [[]].

(* ---------------------------------------------------------------- recursive baselines (the spec) *)
Fixpoint post_locs_t (t : tree) (p : loc) : list loc :=
  match t with
  | T _ cs =>
      (fix go (l : list tree) (i : nat) : list loc :=
         match l with
         | [] => []
         | c :: r => post_locs_t c (p ++ [i]) ++ go r (S i)
         end) cs 0 ++ [p]
  end.

(* locations at depth k below p, in document order *)
Fixpoint at_depth (k : nat) (t : tree) (p : loc) : list loc :=
  match k with
  | O => [p]
  | S k' =>
      match t with
      | T _ cs =>
          (fix go (l : list tree) (i : nat) : list loc :=
             match l with
             | [] => []
             | c :: r => at_depth k' c (p ++ [i]) ++ go r (S i)
             end) cs 0
      end
  end.
Fixpoint height (t : tree) : nat :=
  match t with
  | T _ cs => S ((fix go (l : list tree) : nat := match l with [] => 0 | c :: r => Nat.max (height c) (go r) end) cs)
  end.
Definition level_locs (t : tree) : list loc := flat_map (fun k => at_depth k t []) (seq 0 (height t)).

(* outermost matches: a match, or else the outermost matches of the children, in document order *)
Fixpoint outer_t (m : loc -> bool) (t : tree) (p : loc) : list loc :=
  if m p then [p] else
  match t with
  | T _ cs =>
      (fix go (l : list tree) (i : nat) : list loc :=
         match l with
         | [] => []
         | c :: r => outer_t m c (p ++ [i]) ++ go r (S i)
         end) cs 0
  end.

(* q is a proper prefix of p *)
Fixpoint proper_prefix (q p : loc) : bool :=
  match q, p with
  | [], _ :: _ => true
  | x :: q', y :: p' => Nat.eqb x y && proper_prefix q' p'
  | _, _ => false
  end.

(* ---------------------------------------------------------------- positions *)
(* Content::get_char_column for String: scan backwards from the offset to the previous newline,
   counting the bytes that are not UTF-8 continuation bytes *)
Fixpoint col_back (rev_prefix : list N) : N :=
  match rev_prefix with
  | [] => 0%N
  | b :: r => if N.eqb b 10 then 0%N
              else ((if is_cont_byte b then 0 else 1) + col_back r)%N
  end.
Definition get_char_column (src : str) (off : nat) : N := col_back (rev_append (firstn off src) []).

(* the spec: newlines before the offset; characters (non-continuation bytes) after the last newline *)
Definition count_nl (l : list N) : N := N.of_nat (length (filter (N.eqb 10) l)).
Fixpoint after_last_nl (l acc : list N) : list N :=
  match l with
  | [] => acc
  | b :: r => if N.eqb b 10 then after_last_nl r [] else after_last_nl r (acc ++ [b])
  end.
Definition count_chars (l : list N) : N := N.of_nat (length (filter (fun b => negb (is_cont_byte b)) l)).
