(* Rule objects (crates/config/src/rule/mod.rs: Rule) after deserialisation, and navigation on a
   document by paths from the root (crates/core/src/node.rs). *)
From Coq Require Import List NArith ZArith Bool Arith.
From AG Require Import Base.Val Base.Sort Str.MetaVar Str.AnB Tree.Tree Match.MatchNode.
Import ListNotations.

Inductive stopby :=
| SNeighbor
| SEnd
| SRule (r : rule)
with rule :=
| RPattern (p : pattern)
| RKind (k : N)
| RRegex (hits : list N)   (* oracle: ids of the nodes of this document whose text the regex matches *)
| RNth (a b : Z) (reverse : bool) (of_rule : option rule)
| RRange (sl sc el ec : N)
| RInside (r : rule) (stop : stopby) (fld : option N)
| RHas (r : rule) (stop : stopby) (fld : option N)
| RPrecedes (r : rule) (stop : stopby)
| RFollows (r : rule) (stop : stopby)
| RAll (rs : list rule)
| RAny (rs : list rule)
| RNot (r : rule)
| RMatches (id : str).

(* ---- locations: path from the root, top-down ---- *)
Definition loc := list nat.

Fixpoint get (t : tree) (p : loc) : option tree :=
  match p with
  | [] => Some t
  | i :: r => match nth_error (children t) i with
              | Some c => get c r
              | None => None
              end
  end.

Definition parent_loc (p : loc) : option loc :=
  match p with [] => None | _ => Some (removelast p) end.

Definition child_locs (root : tree) (p : loc) : list loc :=
  match get root p with
  | Some t => map (fun i => p ++ [i]) (seq 0 (length (children t)))
  | None => []
  end.

(* Node::ancestors: nearest first *)
Fixpoint ancestors_aux (p : loc) (n : nat) : list loc :=
  match n with
  | O => []
  | S k => firstn k p :: ancestors_aux p k
  end.
Definition ancestors (p : loc) : list loc := ancestors_aux p (length p).

(* pre-order locations of the subtree at p (Node::dfs) *)
Fixpoint pre_locs_t (t : tree) (p : loc) : list loc :=
  match t with
  | T _ cs =>
      p :: (fix go (l : list tree) (i : nat) : list loc :=
              match l with
              | [] => []
              | c :: r => pre_locs_t c (p ++ [i]) ++ go r (S i)
              end) cs 0
  end.
Definition pre_locs (root : tree) (p : loc) : list loc :=
  match get root p with Some t => pre_locs_t t p | None => [] end.

(* the cursor positioned by byte offset: parent-or-self, first child that extends beyond the byte *)
Fixpoint first_child_for_byte (cs : list tree) (b : N) (i : nat) : option nat :=
  match cs with
  | [] => None
  | c :: r => if N.ltb b (tend c) then Some i else first_child_for_byte r b (S i)
  end.

Definition sibling_base (root : tree) (p : loc) : option (loc * nat * nat) :=
  (* (parent-or-self location, index found by byte, number of children) *)
  match get root p with
  | None => None
  | Some self =>
      match parent_loc p with
      | None => None                      (* a node without parent has no sibling *)
      | Some pp =>
      match get root pp with
      | None => None
      | Some par =>
          match first_child_for_byte (children par) (tstart self) 0 with
          | Some i => Some (pp, i, length (children par))
          | None => None
          end
      end
      end
  end.

(* Node::next_all (non-wasm: a cursor positioned in the parent by byte offset) *)
Definition next_all (root : tree) (p : loc) : list loc :=
  match sibling_base root p with
  | Some (pp, i, n) => map (fun j => pp ++ [j]) (seq (S i) (n - S i))
  | None => []
  end.
(* prev_all walks the nodes' own sibling links (fix b516f38): the iterated [prev_loc], nearest first *)
Definition prev_all (root : tree) (p : loc) : list loc :=
  match get root p, parent_loc p with
  | Some _, Some pp => map (fun j => pp ++ [j]) (rev (seq 0 (last p 0)))
  | _, _ => []
  end.

(* Node::next / prev: tree-sitter's own sibling links *)
Definition next_loc (root : tree) (p : loc) : option loc :=
  match parent_loc p with
  | None => None
  | Some pp =>
      let i := last p 0 in
      match get root (pp ++ [S i]) with Some _ => Some (pp ++ [S i]) | None => None end
  end.
Definition prev_loc (root : tree) (p : loc) : option loc :=
  match parent_loc p with
  | None => None
  | Some pp =>
      match last p 0 with
      | O => None
      | S j => Some (pp ++ [j])
      end
  end.

(* child_by_field_id: first child carrying the field *)
Fixpoint find_field (cs : list tree) (f : N) (i : nat) : option nat :=
  match cs with
  | [] => None
  | c :: r => if N.eqb (nfld (info c)) f then Some i else find_field r f (S i)
  end.
Definition child_by_field (root : tree) (p : loc) (f : N) : option loc :=
  match get root p with
  | Some t => option_map (fun i => p ++ [i]) (find_field (children t) f 0)
  | None => None
  end.

(* ---- positions (Node::start_pos/end_pos, Position::column = characters since line start) ---- *)
Definition is_cont_byte (b : N) : bool := (N.leb 128 b) && (N.ltb b 192).   (* UTF-8 continuation byte *)

(* (line, char column) of byte offset [off]: newlines before it, scalar values since the last newline *)
Fixpoint pos_scan (src : str) (off : nat) (line col : N) : N * N :=
  match off, src with
  | S k, b :: r =>
      if N.eqb b 10 then pos_scan r k (line + 1)%N 0%N
      else if is_cont_byte b then pos_scan r k line col
      else pos_scan r k line (col + 1)%N
  | _, _ => (line, col)
  end.
Definition position (src : str) (off : N) : N * N := pos_scan src (N.to_nat off) 0%N 0%N.

(* ---- wire decoding of rules = model of deserialize_rule (crates/config/src/rule/mod.rs) ----
   A serialised rule object is a list of (key payload) pairs, keys:
     0 pattern, 1 kind, 2 regex(hit ids), 3 nthChild (position reverse (opt rule-object)) with position a number or an An+B string, 4 range (sl sc el ec),
     5 inside, 6 has (rule-object stop (opt fld)), 7 precedes, 8 follows (rule-object stop),
     9 all (rule-objects), 10 any, 11 not rule-object, 12 matches id.
   stop: (0) neighbor, (1) end, (2 rule-object).
   Several keys mean the conjunction in the fixed order atomic, composite, relational; a single key is
   the bare rule; no key is an error (modelled as the rule that matches nothing). *)
Definition DESER_ORDER : list Z := [0; 1; 2; 3; 4; 9; 10; 11; 12; 5; 6; 7; 8]%Z.

Fixpoint find_key (k : Z) (l : list val) : option val :=
  match l with
  | [] => None
  | p :: r => if Z.eqb (gZ (gNth 0 p)) k then Some (gNth 1 p) else find_key k r
  end.

Fixpoint g_rule (fuel : nat) (v : val) : rule :=
  match fuel with
  | O => RAny []
  | S f =>
      let stop (s : val) : stopby :=
        match gZ (gNth 0 s) with
        | 0%Z => SNeighbor
        | 1%Z => SEnd
        | _ => SRule (g_rule f (gNth 1 s))
        end in
      let one (k : Z) (pl : val) : rule :=
        match k with
        | 0%Z => RPattern (g_pattern fuel pl)
        | 1%Z => RKind (gN pl)
        | 2%Z => RRegex (gList gN pl)
        | 3%Z =>
            (* position: a number (NthChildSimple::Numeric) or an An+B string *)
            match (match gNth 0 pl with
                   | VS str0 => match parse_an_b str0 with AnbOk a b => Some (a, b) | _ => None end
                   | other => Some (0%Z, gZ other)
                   end) with
            | Some (a, b) => RNth a b (gB (gNth 1 pl)) (gOpt (g_rule f) (gNth 2 pl))
            | None => RAny []
            end
        | 4%Z => RRange (gN (gNth 0 pl)) (gN (gNth 1 pl)) (gN (gNth 2 pl)) (gN (gNth 3 pl))
        | 5%Z => RInside (g_rule f (gNth 0 pl)) (stop (gNth 1 pl)) (gOpt gN (gNth 2 pl))
        | 6%Z => RHas (g_rule f (gNth 0 pl)) (stop (gNth 1 pl)) (gOpt gN (gNth 2 pl))
        | 7%Z => RPrecedes (g_rule f (gNth 0 pl)) (stop (gNth 1 pl))
        | 8%Z => RFollows (g_rule f (gNth 0 pl)) (stop (gNth 1 pl))
        | 9%Z => RAll (map (g_rule f) (gL pl))
        | 10%Z => RAny (map (g_rule f) (gL pl))
        | 11%Z => RNot (g_rule f pl)
        | _ => RMatches (gS pl)
        end in
      let present :=
        flat_map (fun k => match find_key k (gL v) with Some pl => [one k pl] | None => [] end) DESER_ORDER in
      match present with
      | [] => RAny []
      | [r] => r
      | rs => RAll rs
      end
  end.
