(* C05 — reference semantics of rule objects, environment-free, written from the rule reference
   (not from the code): logic, relations limited by stopBy/field, positions. *)
From Coq Require Import List NArith ZArith Bool Arith.
From AG Require Import Base.Val Base.Sort Str.MetaVar Tree.Tree Match.MatchNode Rule.Rule Rule.Eval.
Import ListNotations.

(* three-valued: None = out of fuel *)
Fixpoint all3 (l : list (option bool)) : option bool :=
  match l with
  | [] => Some true
  | None :: _ => None
  | Some false :: _ => Some false
  | Some true :: r => all3 r
  end.
Fixpoint any3 (l : list (option bool)) : option bool :=
  match l with
  | [] => Some false
  | None :: _ => None
  | Some true :: _ => Some true
  | Some false :: r => any3 r
  end.
Definition not3 (o : option bool) : option bool := option_map negb o.

(* the window of an ordered candidate list: up to and including the first one satisfying the stop test *)
Fixpoint until_incl (stop : loc -> option bool) (l : list loc) : option (list loc) :=
  match l with
  | [] => Some []
  | x :: r => match stop x with
              | None => None
              | Some true => Some [x]
              | Some false => option_map (cons x) (until_incl stop r)
              end
  end.

(* true siblings: the parent's child list *)
Definition later_siblings (root : tree) (p : loc) : list loc :=
  match parent_loc p with
  | None => []
  | Some pp =>
      let i := last p 0 in
      match get root pp with
      | Some par => map (fun j => pp ++ [j]) (seq (S i) (length (children par) - S i))
      | None => []
      end
  end.
Definition earlier_siblings (root : tree) (p : loc) : list loc :=
  match parent_loc p with
  | None => []
  | Some pp => map (fun j => pp ++ [j]) (rev (seq 0 (last p 0)))
  end.

(* does the child of ancestor [a] that lies on the path to [n] carry field [f]? *)
Definition path_child_has_field (root : tree) (a n : loc) (f : N) : bool :=
  match get root (firstn (S (length a)) n) with
  | Some ch => N.eqb (nfld (info ch)) f
  | None => false
  end.

Fixpoint sem (fuel : nat) (c : ctx) (r : rule) (n : loc) {struct fuel} : option bool :=
  match fuel with
  | O => None
  | S f =>
    match node_at c n with
    | None => Some false
    | Some t =>
      let root := c_root c in
      (* descendants of [p] reachable without passing through a node satisfying the stop rule;
         a node satisfying it is itself still inspected (inclusive) *)
      let window (stop : stopby) (ordered : list loc) : option (list loc) :=
        match stop with
        | SNeighbor => Some (firstn 1 ordered)
        | SEnd => Some ordered
        | SRule sr => until_incl (fun x => sem f c sr x) ordered
        end in
      match r with
      | RPattern p =>
          match pattern_match (c_src c) p t empty_env with
          | Matched _ => Some true
          | Unmatched => Some false
          | OutOfFuel => None
          end
      | RKind k => Some (N.eqb (kind t) k)
      | RRegex hits => Some (existsb (N.eqb (tid t)) hits)
      | RRange sl sc el ec =>
          let '(l1, c1) := position (c_src c) (tstart t) in
          let '(l2, c2) := position (c_src c) (tend t) in
          Some (N.eqb sl l1 && N.eqb el l2 && N.eqb sc c1 && N.eqb ec c2)
      | RNth a b reverse of_rule =>
          match parent_loc n with
          | None => Some false
          | Some pp =>
              let nameds := named_child_locs c pp in
              let flags := match of_rule with
                           | None => map (fun _ => Some true) nameds
                           | Some r' => map (fun x => sem f c r' x) nameds
                           end in
              match all3 (map (fun o => match o with None => None | Some _ => Some true end) flags) with
              | None => None
              | _ =>
                  let kept := map fst (filter (fun p => match snd p with Some true => true | _ => false end)
                                              (combine nameds flags)) in
                  let kept' := if reverse then rev kept else kept in
                  match index_of (tid t) (map (loc_id c) kept') 0 with
                  | None => Some false
                  | Some i =>
                      (* exists k >= 0, i+1 = a*k + b *)
                      let idx := (Z.of_nat i + 1)%Z in
                      Some (if Z.eqb a 0 then Z.eqb idx b
                            else let d := (idx - b)%Z in
                                 Z.eqb (Z.rem d a) 0 && Z.leb 0 (Z.quot d a))
                  end
              end
          end
      | RInside r' stop fld =>
          match window stop (ancestors n) with
          | None => None
          | Some w =>
              any3 (map (fun a =>
                     match fld with
                     | Some fl => if path_child_has_field root a n fl then sem f c r' a else Some false
                     | None => sem f c r' a
                     end) w)
          end
      | RHas r' stop fld =>
          let starts : list loc :=
            match fld with
            | None => child_locs root n
            | Some fl => filter (fun ch => match get root ch with
                                           | Some cht => N.eqb (nfld (info cht)) fl
                                           | None => false end) (child_locs root n)
            end in
          match stop with
          | SNeighbor => any3 (map (fun x => sem f c r' x) starts)
          | SEnd => any3 (map (fun x => sem f c r' x) (flat_map (pre_locs root) starts))
          | SRule sr =>
              (* recursive descent pruned below stop nodes *)
              (fix descend (k : nat) (l : list loc) {struct k} : option bool :=
                 match k with
                 | O => None
                 | S k' =>
                     any3 (map (fun x =>
                             match sem f c r' x with
                             | Some false =>
                                 match sem f c sr x with
                                 | Some true => Some false
                                 | Some false => descend k' (child_locs root x)
                                 | None => None
                                 end
                             | o => o
                             end) l)
                 end) (S (size t)) starts
          end
      | RPrecedes r' stop =>
          match window stop (later_siblings root n) with
          | None => None
          | Some w => any3 (map (fun x => sem f c r' x) w)
          end
      | RFollows r' stop =>
          match window stop (earlier_siblings root n) with
          | None => None
          | Some w => any3 (map (fun x => sem f c r' x) w)
          end
      | RAll rs => all3 (map (fun r' => sem f c r' n) rs)
      | RAny rs => any3 (map (fun r' => sem f c r' n) rs)
      | RNot r' => not3 (sem f c r' n)
      | RMatches id =>
          match lookup id (c_utils c) with
          | Some ur => sem f c ur n
          | None => Some false
          end
      end
    end
  end.

Definition sem_top (c : ctx) (r : rule) (n : loc) : option bool := sem (eval_fuel c) c r n.
