(* C01 / C13 (construction-time cache of potential kinds) — proofs of the statements of Rule/KCache.v. *)
From Coq Require Import List NArith ZArith Bool Arith Lia.
From AG Require Import Base.Val Base.Sort Str.MetaVar Tree.Tree Match.MatchNode Rule.Rule Rule.Kinds
  Front.Load Front.LoadSpec Front.LoadProofs Rule.KCache.
Import ListNotations.

(* ================= C01: pk is the lazy reading ================= *)
Lemma kc_fold_left_map : forall A B D (f : A -> B -> A) (g : D -> B) l a,
  fold_left f (map g l) a = fold_left (fun a x => f a (g x)) l a.
Proof. intros A B D f g l. induction l as [|x l IHl]; intros a; cbn [map fold_left]; [reflexivity|apply IHl]. Qed.

Lemma kc_fold_left_ext : forall A B (f g : A -> B -> A) l a,
  (forall a x, f a x = g a x) -> fold_left f l a = fold_left g l a.
Proof.
  intros A B f g l. induction l as [|x l IHl]; intros a H; cbn [fold_left]; [reflexivity|].
  rewrite H. apply IHl. exact H.
Qed.

Lemma C01_pk_is_lazy : C01_pk_is_lazy_stmt.
Proof.
  unfold C01_pk_is_lazy_stmt. induction fuel as [|f IH]; intros utils r; [reflexivity|].
  destruct r as [p|k|hits|a b rev o|sl sc el ec|r s fld|r s fld|r s|r s|rs|rs|r|id];
    cbn [pk klazy kexp_of]; try reflexivity.
  - destruct o as [r'|]; cbn [option_map]; [apply IH|reflexivity].
  - unfold all_kinds. rewrite map_map, kc_fold_left_map. apply kc_fold_left_ext.
    intros acc x. rewrite IH. reflexivity.
  - unfold any_kinds. rewrite map_map, kc_fold_left_map. apply kc_fold_left_ext.
    intros acc x. rewrite IH. reflexivity.
  - unfold kenv. rewrite lp_lookup_mapval. destruct (lookup id utils) as [ur|]; cbn [option_map]; [apply IH|reflexivity].
Qed.
Print Assumptions C01_pk_is_lazy.

(* ================= kind expressions: size, induction, references ================= *)
Fixpoint ksize (e : kexp) : nat :=
  match e with
  | KLeaf _ => 1
  | KAll l | KAny l => S (list_sum (map ksize l))
  | KOf None => 1
  | KOf (Some e') => S (ksize e')
  | KRef _ => 1
  end.

Lemma ksize_pos : forall e, 1 <= ksize e.
Proof. intros e. destruct e as [o|l|l|[e1|]|id]; cbn [ksize]; lia. Qed.

Lemma list_sum_in : forall A (f : A -> nat) x l, In x l -> f x <= list_sum (map f l).
Proof.
  intros A f x l. induction l as [|y l IHl]; intros H; [destruct H|].
  change (list_sum (map f (y :: l))) with (f y + list_sum (map f l)).
  destruct H as [<-|H]; [lia|]. specialize (IHl H). lia.
Qed.

Section KInd.
  Variable P : kexp -> Prop.
  Hypothesis Hleaf : forall o, P (KLeaf o).
  Hypothesis Hall : forall l, Forall P l -> P (KAll l).
  Hypothesis Hany : forall l, Forall P l -> P (KAny l).
  Hypothesis Hofn : P (KOf None).
  Hypothesis Hofs : forall e, P e -> P (KOf (Some e)).
  Hypothesis Href : forall id, P (KRef id).
  Fixpoint kexp_ind' (e : kexp) : P e :=
    match e with
    | KLeaf o => Hleaf o
    | KAll l => Hall l ((fix go (l : list kexp) : Forall P l :=
                           match l with [] => Forall_nil P | x :: t => Forall_cons x (kexp_ind' x) (go t) end) l)
    | KAny l => Hany l ((fix go (l : list kexp) : Forall P l :=
                           match l with [] => Forall_nil P | x :: t => Forall_cons x (kexp_ind' x) (go t) end) l)
    | KOf None => Hofn
    | KOf (Some e') => Hofs e' (kexp_ind' e')
    | KRef id => Href id
    end.
End KInd.

Section RInd.
  Variable P : rule -> Prop.
  Hypothesis Hpat : forall p, P (RPattern p).
  Hypothesis Hkind : forall k, P (RKind k).
  Hypothesis Hregex : forall h, P (RRegex h).
  Hypothesis Hnthn : forall a b rv, P (RNth a b rv None).
  Hypothesis Hnths : forall a b rv r, P r -> P (RNth a b rv (Some r)).
  Hypothesis Hrange : forall a b c d, P (RRange a b c d).
  Hypothesis Hinside : forall r s f, P (RInside r s f).
  Hypothesis Hhas : forall r s f, P (RHas r s f).
  Hypothesis Hprec : forall r s, P (RPrecedes r s).
  Hypothesis Hfoll : forall r s, P (RFollows r s).
  Hypothesis Hall : forall rs, Forall P rs -> P (RAll rs).
  Hypothesis Hany : forall rs, Forall P rs -> P (RAny rs).
  Hypothesis Hnot : forall r, P (RNot r).
  Hypothesis Hmatches : forall id, P (RMatches id).
  Fixpoint rule_ind_k (r : rule) : P r :=
    match r with
    | RPattern p => Hpat p
    | RKind k => Hkind k
    | RRegex h => Hregex h
    | RNth a b rv None => Hnthn a b rv
    | RNth a b rv (Some r') => Hnths a b rv r' (rule_ind_k r')
    | RRange a b c d => Hrange a b c d
    | RInside r' s f => Hinside r' s f
    | RHas r' s f => Hhas r' s f
    | RPrecedes r' s => Hprec r' s
    | RFollows r' s => Hfoll r' s
    | RAll rs => Hall rs ((fix go (l : list rule) : Forall P l :=
                             match l with [] => Forall_nil P | x :: t => Forall_cons x (rule_ind_k x) (go t) end) rs)
    | RAny rs => Hany rs ((fix go (l : list rule) : Forall P l :=
                             match l with [] => Forall_nil P | x :: t => Forall_cons x (rule_ind_k x) (go t) end) rs)
    | RNot r' => Hnot r'
    | RMatches id => Hmatches id
    end.
End RInd.

(* [id] is the target of a reference occurring in [e] *)
Inductive kref_in (id : str) : kexp -> Prop :=
| kri_ref : kref_in id (KRef id)
| kri_all : forall l x, In x l -> kref_in id x -> kref_in id (KAll l)
| kri_any : forall l x, In x l -> kref_in id x -> kref_in id (KAny l)
| kri_of : forall e, kref_in id e -> kref_in id (KOf (Some e)).

Lemma kref_in_deps : forall r id, kref_in id (kexp_of r) -> In id (rule_deps r).
Proof.
  intros r id.
  induction r as [p|k|h|a b rv|a b rv r IHr|a b c d|r s f|r s f|r s|r s|rs IHrs|rs IHrs|r|id0] using rule_ind_k;
    cbn [kexp_of rule_deps option_map]; intros Hk; try (inversion Hk; fail).
  - inversion Hk as [| | |e He Heq]; subst. apply IHr. exact He.
  - inversion Hk as [|l x Hx Hkx Heq| |]; subst. apply in_map_iff in Hx. destruct Hx as (r0 & <- & Hr0).
    apply in_flat_map. exists r0. split; [exact Hr0|].
    rewrite Forall_forall in IHrs. apply IHrs; assumption.
  - inversion Hk as [| |l x Hx Hkx Heq|]; subst. apply in_map_iff in Hx. destruct Hx as (r0 & <- & Hr0).
    apply in_flat_map. exists r0. split; [exact Hr0|].
    rewrite Forall_forall in IHrs. apply IHrs; assumption.
  - inversion Hk; subst. left. reflexivity.
Qed.

(* ================= association lists ================= *)
Lemma kc_lookup_app : forall A (k : str) (a b : list (str * A)),
  lookup k (a ++ b) = match lookup k a with Some v => Some v | None => lookup k b end.
Proof.
  intros A k a b. induction a as [|[k' v'] a IHa]; cbn [app lookup]; [reflexivity|].
  destruct (str_eqb k k'); [reflexivity|exact IHa].
Qed.

Lemma kc_lookup_none : forall A (k : str) (l : list (str * A)), ~ In k (map fst l) -> lookup k l = None.
Proof.
  intros A k l H. destruct (lookup k l) as [v|] eqn:E; [|reflexivity].
  exfalso. apply H. eapply lp_lookup_some_key. exact E.
Qed.

Lemma kc_split_unique : forall (x : str) a b a' b',
  NoDup (a ++ x :: b) -> a ++ x :: b = a' ++ x :: b' -> a = a'.
Proof.
  intros x a. induction a as [|y a IHa]; intros b a' b' Hnd Heq; destruct a' as [|z a'].
  - reflexivity.
  - cbn [app] in *. injection Heq as Hx Hb. apply NoDup_cons_iff in Hnd. destruct Hnd as [Hni _].
    exfalso. apply Hni. rewrite Hb. apply in_or_app. right. left. reflexivity.
  - cbn [app] in *. injection Heq as Hx Hb. apply NoDup_cons_iff in Hnd. destruct Hnd as [Hni _].
    exfalso. apply Hni. rewrite Hx. apply in_or_app. right. left. reflexivity.
  - cbn [app] in *. injection Heq as Hx Hb. apply NoDup_cons_iff in Hnd. destruct Hnd as [_ Hnd'].
    f_equal; [exact Hx|]. eapply IHa; eassumption.
Qed.

(* ================= the order of the loader is topological for the kind expressions ================= *)
Definition ksum (env : list (str * kexp)) : nat := list_sum (map (fun p => ksize (snd p)) env).

Lemma lookup_ksum : forall env id e, lookup id env = Some e -> ksize e <= ksum env.
Proof.
  intros env id e H. apply lp_lookup_some_in in H. unfold ksum.
  apply (list_sum_in _ (fun p => ksize (snd p)) (id, e)). exact H.
Qed.

(* every registered reference of the body of a key stands strictly before the key *)
Definition topo (env : list (str * kexp)) (uord : list str) : Prop :=
  forall pre id post e id', uord = pre ++ id :: post -> lookup id env = Some e ->
    kref_in id' e -> In id' (map fst env) -> In id' pre.

Lemma kenv_keys : forall utils, map fst (kenv utils) = map fst utils.
Proof. intros utils. unfold kenv. apply lp_keys_mapval. Qed.

Lemma topo_of_order : forall utils uord,
  get_order (util_depmap utils) = OrderOk uord ->
  topo (kenv utils) uord /\ (forall id, In id uord <-> In id (map fst (kenv utils))).
Proof.
  intros utils uord Hord. destruct (C12_topo_sound _ _ Hord) as (_ & Hnd & Hkeys & Hbef).
  rewrite util_depmap_keys in Hkeys, Hbef. split.
  - intros pre id post e id' Hu Hl Hk Hin. rewrite kenv_keys in Hin.
    unfold kenv in Hl. rewrite lp_lookup_mapval in Hl.
    destruct (lookup id utils) as [r|] eqn:El; cbn [option_map] in Hl; [|discriminate].
    injection Hl as <-. apply kref_in_deps in Hk.
    assert (Hedge : edge (util_depmap utils) id id').
    { exists (rule_deps r). split; [|exact Hk]. unfold util_depmap. rewrite lp_lookup_mapval, El. reflexivity. }
    destruct (Hbef _ _ Hedge Hin) as (l1 & l2 & l3 & E).
    assert (Hpre : pre = l1 ++ id' :: l2).
    { apply (kc_split_unique id pre post (l1 ++ id' :: l2) l3).
      - rewrite <- Hu. exact Hnd.
      - rewrite <- Hu, E, <- app_assoc. reflexivity. }
    rewrite Hpre. apply in_or_app. right. left. reflexivity.
  - intros id. rewrite kenv_keys. apply Hkeys.
Qed.

(* ================= registries that arise from registering utilities ================= *)
Section Reg.
  Variable fuel : nat.
  Variable env : list (str * kexp).
  (* what is known about the registry at the moment an entry is built *)
  Variable C : kexp -> list (str * bexp) -> Prop.

  Inductive regok : list (str * bexp) -> Prop :=
  | regok_nil : regok []
  | regok_snoc : forall reg id e, regok reg -> lookup id env = Some e -> C e reg ->
      regok (reg ++ [(id, build fuel reg e)]).

  Lemma regok_lookup : forall reg, regok reg -> forall id b, lookup id reg = Some b ->
    exists reg1 e1, regok reg1 /\ lookup id env = Some e1 /\ b = build fuel reg1 e1 /\ C e1 reg1
      /\ incl (map fst reg1) (map fst reg).
  Proof.
    induction 1 as [|reg id0 e0 Hr IH He HC]; intros id b Hl.
    - discriminate.
    - rewrite kc_lookup_app in Hl. destruct (lookup id reg) as [b'|] eqn:El.
      + injection Hl as <-. destruct (IH _ _ El) as (reg1 & e1 & A1 & A2 & A3 & A4 & A5).
        exists reg1, e1. repeat split; auto. rewrite map_app. apply incl_appl. exact A5.
      + cbn [lookup] in Hl. destruct (str_eqb id id0) eqn:E; [|discriminate].
        apply lp_eqb_eq in E. subst id0. injection Hl as <-.
        exists reg, e0. repeat split; auto. rewrite map_app. apply incl_appl, incl_refl.
  Qed.

  Lemma regok_keys : forall reg, regok reg -> incl (map fst reg) (map fst env).
  Proof.
    induction 1 as [|reg id0 e0 Hr IH He HC]; [intros x []|].
    rewrite map_app. apply incl_app; [exact IH|].
    intros x [<-|[]]. cbn [fst]. eapply lp_lookup_some_key. exact He.
  Qed.

  Lemma regok_lookup_none : forall reg id, regok reg -> lookup id env = None -> lookup id reg = None.
  Proof.
    intros reg id Hr Hl. apply kc_lookup_none. intros Hin. apply (regok_keys _ Hr) in Hin.
    apply lp_lookup_in_keys in Hin. contradiction.
  Qed.
End Reg.

(* ================= C13 exact ================= *)
Lemma same_kinds_refl : forall a, same_kinds a a.
Proof. intros [l|]; cbn; [split; apply incl_refl|exact I]. Qed.

Section Exact.
  Variable fuel : nat.
  Variable env : list (str * kexp).
  Let M := ksum env.

  (* every reference of [e] to a utility is registered in [reg] *)
  Definition closed (e : kexp) (reg : list (str * bexp)) : Prop :=
    forall id, kref_in id e -> In id (map fst env) -> In id (map fst reg).

  Definition refs_in (e : kexp) (pre : list str) : Prop :=
    forall id, kref_in id e -> In id (map fst env) -> In id pre.

  Definition exact_goal (k : nat) (e : kexp) : Prop :=
    forall reg0 reg' f f',
      regok fuel env closed reg0 -> regok fuel env closed reg' -> closed e reg0 -> closed e reg' ->
      ksize e + k * M <= fuel -> ksize e + k * M <= f -> ksize e + k * M <= f' ->
      ask f reg' (build fuel reg0 e) = klazy f' env e.

  Lemma exact_step : forall k pre,
    (forall id, In id pre -> In id (map fst env) -> forall reg' f f',
        regok fuel env closed reg' -> In id (map fst reg') ->
        1 + k * M <= fuel -> 1 + k * M <= f -> 1 + k * M <= f' ->
        ask f reg' (BRef id) = klazy f' env (KRef id)) ->
    forall e, refs_in e pre -> exact_goal k e.
  Proof.
    intros k pre Href e. induction e as [o|l IHl|l IHl| |e IHe|id] using kexp_ind';
      intros Hrefs reg0 reg' f f' Hr0 Hr' Hc0 Hc' Hfuel Hf Hf'; cbn [ksize] in Hfuel, Hf, Hf'.
    - destruct f as [|f]; [lia|]. destruct f' as [|f']; [lia|]. reflexivity.
    - destruct f as [|f]; [lia|]. destruct f' as [|f']; [lia|]. cbn [build ask klazy].
      f_equal. apply map_ext_in. intros x Hx. rewrite Forall_forall in IHl.
      pose proof (list_sum_in _ ksize x l Hx) as Hsz.
      apply (IHl x Hx).
      + intros id Hk. apply Hrefs. eapply kri_all; eassumption.
      + exact Hr0.
      + exact Hr0.
      + intros id Hk. apply Hc0. eapply kri_all; eassumption.
      + intros id Hk. apply Hc0. eapply kri_all; eassumption.
      + lia.
      + lia.
      + lia.
    - destruct f as [|f]; [lia|]. destruct f' as [|f']; [lia|]. cbn [build ask klazy].
      f_equal. apply map_ext_in. intros x Hx. rewrite Forall_forall in IHl.
      pose proof (list_sum_in _ ksize x l Hx) as Hsz.
      apply (IHl x Hx).
      + intros id Hk. apply Hrefs. eapply kri_any; eassumption.
      + exact Hr0.
      + exact Hr0.
      + intros id Hk. apply Hc0. eapply kri_any; eassumption.
      + intros id Hk. apply Hc0. eapply kri_any; eassumption.
      + lia.
      + lia.
      + lia.
    - destruct f as [|f]; [lia|]. destruct f' as [|f']; [lia|]. reflexivity.
    - destruct f as [|f]; [lia|]. destruct f' as [|f']; [lia|]. cbn [build option_map ask klazy].
      apply IHe.
      + intros id Hk. apply Hrefs. apply kri_of. exact Hk.
      + exact Hr0.
      + exact Hr'.
      + intros id Hk. apply Hc0. apply kri_of. exact Hk.
      + intros id Hk. apply Hc'. apply kri_of. exact Hk.
      + lia.
      + lia.
      + lia.
    - cbn [build]. destruct (lookup id env) as [e1|] eqn:El.
      + assert (Hkey : In id (map fst env)) by (eapply lp_lookup_some_key; exact El).
        apply (Href id).
        * apply Hrefs; [apply kri_ref|exact Hkey].
        * exact Hkey.
        * exact Hr'.
        * apply Hc'; [apply kri_ref|exact Hkey].
        * lia.
        * lia.
        * lia.
      + destruct f as [|f]; [lia|]. destruct f' as [|f']; [lia|]. cbn [ask klazy].
        rewrite El. rewrite (regok_lookup_none _ _ _ _ _ Hr' El). reflexivity.
  Qed.

  Variable uord : list str.
  Hypothesis Htopo : topo env uord.

  Lemma exact_main : forall pre post, uord = pre ++ post ->
    forall e, refs_in e pre -> exact_goal (length pre) e.
  Proof.
    intros pre. induction pre as [|x p IHp] using rev_ind; intros post Hu.
    - apply exact_step. intros id [].
    - apply exact_step. intros id Hin Hkey reg' f f' Hr' Hreg' Hfuel Hf Hf'.
      rewrite app_length, Nat.mul_add_distr_r in Hfuel, Hf, Hf'. cbn [length] in Hfuel, Hf, Hf'.
      rewrite Nat.mul_1_l in Hfuel, Hf, Hf'.
      rewrite <- app_assoc in Hu. cbn [app] in Hu.
      apply in_app_or in Hin. destruct Hin as [Hin|[<-|[]]].
      + change (BRef id) with (build fuel reg' (KRef id)).
        apply (IHp _ Hu (KRef id)).
        * intros id' Hk _. inversion Hk; subst. exact Hin.
        * exact Hr'.
        * exact Hr'.
        * intros id' Hk _. inversion Hk; subst. exact Hreg'.
        * intros id' Hk _. inversion Hk; subst. exact Hreg'.
        * cbn [ksize]. lia.
        * cbn [ksize]. lia.
        * cbn [ksize]. lia.
      + destruct f as [|f]; [lia|]. destruct f' as [|f']; [lia|]. cbn [ask klazy].
        destruct (lookup x reg') as [b|] eqn:Elr.
        2:{ exfalso. revert Elr. apply lp_lookup_in_keys. exact Hreg'. }
        destruct (regok_lookup _ _ _ _ Hr' _ _ Elr) as (reg1 & e1 & A1 & A2 & A3 & A4 & A5).
        rewrite A2. subst b.
        pose proof (lookup_ksum _ _ _ A2) as Hsz. fold M in Hsz.
        apply (IHp _ Hu e1).
        * intros id' Hk Hk'. exact (Htopo _ _ _ _ _ Hu A2 Hk Hk').
        * exact A1.
        * exact Hr'.
        * exact A4.
        * intros id' Hk Hk'. apply A5. apply A4; assumption.
        * lia.
        * lia.
        * lia.
  Qed.

  Hypothesis Hkeys : forall id, In id uord <-> In id (map fst env).

  Lemma register_ok : forall post pre reg, uord = pre ++ post ->
    regok fuel env closed reg -> map fst reg = pre ->
    let reg' := fold_left (fun reg id => match lookup id env with
                                         | Some e => reg ++ [(id, build fuel reg e)]
                                         | None => reg
                                         end) post reg in
    regok fuel env closed reg' /\ map fst reg' = uord.
  Proof.
    intros post. induction post as [|id post IHpost]; intros pre reg Hu Hr Hk; cbn [fold_left].
    - rewrite app_nil_r in Hu. subst. split; [exact Hr|reflexivity].
    - destruct (lookup id env) as [e|] eqn:El.
      2:{ exfalso. revert El. apply lp_lookup_in_keys. apply Hkeys. rewrite Hu. apply in_or_app. right. left. reflexivity. }
      apply (IHpost (pre ++ [id])).
      + rewrite <- app_assoc. exact Hu.
      + apply regok_snoc; [exact Hr|exact El|].
        intros id' Hk1 Hk2. rewrite Hk. exact (Htopo _ _ _ _ _ Hu El Hk1 Hk2).
      + rewrite map_app, Hk. reflexivity.
  Qed.

  Lemma exact_eager : forall e f2,
    ksize e + length uord * M <= fuel -> ksize e + length uord * M <= f2 ->
    eager fuel env uord e = klazy f2 env e.
  Proof.
    intros e f2 H1 H2. unfold eager, register.
    destruct (register_ok uord [] [] eq_refl (regok_nil _ _ _) eq_refl) as [Hr Hk].
    cbv zeta in Hr, Hk |- *.
    set (reg := fold_left _ uord []) in *.
    assert (Hc : closed e reg).
    { intros id _ Hin. rewrite Hk. apply Hkeys. exact Hin. }
    apply (exact_main uord [] (eq_sym (app_nil_r _)) e); try assumption.
    intros id _ Hin. apply Hkeys. exact Hin.
  Qed.
End Exact.

Lemma C13_cache_exact : C13_cache_exact_stmt.
Proof.
  unfold C13_cache_exact_stmt. intros utils uord r _ Hord.
  destruct (topo_of_order _ _ Hord) as [Htopo Hkeys].
  exists (ksize (kexp_of r) + length uord * ksum (kenv utils)). intros f1 f2 H1 H2.
  rewrite (exact_eager f1 (kenv utils) uord Htopo Hkeys (kexp_of r) f2 H1 H2).
  apply same_kinds_refl.
Qed.
Print Assumptions C13_cache_exact.

(* ================= C13 wider ================= *)
Lemma wider_refl : forall a, wider a a.
Proof. intros [l|]; cbn; [apply incl_refl|exact I]. Qed.

Lemma in_inter : forall x a b, In x (inter a b) <-> In x a /\ In x b.
Proof.
  intros x a b. unfold inter. rewrite filter_In, existsb_exists. split.
  - intros [Ha (y & Hy & E)]. apply N.eqb_eq in E. subst y. split; assumption.
  - intros [Ha Hb]. split; [exact Ha|]. exists x. split; [exact Hb|apply N.eqb_refl].
Qed.

Lemma in_union : forall x a b, In x (union a b) <-> In x a \/ In x b.
Proof.
  intros x a b. unfold union. rewrite in_app_iff, filter_In. split.
  - intros [Ha|[Hb _]]; [left|right]; assumption.
  - intros [Ha|Hb]; [left; exact Ha|].
    destruct (existsb (N.eqb x) a) eqn:E.
    + left. apply existsb_exists in E. destruct E as (y & Hy & E). apply N.eqb_eq in E. subst y. exact Hy.
    + right. split; [exact Hb|reflexivity].
Qed.

Definition all_step (acc o : option (list N)) : option (list N) :=
  match o with
  | None => acc
  | Some ks => match acc with Some a => Some (inter a ks) | None => Some ks end
  end.
Definition any_step (acc o : option (list N)) : option (list N) :=
  match acc, o with Some a, Some ks => Some (union a ks) | _, _ => None end.

Lemma all_step_wider : forall acc acc' o o', wider acc acc' -> wider o o' -> wider (all_step acc o) (all_step acc' o').
Proof.
  intros [a|] [a'|] [ks|] [ks'|] Ha Ho; cbn in *; try exact I; try contradiction; try assumption.
  all: intros x Hx; apply in_inter in Hx; destruct Hx as [H1 H2]; try (apply in_inter; split);
    first [apply Ha; assumption | apply Ho; assumption].
Qed.

Lemma any_step_wider : forall acc acc' o o', wider acc acc' -> wider o o' -> wider (any_step acc o) (any_step acc' o').
Proof.
  intros [a|] [a'|] [ks|] [ks'|] Ha Ho; cbn in *; try exact I; try contradiction.
  intros x Hx. apply in_union in Hx. apply in_union. destruct Hx as [H|H]; [left; apply Ha|right; apply Ho]; exact H.
Qed.

Lemma fold_step_wider : forall (step : option (list N) -> option (list N) -> option (list N)),
  (forall acc acc' o o', wider acc acc' -> wider o o' -> wider (step acc o) (step acc' o')) ->
  forall A (g g' : A -> option (list N)) l acc acc',
    (forall x, In x l -> wider (g x) (g' x)) -> wider acc acc' ->
    wider (fold_left step (map g l) acc) (fold_left step (map g' l) acc').
Proof.
  intros step Hstep A g g' l. induction l as [|x l IHl]; intros acc acc' Hg Hacc; cbn [map fold_left]; [exact Hacc|].
  apply IHl.
  - intros y Hy. apply Hg. right. exact Hy.
  - apply Hstep; [exact Hacc|]. apply Hg. left. reflexivity.
Qed.

Lemma all_kinds_wider : forall A (g g' : A -> option (list N)) l,
  (forall x, In x l -> wider (g x) (g' x)) -> wider (all_kinds (map g l)) (all_kinds (map g' l)).
Proof.
  intros A g g' l H. unfold all_kinds. apply (fold_step_wider all_step all_step_wider); [exact H|exact I].
Qed.

Lemma any_kinds_wider : forall A (g g' : A -> option (list N)) l,
  (forall x, In x l -> wider (g x) (g' x)) -> wider (any_kinds (map g l)) (any_kinds (map g' l)).
Proof.
  intros A g g' l H. unfold any_kinds. apply (fold_step_wider any_step any_step_wider); [exact H|].
  cbn. apply incl_refl.
Qed.

Section Wider.
  Variable fuel : nat.
  Variable env : list (str * kexp).
  Let M := ksum env.
  Let anyreg := regok fuel env (fun _ _ => True).

  Definition wider_goal (k : nat) (e : kexp) : Prop :=
    forall reg0 reg' f f',
      anyreg reg0 -> anyreg reg' ->
      ksize e + k * M <= fuel -> ksize e + k * M <= f -> ksize e + k * M <= f' ->
      wider (ask f reg' (build fuel reg0 e)) (klazy f' env e).

  Lemma wider_step : forall k pre,
    (forall id, In id pre -> forall reg' f f',
        anyreg reg' ->
        1 + k * M <= fuel -> 1 + k * M <= f -> 1 + k * M <= f' ->
        wider (ask f reg' (BRef id)) (klazy f' env (KRef id))) ->
    forall e, refs_in env e pre -> wider_goal k e.
  Proof.
    intros k pre Href e. induction e as [o|l IHl|l IHl| |e IHe|id] using kexp_ind';
      intros Hrefs reg0 reg' f f' Hr0 Hr' Hfuel Hf Hf'; cbn [ksize] in Hfuel, Hf, Hf'.
    - destruct f as [|f]; [lia|]. destruct f' as [|f']; [lia|]. apply wider_refl.
    - destruct f as [|f]; [lia|]. destruct f' as [|f']; [lia|]. cbn [build ask klazy].
      apply (all_kinds_wider _ (fun x => ask fuel reg0 (build fuel reg0 x)) (klazy f' env)).
      intros x Hx. rewrite Forall_forall in IHl.
      pose proof (list_sum_in _ ksize x l Hx) as Hsz.
      apply (IHl x Hx).
      + intros id Hk. apply Hrefs. eapply kri_all; eassumption.
      + exact Hr0.
      + exact Hr0.
      + lia.
      + lia.
      + lia.
    - destruct f as [|f]; [lia|]. destruct f' as [|f']; [lia|]. cbn [build ask klazy].
      apply (any_kinds_wider _ (fun x => ask fuel reg0 (build fuel reg0 x)) (klazy f' env)).
      intros x Hx. rewrite Forall_forall in IHl.
      pose proof (list_sum_in _ ksize x l Hx) as Hsz.
      apply (IHl x Hx).
      + intros id Hk. apply Hrefs. eapply kri_any; eassumption.
      + exact Hr0.
      + exact Hr0.
      + lia.
      + lia.
      + lia.
    - destruct f as [|f]; [lia|]. destruct f' as [|f']; [lia|]. exact I.
    - destruct f as [|f]; [lia|]. destruct f' as [|f']; [lia|]. cbn [build option_map ask klazy].
      apply IHe.
      + intros id Hk. apply Hrefs. apply kri_of. exact Hk.
      + exact Hr0.
      + exact Hr'.
      + lia.
      + lia.
      + lia.
    - cbn [build]. destruct (lookup id env) as [e1|] eqn:El.
      + assert (Hkey : In id (map fst env)) by (eapply lp_lookup_some_key; exact El).
        apply (Href id).
        * apply Hrefs; [apply kri_ref|exact Hkey].
        * exact Hr'.
        * lia.
        * lia.
        * lia.
      + destruct f as [|f]; [lia|]. destruct f' as [|f']; [lia|]. cbn [ask klazy].
        rewrite El. rewrite (regok_lookup_none _ _ _ _ _ Hr' El). exact I.
  Qed.

  Variable uord : list str.
  Hypothesis Htopo : topo env uord.

  Lemma wider_main : forall pre post, uord = pre ++ post ->
    forall e, refs_in env e pre -> wider_goal (length pre) e.
  Proof.
    intros pre. induction pre as [|x p IHp] using rev_ind; intros post Hu.
    - apply wider_step. intros id [].
    - apply wider_step. intros id Hin reg' f f' Hr' Hfuel Hf Hf'.
      rewrite app_length, Nat.mul_add_distr_r in Hfuel, Hf, Hf'. cbn [length] in Hfuel, Hf, Hf'.
      rewrite Nat.mul_1_l in Hfuel, Hf, Hf'.
      rewrite <- app_assoc in Hu. cbn [app] in Hu.
      apply in_app_or in Hin. destruct Hin as [Hin|[<-|[]]].
      + change (BRef id) with (build fuel reg' (KRef id)).
        apply (IHp _ Hu (KRef id)).
        * intros id' Hk _. inversion Hk; subst. exact Hin.
        * exact Hr'.
        * exact Hr'.
        * cbn [ksize]. lia.
        * cbn [ksize]. lia.
        * cbn [ksize]. lia.
      + destruct f as [|f]; [lia|]. destruct f' as [|f']; [lia|]. cbn [ask klazy].
        destruct (lookup x reg') as [b|] eqn:Elr; [|exact I].
        destruct (regok_lookup _ _ _ _ Hr' _ _ Elr) as (reg1 & e1 & A1 & A2 & A3 & _ & _).
        rewrite A2. subst b.
        pose proof (lookup_ksum _ _ _ A2) as Hsz. fold M in Hsz.
        apply (IHp _ Hu e1).
        * intros id' Hk Hk'. exact (Htopo _ _ _ _ _ Hu A2 Hk Hk').
        * exact A1.
        * exact Hr'.
        * lia.
        * lia.
        * lia.
  Qed.

  Hypothesis Hkeys : forall id, In id uord <-> In id (map fst env).

  Lemma register_any : forall order reg, anyreg reg ->
    anyreg (fold_left (fun reg id => match lookup id env with
                                     | Some e => reg ++ [(id, build fuel reg e)]
                                     | None => reg
                                     end) order reg).
  Proof.
    intros order. induction order as [|id order IHo]; intros reg Hr; cbn [fold_left]; [exact Hr|].
    apply IHo. destruct (lookup id env) as [e|] eqn:El; [|exact Hr].
    apply regok_snoc; [exact Hr|exact El|exact I].
  Qed.

  Lemma wider_eager : forall order e f2,
    ksize e + length uord * M <= fuel -> ksize e + length uord * M <= f2 ->
    wider (eager fuel env order e) (klazy f2 env e).
  Proof.
    intros order e f2 H1 H2. unfold eager, register. cbv zeta.
    pose proof (register_any order [] (regok_nil _ _ _)) as Hr.
    apply (wider_main uord [] (eq_sym (app_nil_r _)) e); try assumption.
    intros id _ Hin. apply Hkeys. exact Hin.
  Qed.
End Wider.

Lemma C13_cache_wider : C13_cache_wider_stmt.
Proof.
  unfold C13_cache_wider_stmt. intros utils uord order r _ Hord _ _.
  destruct (topo_of_order _ _ Hord) as [Htopo Hkeys].
  exists (ksize (kexp_of r) + length uord * ksum (kenv utils)). intros f1 f2 H1 H2.
  exact (wider_eager f1 (kenv utils) uord Htopo Hkeys order (kexp_of r) f2 H1 H2).
Qed.
Print Assumptions C13_cache_wider.
