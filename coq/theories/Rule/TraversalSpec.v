(* C19 / C01 — statements about traversal, navigation and positions (proved in
   Rule/TraversalProofs.v, restated verbatim in Props/C19.v and Props/C01.v). *)
From Coq Require Import List NArith ZArith Bool Arith Permutation.
From AG Require Import Base.Val Base.Sort Tree.Tree Tree.Wf Rule.Rule Rule.Traversal.
Import ListNotations.

(* ---- traversals: every node of the subtree exactly once, in the specified order, never outside *)
Definition C19_pre_stmt : Prop :=
  forall top, ids_unique top -> dfs top = pre_locs_t top [].
Definition C19_pre_prefix_stmt : Prop :=        (* any number of next() calls yields a prefix *)
  forall top fuel, ids_unique top -> pre_iter fuel top pre_init = firstn fuel (pre_locs_t top []).
Definition C19_post_stmt : Prop :=
  forall top, ids_unique top -> post_all top = post_locs_t top [].
Definition C19_level_stmt : Prop :=
  forall top, level_all top = level_locs top /\ Permutation (level_all top) (pre_locs_t top []).
Definition C19_each_once_stmt : Prop :=
  forall top, NoDup (pre_locs_t top []) /\ (forall p, In p (pre_locs_t top []) <-> get top p <> None) /\
              Permutation (post_locs_t top []) (pre_locs_t top []).

(* ---- navigation *)
Fixpoint parents (fuel : nat) (p : loc) : list loc :=
  match fuel with
  | O => []
  | S f => match parent_loc p with None => [] | Some q => q :: parents f q end
  end.
Definition C19_ancestors_stmt : Prop :=
  forall p, ancestors p = parents (length p) p.
Definition C19_nesting_stmt : Prop :=
  forall top p i t c,
    wfb top = true -> get top p = Some t -> get top (p ++ [i]) = Some c ->
    parent_loc (p ++ [i]) = Some p /\ In c (children t) /\
    (tstart t <= tstart c)%N /\ (tend c <= tend t)%N /\ (tstart c <= tend c)%N.

(* ---- positions: line = newlines before the offset, column = characters since the line start *)
Definition C19_positions_stmt : Prop :=
  forall src off,
    get_char_column src off = count_chars (after_last_nl (firstn off src) []) /\
    position src (N.of_nat off) = (count_nl (firstn off src), get_char_column src off).

(* ---- C01: overlap-free traversal keeps exactly the outermost matches, in document order;
        reentrant traversal and find_all keep every match *)
Definition no_matching_ancestor (m : loc -> bool) (l : list loc) (p : loc) : bool :=
  negb (existsb (fun q => m q && proper_prefix q p) l).
Definition C01_outermost_stmt : Prop :=
  forall top m, ids_unique top ->
    visit_pre_all top false m = outer_t m top [] /\
    outer_t m top [] = filter (fun p => m p && no_matching_ancestor m (pre_locs_t top []) p) (pre_locs_t top []).
Definition C01_reentrant_stmt : Prop :=
  forall top m, ids_unique top -> visit_pre_all top true m = filter m (pre_locs_t top []).
Definition C01_find_all_stmt : Prop :=
  forall top kinds m, ids_unique top ->
    (* kind dispatch is sound: whatever matches has one of the potential kinds *)
    (forall p t ks, kinds = Some ks -> get top p = Some t -> m p = true -> existsb (N.eqb (kind t)) ks = true) ->
    find_all_locs top kinds m = filter m (pre_locs_t top []).
