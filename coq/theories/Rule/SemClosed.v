(* Patterns without capturing meta-variables never read or write the environment. *)
From Coq Require Import List NArith ZArith Bool Arith Lia.
From AG Require Import Base.Val Base.Sort Str.MetaVar Tree.Tree Tree.Wf Match.MatchNode
  Rule.Rule Rule.Eval Rule.Sem Rule.EvalSpec.
Import ListNotations.

Lemma pnode_closed_int : forall k cs, pnode_closed (PInt k cs) = forallb pnode_closed cs.
Proof. intros k cs. reflexivity. Qed.

Definition req_closed (r : req) : bool :=
  match r with
  | RNode g _ => pnode_closed g
  | RList gs _ | RLoop gs _ | RSkip gs _ => forallb pnode_closed gs
  | RLook name _ _ gs _ => match name with None => forallb pnode_closed gs | Some _ => false end
  end.

Lemma skip_trivials_closed : forall gs k k' gs',
  forallb pnode_closed gs = true -> skip_trivials gs k = (k', gs') -> forallb pnode_closed gs' = true.
Proof.
  induction gs as [|g r IH]; intros k k' gs' H E; cbn [skip_trivials] in E.
  - now injection E as <- <-.
  - destruct (is_trivial g).
    + cbn [forallb] in H. apply andb_true_iff in H as [_ H]. eapply IH; eassumption.
    + now injection E as <- <-.
Qed.

Lemma closed_ellipsis : forall g, pnode_closed g = true ->
  ellipsis_mode g = None \/ ellipsis_mode g = Some None.
Proof.
  intros [[name nm|nm| |name]|text nm k|k cs] H; cbn in *; try discriminate; auto.
Qed.

Ltac fin_run :=
  eexists; intros e;
  repeat (cbn [run agg_terminal agg_meta agg_ellipsis match_leaf_meta_var option_map fin];
          match goal with
          | H : forall e, run _ _ _ _ (AEnv e) = _ |- _ => rewrite H
          | H : _ = _ |- _ => rewrite H; clear H
          end);
  cbn [run agg_terminal agg_meta agg_ellipsis match_leaf_meta_var option_map fin];
  reflexivity.

Lemma run_closed : forall f s src r,
  req_closed r = true -> exists o, forall e, run f s src r (AEnv e) = (o, AEnv e).
Proof.
  induction f as [|f IH]; intros s src r Hc.
  { exists RFuel. reflexivity. }
  destruct r as [g c|gs cs|gs cs|name mrev skipped gs cs|gs cs]; cbn [req_closed] in Hc.
  - (* RNode *)
    destruct g as [mv|text nm k|k gcs].
    + destruct mv as [name nm|nm| |name]; cbn in Hc; try discriminate.
      * destruct (nm && negb (named c)) eqn:E; fin_run.
      * fin_run.
    + destruct (st_match_terminal s src nm text k c) eqn:E; fin_run.
    + rewrite pnode_closed_int in Hc.
      destruct (kinds_matching k (kind c)) eqn:E; [|fin_run].
      destruct (IH s src (RList gcs (children c)) Hc) as [o Ho].
      destruct o as [o|[|]|]; fin_run.
  - (* RList *)
    destruct cs as [|c cs]; [fin_run|].
    destruct (IH s src (RLoop gs (c :: cs)) Hc) as [o Ho]. fin_run.
  - (* RLoop *)
    destruct gs as [|g gs1]; [fin_run|].
    cbn [forallb] in Hc. apply andb_true_iff in Hc as [Hg Hgs1].
    destruct (closed_ellipsis g Hg) as [Em|Em].
    + destruct (IH s src (RSkip (g :: gs1) cs)) as [o Ho].
      { cbn [req_closed forallb]. now rewrite Hg, Hgs1. }
      fin_run.
    + destruct gs1 as [|g1 gs1']; [fin_run|].
      destruct (skip_trivials (g1 :: gs1') 0) as [skipped gs2] eqn:Es.
      pose proof (skip_trivials_closed _ _ _ _ Hgs1 Es) as Hgs2.
      destruct gs2 as [|g2 gs2']; [fin_run|].
      destruct (ellipsis_mode g2) as [nm2|] eqn:E2.
      * destruct cs as [|c cs1]; [fin_run|].
        destruct cs1 as [|c1 cs1']; [fin_run|].
        destruct (IH s src (RLoop (g2 :: gs2') (c1 :: cs1')) Hgs2) as [o Ho]. fin_run.
      * destruct (IH s src (RLook None [] skipped (g2 :: gs2') cs) Hgs2) as [o Ho]. fin_run.
  - (* RLook *)
    destruct name as [nm|]; [discriminate|].
    destruct gs as [|g gs1]; [fin_run|].
    destruct cs as [|c cs1]; [fin_run|].
    pose proof Hc as Hc'. cbn [forallb] in Hc'. apply andb_true_iff in Hc' as [Hg Hgs1].
    destruct (IH s src (RNode g c) Hg) as [o Ho].
    destruct (IH s src (RSkip (g :: gs1) (c :: cs1)) Hc) as [o2 Ho2].
    destruct cs1 as [|c1 cs1'].
    + destruct o as [[| | | |]|b|]; fin_run.
    + destruct (IH s src (RLook None (c :: mrev) skipped (g :: gs1) (c1 :: cs1')) Hc) as [o3 Ho3].
      destruct o as [[| | | |]|b|]; fin_run.
  - (* RSkip *)
    destruct cs as [|c cs1].
    + destruct (should_skip_goal s gs) eqn:E; fin_run.
    + destruct gs as [|g gs1]; [fin_run|].
      pose proof Hc as Hc'. cbn [forallb] in Hc'. apply andb_true_iff in Hc' as [Hg Hgs1].
      destruct (IH s src (RNode g c) Hg) as [o Ho].
      destruct o as [[| | | |]|b|]; try fin_run.
      * (* MatchedBoth *)
        destruct gs1 as [|g1 gs1']; [fin_run|].
        destruct cs1 as [|c1 cs1']; [fin_run|].
        destruct (IH s src (RLoop (g1 :: gs1') (c1 :: cs1')) Hgs1) as [o2 Ho2]. fin_run.
      * (* SkipBoth *)
        destruct gs1 as [|g1 gs1']; [fin_run|].
        destruct (IH s src (RSkip (g1 :: gs1') cs1) Hgs1) as [o2 Ho2]. fin_run.
      * (* SkipGoal *)
        destruct gs1 as [|g1 gs1']; [fin_run|].
        destruct (IH s src (RSkip (g1 :: gs1') (c :: cs1)) Hgs1) as [o2 Ho2]. fin_run.
      * (* SkipCandidate *)
        destruct (IH s src (RSkip (g :: gs1) cs1) Hc) as [o2 Ho2]. fin_run.
Qed.

Lemma pattern_match_closed : forall src p t e,
  pnode_closed (p_node p) = true ->
  pattern_match src p t e =
  match pattern_match src p t empty_env with Matched _ => Matched e | x => x end.
Proof.
  intros src p t e Hc. unfold pattern_match.
  destruct (run_closed (match_fuel (p_node p) t) (p_strict p) src (RNode (p_node p) t) Hc) as [o Ho].
  rewrite !Ho.
  destruct (p_root_kind p) as [k|]; [destruct (negb (N.eqb (kind t) k)); [reflexivity|]|];
    destruct o as [[| | | |]|b|]; reflexivity.
Qed.
