(* C14 — the two views of a scan result (ScanResultInner::into_result, crates/config/src/combined.rs).
   With separate_fix = false (plain scan, JSON, LSP diagnostics) every finding is a "match" and the unused
   suppressions are appended as the matches of the `unused-suppression` rule.  With separate_fix = true
   (`scan --interactive` / `-U`) the findings of rules that carry a fix and the unused suppressions (whose
   rule carries the fix "delete the comment") are delivered as `diffs`, ordered by start offset. *)
From Coq Require Import List NArith Bool.
From AG Require Import Base.Val Base.Sort Tree.Tree Rule.Scan.
Import ListNotations.

(* "unused-suppression" *)
Definition UNUSED_ID : str := [117;110;117;115;101;100;45;115;117;112;112;114;101;115;115;105;111;110]%N.

Definition has_fix (rules : list srule) (rid : str) : bool :=
  existsb (fun r => str_eqb (sr_id r) rid && sr_fix r) rules.

Definition start_of_id (root : tree) (id : N) : N :=
  match find (fun t => N.eqb (tid t) id) (preorder root) with
  | Some t => tstart t
  | None => 0%N
  end.

(* stable insertion sort by a numeric key *)
Fixpoint insert_by {A} (key : A -> N) (x : A) (l : list A) : list A :=
  match l with
  | [] => [x]
  | y :: ys => if N.leb (key x) (key y) then x :: y :: ys else y :: insert_by key x ys
  end.
Definition sort_by {A} (key : A -> N) (l : list A) : list A := fold_right (insert_by key) [] l.

Record view := { v_matches : list (str * N); v_diffs : list (str * N) }.

Definition is_diff (rules : list srule) (sep : bool) (p : str * N) : bool := sep && has_fix rules (fst p).

Definition into_view (root : tree) (rules : list srule) (sep : bool) (res : scan_res) : view :=
  let d := filter (is_diff rules sep) (res_found res) in
  let m := filter (fun p => negb (is_diff rules sep p)) (res_found res) in
  let un := map (fun u => (UNUSED_ID, u)) (res_unused res) in
  if sep then {| v_matches := m; v_diffs := sort_by (fun p => start_of_id root (snd p)) (d ++ un) |}
  else {| v_matches := m ++ un; v_diffs := [] |}.

Definition view_all (v : view) : list (str * N) := v_matches v ++ v_diffs v.
Definition reported (res : scan_res) : list (str * N) :=
  res_found res ++ map (fun u => (UNUSED_ID, u)) (res_unused res).
