(* Navigation facts used by Rule/SemProofs.v: well-formedness is inherited by subtrees, sibling
   navigation by byte offset finds the true sibling index (C19), node ids of siblings differ,
   a unique field labels exactly the child found by child_by_field. *)
From Coq Require Import List NArith ZArith Bool Arith Lia.
From AG Require Import Base.Val Base.Sort Str.MetaVar Tree.Tree Tree.Wf Match.MatchNode
  Rule.Rule Rule.Eval Rule.Sem Rule.EvalSpec.
Import ListNotations.

(* ------------------------------------------------------------------ generic list facts *)

Lemma firstn_length_app : forall A (l r : list A), firstn (length l) (l ++ r) = l.
Proof. induction l as [|x l IH]; intros r; cbn; [destruct r; reflexivity | now rewrite IH]. Qed.

Lemma firstn_S_nth : forall (n : list nat) k, k < length n -> firstn (S k) n = firstn k n ++ [nth k n 0].
Proof.
  induction n as [|x n IH]; intros k Hk; cbn in Hk; [lia|].
  destruct k as [|k]; [reflexivity|].
  cbn [firstn nth app]. f_equal. apply IH. lia.
Qed.

Lemma parent_loc_snoc : forall pp k, parent_loc (pp ++ [k]) = Some pp.
Proof.
  intros pp k. unfold parent_loc. destruct (pp ++ [k]) eqn:E.
  - destruct pp; discriminate.
  - rewrite <- E, removelast_last. reflexivity.
Qed.

Lemma parent_loc_inv : forall p pp, parent_loc p = Some pp -> p = pp ++ [last p 0].
Proof.
  intros p pp H. unfold parent_loc in H. destruct p as [|a p]; [discriminate|].
  injection H as <-. apply app_removelast_last. discriminate.
Qed.

Lemma parent_loc_none : forall p, parent_loc p = None -> p = [].
Proof. intros [|a p]; [reflexivity | discriminate]. Qed.

(* ------------------------------------------------------------------ get *)

Lemma get_app : forall p q t, get t (p ++ q) = match get t p with Some t' => get t' q | None => None end.
Proof.
  induction p as [|i p IH]; intros q t; [reflexivity|].
  cbn [app get]. destruct (nth_error (children t) i); [apply IH | reflexivity].
Qed.

Lemma get_snoc : forall p k t, get t (p ++ [k]) =
  match get t p with Some t' => nth_error (children t') k | None => None end.
Proof.
  intros p k t. rewrite get_app. destruct (get t p) as [t'|]; [|reflexivity].
  cbn [get]. destruct (nth_error (children t') k); reflexivity.
Qed.

Lemma get_prefix : forall p q t x, get t (p ++ q) = Some x -> exists y, get t p = Some y.
Proof. intros p q t x H. rewrite get_app in H. destruct (get t p) as [y|]; [eauto | discriminate]. Qed.

Lemma get_firstn : forall k p t x, get t p = Some x -> exists y, get t (firstn k p) = Some y.
Proof. intros k p t x H. rewrite <- (firstn_skipn k p) in H. eapply get_prefix; eassumption. Qed.

(* ------------------------------------------------------------------ wfb / nonzero_widthb *)

Definition wf_go (hi : N) : N -> list tree -> bool :=
  fix go (lo : N) (l : list tree) : bool :=
    match l with
    | [] => N.leb lo hi
    | c :: r => N.leb lo (tstart c) && wfb c && go (tend c) r
    end.

Lemma wfb_unfold : forall i cs, wfb (T i cs) = N.leb (ns i) (ne i) && wf_go (ne i) (ns i) cs.
Proof. reflexivity. Qed.

Lemma wfb_range : forall t, wfb t = true -> (tstart t <= tend t)%N.
Proof.
  intros [i cs] H. rewrite wfb_unfold in H. apply andb_true_iff in H as [H _].
  apply N.leb_le in H. exact H.
Qed.

Lemma wf_go_child : forall hi cs lo k c,
  wf_go hi lo cs = true -> nth_error cs k = Some c -> wfb c = true /\ (lo <= tstart c)%N.
Proof.
  induction cs as [|h r IH]; intros lo k c H Hk; [destruct k; discriminate|].
  cbn [wf_go] in H. apply andb_true_iff in H as [H H3]. apply andb_true_iff in H as [H1 H2].
  destruct k as [|k]; cbn in Hk.
  - injection Hk as <-. split; [assumption | now apply N.leb_le].
  - destruct (IH _ _ _ H3 Hk) as [Hw Hlo]. split; [assumption|].
    apply N.leb_le in H1. pose proof (wfb_range _ H2). lia.
Qed.

Lemma wf_go_fcb : forall hi cs lo k c i0,
  wf_go hi lo cs = true -> nth_error cs k = Some c -> (tstart c < tend c)%N ->
  first_child_for_byte cs (tstart c) i0 = Some (i0 + k).
Proof.
  induction cs as [|h r IH]; intros lo k c i0 H Hk Hnz; [destruct k; discriminate|].
  cbn [wf_go] in H. apply andb_true_iff in H as [H H3]. apply andb_true_iff in H as [H1 H2].
  destruct k as [|k]; cbn in Hk; cbn [first_child_for_byte].
  - injection Hk as <-. apply N.ltb_lt in Hnz. rewrite Hnz. f_equal. lia.
  - destruct (wf_go_child _ _ _ _ _ H3 Hk) as [_ Hlo].
    assert (E : N.ltb (tstart c) (tend h) = false) by (apply N.ltb_ge; exact Hlo).
    rewrite E. rewrite (IH _ _ _ (S i0) H3 Hk Hnz). f_equal. lia.
Qed.

Lemma wfb_child : forall t k c, wfb t = true -> nth_error (children t) k = Some c -> wfb c = true.
Proof.
  intros [i cs] k c H Hk. rewrite wfb_unfold in H. apply andb_true_iff in H as [_ H].
  cbn [children] in Hk. exact (proj1 (wf_go_child _ _ _ _ _ H Hk)).
Qed.

Lemma wfb_get : forall p root t, wfb root = true -> get root p = Some t -> wfb t = true.
Proof.
  induction p as [|i p IH]; intros root t Hw Hg; cbn [get] in Hg.
  - now injection Hg as <-.
  - destruct (nth_error (children root) i) as [c|] eqn:E; [|discriminate].
    eapply IH; [|eassumption]. eapply wfb_child; eassumption.
Qed.

Definition nz_go : list tree -> bool :=
  fix go (l : list tree) : bool := match l with [] => true | c :: r => nonzero_widthb c && go r end.

Lemma nz_unfold : forall i cs, nonzero_widthb (T i cs) = N.ltb (ns i) (ne i) && nz_go cs.
Proof. reflexivity. Qed.

Lemma nz_go_child : forall cs k c, nz_go cs = true -> nth_error cs k = Some c -> nonzero_widthb c = true.
Proof.
  induction cs as [|h r IH]; intros k c H Hk; [destruct k; discriminate|].
  cbn [nz_go] in H. apply andb_true_iff in H as [H1 H2].
  destruct k as [|k]; cbn in Hk; [now injection Hk as <- | eauto].
Qed.

Lemma nz_child : forall t k c, nonzero_widthb t = true -> nth_error (children t) k = Some c ->
  nonzero_widthb c = true.
Proof.
  intros [i cs] k c H Hk. rewrite nz_unfold in H. apply andb_true_iff in H as [_ H].
  eapply nz_go_child; eassumption.
Qed.

Lemma nz_range : forall t, nonzero_widthb t = true -> (tstart t < tend t)%N.
Proof.
  intros [i cs] H. rewrite nz_unfold in H. apply andb_true_iff in H as [H _].
  now apply N.ltb_lt in H.
Qed.

Lemma nz_get : forall p root t, nonzero_widthb root = true -> get root p = Some t -> nonzero_widthb t = true.
Proof.
  induction p as [|i p IH]; intros root t Hw Hg; cbn [get] in Hg.
  - now injection Hg as <-.
  - destruct (nth_error (children root) i) as [c|] eqn:E; [|discriminate].
    eapply IH; [|eassumption]. eapply nz_child; eassumption.
Qed.

(* the cursor finds the node's own index among its parent's children *)
Lemma fcb_own_index : forall par k c,
  wfb par = true -> nonzero_widthb par = true -> nth_error (children par) k = Some c ->
  first_child_for_byte (children par) (tstart c) 0 = Some k.
Proof.
  intros [i cs] k c Hw Hz Hk. cbn [children] in *.
  rewrite wfb_unfold in Hw. apply andb_true_iff in Hw as [_ Hw].
  apply (wf_go_fcb _ _ _ _ _ 0 Hw Hk).
  apply nz_range. eapply (nz_child (T i cs)); eassumption.
Qed.

(* ------------------------------------------------------------------ C19 *)

Lemma sibling_base_own : forall root pp k self,
  wfb root = true -> nonzero_widthb root = true -> get root (pp ++ [k]) = Some self ->
  exists par, get root pp = Some par /\ nth_error (children par) k = Some self /\
              sibling_base root (pp ++ [k]) = Some (pp, k, length (children par)).
Proof.
  intros root pp k self Hw Hz Hg. unfold sibling_base. rewrite Hg, parent_loc_snoc.
  rewrite get_snoc in Hg. destruct (get root pp) as [par|] eqn:Hp; [|discriminate].
  exists par. split; [reflexivity|]. split; [assumption|].
  rewrite (fcb_own_index par k self); [reflexivity | | | assumption].
  - eapply wfb_get; eassumption.
  - eapply nz_get; eassumption.
Qed.

Lemma C19_next_all : C19_next_all_stmt.
Proof.
  intros root p Hw Hz Hg.
  destruct (get root p) as [self|] eqn:Hs; [clear Hg | congruence].
  destruct (parent_loc p) as [pp|] eqn:Hpp.
  - pose proof (parent_loc_inv _ _ Hpp) as Ep. set (k := last p 0) in *.
    unfold next_all, prev_all, later_siblings, earlier_siblings. rewrite Hs, Hpp. fold k.
    rewrite Ep in Hs |- *.
    destruct (sibling_base_own _ _ _ _ Hw Hz Hs) as (par & Hp & Hk & Hb).
    rewrite Hb, Hp. split; reflexivity.
  - apply parent_loc_none in Hpp. subst p.
    unfold next_all, prev_all, later_siblings, earlier_siblings, sibling_base. cbn. split; reflexivity.
Qed.
Print Assumptions C19_next_all.

(* ------------------------------------------------------------------ sizes *)

Lemma size_unfold : forall i cs, size (T i cs) = S (sizel cs).
Proof.
  intros i cs. reflexivity.
Qed.

Lemma size_pos' : forall t, 1 <= size t.
Proof. intros [i cs]. rewrite size_unfold. lia. Qed.

Lemma sizel_length : forall cs, length cs <= sizel cs.
Proof.
  induction cs as [|x r IH]; [cbn; lia|]. cbn [sizel fold_right length].
  pose proof (size_pos' x). unfold sizel in IH. lia.
Qed.

Lemma sizel_nth : forall cs k c, nth_error cs k = Some c -> size c <= sizel cs.
Proof.
  induction cs as [|x r IH]; intros k c Hk; [destruct k; discriminate|].
  cbn [sizel fold_right]. destruct k as [|k]; cbn in Hk.
  - injection Hk as <-. lia.
  - specialize (IH _ _ Hk). unfold sizel in IH. lia.
Qed.

Lemma children_lt_size : forall t, length (children t) < size t.
Proof. intros [i cs]. rewrite size_unfold. cbn [children]. pose proof (sizel_length cs). lia. Qed.

Lemma size_get : forall p root t, get root p = Some t -> size t <= size root.
Proof.
  induction p as [|i p IH]; intros root t Hg; cbn [get] in Hg.
  - injection Hg as <-. lia.
  - destruct (nth_error (children root) i) as [c|] eqn:E; [|discriminate].
    specialize (IH _ _ Hg). destruct root as [ri cs]. rewrite size_unfold. cbn [children] in E.
    pose proof (sizel_nth _ _ _ E). lia.
Qed.

Lemma child_locs_length : forall root p, length (child_locs root p) < size root.
Proof.
  intros root p. unfold child_locs. destruct (get root p) as [t|] eqn:E.
  - rewrite map_length, seq_length. pose proof (children_lt_size t). pose proof (size_get _ _ _ E). lia.
  - cbn. pose proof (size_pos' root). lia.
Qed.

(* ------------------------------------------------------------------ unique ids *)

Lemma preorder_unfold : forall i cs, preorder (T i cs) = T i cs :: flat_map preorder cs.
Proof.
  intros i cs. reflexivity.
Qed.

Lemma preorder_head : forall t, In t (preorder t).
Proof. intros [i cs]. rewrite preorder_unfold. now left. Qed.

Lemma nodup_app_disjoint : forall A (l1 l2 : list A) x, NoDup (l1 ++ l2) -> In x l1 -> In x l2 -> False.
Proof.
  induction l1 as [|a l1 IH]; intros l2 x Hn H1 H2; [contradiction|].
  cbn in Hn. inversion Hn as [|? ? Hna Hn']; subst. destruct H1 as [->|H1].
  - apply Hna. apply in_or_app. now right.
  - eapply IH; eassumption.
Qed.

Lemma NoDup_app_remove_l : forall A (l1 l2 : list A), NoDup (l1 ++ l2) -> NoDup l2.
Proof.
  induction l1 as [|a l1 IH]; intros l2 H; [exact H|].
  cbn in H. inversion H; subst. now apply IH.
Qed.

Lemma NoDup_app_remove_r : forall A (l1 l2 : list A), NoDup (l1 ++ l2) -> NoDup l1.
Proof.
  induction l1 as [|a l1 IH]; intros l2 H; [constructor|].
  cbn in H. inversion H as [|? ? Hn H']; subst. constructor.
  - intros Hi. apply Hn. apply in_or_app. now left.
  - eapply IH. eassumption.
Qed.

Lemma siblings_ids_distinct : forall cs i j a b,
  NoDup (map tid (flat_map preorder cs)) ->
  nth_error cs i = Some a -> nth_error cs j = Some b -> tid a = tid b -> i = j.
Proof.
  induction cs as [|h r IH]; intros i j a b Hn Hi Hj E; [destruct i; discriminate|].
  cbn [flat_map] in Hn. rewrite map_app in Hn.
  assert (Hx : forall k x, nth_error r k = Some x -> tid h = tid x -> False).
  { intros k x Hk Ex. eapply nodup_app_disjoint; [exact Hn | |].
    - apply in_map. apply preorder_head.
    - rewrite Ex. apply in_map. apply in_flat_map. exists x. split; [eapply nth_error_In; eassumption | apply preorder_head]. }
  destruct i as [|i], j as [|j]; cbn in Hi, Hj.
  - reflexivity.
  - injection Hi as <-. exfalso. eapply Hx; eassumption.
  - injection Hj as <-. exfalso. eapply Hx; [eassumption | now symmetry].
  - f_equal. eapply IH; try eassumption. eapply NoDup_app_remove_l. eassumption.
Qed.

Lemma ids_unique_child : forall t k c, ids_unique t -> nth_error (children t) k = Some c -> ids_unique c.
Proof.
  intros [i cs] k c H Hk. unfold ids_unique in *. rewrite preorder_unfold in H.
  cbn [map] in H. inversion H as [|? ? _ Hn]; subst. clear H. cbn [children] in Hk.
  revert k Hk Hn. induction cs as [|h r IH]; intros k Hk Hn; [destruct k; discriminate|].
  cbn [flat_map] in Hn. rewrite map_app in Hn. destruct k as [|k]; cbn in Hk.
  - injection Hk as <-. eapply NoDup_app_remove_r. eassumption.
  - eapply IH; [eassumption|]. eapply NoDup_app_remove_l. eassumption.
Qed.

Lemma ids_unique_get : forall p root t, ids_unique root -> get root p = Some t -> ids_unique t.
Proof.
  induction p as [|i p IH]; intros root t Hw Hg; cbn [get] in Hg.
  - now injection Hg as <-.
  - destruct (nth_error (children root) i) as [c|] eqn:E; [|discriminate].
    eapply IH; [|eassumption]. eapply ids_unique_child; eassumption.
Qed.

Lemma children_ids_distinct : forall t i j a b,
  ids_unique t -> nth_error (children t) i = Some a -> nth_error (children t) j = Some b ->
  tid a = tid b -> i = j.
Proof.
  intros [ti cs] i j a b H Hi Hj E. unfold ids_unique in H. rewrite preorder_unfold in H.
  cbn [map] in H. inversion H as [|? ? _ Hn]; subst. cbn [children] in *.
  eapply siblings_ids_distinct; eassumption.
Qed.

(* ------------------------------------------------------------------ unique fields *)

Definition fu_go (f : N) : list tree -> bool :=
  fix go (l : list tree) : bool := match l with [] => true | c :: r => field_uniqueb f c && go r end.

Lemma fu_unfold : forall f i cs, field_uniqueb f (T i cs) = Nat.leb (count_field f cs) 1 && fu_go f cs.
Proof. reflexivity. Qed.

Lemma fu_child : forall f t k c, field_uniqueb f t = true -> nth_error (children t) k = Some c ->
  field_uniqueb f c = true.
Proof.
  intros f [i cs] k c H Hk. rewrite fu_unfold in H. apply andb_true_iff in H as [_ H].
  cbn [children] in Hk. revert k Hk H. induction cs as [|h r IH]; intros k Hk H; [destruct k; discriminate|].
  cbn [fu_go] in H. apply andb_true_iff in H as [H1 H2].
  destruct k as [|k]; cbn in Hk; [now injection Hk as <- | eauto].
Qed.

Lemma fu_get : forall f p root t, field_uniqueb f root = true -> get root p = Some t -> field_uniqueb f t = true.
Proof.
  induction p as [|i p IH]; intros root t Hw Hg; cbn [get] in Hg.
  - now injection Hg as <-.
  - destruct (nth_error (children root) i) as [c|] eqn:E; [|discriminate].
    eapply IH; [|eassumption]. eapply fu_child; eassumption.
Qed.

Lemma fu_count : forall f t, field_uniqueb f t = true -> count_field f (children t) <= 1.
Proof.
  intros f [i cs] H. rewrite fu_unfold in H. apply andb_true_iff in H as [H _].
  now apply Nat.leb_le in H.
Qed.

Lemma count_field_pos : forall f cs i a,
  nth_error cs i = Some a -> nfld (info a) = f -> 1 <= count_field f cs.
Proof.
  induction cs as [|h r IH]; intros i a Hi Ha; [destruct i; discriminate|].
  cbn [count_field]. destruct i as [|i]; cbn in Hi.
  - injection Hi as <-. rewrite Ha, N.eqb_refl. lia.
  - specialize (IH _ _ Hi Ha). lia.
Qed.

Lemma find_field_unique : forall f cs k0 i a,
  count_field f cs <= 1 -> nth_error cs i = Some a -> nfld (info a) = f ->
  find_field cs f k0 = Some (k0 + i).
Proof.
  induction cs as [|h r IH]; intros k0 i a Hc Hi Ha; [destruct i; discriminate|].
  cbn [count_field] in Hc. cbn [find_field]. destruct i as [|i]; cbn in Hi.
  - injection Hi as <-. rewrite Ha, N.eqb_refl. f_equal. lia.
  - pose proof (count_field_pos _ _ _ _ Hi Ha) as Hp.
    destruct (N.eqb (nfld (info h)) f); [lia|].
    rewrite (IH (S k0) i a); [f_equal; lia | lia | assumption | assumption].
Qed.

Lemma find_field_some : forall f cs k0 j,
  find_field cs f k0 = Some j -> exists i a, j = k0 + i /\ nth_error cs i = Some a /\ nfld (info a) = f.
Proof.
  induction cs as [|h r IH]; intros k0 j H; [discriminate|].
  cbn [find_field] in H. destruct (N.eqb (nfld (info h)) f) eqn:E.
  - injection H as <-. exists 0, h. split; [lia|]. split; [reflexivity | now apply N.eqb_eq].
  - destruct (IH _ _ H) as (i & a & -> & Hi & Ha). exists (S i), a. split; [lia|]. split; assumption.
Qed.

Lemma find_field_none : forall f cs k0 i a,
  find_field cs f k0 = None -> nth_error cs i = Some a -> nfld (info a) <> f.
Proof.
  induction cs as [|h r IH]; intros k0 i a H Hi; [destruct i; discriminate|].
  cbn [find_field] in H. destruct (N.eqb (nfld (info h)) f) eqn:E; [discriminate|].
  destruct i as [|i]; cbn in Hi.
  - injection Hi as <-. now apply N.eqb_neq.
  - eapply IH; eassumption.
Qed.

Lemma find_field_count0 : forall f cs k0, count_field f cs = 0 -> find_field cs f k0 = None.
Proof.
  induction cs as [|h r IH]; intros k0 H; [reflexivity|].
  cbn [count_field] in H. cbn [find_field]. destruct (N.eqb (nfld (info h)) f); [lia|]. apply IH. lia.
Qed.

(* the children carrying a unique field: exactly the one child_by_field finds *)
Lemma filter_field_seq : forall f (Q : nat -> bool) cs k0,
  count_field f cs <= 1 ->
  (forall i a, nth_error cs i = Some a -> Q (k0 + i) = N.eqb (nfld (info a)) f) ->
  filter Q (seq k0 (length cs)) = match find_field cs f k0 with Some i => [i] | None => [] end.
Proof.
  induction cs as [|h r IH]; intros k0 Hc HQ; [reflexivity|].
  cbn [length seq filter find_field]. cbn [count_field] in Hc.
  pose proof (HQ 0 h eq_refl) as Q0. rewrite Nat.add_0_r in Q0. rewrite Q0.
  assert (HQ' : forall i a, nth_error r i = Some a -> Q (S k0 + i) = N.eqb (nfld (info a)) f).
  { intros i a Hi. rewrite <- (HQ (S i) a Hi). f_equal. lia. }
  destruct (N.eqb (nfld (info h)) f).
  - rewrite (IH (S k0)); [| lia | exact HQ']. rewrite find_field_count0; [reflexivity | lia].
  - apply IH; [lia | exact HQ'].
Qed.

Lemma child_locs_filter_field : forall root n t f,
  get root n = Some t -> count_field f (children t) <= 1 ->
  filter (fun ch => match get root ch with
                    | Some cht => N.eqb (nfld (info cht)) f
                    | None => false end) (child_locs root n)
  = match child_by_field root n f with Some nd => [nd] | None => [] end.
Proof.
  intros root n t f Hg Hc. unfold child_locs, child_by_field. rewrite Hg.
  set (P := fun ch => match get root ch with Some cht => N.eqb (nfld (info cht)) f | None => false end).
  set (g := fun i => n ++ [i]).
  assert (E : forall l, filter P (map g l) = map g (filter (fun i => P (g i)) l)).
  { induction l as [|x l IH]; [reflexivity|]. cbn [map filter]. destruct (P (g x)); cbn [map]; now rewrite IH. }
  rewrite E. rewrite (filter_field_seq f (fun i => P (g i)) (children t) 0 Hc).
  - destruct (find_field (children t) f 0); reflexivity.
  - intros i a Hi. unfold P, g. cbn [Nat.add]. rewrite get_snoc, Hg, Hi. reflexivity.
Qed.

(* pre-order locations: the node itself, then the pre-order of each child *)
Lemma pre_locs_t_unfold : forall i cs p,
  pre_locs_t (T i cs) p =
  p :: flat_map (fun k => match nth_error cs k with Some c => pre_locs_t c (p ++ [k]) | None => [] end)
                (seq 0 (length cs)).
Proof.
  intros i cs p. cbn [pre_locs_t]. f_equal.
  assert (G : forall k0 pre,
    (fix go (l : list tree) (i0 : nat) {struct l} : list loc :=
       match l with [] => [] | c :: r => pre_locs_t c (p ++ [i0]) ++ go r (S i0) end) cs k0
    = flat_map (fun k => match nth_error (pre ++ cs) k with Some c => pre_locs_t c (p ++ [k]) | None => [] end)
               (seq k0 (length cs)) \/ length pre <> k0).
  { induction cs as [|h r IH]; intros k0 pre; [left; reflexivity|].
    destruct (Nat.eq_dec (length pre) k0) as [El|]; [left | now right].
    cbn [length seq flat_map]. rewrite nth_error_app2 by lia. subst k0. rewrite Nat.sub_diag. cbn [nth_error].
    f_equal. destruct (IH (S (length pre)) (pre ++ [h])) as [E|E].
    - rewrite E. rewrite <- app_assoc. reflexivity.
    - rewrite app_length in E. cbn in E. lia. }
  destruct (G 0 []) as [E|E]; [exact E | cbn in E; lia].
Qed.

Lemma tl_pre_locs : forall root n, tl (pre_locs root n) = flat_map (pre_locs root) (child_locs root n).
Proof.
  intros root n. unfold pre_locs at 1, child_locs. destruct (get root n) as [[i cs]|] eqn:Hg; [|reflexivity].
  rewrite pre_locs_t_unfold. cbn [tl children].
  rewrite flat_map_concat_map, flat_map_concat_map, map_map. f_equal.
  apply map_ext. intros k. unfold pre_locs. rewrite get_snoc, Hg. cbn [children].
  destruct (nth_error cs k); reflexivity.
Qed.
