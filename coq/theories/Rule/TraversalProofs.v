(* C19 / C01 — proofs of the statements of Rule/TraversalSpec.v about the cursor based traversals
   (Pre, Visit with calibrate_for_match, Post, Level), navigation and positions. *)
From Coq Require Import List NArith ZArith Bool Arith Permutation Lia.
From AG Require Import Base.Val Base.Sort Tree.Tree Tree.Wf Rule.Rule Rule.Traversal Rule.TraversalSpec.
Import ListNotations.

(* ------------------------------------------------------------------ induction on trees *)

Fixpoint tree_ind' (P : tree -> Prop) (H : forall i cs, Forall P cs -> P (T i cs)) (t : tree) : P t :=
  match t with
  | T i cs =>
      H i cs ((fix go (l : list tree) : Forall P l :=
                 match l with
                 | [] => Forall_nil P
                 | c :: r => Forall_cons c (tree_ind' P H c) (go r)
                 end) cs)
  end.

(* ------------------------------------------------------------------ lists *)

Lemma tv_nth_skipn : forall A i (l : list A), nth_error l i = hd_error (skipn i l).
Proof.
  induction i as [|i IH]; intros l.
  - destruct l; reflexivity.
  - destruct l as [|a l]; [reflexivity|]. cbn [nth_error skipn]. apply IH.
Qed.

Lemma tv_skipn_S : forall A i (l : list A) c r, skipn i l = c :: r -> skipn (S i) l = r.
Proof.
  induction i as [|i IH]; intros l c r H.
  - cbn [skipn] in H. subst l. reflexivity.
  - destruct l as [|a l]; [discriminate|]. cbn [skipn] in H. cbn [skipn]. eapply IH. eassumption.
Qed.

Lemma tv_skipn_nth : forall A i (l : list A) c r, skipn i l = c :: r -> nth_error l i = Some c.
Proof. intros A i l c r H. rewrite tv_nth_skipn, H. reflexivity. Qed.

Lemma tv_skipn_nth_S : forall A i (l : list A) c r, skipn i l = c :: r -> nth_error l (S i) = hd_error r.
Proof. intros A i l c r H. rewrite tv_nth_skipn. rewrite (tv_skipn_S _ _ _ _ _ H). reflexivity. Qed.

(* ------------------------------------------------------------------ paths *)

Lemma tv_parent_loc_snoc : forall pp k, parent_loc (pp ++ [k]) = Some pp.
Proof.
  intros pp k. unfold parent_loc. destruct (pp ++ [k]) eqn:E.
  - destruct pp; discriminate.
  - rewrite <- E, removelast_last. reflexivity.
Qed.

Lemma tv_get_app : forall p q t, get t (p ++ q) = match get t p with Some t' => get t' q | None => None end.
Proof.
  induction p as [|i p IH]; intros q t; [reflexivity|].
  cbn [app get]. destruct (nth_error (children t) i); [apply IH | reflexivity].
Qed.

Lemma tv_get_snoc : forall p k t, get t (p ++ [k]) =
  match get t p with Some t' => nth_error (children t') k | None => None end.
Proof.
  intros p k t. rewrite tv_get_app. destruct (get t p) as [t'|]; [|reflexivity].
  cbn [get]. destruct (nth_error (children t') k); reflexivity.
Qed.

Lemma tv_snoc_not_nil : forall (p : loc) i, p ++ [i] <> [].
Proof. intros p i H. destruct p; discriminate. Qed.

(* ------------------------------------------------------------------ sizes, unique ids *)

Lemma tv_size_unfold : forall i cs, size (T i cs) = S (sizel cs).
Proof. intros i cs. reflexivity. Qed.

Lemma tv_sizel_cons : forall c r, sizel (c :: r) = size c + sizel r.
Proof. reflexivity. Qed.

Lemma tv_preorder_unfold : forall i cs, preorder (T i cs) = T i cs :: flat_map preorder cs.
Proof. intros i cs. reflexivity. Qed.

Lemma tv_preorder_head : forall t, In t (preorder t).
Proof. intros [i cs]. rewrite tv_preorder_unfold. now left. Qed.

Lemma tv_get_in_preorder : forall p t x, get t p = Some x -> In x (preorder t).
Proof.
  induction p as [|i p IH]; intros t x H; cbn [get] in H.
  - injection H as <-. apply tv_preorder_head.
  - destruct (nth_error (children t) i) as [c|] eqn:E; [|discriminate].
    destruct t as [ti cs]. rewrite tv_preorder_unfold. right. cbn [children] in E.
    apply in_flat_map. exists c. split; [eapply nth_error_In; eassumption | eapply IH; eassumption].
Qed.

Lemma tv_at_start_root : forall top, at_start top [] = true.
Proof. intros top. unfold at_start. cbn [get]. apply N.eqb_refl. Qed.

Lemma tv_at_start_false : forall top q x,
  ids_unique top -> get top q = Some x -> q <> [] -> at_start top q = false.
Proof.
  intros top q x Hu Hg Hq. unfold at_start. rewrite Hg. apply N.eqb_neq. intros E.
  destruct q as [|j q]; [congruence|]. cbn [get] in Hg.
  destruct (nth_error (children top) j) as [c|] eqn:Ej; [|discriminate].
  destruct top as [ti cs]. unfold ids_unique in Hu. rewrite tv_preorder_unfold in Hu.
  cbn [map] in Hu. inversion Hu as [|? ? Hn _]; subst. apply Hn. cbn [children] in Ej.
  rewrite <- E. apply in_map. apply in_flat_map. exists c.
  split; [eapply nth_error_In; eassumption | eapply tv_get_in_preorder; eassumption].
Qed.

(* ------------------------------------------------------------------ views of the nested fixpoints *)

Definition pre_list (p : loc) : list tree -> nat -> list loc :=
  fix go (l : list tree) (i : nat) : list loc :=
    match l with
    | [] => []
    | c :: r => pre_locs_t c (p ++ [i]) ++ go r (S i)
    end.

Lemma pre_locs_t_eq : forall i cs p, pre_locs_t (T i cs) p = p :: pre_list p cs 0.
Proof. reflexivity. Qed.
Lemma pre_list_cons : forall p c r i, pre_list p (c :: r) i = pre_locs_t c (p ++ [i]) ++ pre_list p r (S i).
Proof. reflexivity. Qed.
Lemma pre_list_nil : forall p i, pre_list p [] i = [].
Proof. reflexivity. Qed.

Lemma pre_locs_length : forall t p, length (pre_locs_t t p) = size t.
Proof.
  induction t as [x cs IH] using tree_ind'. intros p.
  rewrite pre_locs_t_eq, tv_size_unfold. cbn [length]. f_equal.
  generalize 0 as i. induction IH as [|c r Hc _ IHr]; intros i; [reflexivity|].
  rewrite pre_list_cons, app_length, tv_sizel_cons, Hc, IHr. reflexivity.
Qed.

(* ------------------------------------------------------------------ Pre *)

Definition mk (p : loc) (l : bool) (d : nat) : pre := {| pr_path := p; pr_live := l; pr_depth := d |}.

(* the state reached when the subtree at p has been exhausted *)
Definition after (top : tree) (p : loc) (d : nat) : pre := trace_up (S (length p)) top p d.

Lemma after_root : forall top d, after top [] d = mk [] false d.
Proof. intros top d. unfold after. cbn [length trace_up]. rewrite tv_at_start_root. reflexivity. Qed.

Lemma next_loc_snoc : forall top p i t,
  get top p = Some t ->
  next_loc top (p ++ [i]) = match nth_error (children t) (S i) with Some _ => Some (p ++ [S i]) | None => None end.
Proof.
  intros top p i t Hg. unfold next_loc. rewrite tv_parent_loc_snoc, last_last, tv_get_snoc, Hg. reflexivity.
Qed.

Lemma after_child : forall top p t i c r dd,
  ids_unique top -> get top p = Some t -> skipn i (children t) = c :: r ->
  after top (p ++ [i]) dd = match r with [] => after top p (dd - 1) | _ :: _ => mk (p ++ [S i]) true dd end.
Proof.
  intros top p t i c r dd Hu Hg Hsk. unfold after. rewrite app_length. cbn [length].
  rewrite Nat.add_1_r. cbn [trace_up].
  rewrite (tv_at_start_false top (p ++ [i]) c Hu).
  - rewrite (next_loc_snoc _ _ _ _ Hg), (tv_skipn_nth_S _ _ _ _ _ Hsk).
    destruct r as [|c' r']; cbn [hd_error]; [|reflexivity].
    rewrite tv_parent_loc_snoc. reflexivity.
  - rewrite tv_get_snoc, Hg. eapply tv_skipn_nth; eassumption.
  - apply tv_snoc_not_nil.
Qed.

Lemma pre_next_live : forall top p d,
  pre_next top (mk p true d) =
  Some (p, if has_child top p then mk (p ++ [0]) true (S d) else after top p d).
Proof. intros top p d. unfold pre_next, mk, after. cbn [pr_live pr_path pr_depth]. destruct (has_child top p); reflexivity. Qed.

Lemma pre_next_dead : forall top p d, pre_next top (mk p false d) = None.
Proof. reflexivity. Qed.

Lemma pre_iter_dead : forall fuel top p d, pre_iter fuel top (mk p false d) = [].
Proof. intros [|f] top p d; reflexivity. Qed.

Lemma has_child_get : forall top p x cs, get top p = Some (T x cs) ->
  has_child top p = match cs with [] => false | _ :: _ => true end.
Proof. intros top p x cs H. unfold has_child. rewrite H. destruct cs; reflexivity. Qed.

Section WithTop.
Variable top : tree.
Hypothesis Hu : ids_unique top.

Lemma pre_sub : forall t p d fuel, get top p = Some t ->
  pre_iter fuel top (mk p true d) =
  firstn fuel (pre_locs_t t p) ++ pre_iter (fuel - size t) top (after top p d).
Proof.
  induction t as [x cs IH] using tree_ind'. intros p d fuel Hg.
  destruct fuel as [|f]; [reflexivity|].
  cbn [pre_iter]. rewrite pre_next_live, (has_child_get _ _ _ _ Hg).
  rewrite pre_locs_t_eq, tv_size_unfold. cbn [firstn Nat.sub app].
  destruct cs as [|c0 r0].
  - cbn [sizel fold_right pre_list]. rewrite firstn_nil, Nat.sub_0_r. reflexivity.
  - f_equal.
    assert (G : forall l i, l <> [] -> skipn i (c0 :: r0) = l -> Forall
                 (fun t => forall p d fuel, get top p = Some t ->
                    pre_iter fuel top (mk p true d) =
                    firstn fuel (pre_locs_t t p) ++ pre_iter (fuel - size t) top (after top p d)) l ->
               forall f, pre_iter f top (mk (p ++ [i]) true (S d)) =
                         firstn f (pre_list p l i) ++ pre_iter (f - sizel l) top (after top p d)).
    { clear f. induction l as [|c r IHl]; intros i Hne Hsk HF f; [congruence|].
      inversion HF as [|? ? Hc Hr]; subst.
      assert (Hgc : get top (p ++ [i]) = Some c).
      { rewrite tv_get_snoc, Hg. cbn [children]. eapply tv_skipn_nth; eassumption. }
      rewrite (Hc _ (S d) f Hgc).
      rewrite (after_child top p _ i c r (S d) Hu Hg Hsk).
      rewrite pre_list_cons, firstn_app, pre_locs_length, tv_sizel_cons, <- app_assoc. f_equal.
      destruct r as [|c' r'].
      - cbn [pre_list sizel fold_right]. rewrite firstn_nil, Nat.add_0_r. cbn [app].
        replace (S d - 1) with d by lia. reflexivity.
      - rewrite (IHl (S i)); [| discriminate | eapply tv_skipn_S; eassumption | assumption].
        f_equal. f_equal. lia. }
    apply (G (c0 :: r0) 0); [discriminate | reflexivity | exact IH].
Qed.

Lemma C19_pre_prefix_top : forall fuel, pre_iter fuel top pre_init = firstn fuel (pre_locs_t top []).
Proof.
  intros fuel. change pre_init with (mk [] true 0).
  rewrite (pre_sub top [] 0 fuel eq_refl), after_root, pre_iter_dead, app_nil_r. reflexivity.
Qed.

Lemma C19_pre_top : dfs top = pre_locs_t top [].
Proof.
  unfold dfs. rewrite C19_pre_prefix_top. apply firstn_all2. rewrite pre_locs_length. lia.
Qed.

End WithTop.

Lemma C19_pre : C19_pre_stmt.
Proof. intros top Hu. apply C19_pre_top. exact Hu. Qed.
Print Assumptions C19_pre.

Lemma C19_pre_prefix : C19_pre_prefix_stmt.
Proof. intros top fuel Hu. apply C19_pre_prefix_top. exact Hu. Qed.
Print Assumptions C19_pre_prefix.

(* ------------------------------------------------------------------ membership in pre_locs_t *)

Lemma in_pre_locs : forall t p q,
  In q (pre_locs_t t p) <-> exists s, q = p ++ s /\ get t s <> None.
Proof.
  induction t as [x cs IH] using tree_ind'. intros p q.
  rewrite pre_locs_t_eq. cbn [In].
  assert (G : forall l i, Forall (fun t => forall p q, In q (pre_locs_t t p) <-> exists s, q = p ++ s /\ get t s <> None) l ->
            (In q (pre_list p l i) <->
             exists j c s, nth_error l j = Some c /\ q = p ++ (i + j) :: s /\ get c s <> None)).
  { clear IH. induction l as [|c r IHl]; intros i HF.
    - cbn [pre_list In]. split; [contradiction|]. intros (j & c & s & H & _). destruct j; discriminate.
    - inversion HF as [|? ? Hc Hr]; subst. rewrite pre_list_cons, in_app_iff, Hc, (IHl (S i) Hr). split.
      + intros [(s & -> & Hs) | (j & c' & s & Hj & -> & Hs)].
        * exists 0, c, s. rewrite Nat.add_0_r, <- app_assoc. cbn [nth_error app]. auto.
        * exists (S j), c', s. cbn [nth_error]. replace (i + S j) with (S i + j) by lia. auto.
      + intros (j & c' & s & Hj & -> & Hs). destruct j as [|j]; cbn [nth_error] in Hj.
        * injection Hj as <-. left. exists s. rewrite Nat.add_0_r, <- app_assoc. auto.
        * right. exists j, c', s. replace (S i + j) with (i + S j) by lia. auto. }
  rewrite (G cs 0 IH). split.
  - intros [<- | (j & c & s & Hj & -> & Hs)].
    + exists []. rewrite app_nil_r. split; [reflexivity | discriminate].
    + exists (j :: s). split; [reflexivity|]. cbn [get children]. rewrite Hj. exact Hs.
  - intros (s & -> & Hs). destruct s as [|j s]; [left; now rewrite app_nil_r|]. right.
    cbn [get children] in Hs. destruct (nth_error cs j) as [c|] eqn:Ej; [|congruence].
    exists j, c, s. auto.
Qed.

Lemma in_pre_locs_root : forall top p, In p (pre_locs_t top []) <-> get top p <> None.
Proof.
  intros top p. rewrite in_pre_locs. cbn [app]. split.
  - intros (s & -> & H). exact H.
  - intros H. exists p. auto.
Qed.

(* ------------------------------------------------------------------ C01: reentrant, find_all *)

Lemma visit_pre_reentrant : forall fuel top m s,
  visit_pre fuel top true m s = filter m (pre_iter fuel top s).
Proof.
  induction fuel as [|f IH]; intros top m s; [reflexivity|].
  cbn [visit_pre pre_iter]. destruct (pre_next top s) as [[p s']|]; [|reflexivity].
  cbn [filter]. rewrite IH. destruct (m p); reflexivity.
Qed.

Lemma C01_reentrant : C01_reentrant_stmt.
Proof.
  intros top m Hu. unfold visit_pre_all. rewrite visit_pre_reentrant.
  change (pre_iter (S (size top)) top pre_init) with (dfs top). rewrite (C19_pre_top top Hu). reflexivity.
Qed.
Print Assumptions C01_reentrant.

Lemma C01_find_all : C01_find_all_stmt.
Proof.
  intros top kinds m Hu Hk. unfold find_all_locs. rewrite (C19_pre_top top Hu).
  apply filter_ext_in. intros p Hp. apply in_pre_locs_root in Hp.
  destruct kinds as [ks|]; [|reflexivity].
  destruct (get top p) as [t|] eqn:Hg; [|congruence].
  destruct (m p) eqn:Hm; [|apply andb_false_r].
  rewrite (Hk p t ks eq_refl Hg Hm). reflexivity.
Qed.
Print Assumptions C01_find_all.

(* ------------------------------------------------------------------ C01: non-reentrant visit *)

Definition outer_list (m : loc -> bool) (p : loc) : list tree -> nat -> list loc :=
  fix go (l : list tree) (i : nat) : list loc :=
    match l with
    | [] => []
    | c :: r => outer_t m c (p ++ [i]) ++ go r (S i)
    end.

Lemma outer_t_eq : forall m x cs p, outer_t m (T x cs) p = if m p then [p] else outer_list m p cs 0.
Proof. reflexivity. Qed.
Lemma outer_list_cons : forall m p c r i, outer_list m p (c :: r) i = outer_t m c (p ++ [i]) ++ outer_list m p r (S i).
Proof. reflexivity. Qed.

(* number of next() calls of the underlying Pre spent inside the subtree at p *)
Fixpoint vsteps (m : loc -> bool) (t : tree) (p : loc) : nat :=
  if m p then 1 else
  match t with
  | T _ cs =>
      S ((fix go (l : list tree) (i : nat) : nat :=
            match l with
            | [] => 0
            | c :: r => vsteps m c (p ++ [i]) + go r (S i)
            end) cs 0)
  end.
Definition vsteps_list (m : loc -> bool) (p : loc) : list tree -> nat -> nat :=
  fix go (l : list tree) (i : nat) : nat :=
    match l with
    | [] => 0
    | c :: r => vsteps m c (p ++ [i]) + go r (S i)
    end.
Lemma vsteps_eq : forall m x cs p, vsteps m (T x cs) p = if m p then 1 else S (vsteps_list m p cs 0).
Proof. reflexivity. Qed.
Lemma vsteps_list_cons : forall m p c r i, vsteps_list m p (c :: r) i = vsteps m c (p ++ [i]) + vsteps_list m p r (S i).
Proof. reflexivity. Qed.

Lemma vsteps_le_size : forall m t p, vsteps m t p <= size t.
Proof.
  intros m. induction t as [x cs IH] using tree_ind'. intros p.
  rewrite vsteps_eq, tv_size_unfold. destruct (m p); [lia|]. apply le_n_S.
  generalize 0 as i. induction IH as [|c r Hc _ IHr]; intros i; [cbn; lia|].
  rewrite vsteps_list_cons, tv_sizel_cons. specialize (Hc (p ++ [i])). specialize (IHr (S i)). lia.
Qed.

Lemma trace_up_depth_le : forall f top p d, pr_depth (trace_up f top p d) <= d.
Proof.
  induction f as [|f IH]; intros top p d; cbn [trace_up]; [cbn; lia|].
  destruct (at_start top p); [cbn; lia|].
  destruct (next_loc top p); [cbn; lia|].
  destruct (parent_loc p); [|cbn; lia].
  specialize (IH top l (d - 1)). lia.
Qed.

Lemma visit_step : forall f top m p d,
  visit_pre (S f) top false m (mk p true d) =
  if m p
  then p :: visit_pre f top false m
              (calibrate_pre top (if has_child top p then mk (p ++ [0]) true (S d) else after top p d) (Some d))
  else visit_pre f top false m (if has_child top p then mk (p ++ [0]) true (S d) else after top p d).
Proof. intros f top m p d. cbn [visit_pre]. rewrite pre_next_live. reflexivity. Qed.

(* after a match the cursor leaves the whole subtree, whether or not it had stepped down *)
Lemma calibrate_matched : forall top p d, exists d',
  calibrate_pre top (if has_child top p then mk (p ++ [0]) true (S d) else after top p d) (Some d) = after top p d'.
Proof.
  intros top p d. unfold calibrate_pre. destruct (has_child top p).
  - cbn [mk pr_depth pr_live pr_path]. rewrite (proj2 (Nat.leb_gt (S d) d)) by lia.
    rewrite tv_parent_loc_snoc. exists (S d). reflexivity.
  - pose proof (trace_up_depth_le (S (length p)) top p d) as Hle. fold (after top p d) in Hle.
    rewrite (proj2 (Nat.leb_le _ _) Hle). exists d. reflexivity.
Qed.

Lemma visit_pre_dead : forall fuel top re m p d, visit_pre fuel top re m (mk p false d) = [].
Proof. intros [|f] top re m p d; reflexivity. Qed.

Section Visit.
Variable top : tree.
Hypothesis Hu : ids_unique top.
Variable m : loc -> bool.

Lemma visit_sub : forall t p d f, get top p = Some t ->
  exists d', visit_pre (vsteps m t p + f) top false m (mk p true d) =
             outer_t m t p ++ visit_pre f top false m (after top p d').
Proof.
  induction t as [x cs IH] using tree_ind'. intros p d f Hg.
  rewrite vsteps_eq, outer_t_eq.
  destruct (m p) eqn:Hm.
  - cbn [Nat.add]. rewrite visit_step, Hm.
    destruct (calibrate_matched top p d) as [d' E]. rewrite E. exists d'. reflexivity.
  - cbn [Nat.add]. rewrite visit_step, Hm, (has_child_get _ _ _ _ Hg).
    destruct cs as [|c0 r0]; [exists d; reflexivity|].
    assert (G : forall l i, l <> [] -> skipn i (c0 :: r0) = l -> Forall
                 (fun t => forall p d f, get top p = Some t ->
                    exists d', visit_pre (vsteps m t p + f) top false m (mk p true d) =
                               outer_t m t p ++ visit_pre f top false m (after top p d')) l ->
               forall dd f, exists d',
                 visit_pre (vsteps_list m p l i + f) top false m (mk (p ++ [i]) true dd) =
                 outer_list m p l i ++ visit_pre f top false m (after top p d')).
    { clear f. induction l as [|c r IHl]; intros i Hne Hsk HF dd f; [congruence|].
      inversion HF as [|? ? Hc Hr]; subst.
      assert (Hgc : get top (p ++ [i]) = Some c).
      { rewrite tv_get_snoc, Hg. cbn [children]. eapply tv_skipn_nth; eassumption. }
      rewrite vsteps_list_cons, outer_list_cons, <- Nat.add_assoc.
      destruct (Hc _ dd (vsteps_list m p r (S i) + f) Hgc) as [d1 E1]. rewrite E1. clear E1.
      rewrite (after_child top p _ i c r d1 Hu Hg Hsk).
      destruct r as [|c' r'].
      - exists (d1 - 1). cbn [vsteps_list outer_list Nat.add]. rewrite app_nil_r. reflexivity.
      - destruct (IHl (S i)) with (dd := d1) (f := f) as [d2 E2];
          [discriminate | eapply tv_skipn_S; eassumption | assumption |].
        rewrite E2. exists d2. rewrite app_assoc. reflexivity. }
    apply (G (c0 :: r0) 0); [discriminate | reflexivity | exact IH].
Qed.

Lemma visit_outermost : visit_pre_all top false m = outer_t m top [].
Proof.
  unfold visit_pre_all. pose proof (vsteps_le_size m top []) as Hle.
  replace (S (size top)) with (vsteps m top [] + (S (size top) - vsteps m top [])) by lia.
  change pre_init with (mk [] true 0).
  destruct (visit_sub top [] 0 (S (size top) - vsteps m top []) eq_refl) as [d' E].
  rewrite E, after_root, visit_pre_dead, app_nil_r. reflexivity.
Qed.

End Visit.

(* ------------------------------------------------------------------ outermost = no matching ancestor *)

Lemma in_pre_list : forall l p i q,
  In q (pre_list p l i) <-> exists j c s, nth_error l j = Some c /\ q = p ++ (i + j) :: s /\ get c s <> None.
Proof.
  induction l as [|c r IHl]; intros p i q.
  - cbn [pre_list In]. split; [contradiction|]. intros (j & c & s & H & _). destruct j; discriminate.
  - rewrite pre_list_cons, in_app_iff, in_pre_locs, (IHl p (S i)). split.
    + intros [(s & -> & Hs) | (j & c' & s & Hj & -> & Hs)].
      * exists 0, c, s. rewrite Nat.add_0_r, <- app_assoc. cbn [nth_error app]. auto.
      * exists (S j), c', s. cbn [nth_error]. replace (i + S j) with (S i + j) by lia. auto.
    + intros (j & c' & s & Hj & -> & Hs). destruct j as [|j]; cbn [nth_error] in Hj.
      * injection Hj as <-. left. exists s. rewrite Nat.add_0_r, <- app_assoc. auto.
      * right. exists j, c', s. replace (S i + j) with (i + S j) by lia. auto.
Qed.

Lemma pp_app : forall p j s, proper_prefix p (p ++ j :: s) = true.
Proof.
  induction p as [|x p IH]; intros j s; [reflexivity|].
  cbn [app proper_prefix]. rewrite Nat.eqb_refl, IH. reflexivity.
Qed.

Lemma pp_nil_r : forall q, proper_prefix q [] = false.
Proof. intros [|x q]; reflexivity. Qed.

Lemma pp_snoc_inv : forall q p i, proper_prefix q (p ++ [i]) = true -> proper_prefix q p = true \/ q = p.
Proof.
  induction q as [|x q IH]; intros p i H.
  - destruct p; [now right | now left].
  - destruct p as [|y p]; cbn [app proper_prefix] in H.
    + rewrite pp_nil_r, andb_false_r in H. discriminate.
    + apply andb_true_iff in H as [H1 H2]. destruct (IH _ _ H2) as [H3 | ->].
      * left. cbn [proper_prefix]. rewrite H1, H3. reflexivity.
      * right. apply Nat.eqb_eq in H1. now subst.
Qed.

Lemma nma_true : forall m L p,
  (forall q, proper_prefix q p = true -> m q = false) -> no_matching_ancestor m L p = true.
Proof.
  intros m L p H. unfold no_matching_ancestor.
  destruct (existsb (fun q => m q && proper_prefix q p) L) eqn:E; [|reflexivity].
  apply existsb_exists in E as (q & _ & Hq). apply andb_true_iff in Hq as [H1 H2].
  rewrite (H q H2) in H1. discriminate.
Qed.

Lemma nma_false : forall m L p q,
  In q L -> m q = true -> proper_prefix q p = true -> no_matching_ancestor m L p = false.
Proof.
  intros m L p q Hi Hm Hp. unfold no_matching_ancestor.
  rewrite (proj2 (existsb_exists _ _)); [reflexivity|]. exists q. rewrite Hm, Hp. auto.
Qed.

Lemma filter_none : forall A (f : A -> bool) l, (forall x, In x l -> f x = false) -> filter f l = [].
Proof.
  induction l as [|a l IH]; intros H; [reflexivity|]. cbn [filter].
  rewrite (H a (or_introl eq_refl)). apply IH. intros x Hx. apply H. now right.
Qed.

Lemma outer_filter : forall m L t p0,
  (forall q, In q (pre_locs_t t p0) -> In q L) ->
  (forall q, proper_prefix q p0 = true -> m q = false) ->
  outer_t m t p0 = filter (fun p => m p && no_matching_ancestor m L p) (pre_locs_t t p0).
Proof.
  intros m L. induction t as [x cs IH] using tree_ind'. intros p0 HL Hpre.
  rewrite outer_t_eq. rewrite pre_locs_t_eq in HL |- *. cbn [filter].
  destruct (m p0) eqn:Hm.
  - rewrite (nma_true m L p0 Hpre). cbn [andb]. f_equal. symmetry. apply filter_none.
    intros q Hq. assert (HqL := HL q (or_intror Hq)).
    apply in_pre_list in Hq as (j & c & s & _ & -> & _).
    rewrite (nma_false m L _ p0); [apply andb_false_r | | exact Hm | apply pp_app].
    apply HL. now left.
  - cbn [andb].
    assert (HL' : forall q, In q (pre_list p0 cs 0) -> In q L) by (intros q Hq; apply HL; now right).
    clear HL. revert HL'. generalize 0 as i.
    induction IH as [|c r Hc _ IHr]; intros i HL; [reflexivity|].
    rewrite outer_list_cons, pre_list_cons, filter_app. f_equal.
    + apply Hc.
      * intros q Hq. apply HL. rewrite pre_list_cons. apply in_or_app. now left.
      * intros q Hq. destruct (pp_snoc_inv _ _ _ Hq) as [H | ->]; [now apply Hpre | exact Hm].
    + apply IHr. intros q Hq. apply HL. rewrite pre_list_cons. apply in_or_app. now right.
Qed.

Lemma C01_outermost : C01_outermost_stmt.
Proof.
  intros top m Hu. split.
  - apply visit_outermost. exact Hu.
  - apply outer_filter; [auto|]. intros q Hq. rewrite pp_nil_r in Hq. discriminate.
Qed.
Print Assumptions C01_outermost.

(* ------------------------------------------------------------------ navigation *)

Lemma ancestors_aux_parents : forall p n, n <= length p -> ancestors_aux p n = parents n (firstn n p).
Proof.
  intros p. induction n as [|k IH]; intros Hn; [reflexivity|].
  cbn [ancestors_aux parents].
  assert (E : parent_loc (firstn (S k) p) = Some (firstn k p)).
  { unfold parent_loc. destruct (firstn (S k) p) eqn:Ef.
    - destruct p; [cbn in Hn; lia | discriminate].
    - rewrite <- Ef. rewrite removelast_firstn by lia. reflexivity. }
  rewrite E, IH by lia. reflexivity.
Qed.

Lemma C19_ancestors : C19_ancestors_stmt.
Proof.
  intros p. unfold ancestors. rewrite ancestors_aux_parents by lia. rewrite firstn_all. reflexivity.
Qed.
Print Assumptions C19_ancestors.

Definition tv_wf_go (hi : N) : N -> list tree -> bool :=
  fix go (lo : N) (l : list tree) : bool :=
    match l with
    | [] => N.leb lo hi
    | c :: r => N.leb lo (tstart c) && wfb c && go (tend c) r
    end.

Lemma tv_wfb_unfold : forall i cs, wfb (T i cs) = N.leb (ns i) (ne i) && tv_wf_go (ne i) (ns i) cs.
Proof. reflexivity. Qed.

Lemma tv_wfb_range : forall t, wfb t = true -> (tstart t <= tend t)%N.
Proof.
  intros [i cs] H. rewrite tv_wfb_unfold in H. apply andb_true_iff in H as [H _].
  apply N.leb_le in H. exact H.
Qed.

Lemma tv_wf_go_hi : forall hi cs lo, tv_wf_go hi lo cs = true -> (lo <= hi)%N.
Proof.
  induction cs as [|h r IH]; intros lo H; cbn [tv_wf_go] in H.
  - now apply N.leb_le.
  - apply andb_true_iff in H as [H H3]. apply andb_true_iff in H as [H1 H2].
    apply N.leb_le in H1. pose proof (tv_wfb_range _ H2). specialize (IH _ H3). lia.
Qed.

Lemma tv_wf_go_child : forall hi cs lo k c,
  tv_wf_go hi lo cs = true -> nth_error cs k = Some c ->
  wfb c = true /\ (lo <= tstart c)%N /\ (tend c <= hi)%N.
Proof.
  induction cs as [|h r IH]; intros lo k c H Hk; [destruct k; discriminate|].
  cbn [tv_wf_go] in H. apply andb_true_iff in H as [H H3]. apply andb_true_iff in H as [H1 H2].
  apply N.leb_le in H1. destruct k as [|k]; cbn [nth_error] in Hk.
  - injection Hk as <-. split; [assumption|]. split; [assumption|]. eapply tv_wf_go_hi; eassumption.
  - destruct (IH _ _ _ H3 Hk) as (Hw & Hlo & Hhi). split; [assumption|]. split; [|assumption].
    pose proof (tv_wfb_range _ H2). lia.
Qed.

Lemma tv_wfb_get : forall p root t, wfb root = true -> get root p = Some t -> wfb t = true.
Proof.
  induction p as [|i p IH]; intros root t Hw Hg; cbn [get] in Hg.
  - now injection Hg as <-.
  - destruct (nth_error (children root) i) as [c|] eqn:E; [|discriminate].
    eapply IH; [|eassumption]. destruct root as [ri cs]. rewrite tv_wfb_unfold in Hw.
    apply andb_true_iff in Hw as [_ Hw]. cbn [children] in E.
    exact (proj1 (tv_wf_go_child _ _ _ _ _ Hw E)).
Qed.

Lemma C19_nesting : C19_nesting_stmt.
Proof.
  intros top p i t c Hw Hg Hc. split; [apply tv_parent_loc_snoc|].
  rewrite tv_get_snoc, Hg in Hc. split; [eapply nth_error_In; eassumption|].
  pose proof (tv_wfb_get _ _ _ Hw Hg) as Hwt. destruct t as [x cs]. cbn [children] in Hc.
  rewrite tv_wfb_unfold in Hwt. apply andb_true_iff in Hwt as [_ Hgo].
  destruct (tv_wf_go_child _ _ _ _ _ Hgo Hc) as (Hwc & Hlo & Hhi).
  split; [exact Hlo|]. split; [exact Hhi|]. apply tv_wfb_range. exact Hwc.
Qed.
Print Assumptions C19_nesting.

(* ------------------------------------------------------------------ positions *)

Lemma after_last_nl_snoc : forall l acc b,
  after_last_nl (l ++ [b]) acc = if N.eqb b 10 then [] else after_last_nl l acc ++ [b].
Proof.
  induction l as [|a l IH]; intros acc b; cbn [app after_last_nl].
  - destruct (N.eqb b 10); reflexivity.
  - destruct (N.eqb a 10); apply IH.
Qed.

Lemma count_chars_snoc : forall l b,
  count_chars (l ++ [b]) = ((if is_cont_byte b then 0 else 1) + count_chars l)%N.
Proof.
  intros l b. unfold count_chars. rewrite filter_app, app_length. cbn [filter].
  destruct (is_cont_byte b); cbn [negb length]; lia.
Qed.

Lemma col_back_spec : forall l, col_back (rev l) = count_chars (after_last_nl l []).
Proof.
  induction l as [|b l IH] using rev_ind; [reflexivity|].
  rewrite rev_app_distr. cbn [rev app col_back]. rewrite after_last_nl_snoc.
  destruct (N.eqb b 10); [reflexivity|]. rewrite count_chars_snoc, IH. reflexivity.
Qed.

Lemma count_nl_cons : forall b l,
  count_nl (b :: l) = ((if N.eqb b 10 then 1 else 0) + count_nl l)%N.
Proof.
  intros b l. unfold count_nl. cbn [filter]. rewrite (N.eqb_sym 10 b).
  destruct (N.eqb b 10); cbn [length]; lia.
Qed.

Lemma pos_scan_spec : forall src off line rd,
  pos_scan src off line (col_back rd) =
  ((line + count_nl (firstn off src))%N, col_back (rev (firstn off src) ++ rd)).
Proof.
  induction src as [|b r IH]; intros off line rd.
  - rewrite firstn_nil. destruct off; cbn [pos_scan rev app]; unfold count_nl; cbn; rewrite N.add_0_r; reflexivity.
  - destruct off as [|k].
    + cbn [pos_scan firstn rev app]. unfold count_nl. cbn. rewrite N.add_0_r. reflexivity.
    + cbn [pos_scan firstn rev]. rewrite <- app_assoc. cbn [app]. rewrite count_nl_cons.
      destruct (N.eqb b 10) eqn:Eb.
      * replace 0%N with (col_back (b :: rd)) at 1 by (cbn [col_back]; now rewrite Eb).
        rewrite IH. f_equal; lia.
      * destruct (is_cont_byte b) eqn:Ec.
        -- replace (col_back rd) with (col_back (b :: rd)) at 1 by (cbn [col_back]; now rewrite Eb, Ec).
           rewrite IH. f_equal; lia.
        -- replace (col_back rd + 1)%N with (col_back (b :: rd)) by (cbn [col_back]; rewrite Eb, Ec; lia).
           rewrite IH. f_equal; lia.
Qed.

Lemma C19_positions : C19_positions_stmt.
Proof.
  intros src off. split.
  - unfold get_char_column. rewrite <- rev_alt. apply col_back_spec.
  - unfold position, get_char_column. rewrite <- rev_alt. rewrite Nat2N.id.
    change 0%N with (col_back []) at 2. rewrite pos_scan_spec, app_nil_r. reflexivity.
Qed.
Print Assumptions C19_positions.

(* ------------------------------------------------------------------ Post *)

Definition post_list (p : loc) : list tree -> nat -> list loc :=
  fix go (l : list tree) (i : nat) : list loc :=
    match l with
    | [] => []
    | c :: r => post_locs_t c (p ++ [i]) ++ go r (S i)
    end.

Lemma post_locs_t_eq : forall x cs p, post_locs_t (T x cs) p = post_list p cs 0 ++ [p].
Proof. reflexivity. Qed.
Lemma post_list_cons : forall p c r i, post_list p (c :: r) i = post_locs_t c (p ++ [i]) ++ post_list p r (S i).
Proof. reflexivity. Qed.

Definition mkpo (p : loc) (l : bool) (d md : nat) : post :=
  {| po_path := p; po_live := l; po_depth := d; po_mdepth := md |}.

(* the cursor after trace_down from the node t at p *)
Definition lm_state (t : tree) (p : loc) (d md : nat) : post :=
  let '(q, d') := leftmost t p d in mkpo q true d' md.

Lemma lm_state_leaf : forall x p d md, lm_state (T x []) p d md = mkpo p true d md.
Proof. reflexivity. Qed.
Lemma lm_state_node : forall x c r p d md, lm_state (T x (c :: r)) p d md = lm_state c (p ++ [0]) (S d) md.
Proof. reflexivity. Qed.

(* the state after the node at p has been emitted *)
Definition post_after (top : tree) (p : loc) (d md : nat) : post :=
  if at_start top p then mkpo p false d md
  else match next_loc top p with
       | Some q => match get top q with Some t => lm_state t q d md | None => mkpo q true d md end
       | None => mkpo (match parent_loc p with Some x => x | None => p end) true (d - 1) md
       end.

Lemma post_next_live : forall top p d md, post_next top (mkpo p true d md) = Some (p, post_after top p d md).
Proof.
  intros top p d md. unfold post_next, post_after, lm_state, mkpo. cbn [po_live po_path po_depth po_mdepth].
  destruct (at_start top p); [reflexivity|]. destruct (next_loc top p) as [q|]; [|reflexivity].
  destruct (get top q) as [t|]; [|reflexivity]. destruct (leftmost t q d) as [q' d']. reflexivity.
Qed.

Lemma post_emit : forall f top p d md,
  post_iter (S f) top (mkpo p true d md) = p :: post_iter f top (post_after top p d md).
Proof. intros f top p d md. cbn [post_iter]. rewrite post_next_live. reflexivity. Qed.

Lemma post_iter_dead : forall fuel top p d md, post_iter fuel top (mkpo p false d md) = [].
Proof. intros [|f] top p d md; reflexivity. Qed.

Lemma post_after_root : forall top d md, post_after top [] d md = mkpo [] false d md.
Proof. intros top d md. unfold post_after. rewrite tv_at_start_root. reflexivity. Qed.

Lemma post_after_child : forall top p t i c r dd md,
  ids_unique top -> get top p = Some t -> skipn i (children t) = c :: r ->
  post_after top (p ++ [i]) dd md =
  match r with [] => mkpo p true (dd - 1) md | c' :: _ => lm_state c' (p ++ [S i]) dd md end.
Proof.
  intros top p t i c r dd md Hu Hg Hsk. unfold post_after.
  rewrite (tv_at_start_false top (p ++ [i]) c Hu).
  - rewrite (next_loc_snoc _ _ _ _ Hg), (tv_skipn_nth_S _ _ _ _ _ Hsk).
    destruct r as [|c' r']; cbn [hd_error].
    + rewrite tv_parent_loc_snoc. reflexivity.
    + rewrite tv_get_snoc, Hg, (tv_skipn_nth_S _ _ _ _ _ Hsk). reflexivity.
  - rewrite tv_get_snoc, Hg. eapply tv_skipn_nth; eassumption.
  - apply tv_snoc_not_nil.
Qed.

Section Post.
Variable top : tree.
Hypothesis Hu : ids_unique top.

Lemma post_sub : forall t p d md f, get top p = Some t ->
  post_iter (size t + f) top (lm_state t p d md) =
  post_locs_t t p ++ post_iter f top (post_after top p d md).
Proof.
  induction t as [x cs IH] using tree_ind'. intros p d md f Hg.
  rewrite post_locs_t_eq, tv_size_unfold. destruct cs as [|c0 r0].
  - rewrite lm_state_leaf. cbn [sizel fold_right Nat.add post_list app]. apply post_emit.
  - rewrite lm_state_node.
    assert (G : forall l i, l <> [] -> skipn i (c0 :: r0) = l -> Forall
                 (fun t => forall p d md f, get top p = Some t ->
                    post_iter (size t + f) top (lm_state t p d md) =
                    post_locs_t t p ++ post_iter f top (post_after top p d md)) l ->
               forall f, post_iter (sizel l + f) top (lm_state (hd c0 l) (p ++ [i]) (S d) md) =
                         post_list p l i ++ post_iter f top (mkpo p true d md)).
    { clear f. induction l as [|c r IHl]; intros i Hne Hsk HF f; [congruence|].
      inversion HF as [|? ? Hc Hr]; subst. cbn [hd].
      assert (Hgc : get top (p ++ [i]) = Some c).
      { rewrite tv_get_snoc, Hg. cbn [children]. eapply tv_skipn_nth; eassumption. }
      rewrite tv_sizel_cons, post_list_cons, <- Nat.add_assoc, (Hc _ (S d) md _ Hgc), <- app_assoc. f_equal.
      rewrite (post_after_child top p _ i c r (S d) md Hu Hg Hsk).
      destruct r as [|c' r'].
      - cbn [sizel fold_right Nat.add post_list app]. replace (S d - 1) with d by lia. reflexivity.
      - specialize (IHl (S i)). cbn [hd] in IHl. apply IHl;
          [discriminate | eapply tv_skipn_S; eassumption | assumption]. }
    replace (S (sizel (c0 :: r0)) + f) with (sizel (c0 :: r0) + S f) by lia.
    specialize (G (c0 :: r0) 0). cbn [hd] in G.
    rewrite G; [| discriminate | reflexivity | exact IH].
    rewrite post_emit, <- app_assoc. reflexivity.
Qed.

Lemma C19_post_top : post_all top = post_locs_t top [].
Proof.
  unfold post_all. change (post_init top) with (lm_state top [] 0 0).
  replace (S (size top)) with (size top + 1) by lia.
  rewrite (post_sub top [] 0 0 1 eq_refl), post_after_root, post_iter_dead, app_nil_r. reflexivity.
Qed.

End Post.

Lemma C19_post : C19_post_stmt.
Proof. intros top Hu. apply C19_post_top. exact Hu. Qed.
Print Assumptions C19_post.

(* ------------------------------------------------------------------ every node exactly once *)

Lemma tv_NoDup_app : forall A (l1 l2 : list A),
  NoDup l1 -> NoDup l2 -> (forall x, In x l1 -> In x l2 -> False) -> NoDup (l1 ++ l2).
Proof.
  induction l1 as [|a l1 IH]; intros l2 H1 H2 Hd; [exact H2|].
  inversion H1 as [|? ? Ha H1']; subst. cbn [app]. constructor.
  - intros Hi. apply in_app_or in Hi as [Hi|Hi]; [now apply Ha|]. apply (Hd a); [now left | exact Hi].
  - apply IH; [assumption | assumption |]. intros x Hx1 Hx2. apply (Hd x); [now right | exact Hx2].
Qed.

Lemma pre_locs_NoDup : forall t p, NoDup (pre_locs_t t p).
Proof.
  induction t as [x cs IH] using tree_ind'. intros p. rewrite pre_locs_t_eq. constructor.
  - intros Hi. apply in_pre_list in Hi as (j & c & s & _ & E & _).
    rewrite <- (app_nil_r p) in E at 1. apply app_inv_head in E. discriminate.
  - generalize 0 as i. induction IH as [|c r Hc _ IHr]; intros i; [constructor|].
    rewrite pre_list_cons. apply tv_NoDup_app; [apply Hc | apply IHr |].
    intros q H1 H2. apply in_pre_locs in H1 as (s & -> & _).
    apply in_pre_list in H2 as (j & c' & s' & _ & E & _).
    rewrite <- app_assoc in E. apply app_inv_head in E. cbn [app] in E. injection E as E _. lia.
Qed.

Lemma post_pre_perm : forall t p, Permutation (post_locs_t t p) (pre_locs_t t p).
Proof.
  induction t as [x cs IH] using tree_ind'. intros p. rewrite post_locs_t_eq, pre_locs_t_eq.
  eapply Permutation_trans; [apply Permutation_sym, Permutation_cons_append|]. apply perm_skip.
  generalize 0 as i. induction IH as [|c r Hc _ IHr]; intros i; [constructor|].
  rewrite post_list_cons, pre_list_cons. apply Permutation_app; [apply Hc | apply IHr].
Qed.

Lemma C19_each_once : C19_each_once_stmt.
Proof.
  intros top. split; [apply pre_locs_NoDup|]. split; [apply in_pre_locs_root | apply post_pre_perm].
Qed.
Print Assumptions C19_each_once.

(* ------------------------------------------------------------------ Level *)

Definition at_list (k : nat) (p : loc) : list tree -> nat -> list loc :=
  fix go (l : list tree) (i : nat) : list loc :=
    match l with
    | [] => []
    | c :: r => at_depth k c (p ++ [i]) ++ go r (S i)
    end.
Definition hmax : list tree -> nat :=
  fix go (l : list tree) : nat := match l with [] => 0 | c :: r => Nat.max (height c) (go r) end.

Lemma at_depth_S : forall k x cs p, at_depth (S k) (T x cs) p = at_list k p cs 0.
Proof. reflexivity. Qed.
Lemma at_list_cons : forall k p c r i, at_list k p (c :: r) i = at_depth k c (p ++ [i]) ++ at_list k p r (S i).
Proof. reflexivity. Qed.
Lemma height_eq : forall x cs, height (T x cs) = S (hmax cs).
Proof. reflexivity. Qed.
Lemma hmax_cons : forall c r, hmax (c :: r) = Nat.max (height c) (hmax r).
Proof. reflexivity. Qed.

Lemma flat_map_app_perm : forall A B (f g : A -> list B) l,
  Permutation (flat_map (fun k => f k ++ g k) l) (flat_map f l ++ flat_map g l).
Proof.
  induction l as [|a l IH]; [constructor|]. cbn [flat_map].
  rewrite <- !app_assoc. apply Permutation_app_head.
  eapply Permutation_trans; [apply Permutation_app_head; exact IH|].
  apply Permutation_app_swap_app.
Qed.

Lemma flat_map_nil_fn : forall A B (l : list A), flat_map (fun _ => @nil B) l = [].
Proof. induction l as [|a l IH]; [reflexivity | exact IH]. Qed.

Lemma flat_map_map_S : forall B (f : nat -> list B) l, flat_map f (map S l) = flat_map (fun k => f (S k)) l.
Proof. induction l as [|a l IH]; [reflexivity|]. cbn [map flat_map]. now rewrite IH. Qed.

Lemma levels_perm : forall t p n, height t <= n ->
  Permutation (flat_map (fun k => at_depth k t p) (seq 0 n)) (pre_locs_t t p).
Proof.
  induction t as [x cs IH] using tree_ind'. intros p n Hn. rewrite height_eq in Hn.
  destruct n as [|n]; [lia|]. apply le_S_n in Hn.
  cbn [seq flat_map]. rewrite <- seq_shift, flat_map_map_S, pre_locs_t_eq.
  change (at_depth 0 (T x cs) p) with [p]. cbn [app]. apply perm_skip.
  change (fun k => at_depth (S k) (T x cs) p) with (fun k => at_list k p cs 0).
  assert (G : forall l i,
            Forall (fun t => forall p n, height t <= n ->
                      Permutation (flat_map (fun k => at_depth k t p) (seq 0 n)) (pre_locs_t t p)) l ->
            hmax l <= n ->
            Permutation (flat_map (fun k => at_list k p l i) (seq 0 n)) (pre_list p l i)).
  { clear IH Hn. induction l as [|c r IHr]; intros i HF Hn.
    - cbn [at_list pre_list]. rewrite flat_map_nil_fn. constructor.
    - inversion HF as [|? ? Hc Hr]; subst. rewrite hmax_cons in Hn. rewrite pre_list_cons.
      change (fun k => at_list k p (c :: r) i) with (fun k => at_depth k c (p ++ [i]) ++ at_list k p r (S i)).
      eapply Permutation_trans; [apply flat_map_app_perm|].
      apply Permutation_app; [apply Hc; lia | apply IHr; [assumption | lia]]. }
  apply G; assumption.
Qed.

Lemma at_list_0 : forall p l i, at_list 0 p l i = map (fun j => p ++ [j]) (seq i (length l)).
Proof.
  induction l as [|c r IH]; intros i; [reflexivity|].
  rewrite at_list_cons. cbn [at_depth length seq map app]. now rewrite IH.
Qed.

Lemma at_depth_high : forall k t p, height t <= k -> at_depth k t p = [].
Proof.
  induction k as [|k IH]; intros [x cs] p H; rewrite height_eq in H; [lia|].
  apply le_S_n in H. rewrite at_depth_S. revert H. generalize 0 as i.
  induction cs as [|c r IHr]; intros i H; [reflexivity|].
  rewrite hmax_cons in H. rewrite at_list_cons, IH by lia. apply IHr. lia.
Qed.

Lemma at_depth_children : forall top k t p, get top p = Some t ->
  at_depth (S k) t p = flat_map (child_locs top) (at_depth k t p).
Proof.
  intros top. induction k as [|k IH]; intros [x cs] p Hg; rewrite at_depth_S.
  - cbn [at_depth flat_map]. unfold child_locs. rewrite Hg, app_nil_r. apply at_list_0.
  - rewrite at_depth_S.
    assert (G : forall l i, skipn i cs = l ->
              at_list (S k) p l i = flat_map (child_locs top) (at_list k p l i)).
    { induction l as [|c r IHl]; intros i Hsk; [reflexivity|].
      rewrite !at_list_cons, flat_map_app. f_equal.
      - apply IH. rewrite tv_get_snoc, Hg. cbn [children]. eapply tv_skipn_nth; eassumption.
      - apply IHl. eapply tv_skipn_S; eassumption. }
    apply G. reflexivity.
Qed.

Lemma level_iter_queue : forall top l fuel acc, length l <= fuel ->
  level_iter fuel top (l ++ acc) =
  l ++ level_iter (fuel - length l) top (acc ++ flat_map (child_locs top) l).
Proof.
  intros top. induction l as [|a l IH]; intros fuel acc Hf.
  - cbn [app length flat_map]. rewrite app_nil_r, Nat.sub_0_r. reflexivity.
  - destruct fuel as [|f]; [cbn in Hf; lia|]. cbn [length] in Hf.
    cbn [app level_iter length Nat.sub flat_map]. f_equal.
    rewrite <- app_assoc, IH by lia. rewrite <- app_assoc. reflexivity.
Qed.

Lemma level_iter_levels : forall top n k fuel,
  length (flat_map (fun j => at_depth j top []) (seq k n)) < fuel ->
  at_depth (k + n) top [] = [] ->
  level_iter fuel top (at_depth k top []) = flat_map (fun j => at_depth j top []) (seq k n).
Proof.
  intros top. induction n as [|n IH]; intros k fuel Hf Hz.
  - rewrite Nat.add_0_r in Hz. rewrite Hz. destruct fuel; [cbn in Hf; lia | reflexivity].
  - cbn [seq flat_map] in Hf |- *. rewrite app_length in Hf.
    rewrite <- (app_nil_r (at_depth k top [])) at 1.
    rewrite level_iter_queue by lia. f_equal. cbn [app].
    rewrite <- (at_depth_children top k top [] eq_refl).
    apply IH; [lia|]. rewrite <- Hz. f_equal. lia.
Qed.

Lemma level_locs_perm : forall top, Permutation (level_locs top) (pre_locs_t top []).
Proof. intros top. unfold level_locs. apply levels_perm. lia. Qed.

Lemma C19_level : C19_level_stmt.
Proof.
  intros top.
  assert (E : level_all top = level_locs top).
  { unfold level_all, level_locs. change [[]] with (at_depth 0 top []).
    apply level_iter_levels.
    - pose proof (Permutation_length (level_locs_perm top)) as HL. unfold level_locs in HL.
      rewrite HL, pre_locs_length. lia.
    - apply at_depth_high. cbn [Nat.add]. lia. }
  split; [exact E|]. rewrite E. apply level_locs_perm.
Qed.
Print Assumptions C19_level.
