(* The rule evaluator: Rule::match_node_with_env and everything below it
   (crates/config/src/rule/{mod,relational_rule,stop_by,nth_child,range,referent_rule}.rs,
    crates/core/src/ops.rs, crates/config/src/rule_core.rs:do_match).
   The environment is threaded EXACTLY as the Rust threads it: copy-on-write where the code copies
   (Pattern, All, Any), passed through where the code passes the caller's environment through
   (relational rules, nthChild.ofRule, matches) — and returned on failure too. *)
From Coq Require Import List NArith ZArith Bool Arith.
From AG Require Import Base.Val Base.Sort Str.MetaVar Str.AnB Tree.Tree Match.MatchNode Rule.Rule Rule.Kinds.
Import ListNotations.

Record ctx := {
  c_src : str;
  c_root : tree;
  c_utils : list (str * rule)     (* local utility rules *)
}.

Definition node_at (c : ctx) (p : loc) : option tree := get (c_root c) p.

(* MetaVarEnv::add_label *)
Definition add_label (e : env) (label : str) (t : tree) : env :=
  let old := match lookup label (m_multi e) with Some l => l | None => [] end in
  {| m_single := m_single e; m_multi := upsert label (old ++ [t]) (m_multi e); m_trans := m_trans e |}.

Definition SECONDARY : str := [115;101;99;111;110;100;97;114;121]%N.

Inductive finder :=
| FPlain
| FField (fld : N) (last_id : N).

Inductive ereq :=
| QRule (r : rule) (n : loc)
| QAll (rs : list rule) (n : loc)                           (* patterns.iter().all(..) on the copy *)
| QAny (rs : list rule) (n : loc) (orig : env)              (* find_map over alternatives *)
| QFind (r : rule) (fk : finder) (stop : option rule) (cands : list loc)
| QHasRule (r stop : rule) (cands : list loc)               (* Has with stopBy: rule, no field *)
| QNthOf (r : rule) (cands : list loc) (acc : list N).      (* filter_map over named children *)

Inductive eres :=
| EFound (o : option loc)
| EIds (l : list N)
| EFuel.

Definition is_some {A} (o : option A) : bool := match o with Some _ => true | None => false end.

Definition named_child_locs (c : ctx) (p : loc) : list loc :=
  filter (fun q => match node_at c q with Some t => named t | None => false end) (child_locs (c_root c) p).

Fixpoint index_of (x : N) (l : list N) (i : nat) : option nat :=
  match l with
  | [] => None
  | y :: r => if N.eqb x y then Some i else index_of x r (S i)
  end.

Definition loc_id (c : ctx) (p : loc) : N := match node_at c p with Some t => tid t | None => 0%N end.

Fixpoint eval (fuel : nat) (c : ctx) (q : ereq) (e : env) {struct fuel} : eres * env :=
  match fuel with
  | O => (EFuel, e)
  | S f =>
    let matches_fresh (r : rule) (n : loc) : option bool :=
      match eval f c (QRule r n) empty_env with
      | (EFound o, _) => Some (is_some o)
      | _ => None
      end in
    match q with
    | QRule r n =>
      match node_at c n with
      | None => (EFound None, e)
      | Some t =>
        match r with
        | RPattern p =>
            match pattern_match (c_src c) p t e with
            | Matched e' => (EFound (Some n), e')
            | Unmatched => (EFound None, e)
            | OutOfFuel => (EFuel, e)
            end
        | RKind k => (EFound (if N.eqb (kind t) k then Some n else None), e)
        | RRegex hits => (EFound (if existsb (N.eqb (tid t)) hits then Some n else None), e)
        | RRange sl sc el ec =>
            let '(l1, c1) := position (c_src c) (tstart t) in
            let '(l2, c2) := position (c_src c) (tend t) in
            (EFound (if N.eqb sl l1 && N.eqb el l2 && N.eqb sc c1 && N.eqb ec c2 then Some n else None), e)
        | RNth a b reverse of_rule =>
            match parent_loc n with
            | None => (EFound None, e)
            | Some pp =>
                let nameds := named_child_locs c pp in
                (* every sibling is tried on a scratch view of [e]; nothing is written *)
                let '(ids, ok) :=
                  match of_rule with
                  | None => (map (loc_id c) nameds, true)
                  | Some r' =>
                      match eval f c (QNthOf r' nameds []) e with
                      | (EIds l, _) => (l, true)
                      | _ => ([], false)
                      end
                  end in
                if negb ok then (EFuel, e) else
                let ids' := if reverse then rev ids else ids in
                match index_of (tid t) ids' 0 with
                | None => (EFound None, e)
                | Some i =>
                    match is_matched a b (Z.of_nat i) with
                    | Some true =>
                        (* the variables of ofRule are bound on the node itself *)
                        match of_rule with
                        | None => (EFound (Some n), e)
                        | Some r' =>
                            match eval f c (QRule r' n) e with
                            | (EFound (Some _), e') => (EFound (Some n), e')
                            | other => other
                            end
                        end
                    | _ => (EFound None, e)
                    end
                end
            end
        | RInside r' stop fld =>
            let fk := match fld with Some fl => FField fl (tid t) | None => FPlain end in
            let res :=
              match stop with
              | SNeighbor => match parent_loc n with
                             | None => (EFound None, e)
                             | Some pp => eval f c (QFind r' fk None [pp]) e
                             end
              | SEnd => eval f c (QFind r' fk None (ancestors n)) e
              | SRule sr => eval f c (QFind r' fk (Some sr) (ancestors n)) e
              end in
            match res with
            | (EFound (Some m), e') =>
                (EFound (Some m), match node_at c m with Some mt => add_label e' SECONDARY mt | None => e' end)
            | other => other
            end
        | RHas r' stop fld =>
            let res :=
              match fld with
              | Some fl =>
                  match child_by_field (c_root c) n fl with
                  | None => (EFound None, e)
                  | Some nd =>
                      match stop with
                      | SNeighbor => eval f c (QRule r' nd) e
                      | SEnd => eval f c (QFind r' FPlain None (pre_locs (c_root c) nd)) e
                      | SRule sr =>
                          match eval f c (QRule r' nd) e with
                          | (EFound None, e') =>
                              match matches_fresh sr nd with
                              | None => (EFuel, e')
                              | Some true => (EFound None, e')
                              | Some false => eval f c (QHasRule r' sr (child_locs (c_root c) nd)) e'
                              end
                          | other => other
                          end
                      end
                  end
              | None =>
                  match stop with
                  | SNeighbor => eval f c (QFind r' FPlain None (child_locs (c_root c) n)) e
                  | SEnd => eval f c (QFind r' FPlain None (tl (pre_locs (c_root c) n))) e
                  | SRule sr => eval f c (QHasRule r' sr (child_locs (c_root c) n)) e
                  end
              end in
            match res with
            | (EFound (Some m), e') =>
                (EFound (Some m), match node_at c m with Some mt => add_label e' SECONDARY mt | None => e' end)
            | other => other
            end
        | RPrecedes r' stop | RFollows r' stop =>
            let fwd := match r with RPrecedes _ _ => true | _ => false end in
            let once := if fwd then next_loc (c_root c) n else prev_loc (c_root c) n in
            let multi := if fwd then next_all (c_root c) n else prev_all (c_root c) n in
            let res :=
              match stop with
              | SNeighbor => match once with
                             | None => (EFound None, e)
                             | Some m => eval f c (QFind r' FPlain None [m]) e
                             end
              | SEnd => eval f c (QFind r' FPlain None multi) e
              | SRule sr => eval f c (QFind r' FPlain (Some sr) multi) e
              end in
            match res with
            | (EFound (Some m), e') =>
                (EFound (Some m), match node_at c m with Some mt => add_label e' SECONDARY mt | None => e' end)
            | other => other
            end
        | RAll rs =>
            match eval f c (QAll rs n) e with
            | (EFound (Some _), e') => (EFound (Some n), e')
            | (EFound None, _) => (EFound None, e)          (* the copy is dropped *)
            | (o, _) => (o, e)
            end
        | RAny rs => eval f c (QAny rs n e) e
        | RNot r' =>
            match eval f c (QRule r' n) e with
            | (EFound (Some _), _) => (EFound None, e)      (* evaluated on a scratch copy-on-write view *)
            | (EFound None, _) => (EFound (Some n), e)
            | (o, _) => (o, e)
            end
        | RMatches id =>
            match lookup id (c_utils c) with
            | Some ur => eval f c (QRule ur n) e
            | None => (EFound None, e)
            end
        end
      end
    | QAll rs n =>
        match rs with
        | [] => (EFound (Some n), e)
        | r :: rest =>
            match eval f c (QRule r n) e with
            | (EFound (Some _), e') => eval f c (QAll rest n) e'
            | other => other
            end
        end
    | QAny rs n orig =>
        match rs with
        | [] => (EFound None, orig)
        | r :: rest =>
            match eval f c (QRule r n) orig with
            | (EFound (Some _), e') => (EFound (Some n), e')
            | (EFound None, _) => eval f c (QAny rest n orig) orig
            | (o, _) => (o, orig)
            end
        end
    | QFind r fk stop cands =>
        match cands with
        | [] => (EFound None, e)
        | cand :: rest =>
            (* take_while(inclusive_until(stop)) runs first, on a fresh environment *)
            let stop_here : option bool :=
              match stop with
              | None => Some false
              | Some sr => matches_fresh sr cand
              end in
            match stop_here with
            | None => (EFuel, e)
            | Some sh =>
                let '(res, fk') :=
                  match fk with
                  | FPlain => (eval f c (QRule r cand) e, FPlain)
                  | FField fl last_id =>
                      let cid := loc_id c cand in
                      match child_by_field (c_root c) cand fl with
                      | None => ((EFound None, e), FField fl cid)
                      | Some ch =>
                          if N.eqb (loc_id c ch) last_id
                          then (eval f c (QRule r cand) e, FField fl cid)
                          else ((EFound None, e), FField fl cid)
                      end
                  end in
                match res with
                | (EFound None, e') =>
                    if sh then (EFound None, e') else eval f c (QFind r fk' stop rest) e'
                | other => other
                end
            end
        end
    | QHasRule r sr cands =>
        match cands with
        | [] => (EFound None, e)
        | cand :: rest =>
            match eval f c (QRule r cand) e with
            | (EFound None, e') =>
                match matches_fresh sr cand with
                | None => (EFuel, e')
                | Some true => eval f c (QHasRule r sr rest) e'
                | Some false =>
                    match eval f c (QHasRule r sr (child_locs (c_root c) cand)) e' with
                    | (EFound None, e'') => eval f c (QHasRule r sr rest) e''
                    | other => other
                    end
                end
            | other => other
            end
        end
    | QNthOf r cands acc =>
        match cands with
        | [] => (EIds (rev acc), e)
        | cand :: rest =>
            match eval f c (QRule r cand) e with
            | (EFound (Some _), _) => eval f c (QNthOf r rest (loc_id c cand :: acc)) e   (* the sibling itself is kept *)
            | (EFound None, _) => eval f c (QNthOf r rest acc) e
            | (o, _) => (o, e)
            end
        end
    end
  end.

(* RuleCore::do_match without transforms: rule, then constraints in the given order of variables *)
Fixpoint constraints_loop (fuel : nat) (c : ctx) (cons : list (str * rule)) (vars : list (str * tree))
         (locs : list (N * loc)) (e : env) : option (bool * env) :=
  match vars with
  | [] => Some (true, e)
  | (v, t) :: rest =>
      match lookup v cons with
      | None => constraints_loop fuel c cons rest locs e
      | Some r =>
          match find (fun p => N.eqb (fst p) (tid t)) locs with
          | None => Some (false, e)
          | Some (_, l) =>
              match eval fuel c (QRule r l) e with
              | (EFound (Some _), e') => constraints_loop fuel c cons rest locs e'
              | (EFound None, _) => Some (false, e)
              | _ => None
              end
          end
      end
  end.

Definition id_locs (root : tree) : list (N * loc) :=
  map (fun l => (match get root l with Some t => tid t | None => 0%N end, l)) (pre_locs root []).

Definition eval_fuel (c : ctx) : nat := 40 * size (c_root c) + 2000.

Inductive core_res := CMatch (found : loc) (e : env) | CNoMatch | CFuel.

(* RuleCore::new caches kinds = rule.potential_kinds(); do_match rejects a node of another kind first *)
Definition core_kinds (c : ctx) (r : rule) : option (list N) := pk (eval_fuel c) (c_utils c) r.

Definition core_match (c : ctx) (r : rule) (cons : list (str * rule)) (n : loc) : core_res :=
  let fuel := eval_fuel c in
  if negb (match node_at c n with Some t => kind_in (kind t) (core_kinds c r) | None => true end) then CNoMatch else
  match eval fuel c (QRule r n) empty_env with
  | (EFound (Some m), e1) =>
      match constraints_loop fuel c cons (sort_kv (m_single e1)) (id_locs (c_root c)) e1 with
      | Some (true, e2) => CMatch m e2
      | Some (false, _) => CNoMatch
      | None => CFuel
      end
  | (EFound None, _) => CNoMatch
  | _ => CFuel
  end.
