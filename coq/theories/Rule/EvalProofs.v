(* C04 — proofs about the rule evaluator [eval]: atomicity of rejection, no trace of rejected
   candidates in relational rules, any = winner only, all = threaded union. *)
From Coq Require Import List NArith ZArith Bool Arith Lia.
From AG Require Import Base.Val Base.Sort Str.MetaVar Str.AnB Tree.Tree Tree.Wf Match.MatchNode
  Rule.Rule Rule.Eval Rule.Sem Rule.EvalSpec.
Import ListNotations.

(* ---------- the generalised invariant, per request kind ---------- *)
Definition atomic_inv (q : ereq) (e e' : env) : Prop :=
  match q with
  | QRule _ _ | QFind _ _ _ _ | QHasRule _ _ _ => e' = e
  | QAny _ _ orig => e' = orig
  | QAll _ _ | QNthOf _ _ _ => True
  end.

(* innermost scrutinee of a tower of matches *)
Ltac scrut T :=
  lazymatch T with
  | match ?X with _ => _ end => scrut X
  | _ => T
  end.

(* one case split on the head match of the left-hand side of the goal's premise *)
Ltac step :=
  lazymatch goal with
  | |- (?L = _) -> _ =>
    lazymatch L with
    | match ?X with _ => _ end =>
        let Y := scrut X in
        destruct Y eqn:?; cbn [negb]
    end
  end.
Ltac steps H := revert H; repeat step; intro H.

Ltac use_IH IH :=
  repeat match goal with
  | E : eval _ _ _ _ = (EFound None, _) |- _ => apply IH in E; cbn [atomic_inv] in E; subst
  end.

Ltac finish IH :=
  try discriminate; use_IH IH; try discriminate;
  repeat match goal with
  | E : (_, _) = (_, _) |- _ => injection E as ? ?; subst
  end;
  try reflexivity; try congruence.

Lemma eval_atomic : forall fuel c q e e',
  eval fuel c q e = (EFound None, e') -> atomic_inv q e e'.
Proof.
  induction fuel as [|f IH]; intros c q e e' H.
  - cbn [eval] in H. discriminate.
  - cbn [eval] in H. destruct q as [r n|rs n|rs n orig|r fk stop cands|r sr cands|r cands acc];
      cbn [atomic_inv]; try exact I.
    + (* QRule *) steps H; finish IH.
    + (* QAny *) steps H; finish IH.
    + (* QFind *) steps H; finish IH.
    + (* QHasRule *) steps H; finish IH.
Qed.

Lemma C04_atomic : C04_atomic_stmt.
Proof.
  intros fuel c r n e e' H. exact (eval_atomic fuel c (QRule r n) e e' H).
Qed.
Print Assumptions C04_atomic.

(* ---------- relational rules: rejected candidates leave no trace ---------- *)
Lemma C04_no_trace_find : C04_no_trace_find_stmt.
Proof.
  intros fuel c r stop cands. revert fuel.
  induction cands as [|cand rest IHc]; intros fuel e m e' H.
  - destruct fuel as [|f]; cbn [eval] in H; discriminate.
  - destruct fuel as [|f]; [cbn [eval] in H; discriminate|].
    cbn [eval] in H. steps H; try discriminate.
    all: match goal with
      | E : eval ?f _ (QRule _ _) _ = (EFound None, ?e0) |- _ =>
          pose proof (eval_atomic _ _ _ _ _ E) as Ha; cbn [atomic_inv] in Ha; subst e0;
          destruct (IHc _ _ _ _ H) as (pre & cd & post & Hc & Hpre & Hw);
          exists (cand :: pre), cd, post; split; [rewrite Hc; reflexivity|split; [|exact Hw]];
          intros x [Hx|Hx]; [subst x; exists f; exact E | apply Hpre; exact Hx]
      | E : eval ?f _ (QRule _ _) _ = (EFound (Some _), _) |- _ =>
          injection H as ? ?; subst; exists [], cand, rest;
          split; [reflexivity|split; [intros x []|exists f; exact E]]
      end.
Qed.
Print Assumptions C04_no_trace_find.

(* ---------- any: the winner only, from the original environment ---------- *)
Lemma any_winner_aux : forall rs fuel c n orig e0 m e',
  eval fuel c (QAny rs n orig) e0 = (EFound (Some m), e') ->
  m = n /\
  exists pre r post,
    rs = pre ++ r :: post /\
    (forall x, In x pre -> exists f', eval f' c (QRule x n) orig = (EFound None, orig)) /\
    exists f' m', eval f' c (QRule r n) orig = (EFound (Some m'), e').
Proof.
  induction rs as [|r rest IHr]; intros fuel c n orig e0 m e' H.
  - destruct fuel as [|f]; cbn [eval] in H; discriminate.
  - destruct fuel as [|f]; [cbn [eval] in H; discriminate|].
    cbn [eval] in H. steps H; try discriminate.
    all: match goal with
      | E : eval ?f _ (QRule _ _) _ = (EFound None, ?e1) |- _ =>
          pose proof (eval_atomic _ _ _ _ _ E) as Ha; cbn [atomic_inv] in Ha; subst e1;
          destruct (IHr _ _ _ _ _ _ _ H) as (Hm & pre & w & post & Hc & Hpre & Hw);
          split; [exact Hm|];
          exists (r :: pre), w, post; split; [rewrite Hc; reflexivity|split; [|exact Hw]];
          intros x [Hx|Hx]; [subst x; exists f; exact E | apply Hpre; exact Hx]
      | E : eval ?f _ (QRule _ _) _ = (EFound (Some ?m0), _) |- _ =>
          injection H as ? ?; subst; split; [reflexivity|]; exists [], r, rest;
          split; [reflexivity|split; [intros x []|exists f, m0; exact E]]
      end.
Qed.

Lemma C04_any_winner : C04_any_winner_stmt.
Proof.
  intros fuel c rs n e m e' H.
  destruct fuel as [|f]; [cbn [eval] in H; discriminate|].
  cbn [eval] in H. destruct (node_at c n) as [t|] eqn:En; [|discriminate].
  exact (any_winner_aux _ _ _ _ _ _ _ _ H).
Qed.
Print Assumptions C04_any_winner.

(* ---------- all: the environment is threaded through every sub-rule ---------- *)
Lemma all_union_aux : forall rs fuel c n e m e',
  eval fuel c (QAll rs n) e = (EFound (Some m), e') ->
  m = n /\ all_chain c n rs e e'.
Proof.
  induction rs as [|r rest IHr]; intros fuel c n e m e' H.
  - destruct fuel as [|f]; cbn [eval] in H; [discriminate|].
    injection H as ? ?; subst. split; [reflexivity|constructor].
  - destruct fuel as [|f]; [cbn [eval] in H; discriminate|].
    cbn [eval] in H. steps H; try discriminate.
    match goal with
    | E : eval ?f _ (QRule _ _) _ = (EFound (Some ?m0), ?e1) |- _ =>
        destruct (IHr _ _ _ _ _ _ H) as [Hm Hch]; split; [exact Hm|];
        exact (ac_cons c n r rest e e1 e' f m0 E Hch)
    end.
Qed.

Lemma C04_all_union : C04_all_union_stmt.
Proof.
  intros fuel c rs n e m e' H.
  destruct fuel as [|f]; [cbn [eval] in H; discriminate|].
  cbn [eval] in H. destruct (node_at c n) as [t|] eqn:En; [|discriminate].
  steps H; try discriminate.
  injection H as ? ?; subst.
  match goal with
  | E : eval _ _ (QAll _ _) _ = (EFound (Some _), _) |- _ =>
      destruct (all_union_aux _ _ _ _ _ _ _ E) as [_ Hch]; split; [reflexivity|exact Hch]
  end.
Qed.
Print Assumptions C04_all_union.
