(* C01 — kind dispatch is sound: statements (proved in Rule/KindsProofs.v). *)
From Coq Require Import List NArith ZArith Bool Arith.
From AG Require Import Base.Val Base.Sort Str.MetaVar Tree.Tree Match.MatchNode Rule.Rule Rule.Kinds Rule.Eval.
Import ListNotations.

(* whatever a rule matches has one of its potential kinds: for every rule, utilities, node,
   environment and both fuels *)
Definition C01_kinds_sound_stmt : Prop :=
  forall fuel fuel2 c r n e m e' t,
    eval fuel c (QRule r n) e = (EFound (Some m), e') ->
    node_at c n = Some t ->
    kind_in (kind t) (pk fuel2 (c_utils c) r) = true.

(* hence RuleCore's own kind pre-check never rejects a node the rule would match *)
Definition C01_core_kinds_stmt : Prop :=
  forall c r n m e' t,
    eval (eval_fuel c) c (QRule r n) empty_env = (EFound (Some m), e') ->
    node_at c n = Some t ->
    kind_in (kind t) (core_kinds c r) = true.
