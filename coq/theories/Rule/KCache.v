(* The construction-time cache of potential kinds (crates/core/src/ops.rs: All::new / Any::new compute
   `kinds` once, from what their sub-rules answer AT THAT MOMENT; crates/config/src/rule/referent_rule.rs:
   a `matches` reference answers lazily, from the registry as it is when asked; crates/config/src/rule/
   deserialize_env.rs with_utils: utilities are built and registered one after the other).
   [Rule/Kinds.v: pk] is the lazy reading (every reference resolved in the complete registry).  This file
   models the real, eager one and states how the two relate. *)
From Coq Require Import List NArith ZArith Bool Arith.
From AG Require Import Base.Val Base.Sort Str.MetaVar Tree.Tree Match.MatchNode Rule.Rule Rule.Kinds
  Front.Load Front.LoadSpec.
Import ListNotations.

(* what matters of a rule for its kinds *)
Inductive kexp :=
| KLeaf (o : option (list N))        (* pattern / kind: known; regex, range, relational, not: unknown *)
| KAll (l : list kexp)
| KAny (l : list kexp)
| KOf (o : option kexp)              (* nthChild: the kinds of its ofRule *)
| KRef (id : str).                   (* matches *)

Fixpoint kexp_of (r : rule) : kexp :=
  match r with
  | RPattern p => KLeaf (pk_pattern p)
  | RKind k => KLeaf (Some [k])
  | RRegex _ | RRange _ _ _ _ | RNot _ => KLeaf None
  | RInside _ _ _ | RHas _ _ _ | RPrecedes _ _ | RFollows _ _ => KLeaf None
  | RNth _ _ _ o => KOf (option_map kexp_of o)
  | RAll rs => KAll (map kexp_of rs)
  | RAny rs => KAny (map kexp_of rs)
  | RMatches id => KRef id
  end.

(* All::compute_kinds / Any::compute_kinds on the answers of the sub-rules *)
Definition all_kinds (answers : list (option (list N))) : option (list N) :=
  fold_left (fun acc o => match o with
                          | None => acc
                          | Some ks => match acc with Some a => Some (inter a ks) | None => Some ks end
                          end) answers None.
Definition any_kinds (answers : list (option (list N))) : option (list N) :=
  fold_left (fun acc o => match acc, o with Some a, Some ks => Some (union a ks) | _, _ => None end) answers (Some []).

(* ---- the lazy reading: every reference resolved in the complete set of utilities ---- *)
Fixpoint klazy (fuel : nat) (env : list (str * kexp)) (e : kexp) {struct fuel} : option (list N) :=
  match fuel with
  | O => None
  | S f =>
      match e with
      | KLeaf o => o
      | KAll l => all_kinds (map (klazy f env) l)
      | KAny l => any_kinds (map (klazy f env) l)
      | KOf None => None
      | KOf (Some e') => klazy f env e'
      | KRef id => match lookup id env with Some e' => klazy f env e' | None => None end
      end
  end.

(* ---- the eager reading ---- *)
Inductive bexp :=
| BLeaf (o : option (list N))
| BAll (cache : option (list N))
| BAny (cache : option (list N))
| BOf (o : option bexp)
| BRef (id : str).

(* potential_kinds of a built rule, asked while the registry is [reg] *)
Fixpoint ask (fuel : nat) (reg : list (str * bexp)) (b : bexp) {struct fuel} : option (list N) :=
  match fuel with
  | O => None
  | S f =>
      match b with
      | BLeaf o => o
      | BAll c | BAny c => c
      | BOf None => None
      | BOf (Some b') => ask f reg b'
      | BRef id => match lookup id reg with Some b' => ask f reg b' | None => None end
      end
  end.

(* deserialize_rule while the registry is [reg]: sub-rules first, then the cache of the composite *)
Fixpoint build (fuel : nat) (reg : list (str * bexp)) (e : kexp) {struct e} : bexp :=
  match e with
  | KLeaf o => BLeaf o
  | KAll l => BAll (all_kinds (map (fun x => ask fuel reg (build fuel reg x)) l))
  | KAny l => BAny (any_kinds (map (fun x => ask fuel reg (build fuel reg x)) l))
  | KOf o => BOf (option_map (build fuel reg) o)
  | KRef id => BRef id
  end.

(* with_utils: build and register in the given order *)
Definition register (fuel : nat) (env : list (str * kexp)) (order : list str) : list (str * bexp) :=
  fold_left (fun reg id => match lookup id env with
                           | Some e => reg ++ [(id, build fuel reg e)]
                           | None => reg
                           end) order [].

(* the main rule is built after all utilities *)
Definition eager (fuel : nat) (env : list (str * kexp)) (order : list str) (e : kexp) : option (list N) :=
  let reg := register fuel env order in ask fuel reg (build fuel reg e).

(* ---- statements ---- *)
(* a at least as wide as b: unknown, or a superset *)
Definition wider (a b : option (list N)) : Prop :=
  match a, b with
  | None, _ => True
  | Some la, Some lb => incl lb la
  | Some _, None => False
  end.
Definition same_kinds (a b : option (list N)) : Prop :=
  match a, b with
  | None, None => True
  | Some la, Some lb => incl la lb /\ incl lb la
  | _, _ => False
  end.

Definition kenv (utils : list (str * rule)) : list (str * kexp) := map (fun p => (fst p, kexp_of (snd p))) utils.

(* the model of Rule/Kinds.v is the lazy reading *)
Definition C01_pk_is_lazy_stmt : Prop :=
  forall fuel utils r, pk fuel utils r = klazy fuel (kenv utils) (kexp_of r).

(* in WHATEVER order the utilities are registered, a cache is never narrower than the lazy answer: a reference
   that is not registered yet answers "unknown", which `all` skips and `any` propagates.  (Acyclic same-node
   references — what the loader accepts — and enough fuel.) *)
Definition C13_cache_wider_stmt : Prop :=
  forall utils uord order r,
    NoDup (map fst utils) ->
    get_order (util_depmap utils) = OrderOk uord ->
    NoDup order -> (forall id, In id order <-> In id (map fst utils)) ->
    exists n, forall f1 f2, n <= f1 -> n <= f2 ->
      wider (eager f1 (kenv utils) order (kexp_of r)) (klazy f2 (kenv utils) (kexp_of r)).

(* in the order the loader uses — every utility after the utilities it requires on the same node — the caches
   are exactly the lazy answers: the dispatch tables do not depend on which topological order the hash map
   happened to produce *)
Definition C13_cache_exact_stmt : Prop :=
  forall utils uord r,
    NoDup (map fst utils) ->
    get_order (util_depmap utils) = OrderOk uord ->
    exists n, forall f1 f2, n <= f1 -> n <= f2 ->
      same_kinds (eager f1 (kenv utils) uord (kexp_of r)) (klazy f2 (kenv utils) (kexp_of r)).
