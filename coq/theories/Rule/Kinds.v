(* Model of Matcher::potential_kinds for rules (crates/config/src/rule/mod.rs, crates/core/src/ops.rs,
   crates/core/src/matcher/pattern.rs): the node-kind dispatch used by find_all, RuleCore::do_match
   and CombinedScan.  Recomputed from the rule (the construction-time caching of All/Any is not
   modelled: a stale lookup of a not-yet-registered utility can only yield None = "any kind"). *)
From Coq Require Import List NArith ZArith Bool Arith.
From AG Require Import Base.Val Base.Sort Str.MetaVar Tree.Tree Match.MatchNode Rule.Rule.
Import ListNotations.

Definition inter (a b : list N) : list N := filter (fun x => existsb (N.eqb x) b) a.
Definition union (a b : list N) : list N := a ++ filter (fun x => negb (existsb (N.eqb x) a)) b.

Definition pk_pattern (p : pattern) : option (list N) :=
  match p_node p with
  | PTerm _ _ k => if is_error_kind k then None else Some [k]
  | PMeta _ => option_map (fun k => [k]) (p_root_kind p)
  | PInt k _ => if is_error_kind k then None else Some [k]
  end.

Fixpoint pk (fuel : nat) (utils : list (str * rule)) (r : rule) {struct fuel} : option (list N) :=
  match fuel with
  | O => None
  | S f =>
      match r with
      | RPattern p => pk_pattern p
      | RKind k => Some [k]
      | RRegex _ => None
      | RRange _ _ _ _ => None
      | RNth _ _ _ o => match o with Some r' => pk f utils r' | None => None end
      | RInside _ _ _ | RHas _ _ _ | RPrecedes _ _ | RFollows _ _ => None
      | RNot _ => None
      | RAll rs =>
          (* All::compute_kinds: intersection of the known sets, unknown sets are skipped *)
          fold_left (fun (acc : option (list N)) (x : rule) =>
                       match pk f utils x with
                       | None => acc
                       | Some ks => match acc with Some a => Some (inter a ks) | None => Some ks end
                       end) rs None
      | RAny rs =>
          (* Any::compute_kinds: union, unknown if any alternative is unknown *)
          fold_left (fun (acc : option (list N)) (x : rule) =>
                       match acc, pk f utils x with
                       | Some a, Some ks => Some (union a ks)
                       | _, _ => None
                       end) rs (Some [])
      | RMatches id =>
          match lookup id utils with
          | Some ur => pk f utils ur
          | None => None
          end
      end
  end.

Definition kind_in (k : N) (ks : option (list N)) : bool :=
  match ks with None => true | Some l => existsb (N.eqb k) l end.
