(* C05 / C19 — the rule evaluator decides the reference semantics on closed rules.

   - C05_eval_iff_sem_closed : C05_eval_iff_sem_closed_stmt   (the stated theorem: ALL 13 operators,
     any nesting, any utilities, every node, every start environment)
   - C19_next_all : C19_next_all_stmt                          (proof in Rule/SemNav.v, restated at the end)
   - C05_ofrule_relational_example : nthChild with a relational ofRule on a concrete tree.
   Proof: one induction on the evaluator's fuel over all six request kinds ([spec]), the
   reference's fuel universally quantified; closed patterns never touch the environment
   (Rule/SemClosed.v); sibling/field/id navigation facts in Rule/SemNav.v. *)
From Coq Require Import List NArith ZArith Bool Arith Lia.
From AG Require Import Base.Val Base.Sort Str.MetaVar Str.AnB Tree.Tree Tree.Wf Match.MatchNode
  Rule.Rule Rule.Eval Rule.Sem Rule.EvalSpec Rule.SemNav Rule.SemClosed.
Import ListNotations.

(* ================================================================== a concrete example *)

Definition wit_info (id k s e : N) : ninfo :=
  {| nid := id; nkind := k; nnamed := true; ncomment := false; nmissing := false; nfld := 0; ns := s; ne := e |}.
Definition wit_root : tree := T (wit_info 0 7 0 1) [T (wit_info 1 8 0 1) []].
Definition wit_ctx : ctx := {| c_src := [120%N]; c_root := wit_root; c_utils := [] |}.

(* nthChild with a relational ofRule: evaluator and reference agree (QNthOf keeps the sibling) *)
Lemma C05_ofrule_relational_example :
  fst (eval 5 wit_ctx (QRule (RNth 0 1 false (Some (RInside (RKind 7) SNeighbor None))) [0]) empty_env)
    = EFound (Some [0]) /\
  sem 5 wit_ctx (RNth 0 1 false (Some (RInside (RKind 7) SNeighbor None))) [0] = Some true.
Proof. split; reflexivity. Qed.

(* ================================================================== inheritance of the hypotheses *)

Definition goodr (c : ctx) (r : rule) : Prop :=
  rule_closed r = true /\
  (forall f, In f (rule_fields r) -> field_uniqueb f (c_root c) = true).

Ltac gsplit :=
  unfold goodr in *; cbn [rule_closed rule_fields] in *;
  repeat match goal with
         | H : _ /\ _ |- _ => destruct H
         | H : _ && _ = true |- _ => apply andb_true_iff in H
         end.

Ltac good_tac :=
  (split; [assumption |
     let f := fresh "f" in let Hf := fresh "Hf" in
     intros f Hf; match goal with HF : forall f, In f _ -> _ |- _ => apply HF end;
     rewrite ?in_app_iff; cbn [In]; tauto ]).

Lemma goodr_rel : forall c r' s fld,
  goodr c (RInside r' s fld) \/ goodr c (RHas r' s fld) ->
  goodr c r' /\ (forall sr, s = SRule sr -> goodr c sr) /\
  (forall fl, fld = Some fl -> field_uniqueb fl (c_root c) = true).
Proof.
  intros c r' s fld [H|H]; gsplit; (split; [good_tac | split]).
  - intros sr Hs. subst s. good_tac.
  - intros fl Hs. subst fld. match goal with HF : forall f, In f _ -> _ |- _ => apply HF end. now left.
  - intros sr Hs. subst s. good_tac.
  - intros fl Hs. subst fld. match goal with HF : forall f, In f _ -> _ |- _ => apply HF end. now left.
Qed.

Lemma goodr_sib : forall c r' s,
  goodr c (RPrecedes r' s) \/ goodr c (RFollows r' s) ->
  goodr c r' /\ (forall sr, s = SRule sr -> goodr c sr).
Proof.
  intros c r' s [H|H]; gsplit; (split; [good_tac | ]).
  - intros sr Hs. subst s. good_tac.
  - intros sr Hs. subst s. good_tac.
Qed.

Lemma goodr_not : forall c r', goodr c (RNot r') -> goodr c r'.
Proof. intros c r' H. gsplit. repeat split; assumption. Qed.

Lemma goodr_nth : forall c a b rv r', goodr c (RNth a b rv (Some r')) -> goodr c r'.
Proof. intros c a b rv r' H. gsplit. repeat split; assumption. Qed.

Lemma goodr_list : forall c rs, goodr c (RAll rs) \/ goodr c (RAny rs) -> Forall (goodr c) rs.
Proof.
  intros c rs H.
  assert (G : (fix go (l : list rule) := match l with [] => true | x :: t => rule_closed x && go t end) rs = true /\
              (forall f, In f ((fix go (l : list rule) := match l with [] => [] | x :: t => rule_fields x ++ go t end) rs) ->
                         field_uniqueb f (c_root c) = true)).
  { destruct H as [H|H]; gsplit; repeat split; assumption. }
  clear H. induction rs as [|x rs IH]; [constructor|].
  destruct G as (G1 & G4).
  apply andb_true_iff in G1 as [G1 G1']. constructor.
  - repeat split; try assumption. intros f Hf. apply G4. apply in_or_app. now left.
  - apply IH. repeat split; try assumption. intros f Hf. apply G4. apply in_or_app. now right.
Qed.

Lemma lookup_In : forall A (k : str) (l : list (str * A)) v, lookup k l = Some v -> exists k', In (k', v) l.
Proof.
  induction l as [|[k' v'] l IH]; intros v H; [discriminate|].
  cbn [lookup] in H. destruct (str_eqb k k').
  - injection H as <-. exists k'. now left.
  - destruct (IH _ H) as [k'' Hk]. exists k''. now right.
Qed.

Definition goodc (c : ctx) : Prop := forall id ur, lookup id (c_utils c) = Some ur -> goodr c ur.

Lemma goodc_intro : forall c r,
  ctx_closed c = true -> doc_ok c r -> goodc c.
Proof.
  intros c r H1 (_ & _ & _ & H4) id ur Hl.
  destruct (lookup_In _ _ _ _ Hl) as [k Hk].
  unfold ctx_closed in *. rewrite forallb_forall in H1.
  split.
  - exact (H1 _ Hk).
  - intros f Hf. apply H4. apply in_or_app. right. apply in_flat_map. exists (k, ur). split; assumption.
Qed.

(* ================================================================== unfolding equations *)

Definition matches_fresh (f : nat) (c : ctx) (r : rule) (n : loc) : option bool :=
  match eval f c (QRule r n) empty_env with
  | (EFound o, _) => Some (is_some o)
  | _ => None
  end.

Definition relabel (c : ctx) (res : eres * env) : eres * env :=
  match res with
  | (EFound (Some m), e') =>
      (EFound (Some m), match node_at c m with Some mt => add_label e' SECONDARY mt | None => e' end)
  | other => other
  end.

Lemma fst_relabel : forall c res, fst (relabel c res) = fst res.
Proof. intros c [[[m|]|l|] e]; reflexivity. Qed.

Lemma eval_none : forall f c r n e, node_at c n = None -> eval (S f) c (QRule r n) e = (EFound None, e).
Proof. intros f c r n e H. cbn [eval]. rewrite H. reflexivity. Qed.

Lemma eval_inside : forall f c r' stop fld n t e, node_at c n = Some t ->
  eval (S f) c (QRule (RInside r' stop fld) n) e =
  relabel c
    (let fk := match fld with Some fl => FField fl (tid t) | None => FPlain end in
     match stop with
     | SNeighbor => match parent_loc n with
                    | None => (EFound None, e)
                    | Some pp => eval f c (QFind r' fk None [pp]) e
                    end
     | SEnd => eval f c (QFind r' fk None (ancestors n)) e
     | SRule sr => eval f c (QFind r' fk (Some sr) (ancestors n)) e
     end).
Proof. intros f c r' stop fld n t e H. cbn [eval]. rewrite H. reflexivity. Qed.

Lemma eval_has : forall f c r' stop fld n t e, node_at c n = Some t ->
  eval (S f) c (QRule (RHas r' stop fld) n) e =
  relabel c
    (match fld with
     | Some fl =>
         match child_by_field (c_root c) n fl with
         | None => (EFound None, e)
         | Some nd =>
             match stop with
             | SNeighbor => eval f c (QRule r' nd) e
             | SEnd => eval f c (QFind r' FPlain None (pre_locs (c_root c) nd)) e
             | SRule sr =>
                 match eval f c (QRule r' nd) e with
                 | (EFound None, e') =>
                     match matches_fresh f c sr nd with
                     | None => (EFuel, e')
                     | Some true => (EFound None, e')
                     | Some false => eval f c (QHasRule r' sr (child_locs (c_root c) nd)) e'
                     end
                 | other => other
                 end
             end
         end
     | None =>
         match stop with
         | SNeighbor => eval f c (QFind r' FPlain None (child_locs (c_root c) n)) e
         | SEnd => eval f c (QFind r' FPlain None (tl (pre_locs (c_root c) n))) e
         | SRule sr => eval f c (QHasRule r' sr (child_locs (c_root c) n)) e
         end
     end).
Proof. intros f c r' stop fld n t e H. cbn [eval]. rewrite H. reflexivity. Qed.

Lemma eval_precedes : forall f c r' stop n t e, node_at c n = Some t ->
  eval (S f) c (QRule (RPrecedes r' stop) n) e =
  relabel c
    (match stop with
     | SNeighbor => match next_loc (c_root c) n with
                    | None => (EFound None, e)
                    | Some m => eval f c (QFind r' FPlain None [m]) e
                    end
     | SEnd => eval f c (QFind r' FPlain None (next_all (c_root c) n)) e
     | SRule sr => eval f c (QFind r' FPlain (Some sr) (next_all (c_root c) n)) e
     end).
Proof. intros f c r' stop n t e H. cbn [eval]. rewrite H. reflexivity. Qed.

Lemma eval_follows : forall f c r' stop n t e, node_at c n = Some t ->
  eval (S f) c (QRule (RFollows r' stop) n) e =
  relabel c
    (match stop with
     | SNeighbor => match prev_loc (c_root c) n with
                    | None => (EFound None, e)
                    | Some m => eval f c (QFind r' FPlain None [m]) e
                    end
     | SEnd => eval f c (QFind r' FPlain None (prev_all (c_root c) n)) e
     | SRule sr => eval f c (QFind r' FPlain (Some sr) (prev_all (c_root c) n)) e
     end).
Proof. intros f c r' stop n t e H. cbn [eval]. rewrite H. reflexivity. Qed.

Lemma eval_nth_none : forall f c a b rv n t e, node_at c n = Some t ->
  eval (S f) c (QRule (RNth a b rv None) n) e =
  match parent_loc n with
  | None => (EFound None, e)
  | Some pp =>
      let ids := map (loc_id c) (named_child_locs c pp) in
      match index_of (tid t) (if rv then rev ids else ids) 0 with
      | None => (EFound None, e)
      | Some i => match is_matched a b (Z.of_nat i) with
                  | Some true => (EFound (Some n), e)
                  | _ => (EFound None, e)
                  end
      end
  end.
Proof.
  intros f c a b rv n t e H. cbn [eval]. rewrite H. destruct (parent_loc n); reflexivity.
Qed.

Lemma eval_nth_some : forall f c a b rv r' n t e, node_at c n = Some t ->
  eval (S f) c (QRule (RNth a b rv (Some r')) n) e =
  match parent_loc n with
  | None => (EFound None, e)
  | Some pp =>
      match eval f c (QNthOf r' (named_child_locs c pp) []) e with
      | (EIds ids, _) =>
          match index_of (tid t) (if rv then rev ids else ids) 0 with
          | None => (EFound None, e)
          | Some i => match is_matched a b (Z.of_nat i) with
                      | Some true =>
                          match eval f c (QRule r' n) e with
                          | (EFound (Some _), e') => (EFound (Some n), e')
                          | other => other
                          end
                      | _ => (EFound None, e)
                      end
          end
      | _ => (EFuel, e)
      end
  end.
Proof.
  intros f c a b rv r' n t e H. cbn [eval]. rewrite H. destruct (parent_loc n) as [pp|]; [|reflexivity].
  destruct (eval f c (QNthOf r' (named_child_locs c pp) []) e) as [[o|l|] e1]; reflexivity.
Qed.

Lemma eval_all : forall f c rs n t e, node_at c n = Some t ->
  eval (S f) c (QRule (RAll rs) n) e =
  match eval f c (QAll rs n) e with
  | (EFound (Some _), e') => (EFound (Some n), e')
  | (EFound None, _) => (EFound None, e)
  | (o, _) => (o, e)
  end.
Proof. intros f c rs n t e H. cbn [eval]. rewrite H. reflexivity. Qed.

Lemma eval_any : forall f c rs n t e, node_at c n = Some t ->
  eval (S f) c (QRule (RAny rs) n) e = eval f c (QAny rs n e) e.
Proof. intros f c rs n t e H. cbn [eval]. rewrite H. reflexivity. Qed.

Lemma eval_not : forall f c r' n t e, node_at c n = Some t ->
  eval (S f) c (QRule (RNot r') n) e =
  match eval f c (QRule r' n) e with
  | (EFound (Some _), _) => (EFound None, e)
  | (EFound None, _) => (EFound (Some n), e)
  | (o, _) => (o, e)
  end.
Proof. intros f c r' n t e H. cbn [eval]. rewrite H. reflexivity. Qed.

Lemma eval_matches : forall f c id n t e, node_at c n = Some t ->
  eval (S f) c (QRule (RMatches id) n) e =
  match lookup id (c_utils c) with
  | Some ur => eval f c (QRule ur n) e
  | None => (EFound None, e)
  end.
Proof. intros f c id n t e H. cbn [eval]. rewrite H. reflexivity. Qed.

Lemma eval_find_cons : forall f c r fk stop cand rest e,
  eval (S f) c (QFind r fk stop (cand :: rest)) e =
  match (match stop with None => Some false | Some sr => matches_fresh f c sr cand end) with
  | None => (EFuel, e)
  | Some sh =>
      let '(res, fk') :=
        match fk with
        | FPlain => (eval f c (QRule r cand) e, FPlain)
        | FField fl last_id =>
            let cid := loc_id c cand in
            match child_by_field (c_root c) cand fl with
            | None => ((EFound None, e), FField fl cid)
            | Some ch =>
                if N.eqb (loc_id c ch) last_id
                then (eval f c (QRule r cand) e, FField fl cid)
                else ((EFound None, e), FField fl cid)
            end
        end in
      match res with
      | (EFound None, e') => if sh then (EFound None, e') else eval f c (QFind r fk' stop rest) e'
      | other => other
      end
  end.
Proof. intros. reflexivity. Qed.

Lemma eval_hasrule_cons : forall f c r sr cand rest e,
  eval (S f) c (QHasRule r sr (cand :: rest)) e =
  match eval f c (QRule r cand) e with
  | (EFound None, e') =>
      match matches_fresh f c sr cand with
      | None => (EFuel, e')
      | Some true => eval f c (QHasRule r sr rest) e'
      | Some false =>
          match eval f c (QHasRule r sr (child_locs (c_root c) cand)) e' with
          | (EFound None, e'') => eval f c (QHasRule r sr rest) e''
          | other => other
          end
      end
  | other => other
  end.
Proof. intros. reflexivity. Qed.

Lemma eval_nthof_cons : forall f c r cand rest acc e,
  eval (S f) c (QNthOf r (cand :: rest) acc) e =
  match eval f c (QRule r cand) e with
  | (EFound (Some _), _) => eval f c (QNthOf r rest (loc_id c cand :: acc)) e
  | (EFound None, _) => eval f c (QNthOf r rest acc) e
  | (o, _) => (o, e)
  end.
Proof. intros. reflexivity. Qed.

(* ---- sem ---- *)

Definition window (f : nat) (c : ctx) (stop : stopby) (ordered : list loc) : option (list loc) :=
  match stop with
  | SNeighbor => Some (firstn 1 ordered)
  | SEnd => Some ordered
  | SRule sr => until_incl (fun x => sem f c sr x) ordered
  end.

Definition fsem (f : nat) (c : ctx) (r' : rule) (fld : option N) (n : loc) : loc -> option bool :=
  fun a => match fld with
           | Some fl => if path_child_has_field (c_root c) a n fl then sem f c r' a else Some false
           | None => sem f c r' a
           end.

Definition descend (f : nat) (c : ctx) (r' sr : rule) : nat -> list loc -> option bool :=
  fix descend (k : nat) (l : list loc) {struct k} : option bool :=
    match k with
    | O => None
    | S k' =>
        any3 (map (fun x =>
                match sem f c r' x with
                | Some false =>
                    match sem f c sr x with
                    | Some true => Some false
                    | Some false => descend k' (child_locs (c_root c) x)
                    | None => None
                    end
                | o => o
                end) l)
    end.

Definition has_starts (c : ctx) (n : loc) (fld : option N) : list loc :=
  match fld with
  | None => child_locs (c_root c) n
  | Some fl => filter (fun ch => match get (c_root c) ch with
                                 | Some cht => N.eqb (nfld (info cht)) fl
                                 | None => false end) (child_locs (c_root c) n)
  end.

Lemma sem_none : forall f c r n, node_at c n = None -> sem (S f) c r n = Some false.
Proof. intros f c r n H. cbn [sem]. rewrite H. reflexivity. Qed.

Lemma sem_inside : forall f c r' stop fld n t, node_at c n = Some t ->
  sem (S f) c (RInside r' stop fld) n =
  match window f c stop (ancestors n) with
  | None => None
  | Some w => any3 (map (fsem f c r' fld n) w)
  end.
Proof. intros f c r' stop fld n t H. cbn [sem]. rewrite H. reflexivity. Qed.

Lemma sem_has : forall f c r' stop fld n t, node_at c n = Some t ->
  sem (S f) c (RHas r' stop fld) n =
  match stop with
  | SNeighbor => any3 (map (sem f c r') (has_starts c n fld))
  | SEnd => any3 (map (sem f c r') (flat_map (pre_locs (c_root c)) (has_starts c n fld)))
  | SRule sr => descend f c r' sr (S (size t)) (has_starts c n fld)
  end.
Proof. intros f c r' stop fld n t H. cbn [sem]. rewrite H. reflexivity. Qed.

Lemma sem_precedes : forall f c r' stop n t, node_at c n = Some t ->
  sem (S f) c (RPrecedes r' stop) n =
  match window f c stop (later_siblings (c_root c) n) with
  | None => None
  | Some w => any3 (map (sem f c r') w)
  end.
Proof. intros f c r' stop n t H. cbn [sem]. rewrite H. reflexivity. Qed.

Lemma sem_follows : forall f c r' stop n t, node_at c n = Some t ->
  sem (S f) c (RFollows r' stop) n =
  match window f c stop (earlier_siblings (c_root c) n) with
  | None => None
  | Some w => any3 (map (sem f c r') w)
  end.
Proof. intros f c r' stop n t H. cbn [sem]. rewrite H. reflexivity. Qed.

Definition nth_formula (a b : Z) (i : nat) : bool :=
  let idx := (Z.of_nat i + 1)%Z in
  if Z.eqb a 0 then Z.eqb idx b
  else let d := (idx - b)%Z in Z.eqb (Z.rem d a) 0 && Z.leb 0 (Z.quot d a).

Definition defd (o : option bool) : option bool := match o with None => None | Some _ => Some true end.
Definition is_true (o : option bool) : bool := match o with Some true => true | _ => false end.

Lemma sem_nth : forall f c a b rv of_rule n t, node_at c n = Some t ->
  sem (S f) c (RNth a b rv of_rule) n =
  match parent_loc n with
  | None => Some false
  | Some pp =>
      let nameds := named_child_locs c pp in
      let flags := match of_rule with
                   | None => map (fun _ => Some true) nameds
                   | Some r' => map (fun x => sem f c r' x) nameds
                   end in
      match all3 (map defd flags) with
      | None => None
      | _ =>
          let kept := map fst (filter (fun p => is_true (snd p)) (combine nameds flags)) in
          let kept' := if rv then rev kept else kept in
          match index_of (tid t) (map (loc_id c) kept') 0 with
          | None => Some false
          | Some i => Some (nth_formula a b i)
          end
      end
  end.
Proof. intros f c a b rv of_rule n t H. cbn [sem]. rewrite H. reflexivity. Qed.

Lemma sem_all : forall f c rs n t, node_at c n = Some t ->
  sem (S f) c (RAll rs) n = all3 (map (fun r' => sem f c r' n) rs).
Proof. intros f c rs n t H. cbn [sem]. rewrite H. reflexivity. Qed.

Lemma sem_any : forall f c rs n t, node_at c n = Some t ->
  sem (S f) c (RAny rs) n = any3 (map (fun r' => sem f c r' n) rs).
Proof. intros f c rs n t H. cbn [sem]. rewrite H. reflexivity. Qed.

Lemma sem_not : forall f c r' n t, node_at c n = Some t ->
  sem (S f) c (RNot r') n = not3 (sem f c r' n).
Proof. intros f c r' n t H. cbn [sem]. rewrite H. reflexivity. Qed.

Lemma sem_matches : forall f c id n t, node_at c n = Some t ->
  sem (S f) c (RMatches id) n =
  match lookup id (c_utils c) with Some ur => sem f c ur n | None => Some false end.
Proof. intros f c id n t H. cbn [sem]. rewrite H. reflexivity. Qed.

(* the two case distinctions of one QFind step, named *)
Definition stop_here (f : nat) (c : ctx) (stop : option rule) (cand : loc) : option bool :=
  match stop with None => Some false | Some sr => matches_fresh f c sr cand end.

Definition find_step (f : nat) (c : ctx) (r : rule) (fk : finder) (cand : loc) (e : env)
  : (eres * env) * finder :=
  match fk with
  | FPlain => (eval f c (QRule r cand) e, FPlain)
  | FField fl last_id =>
      let cid := loc_id c cand in
      match child_by_field (c_root c) cand fl with
      | None => ((EFound None, e), FField fl cid)
      | Some ch =>
          if N.eqb (loc_id c ch) last_id
          then (eval f c (QRule r cand) e, FField fl cid)
          else ((EFound None, e), FField fl cid)
      end
  end.

Lemma eval_find_cons' : forall f c r fk stop cand rest e,
  eval (S f) c (QFind r fk stop (cand :: rest)) e =
  match stop_here f c stop cand with
  | None => (EFuel, e)
  | Some sh =>
      let '(res, fk') := find_step f c r fk cand e in
      match res with
      | (EFound None, e') => if sh then (EFound None, e') else eval f c (QFind r fk' stop rest) e'
      | other => other
      end
  end.
Proof. intros. reflexivity. Qed.

Definition hstep (f : nat) (c : ctx) (r' sr : rule) (k : nat) (x : loc) : option bool :=
  match sem f c r' x with
  | Some false =>
      match sem f c sr x with
      | Some true => Some false
      | Some false => descend f c r' sr k (child_locs (c_root c) x)
      | None => None
      end
  | o => o
  end.

Lemma descend_S : forall f c r' sr k l,
  descend f c r' sr (S k) l = any3 (map (hstep f c r' sr k) l).
Proof. intros. reflexivity. Qed.

(* ================================================================== small facts *)

Lemma any3_single : forall o, any3 [o] = o.
Proof. intros [[|]|]; reflexivity. Qed.

Lemma until_incl_false : forall l, until_incl (fun _ => Some false) l = Some l.
Proof. induction l as [|x l IH]; cbn; [reflexivity | now rewrite IH]. Qed.

Lemma combine_filter : forall A B (tst : B -> bool) (g : A -> B) l,
  map fst (filter (fun p => tst (snd p)) (combine l (map g l))) = filter (fun x => tst (g x)) l.
Proof.
  induction l as [|a l IH]; [reflexivity|]. cbn [map combine filter snd].
  destruct (tst (g a)); cbn [map fst]; now rewrite IH.
Qed.

Lemma filter_true : forall A (l : list A), filter (fun _ => true) l = l.
Proof. induction l as [|a l IH]; cbn; [reflexivity | now rewrite IH]. Qed.

Lemma filter_length : forall A (p : A -> bool) l, length (filter p l) <= length l.
Proof. induction l as [|a l IH]; cbn; [lia|]. destruct (p a); cbn; lia. Qed.

Lemma all3_defd : forall A (g : A -> option bool) l,
  all3 (map defd (map g l)) <> None -> forall x, In x l -> g x <> None.
Proof.
  induction l as [|a l IH]; intros H x Hx; [contradiction|].
  cbn [map all3] in H. destruct (g a) as [v|] eqn:E; cbn [defd] in H; [|congruence].
  destruct Hx as [<-|Hx]; [congruence | now apply IH].
Qed.

Lemma index_of_some : forall x l k i, index_of x l k = Some i -> In x l /\ i < k + length l.
Proof.
  induction l as [|y l IH]; intros k i H; [discriminate|].
  cbn [index_of] in H. destruct (N.eqb x y) eqn:E.
  - injection H as <-. apply N.eqb_eq in E. split; [now left | cbn; lia].
  - destruct (IH _ _ H) as [H1 H2]. split; [now right | cbn; lia].
Qed.

Lemma is_matched_formula : forall a b i,
  is_matched a b (Z.of_nat i) = Some (nth_formula a b i).
Proof.
  intros a b i. unfold is_matched, nth_formula. cbn zeta.
  destruct (a =? 0)%Z; [reflexivity|]. f_equal. apply andb_comm.
Qed.

Lemma named_child_in : forall c pp x, In x (named_child_locs c pp) ->
  exists j par tx, x = pp ++ [j] /\ get (c_root c) pp = Some par /\
                   nth_error (children par) j = Some tx /\ node_at c x = Some tx.
Proof.
  intros c pp x H. unfold named_child_locs in H. apply filter_In in H as [H Hx].
  unfold child_locs in H. destruct (get (c_root c) pp) as [par|] eqn:Hp; [|contradiction].
  apply in_map_iff in H as (j & <- & _).
  destruct (node_at c (pp ++ [j])) as [tx|] eqn:E; [|discriminate].
  exists j, par, tx. pose proof E as E'. unfold node_at in E. rewrite get_snoc, Hp in E.
  repeat split; assumption.
Qed.

Lemma named_child_length : forall c pp, length (named_child_locs c pp) < size (c_root c).
Proof.
  intros c pp. unfold named_child_locs.
  pose proof (filter_length _ (fun q => match node_at c q with Some t => named t | None => false end)
                (child_locs (c_root c) pp)).
  pose proof (child_locs_length (c_root c) pp). lia.
Qed.

Lemma ancestors_firstn1 : forall n pp, parent_loc n = Some pp -> firstn 1 (ancestors n) = [pp].
Proof.
  intros n pp H. pose proof (parent_loc_inv _ _ H) as E. rewrite E. unfold ancestors.
  rewrite app_length. cbn [length]. rewrite Nat.add_1_r. cbn [ancestors_aux].
  rewrite firstn_length_app. reflexivity.
Qed.

Lemma next_loc_later : forall root n t, get root n = Some t ->
  (match next_loc root n with None => [] | Some m => [m] end) = firstn 1 (later_siblings root n).
Proof.
  intros root n t Hn. unfold next_loc, later_siblings.
  destruct (parent_loc n) as [pp|] eqn:Hpp; [|reflexivity].
  pose proof (parent_loc_inv _ _ Hpp) as En. set (k := last n 0) in *.
  rewrite En, get_snoc in Hn. destruct (get root pp) as [par|] eqn:Hp; [|discriminate].
  rewrite get_snoc, Hp. destruct (nth_error (children par) (S k)) as [x|] eqn:E.
  - assert (Hl : S k < length (children par)) by (apply nth_error_Some; congruence).
    destruct (length (children par) - S k) as [|m] eqn:Em; [lia|]. reflexivity.
  - apply nth_error_None in E.
    replace (length (children par) - S k) with 0 by lia. reflexivity.
Qed.

Lemma prev_loc_earlier : forall root n,
  (match prev_loc root n with None => [] | Some m => [m] end) = firstn 1 (earlier_siblings root n).
Proof.
  intros root n. unfold prev_loc, earlier_siblings.
  destruct (parent_loc n) as [pp|]; [|reflexivity].
  destruct (last n 0) as [|j]; [reflexivity|].
  rewrite seq_S, rev_unit. reflexivity.
Qed.

(* the chain of ancestors a field-restricted `inside` walks *)
Fixpoint fchain (n last : loc) (cands : list loc) : Prop :=
  match cands with
  | [] => True
  | a :: rest => a = firstn (length a) n /\ length a < length n /\
                 last = firstn (S (length a)) n /\ fchain n a rest
  end.

Lemma fchain_aux : forall n k, k <= length n -> fchain n (firstn k n) (ancestors_aux n k).
Proof.
  intros n k. induction k as [|k IH]; intros Hk; [exact I|].
  cbn [ancestors_aux fchain]. rewrite firstn_length_le by lia.
  repeat split; try lia. apply IH. lia.
Qed.

Lemma fchain_ancestors : forall n, fchain n n (ancestors n).
Proof.
  intros n. unfold ancestors. pose proof (fchain_aux n (length n) (le_n _)) as H.
  now rewrite firstn_all in H.
Qed.

Lemma fchain_parent : forall n pp, parent_loc n = Some pp -> fchain n n [pp].
Proof.
  intros n pp H. pose proof (parent_loc_inv _ _ H) as E. set (k := last n 0) in *.
  cbn [fchain]. rewrite E. rewrite firstn_length_app.
  rewrite app_length. cbn [length]. repeat split; try lia.
  rewrite firstn_all2; [reflexivity | rewrite app_length; cbn; lia].
Qed.

(* ================================================================== the main induction *)

Section Main.
Variable c : ctx.
Hypothesis Hwf : wfb (c_root c) = true.
Hypothesis Hnz : nonzero_widthb (c_root c) = true.
Hypothesis Hids : ids_unique (c_root c).
Hypothesis Hutils : goodc c.

Definition ok_res (r0 : eres) (S : nat -> option bool) : Prop :=
  match r0 with
  | EFound res => forall f2 b, S f2 = Some b -> b = is_some res
  | EFuel => True
  | EIds _ => False
  end.

Lemma ok_res_ext : forall r0 (S1 S2 : nat -> option bool),
  (forall f2, S1 f2 = S2 f2) -> ok_res r0 S1 -> ok_res r0 S2.
Proof.
  intros [res|l|] S1 S2 H; cbn [ok_res]; auto. intros H1 f2 b Hs. rewrite <- H in Hs. eauto.
Qed.

Lemma ok_res_sem : forall r0 r n (S' : nat -> option bool),
  (forall f2, sem (S f2) c r n = S' f2) -> ok_res r0 S' -> ok_res r0 (fun f2 => sem f2 c r n).
Proof.
  intros [res|l|] r n S' H; cbn [ok_res]; auto. intros H1 [|f2] b Hs; [discriminate|].
  rewrite H in Hs. eauto.
Qed.

Definition stopf (f2 : nat) (stop : option rule) : loc -> option bool :=
  fun x => match stop with None => Some false | Some sr => sem f2 c sr x end.

Definition fk_ok (fk : finder) (fldo : option N) (n : loc) (cands : list loc) : Prop :=
  match fk with
  | FPlain => fldo = None
  | FField fl last_id =>
      fldo = Some fl /\ field_uniqueb fl (c_root c) = true /\ (exists t, node_at c n = Some t) /\
      exists last, last_id = loc_id c last /\ fchain n last cands
  end.

Definition spec (q : ereq) (r0 : eres) : Prop :=
  match q with
  | QRule r n => goodr c r -> ok_res r0 (fun f2 => sem f2 c r n)
  | QAll rs n => Forall (goodr c) rs -> ok_res r0 (fun f2 => all3 (map (fun r' => sem f2 c r' n) rs))
  | QAny rs n _ => Forall (goodr c) rs -> ok_res r0 (fun f2 => any3 (map (fun r' => sem f2 c r' n) rs))
  | QFind r fk stop cands =>
      goodr c r -> (forall sr, stop = Some sr -> goodr c sr) ->
      forall n fldo, fk_ok fk fldo n cands ->
      ok_res r0 (fun f2 => match until_incl (stopf f2 stop) cands with
                           | None => None
                           | Some w => any3 (map (fsem f2 c r fldo n) w)
                           end)
  | QHasRule r sr cands =>
      goodr c r -> goodr c sr -> forall k, ok_res r0 (fun f2 => descend f2 c r sr k cands)
  | QNthOf r cands acc =>
      goodr c r ->
      match r0 with
      | EIds l => forall f2, (forall x, In x cands -> sem f2 c r x <> None) ->
                  l = rev acc ++ map (loc_id c) (filter (fun x => is_true (sem f2 c r x)) cands)
      | _ => True
      end
  end.

(* one step up the ancestor chain: child_by_field + id comparison = "the path child carries the field" *)
Lemma field_step : forall n t cand last fl,
  node_at c n = Some t -> field_uniqueb fl (c_root c) = true ->
  cand = firstn (length cand) n -> length cand < length n -> last = firstn (S (length cand)) n ->
  (match child_by_field (c_root c) cand fl with
   | None => false
   | Some ch => N.eqb (loc_id c ch) (loc_id c last)
   end) = path_child_has_field (c_root c) cand n fl.
Proof.
  intros n t cand last fl Hn Hfu Hc Hlen Hlast.
  unfold path_child_has_field. rewrite <- Hlast.
  assert (El : last = cand ++ [nth (length cand) n 0]).
  { rewrite Hlast, firstn_S_nth by assumption. now rewrite <- Hc. }
  set (i := nth (length cand) n 0) in *.
  destruct (get_firstn (S (length cand)) _ _ _ Hn) as [lt Hlt]. rewrite <- Hlast in Hlt.
  unfold loc_id at 2. unfold node_at. rewrite Hlt.
  rewrite El, get_snoc in Hlt. destruct (get (c_root c) cand) as [ct|] eqn:Hct; [|discriminate].
  pose proof (fu_count _ _ (fu_get _ _ _ _ Hfu Hct)) as Hcount.
  pose proof (ids_unique_get _ _ _ Hids Hct) as Hidc.
  unfold child_by_field. rewrite Hct.
  destruct (find_field (children ct) fl 0) as [j|] eqn:Ef; cbn [option_map].
  - destruct (find_field_some _ _ _ _ Ef) as (j' & a & Ej & Hj & Ha). cbn [Nat.add] in Ej. subst j.
    unfold loc_id, node_at. rewrite get_snoc, Hct, Hj.
    destruct (N.eqb (tid a) (tid lt)) eqn:E.
    + apply N.eqb_eq in E. pose proof (children_ids_distinct _ _ _ _ _ Hidc Hj Hlt E) as ->.
      assert (a = lt) by congruence. subst a. symmetry. now apply N.eqb_eq.
    + symmetry. apply N.eqb_neq. intros Hf.
      pose proof (find_field_unique _ _ 0 _ _ Hcount Hlt Hf) as Ef'. cbn [Nat.add] in Ef'.
      assert (j' = i) by congruence. subst j'. assert (a = lt) by congruence. subst a.
      rewrite N.eqb_refl in E. discriminate.
  - symmetry. apply N.eqb_neq. eapply find_field_none; eassumption.
Qed.

(* everything the reference's nthChild clause says about the list of ids the evaluator collected *)
Lemma nth_sem_inv : forall (g : loc -> option bool) (pp : loc) (ids : list N) (rv : bool) (n : loc) (t : tree) (a b : Z) (bres : bool),
  node_at c n = Some t -> parent_loc n = Some pp ->
  ((forall x, In x (named_child_locs c pp) -> g x <> None) ->
   ids = map (loc_id c) (filter (fun x => is_true (g x)) (named_child_locs c pp))) ->
  (let nameds := named_child_locs c pp in
   let flags := map g nameds in
   match all3 (map defd flags) with
   | None => None
   | _ =>
       let kept := map fst (filter (fun p => is_true (snd p)) (combine nameds flags)) in
       let kept' := if rv then rev kept else kept in
       match index_of (tid t) (map (loc_id c) kept') 0 with
       | None => Some false
       | Some i => Some (nth_formula a b i)
       end
   end) = Some bres ->
  bres = match index_of (tid t) (if rv then rev ids else ids) 0 with
         | None => false
         | Some i => nth_formula a b i
         end /\
  forall i, index_of (tid t) (if rv then rev ids else ids) 0 = Some i -> g n = Some true.
Proof.
  intros g pp ids rv n t a b bres Hn Hpp Hids' Hs. cbn zeta in Hs.
  set (nameds := named_child_locs c pp) in *.
  destruct (all3 (map defd (map g nameds))) as [v|] eqn:Ea; [|discriminate].
  assert (Hd : forall x, In x nameds -> g x <> None) by (apply all3_defd; congruence).
  specialize (Hids' Hd). rewrite combine_filter in Hs.
  set (kept := filter (fun x => is_true (g x)) nameds) in *.
  assert (E : (if rv then rev ids else ids) = map (loc_id c) (if rv then rev kept else kept)).
  { subst ids. destruct rv; [now rewrite map_rev | reflexivity]. }
  rewrite <- E in Hs. split.
  - destruct (index_of (tid t) (if rv then rev ids else ids) 0); now injection Hs as <-.
  - intros i Hi. destruct (index_of_some _ _ _ _ Hi) as [Hin Hlt].
    + rewrite E in Hin. apply in_map_iff in Hin as (x & Hx & Hxin).
      assert (Hxk : In x kept) by (destruct rv; [now apply in_rev|assumption]).
      unfold kept in Hxk. apply filter_In in Hxk as [Hxn Hxt].
      assert (x = n); [|subst x; destruct (g n) as [[|]|]; try discriminate; reflexivity].
      destruct (named_child_in _ _ _ Hxn) as (j & par & tx & -> & Hp & Hj & Hxt').
      pose proof (parent_loc_inv _ _ Hpp) as En. rewrite En. f_equal. f_equal.
      unfold node_at in Hn. rewrite En, get_snoc, Hp in Hn.
      unfold loc_id in Hx. rewrite Hxt' in Hx.
      exact (children_ids_distinct par j (last n 0) tx t (ids_unique_get _ _ _ Hids Hp) Hj Hn Hx).
Qed.


Definition IHf (f : nat) : Prop := forall q e, spec q (fst (eval f c q e)).

Lemma step_all : forall f, IHf f -> forall rs n e, spec (QAll rs n) (fst (eval (S f) c (QAll rs n) e)).
Proof.
  intros f IH rs n e. cbn [spec]. intros Hrs. destruct rs as [|r rest].
  - cbn [eval fst ok_res]. intros f2 b Hs. cbn in Hs. now injection Hs as <-.
  - cbn [eval]. inversion Hrs as [|? ? Hr Hrest]; subst.
    pose proof (IH (QRule r n) e Hr) as H1.
    destruct (eval f c (QRule r n) e) as [[[m|]|l|] e1]; cbn [fst ok_res] in H1 |- *;
      try exact I; try contradiction.
    + pose proof (IH (QAll rest n) e1 Hrest) as H2.
      destruct (fst (eval f c (QAll rest n) e1)) as [res|l|]; cbn [ok_res] in *; try assumption.
      intros f2 b Hs. cbn [map all3] in Hs.
      destruct (sem f2 c r n) as [sb|] eqn:E; [|discriminate].
      rewrite (H1 f2 sb E) in Hs. cbn [is_some] in Hs. exact (H2 f2 b Hs).
    + intros f2 b Hs. cbn [map all3] in Hs.
      destruct (sem f2 c r n) as [sb|] eqn:E; [|discriminate].
      rewrite (H1 f2 sb E) in Hs. cbn [is_some] in Hs. now injection Hs as <-.
Qed.

Lemma step_any : forall f, IHf f -> forall rs n orig e,
  spec (QAny rs n orig) (fst (eval (S f) c (QAny rs n orig) e)).
Proof.
  intros f IH rs n orig e. cbn [spec]. intros Hrs. destruct rs as [|r rest].
  - cbn [eval fst ok_res]. intros f2 b Hs. cbn in Hs. now injection Hs as <-.
  - cbn [eval]. inversion Hrs as [|? ? Hr Hrest]; subst.
    pose proof (IH (QRule r n) orig Hr) as H1.
    destruct (eval f c (QRule r n) orig) as [[[m|]|l|] e1]; cbn [fst ok_res] in H1 |- *;
      try exact I; try contradiction.
    + intros f2 b Hs. cbn [map any3] in Hs.
      destruct (sem f2 c r n) as [sb|] eqn:E; [|discriminate].
      rewrite (H1 f2 sb E) in Hs. cbn [is_some] in Hs. now injection Hs as <-.
    + pose proof (IH (QAny rest n orig) orig Hrest) as H2.
      destruct (fst (eval f c (QAny rest n orig) orig)) as [res|l|]; cbn [ok_res] in *; try assumption.
      intros f2 b Hs. cbn [map any3] in Hs.
      destruct (sem f2 c r n) as [sb|] eqn:E; [|discriminate].
      rewrite (H1 f2 sb E) in Hs. cbn [is_some] in Hs. exact (H2 f2 b Hs).
Qed.

Lemma step_nthof : forall f, IHf f -> forall r cands acc e,
  spec (QNthOf r cands acc) (fst (eval (S f) c (QNthOf r cands acc) e)).
Proof.
  intros f IH r cands acc e. cbn [spec]. intros Hr. destruct cands as [|cand rest].
  - cbn [eval fst]. intros f2 Hd. cbn [filter map]. now rewrite app_nil_r.
  - rewrite eval_nthof_cons.
    pose proof (IH (QRule r cand) e Hr) as H1.
    destruct (eval f c (QRule r cand) e) as [[[m|]|l|] e1]; cbn [fst ok_res] in H1;
      try exact I; try contradiction.
    + pose proof (IH (QNthOf r rest (loc_id c cand :: acc)) e Hr) as H2.
      destruct (fst (eval f c (QNthOf r rest (loc_id c cand :: acc)) e)) as [res|l|]; try exact I.
      intros f2 Hd. rewrite (H2 f2) by (intros x Hx; apply Hd; now right).
      cbn [filter]. destruct (sem f2 c r cand) as [sb|] eqn:E; [|exfalso; apply (Hd cand); [now left|exact E]].
      rewrite (H1 f2 sb E). cbn [is_some is_true rev map]. now rewrite <- app_assoc.
    + pose proof (IH (QNthOf r rest acc) e Hr) as H2.
      destruct (fst (eval f c (QNthOf r rest acc) e)) as [res|l|]; try exact I.
      intros f2 Hd. rewrite (H2 f2) by (intros x Hx; apply Hd; now right).
      cbn [filter]. destruct (sem f2 c r cand) as [sb|] eqn:E; [|exfalso; apply (Hd cand); [now left|exact E]].
      rewrite (H1 f2 sb E). cbn [is_some is_true]. reflexivity.
Qed.

Lemma step_hasrule : forall f, IHf f -> forall r sr cands e,
  spec (QHasRule r sr cands) (fst (eval (S f) c (QHasRule r sr cands) e)).
Proof.
  intros f IH r sr cands e. cbn [spec]. intros Hr Hsr k. destruct cands as [|cand rest].
  - cbn [eval fst ok_res]. intros f2 b Hs. destruct k as [|k]; [discriminate|].
    rewrite descend_S in Hs. cbn in Hs. now injection Hs as <-.
  - rewrite eval_hasrule_cons.
    pose proof (IH (QRule r cand) e Hr) as H1.
    destruct (eval f c (QRule r cand) e) as [[[m|]|l|] e1]; cbn [fst ok_res] in H1 |- *;
      try exact I; try contradiction.
    + intros f2 b Hs. destruct k as [|k]; [discriminate|].
      rewrite descend_S in Hs. cbn [map any3] in Hs. unfold hstep at 1 in Hs.
      destruct (sem f2 c r cand) as [rb|] eqn:E1; [|discriminate].
      rewrite (H1 f2 rb E1) in Hs. cbn [is_some] in Hs. now injection Hs as <-.
    + pose proof (IH (QRule sr cand) empty_env Hsr) as H2. unfold matches_fresh.
      destruct (eval f c (QRule sr cand) empty_env) as [[o|l|] e2]; cbn [fst ok_res] in H2 |- *;
        try exact I.
      assert (Hhead : forall f2 k' b, any3 (map (hstep f2 c r sr k') (cand :: rest)) = Some b ->
                exists db, (if is_some o then Some false else descend f2 c r sr k' (child_locs (c_root c) cand)) = Some db /\
                           (if db then Some true else any3 (map (hstep f2 c r sr k') rest)) = Some b).
      { intros f2 k' b Hs. cbn [map any3] in Hs. unfold hstep at 1 in Hs.
        destruct (sem f2 c r cand) as [rb|] eqn:E1; [|discriminate].
        rewrite (H1 f2 rb E1) in Hs. cbn [is_some] in Hs.
        destruct (sem f2 c sr cand) as [sb|] eqn:E2; [|discriminate].
        rewrite (H2 f2 sb E2) in Hs. destruct (is_some o).
        - exists false. split; [reflexivity | exact Hs].
        - destruct (descend f2 c r sr k' (child_locs (c_root c) cand)) as [[|]|]; try discriminate.
          + exists true. split; [reflexivity | exact Hs].
          + exists false. split; [reflexivity | exact Hs]. }
      destruct o as [mo|]; cbn [is_some] in *.
      * pose proof (IH (QHasRule r sr rest) e1 Hr Hsr k) as H3.
        destruct (fst (eval f c (QHasRule r sr rest) e1)) as [res|l|]; cbn [ok_res] in *; try assumption.
        intros f2 b Hs. destruct k as [|k]; [discriminate|]. rewrite descend_S in Hs.
        destruct (Hhead f2 k b Hs) as (db & Hdb & Hb). injection Hdb as <-.
        apply (H3 f2 b). rewrite descend_S. exact Hb.
      * pose proof (IH (QHasRule r sr (child_locs (c_root c) cand)) e1 Hr Hsr (pred k)) as H4.
        destruct (eval f c (QHasRule r sr (child_locs (c_root c) cand)) e1) as [[[m2|]|l2|] e3];
          cbn [fst ok_res] in H4 |- *; try exact I; try contradiction.
        -- intros f2 b Hs. destruct k as [|k]; [discriminate|]. rewrite descend_S in Hs.
           destruct (Hhead f2 k b Hs) as (db & Hdb & Hb). cbn [pred] in H4.
           rewrite (H4 f2 db Hdb) in Hb. cbn [is_some] in Hb. now injection Hb as <-.
        -- pose proof (IH (QHasRule r sr rest) e3 Hr Hsr k) as H3.
           destruct (fst (eval f c (QHasRule r sr rest) e3)) as [res|l|]; cbn [ok_res] in *; try assumption.
           intros f2 b Hs. destruct k as [|k]; [discriminate|]. rewrite descend_S in Hs.
           destruct (Hhead f2 k b Hs) as (db & Hdb & Hb). cbn [pred] in H4.
           rewrite (H4 f2 db Hdb) in Hb. cbn [is_some] in Hb.
           apply (H3 f2 b). rewrite descend_S. exact Hb.
Qed.


Lemma step_find : forall f, IHf f -> forall r fk stop cands e,
  spec (QFind r fk stop cands) (fst (eval (S f) c (QFind r fk stop cands) e)).
Proof.
  intros f IH r fk stop cands e. cbn [spec]. intros Hr Hst n fldo Hfk. destruct cands as [|cand rest].
  - cbn [eval fst ok_res]. intros f2 b Hs. cbn in Hs. now injection Hs as <-.
  - rewrite eval_find_cons'.
    (* the stop test *)
    assert (Hstop : forall sh, stop_here f c stop cand = Some sh ->
                    forall f2 sb, stopf f2 stop cand = Some sb -> sb = sh).
    { intros sh E f2 sb Hsb. unfold stop_here in E. unfold stopf in Hsb. destruct stop as [sr|].
      - unfold matches_fresh in E. pose proof (IH (QRule sr cand) empty_env (Hst sr eq_refl)) as HI.
        destruct (eval f c (QRule sr cand) empty_env) as [[o|l|] e1]; cbn [fst ok_res] in HI; try discriminate.
        injection E as <-. eapply HI; eassumption.
      - congruence. }
    destruct (stop_here f c stop cand) as [sh|]; [|exact I].
    specialize (Hstop sh eq_refl).
    (* the candidate *)
    assert (Hcand : exists res fk', find_step f c r fk cand e = (res, fk') /\
                    ok_res (fst res) (fun f2 => fsem f2 c r fldo n cand) /\ fk_ok fk' fldo n rest).
    { unfold find_step. destruct fk as [|fl last_id]; cbn [fk_ok] in Hfk.
      - subst fldo. eexists _, _. split; [reflexivity|]. split; [|reflexivity].
        exact (IH (QRule r cand) e Hr).
      - destruct Hfk as (-> & Hfu & [t Hn] & last & -> & Hch). cbn [fchain] in Hch.
        destruct Hch as (Ha & Hlen & Hlast & Hrest).
        pose proof (field_step n t cand last fl Hn Hfu Ha Hlen Hlast) as Hfs.
        assert (Hfk' : fk_ok (FField fl (loc_id c cand)) (Some fl) n rest).
        { cbn [fk_ok]. split; [reflexivity|]. split; [exact Hfu|]. split; [exists t; exact Hn|].
          exists cand. split; [reflexivity | exact Hrest]. }
        cbn zeta. destruct (child_by_field (c_root c) cand fl) as [ch|].
        + destruct (N.eqb (loc_id c ch) (loc_id c last)).
          * eexists _, _. split; [reflexivity|]. split; [|exact Hfk'].
            eapply ok_res_ext; [|exact (IH (QRule r cand) e Hr)].
            intros f2. unfold fsem. rewrite <- Hfs. reflexivity.
          * eexists _, _. split; [reflexivity|]. split; [|exact Hfk'].
            cbn [fst ok_res]. intros f2 b Hs. unfold fsem in Hs. rewrite <- Hfs in Hs. now injection Hs as <-.
        + eexists _, _. split; [reflexivity|]. split; [|exact Hfk'].
          cbn [fst ok_res]. intros f2 b Hs. unfold fsem in Hs. rewrite <- Hfs in Hs. now injection Hs as <-. }
    destruct Hcand as (res & fk' & -> & Hres & Hfk'). destruct res as [r1 e1]. cbn [fst] in Hres.
    (* the reference side of one step *)
    assert (Hhead : forall f2 b,
              match until_incl (stopf f2 stop) (cand :: rest) with
              | None => None
              | Some w => any3 (map (fsem f2 c r fldo n) w)
              end = Some b ->
              exists gb, fsem f2 c r fldo n cand = Some gb /\
                if gb then b = true
                else if sh then b = false
                else match until_incl (stopf f2 stop) rest with
                     | None => None
                     | Some w => any3 (map (fsem f2 c r fldo n) w)
                     end = Some b).
    { intros f2 b Hs. cbn [until_incl] in Hs.
      destruct (stopf f2 stop cand) as [sb|] eqn:Est; [|discriminate].
      pose proof (Hstop f2 sb Est) as ->. destruct sh.
      - cbn [map] in Hs. rewrite any3_single in Hs. exists b. split; [exact Hs|]. destruct b; reflexivity.
      - destruct (until_incl (stopf f2 stop) rest) as [w'|]; cbn [option_map] in Hs; [|discriminate].
        cbn [map any3] in Hs. destruct (fsem f2 c r fldo n cand) as [[|]|]; try discriminate.
        + exists true. split; [reflexivity|]. now injection Hs as <-.
        + exists false. split; [reflexivity | exact Hs]. }
    destruct r1 as [[m|]|l|]; cbn [fst ok_res] in Hres |- *; try exact I; try contradiction.
    + intros f2 b Hs. destruct (Hhead f2 b Hs) as (gb & Hg & Hb).
      rewrite (Hres f2 gb Hg) in Hb. cbn [is_some] in Hb. exact Hb.
    + destruct sh.
      * cbn [fst ok_res]. intros f2 b Hs. destruct (Hhead f2 b Hs) as (gb & Hg & Hb).
        rewrite (Hres f2 gb Hg) in Hb. cbn [is_some] in Hb. exact Hb.
      * pose proof (IH (QFind r fk' stop rest) e1 Hr Hst n fldo Hfk') as HI.
        destruct (fst (eval f c (QFind r fk' stop rest) e1)) as [res|l|]; cbn [ok_res] in *; try assumption.
        intros f2 b Hs. destruct (Hhead f2 b Hs) as (gb & Hg & Hb).
        rewrite (Hres f2 gb Hg) in Hb. cbn [is_some] in Hb. exact (HI f2 b Hb).
Qed.


Lemma find_plain : forall r0 r stop cands,
  spec (QFind r FPlain stop cands) r0 -> goodr c r -> (forall sr, stop = Some sr -> goodr c sr) ->
  ok_res r0 (fun f2 => match until_incl (stopf f2 stop) cands with
                       | None => None
                       | Some w => any3 (map (sem f2 c r) w)
                       end).
Proof. intros r0 r stop cands H Hr Hst. exact (H Hr Hst [] None eq_refl). Qed.

Lemma window_eq : forall f2 stop ordered,
  window f2 c stop ordered =
  until_incl (stopf f2 (match stop with SRule sr => Some sr | _ => None end))
             (match stop with SNeighbor => firstn 1 ordered | _ => ordered end).
Proof.
  intros f2 stop ordered. destruct stop as [| |sr]; cbn [window].
  - change (stopf f2 None) with (fun _ : loc => Some false). now rewrite until_incl_false.
  - change (stopf f2 None) with (fun _ : loc => Some false). now rewrite until_incl_false.
  - reflexivity.
Qed.

Lemma step_inside : forall f, IHf f -> forall r' stop fld n t e,
  node_at c n = Some t -> goodr c (RInside r' stop fld) ->
  ok_res (fst (eval (S f) c (QRule (RInside r' stop fld) n) e)) (fun f2 => sem f2 c (RInside r' stop fld) n).
Proof.
  intros f IH r' stop fld n t e Hn Hg. rewrite (eval_inside _ _ _ _ _ _ _ _ Hn), fst_relabel.
  destruct (goodr_rel c r' stop fld (or_introl Hg)) as (Hr' & Hst & Hfld).
  eapply ok_res_sem; [intros f2; apply (sem_inside _ _ _ _ _ _ _ Hn)|].
  eapply ok_res_ext; [intros f2; rewrite window_eq; reflexivity|].
  cbn zeta. set (fk := match fld with Some fl => FField fl (tid t) | None => FPlain end).
  assert (Hfk : forall cands, fchain n n cands -> fk_ok fk fld n cands).
  { intros cands Hch. unfold fk. destruct fld as [fl|]; cbn [fk_ok]; [|reflexivity].
    split; [reflexivity|]. split; [exact (Hfld fl eq_refl)|]. split; [exists t; exact Hn|].
    exists n. split; [unfold loc_id; now rewrite Hn | exact Hch]. }
  destruct stop as [| |sr].
  - destruct (parent_loc n) as [pp|] eqn:Hpp.
    + rewrite (ancestors_firstn1 _ _ Hpp).
      apply (IH (QFind r' fk None [pp]) e Hr'); [discriminate | apply Hfk; apply fchain_parent; exact Hpp].
    + apply parent_loc_none in Hpp. subst n. cbn [fst ok_res]. intros f2 b Hs. cbn in Hs. now injection Hs as <-.
  - apply (IH (QFind r' fk None (ancestors n)) e Hr'); [discriminate | apply Hfk, fchain_ancestors].
  - apply (IH (QFind r' fk (Some sr) (ancestors n)) e Hr');
      [intros sr' [= <-]; apply Hst; reflexivity | apply Hfk, fchain_ancestors].
Qed.

Lemma step_precedes : forall f, IHf f -> forall r' stop n t e,
  node_at c n = Some t -> goodr c (RPrecedes r' stop) ->
  ok_res (fst (eval (S f) c (QRule (RPrecedes r' stop) n) e)) (fun f2 => sem f2 c (RPrecedes r' stop) n).
Proof.
  intros f IH r' stop n t e Hn Hg. rewrite (eval_precedes _ _ _ _ _ _ _ Hn), fst_relabel.
  destruct (goodr_sib c r' stop (or_introl Hg)) as (Hr' & Hst).
  eapply ok_res_sem; [intros f2; apply (sem_precedes _ _ _ _ _ _ Hn)|].
  eapply ok_res_ext; [intros f2; rewrite window_eq; reflexivity|].
  destruct (C19_next_all (c_root c) n Hwf Hnz) as [E1 E2]; [unfold node_at in Hn; congruence|].
  destruct stop as [| |sr].
  - rewrite <- (next_loc_later _ _ _ Hn). destruct (next_loc (c_root c) n) as [m|].
    + apply find_plain; [apply IH | exact Hr' | discriminate].
    + cbn [fst ok_res]. intros f2 b Hs. cbn in Hs. now injection Hs as <-.
  - rewrite <- E1. apply find_plain; [apply IH | exact Hr' | discriminate].
  - rewrite <- E1. apply find_plain; [apply IH | exact Hr' | intros sr' [= <-]; apply Hst; reflexivity].
Qed.

Lemma step_follows : forall f, IHf f -> forall r' stop n t e,
  node_at c n = Some t -> goodr c (RFollows r' stop) ->
  ok_res (fst (eval (S f) c (QRule (RFollows r' stop) n) e)) (fun f2 => sem f2 c (RFollows r' stop) n).
Proof.
  intros f IH r' stop n t e Hn Hg. rewrite (eval_follows _ _ _ _ _ _ _ Hn), fst_relabel.
  destruct (goodr_sib c r' stop (or_intror Hg)) as (Hr' & Hst).
  eapply ok_res_sem; [intros f2; apply (sem_follows _ _ _ _ _ _ Hn)|].
  eapply ok_res_ext; [intros f2; rewrite window_eq; reflexivity|].
  destruct (C19_next_all (c_root c) n Hwf Hnz) as [E1 E2]; [unfold node_at in Hn; congruence|].
  destruct stop as [| |sr].
  - rewrite <- (prev_loc_earlier _ n). destruct (prev_loc (c_root c) n) as [m|].
    + apply find_plain; [apply IH | exact Hr' | discriminate].
    + cbn [fst ok_res]. intros f2 b Hs. cbn in Hs. now injection Hs as <-.
  - rewrite <- E2. apply find_plain; [apply IH | exact Hr' | discriminate].
  - rewrite <- E2. apply find_plain; [apply IH | exact Hr' | intros sr' [= <-]; apply Hst; reflexivity].
Qed.


Lemma find_plain_none : forall r0 r cands,
  spec (QFind r FPlain None cands) r0 -> goodr c r ->
  ok_res r0 (fun f2 => any3 (map (sem f2 c r) cands)).
Proof.
  intros r0 r cands H Hr. eapply ok_res_ext; [|apply (find_plain _ _ _ _ H Hr); discriminate].
  intros f2. cbn beta. change (stopf f2 None) with (fun _ : loc => Some false).
  now rewrite until_incl_false.
Qed.

Lemma step_has : forall f, IHf f -> forall r' stop fld n t e,
  node_at c n = Some t -> goodr c (RHas r' stop fld) ->
  ok_res (fst (eval (S f) c (QRule (RHas r' stop fld) n) e)) (fun f2 => sem f2 c (RHas r' stop fld) n).
Proof.
  intros f IH r' stop fld n t e Hn Hg. rewrite (eval_has _ _ _ _ _ _ _ _ Hn), fst_relabel.
  destruct (goodr_rel c r' stop fld (or_intror Hg)) as (Hr' & Hst & Hfld).
  eapply ok_res_sem; [intros f2; apply (sem_has _ _ _ _ _ _ _ Hn)|].
  destruct fld as [fl|].
  - pose proof (Hfld fl eq_refl) as Hfu.
    assert (Hstarts : has_starts c n (Some fl) =
                      match child_by_field (c_root c) n fl with Some nd => [nd] | None => [] end).
    { apply child_locs_filter_field with t; [exact Hn|]. apply fu_count. eapply fu_get; eassumption. }
    rewrite Hstarts. clear Hstarts.
    destruct (child_by_field (c_root c) n fl) as [nd|].
    2: { cbn [fst ok_res]. intros f2 b Hs.
         destruct stop as [| |sr]; [| |rewrite descend_S in Hs]; cbn in Hs; now injection Hs as <-. }
    destruct stop as [| |sr].
    + eapply ok_res_ext; [intros f2; cbn [map]; symmetry; apply any3_single|].
      exact (IH (QRule r' nd) e Hr').
    + eapply ok_res_ext; [intros f2; cbn [flat_map]; rewrite app_nil_r; reflexivity|].
      apply find_plain_none; [apply IH | exact Hr'].
    + pose proof (Hst sr eq_refl) as Hsr.
      pose proof (IH (QRule r' nd) e Hr') as H1.
      destruct (eval f c (QRule r' nd) e) as [[[m|]|l|] e1]; cbn [fst ok_res] in H1 |- *;
        try exact I; try contradiction.
      * intros f2 b Hs. rewrite descend_S in Hs. cbn [map] in Hs. rewrite any3_single in Hs.
        unfold hstep in Hs. destruct (sem f2 c r' nd) as [rb|] eqn:E1; [|discriminate].
        rewrite (H1 f2 rb E1) in Hs. cbn [is_some] in Hs. now injection Hs as <-.
      * pose proof (IH (QRule sr nd) empty_env Hsr) as H2. unfold matches_fresh.
        destruct (eval f c (QRule sr nd) empty_env) as [[o|l|] e2]; cbn [fst ok_res] in H2 |- *;
          try exact I.
        assert (Hhead : forall f2 b, descend f2 c r' sr (S (size t)) [nd] = Some b ->
                  (if is_some o then Some false
                   else descend f2 c r' sr (size t) (child_locs (c_root c) nd)) = Some b).
        { intros f2 b Hs. rewrite descend_S in Hs. cbn [map] in Hs. rewrite any3_single in Hs.
          unfold hstep in Hs. destruct (sem f2 c r' nd) as [rb|] eqn:E1; [|discriminate].
          rewrite (H1 f2 rb E1) in Hs. cbn [is_some] in Hs.
          destruct (sem f2 c sr nd) as [sb|] eqn:E2; [|discriminate].
          rewrite (H2 f2 sb E2) in Hs. destruct (is_some o); exact Hs. }
        destruct o as [mo|]; cbn [is_some] in *.
        -- cbn [fst ok_res]. intros f2 b Hs. specialize (Hhead f2 b Hs). now injection Hhead as <-.
        -- pose proof (IH (QHasRule r' sr (child_locs (c_root c) nd)) e1 Hr' Hsr (size t)) as H4.
           destruct (fst (eval f c (QHasRule r' sr (child_locs (c_root c) nd)) e1)) as [res|l|];
             cbn [ok_res] in *; try assumption.
           intros f2 b Hs. exact (H4 f2 b (Hhead f2 b Hs)).
  - cbn [has_starts]. destruct stop as [| |sr].
    + apply find_plain_none; [apply IH | exact Hr'].
    + rewrite tl_pre_locs. apply find_plain_none; [apply IH | exact Hr'].
    + exact (IH (QHasRule r' sr (child_locs (c_root c) n)) e Hr' (Hst sr eq_refl) (S (size t))).
Qed.

Lemma step_nth_none : forall f a b rv n t e,
  node_at c n = Some t -> goodr c (RNth a b rv None) ->
  ok_res (fst (eval (S f) c (QRule (RNth a b rv None) n) e)) (fun f2 => sem f2 c (RNth a b rv None) n).
Proof.
  intros f a b rv n t e Hn Hg. rewrite (eval_nth_none _ _ _ _ _ _ _ _ Hn).
  eapply ok_res_sem; [intros f2; apply (sem_nth _ _ _ _ _ _ _ _ Hn)|].
  destruct (parent_loc n) as [pp|] eqn:Hpp;
    [|cbn [fst ok_res]; intros f2 b' Hs; now injection Hs as <-].
  cbn zeta. set (ids := map (loc_id c) (named_child_locs c pp)).
  assert (Hpre : (forall x, In x (named_child_locs c pp) -> (fun _ : loc => Some true) x <> None) ->
                 ids = map (loc_id c) (filter (fun x => is_true ((fun _ : loc => Some true) x)) (named_child_locs c pp))).
  { intros _. cbn [is_true]. now rewrite filter_true. }
  pose proof (fun (f2 : nat) bres Hs => nth_sem_inv (fun _ => Some true) pp ids rv n t a b bres Hn Hpp Hpre Hs) as Hinv.
  clear Hpre.
  destruct (index_of (tid t) (if rv then rev ids else ids) 0) as [i|] eqn:Ei.
  2: { cbn [fst ok_res]. intros f2 bres Hs. destruct (Hinv f2 bres Hs) as [Hb' _]. try rewrite Ei in Hb'. exact Hb'. }
  rewrite (is_matched_formula a b i).
  destruct (nth_formula a b i) eqn:Em; cbn [fst ok_res]; intros f2 bres Hs;
    destruct (Hinv f2 bres Hs) as [Hb' _]; try rewrite Ei in Hb'; rewrite Hb'; reflexivity.
Qed.

Lemma step_nth_some : forall f, IHf f -> forall a b rv r' n t e,
  node_at c n = Some t -> goodr c (RNth a b rv (Some r')) ->
  ok_res (fst (eval (S f) c (QRule (RNth a b rv (Some r')) n) e))
         (fun f2 => sem f2 c (RNth a b rv (Some r')) n).
Proof.
  intros f IH a b rv r' n t e Hn Hg. rewrite (eval_nth_some _ _ _ _ _ _ _ _ _ Hn).
  pose proof (goodr_nth _ _ _ _ _ Hg) as Hr'.
  eapply ok_res_sem; [intros f2; apply (sem_nth _ _ _ _ _ _ _ _ Hn)|].
  destruct (parent_loc n) as [pp|] eqn:Hpp;
    [|cbn [fst ok_res]; intros f2 b' Hs; now injection Hs as <-].
  pose proof (IH (QNthOf r' (named_child_locs c pp) []) e Hr') as H1.
  destruct (eval f c (QNthOf r' (named_child_locs c pp) []) e) as [[o1|ids|] e1]; cbn [fst] in H1 |- *;
    try exact I.
  pose proof (fun f2 bres Hs => nth_sem_inv (fun x => sem f2 c r' x) pp ids rv n t a b bres Hn Hpp (H1 f2) Hs) as Hinv.
  destruct (index_of (tid t) (if rv then rev ids else ids) 0) as [i|] eqn:Ei.
  2: { cbn [fst ok_res]. intros f2 bres Hs. destruct (Hinv f2 bres Hs) as [Hb' _]. try rewrite Ei in Hb'. exact Hb'. }
  rewrite (is_matched_formula a b i).
  destruct (nth_formula a b i) eqn:Em.
  - pose proof (IH (QRule r' n) e Hr') as H2.
    destruct (eval f c (QRule r' n) e) as [[[m|]|l|] e2]; cbn [fst ok_res] in H2 |- *;
      try exact I; try contradiction.
    + intros f2 bres Hs. destruct (Hinv f2 bres Hs) as [Hb' _]. try rewrite Ei in Hb'.
      rewrite Hb'. reflexivity.
    + intros f2 bres Hs. destruct (Hinv f2 bres Hs) as [_ Hall].
      pose proof (Hall i ltac:(first [exact Ei | reflexivity])) as Hsn.
      pose proof (H2 f2 true Hsn). discriminate.
  - cbn [fst ok_res]. intros f2 bres Hs. destruct (Hinv f2 bres Hs) as [Hb' _]. try rewrite Ei in Hb'.
    rewrite Hb'. reflexivity.
Qed.

Lemma step_rule : forall f, IHf f -> forall r n e,
  spec (QRule r n) (fst (eval (S f) c (QRule r n) e)).
Proof.
  intros f IH r n e. cbn [spec]. intros Hg.
  destruct (node_at c n) as [t|] eqn:Hn.
  2: { rewrite eval_none by assumption. cbn [fst ok_res]. intros [|f2] b Hs; [discriminate|].
       rewrite sem_none in Hs by assumption. now injection Hs as <-. }
  destruct r as [p|k|hits|a b rv o|sl sc el ec|r' stop fld|r' stop fld|r' stop|r' stop|rs|rs|r'|id].
  - (* pattern *)
    cbn [eval]. rewrite Hn. rewrite pattern_match_closed by (exact (proj1 Hg)).
    destruct (pattern_match (c_src c) p t empty_env) eqn:E; cbn [fst ok_res]; try exact I;
      intros [|f2] b Hs; try discriminate; cbn [sem] in Hs; rewrite Hn, E in Hs; now injection Hs as <-.
  - (* kind *)
    cbn [eval]. rewrite Hn. cbn [fst ok_res]. intros [|f2] b Hs; [discriminate|].
    cbn [sem] in Hs. rewrite Hn in Hs. injection Hs as <-. destruct (N.eqb (kind t) k); reflexivity.
  - (* regex *)
    cbn [eval]. rewrite Hn. cbn [fst ok_res]. intros [|f2] b Hs; [discriminate|].
    cbn [sem] in Hs. rewrite Hn in Hs. injection Hs as <-. destruct (existsb (N.eqb (tid t)) hits); reflexivity.
  - (* nthChild *)
    destruct o as [r'|]; [eapply step_nth_some | eapply step_nth_none]; eassumption.
  - (* range *)
    cbn [eval]. rewrite Hn.
    destruct (position (c_src c) (tstart t)) as [l1 c1] eqn:E1.
    destruct (position (c_src c) (tend t)) as [l2 c2] eqn:E2.
    cbn [fst ok_res]. intros [|f2] b Hs; [discriminate|].
    cbn [sem] in Hs. rewrite Hn, E1, E2 in Hs. injection Hs as <-.
    destruct (N.eqb sl l1 && N.eqb el l2 && N.eqb sc c1 && N.eqb ec c2); reflexivity.
  - eapply step_inside; eassumption.
  - eapply step_has; eassumption.
  - eapply step_precedes; eassumption.
  - eapply step_follows; eassumption.
  - (* all *)
    rewrite (eval_all _ _ _ _ _ _ Hn).
    eapply ok_res_sem; [intros f2; apply (sem_all _ _ _ _ _ Hn)|].
    pose proof (IH (QAll rs n) e (goodr_list c rs (or_introl Hg))) as H1.
    destruct (eval f c (QAll rs n) e) as [[[m|]|l|] e1]; cbn [fst ok_res] in H1 |- *;
      try exact I; try contradiction; exact H1.
  - (* any *)
    rewrite (eval_any _ _ _ _ _ _ Hn).
    eapply ok_res_sem; [intros f2; apply (sem_any _ _ _ _ _ Hn)|].
    exact (IH (QAny rs n e) e (goodr_list c rs (or_intror Hg))).
  - (* not *)
    rewrite (eval_not _ _ _ _ _ _ Hn).
    eapply ok_res_sem; [intros f2; apply (sem_not _ _ _ _ _ Hn)|].
    pose proof (IH (QRule r' n) e (goodr_not _ _ Hg)) as H1.
    destruct (eval f c (QRule r' n) e) as [[[m|]|l|] e1]; cbn [fst ok_res] in H1 |- *;
      try exact I; try contradiction;
      intros f2 b Hs; unfold not3 in Hs; destruct (sem f2 c r' n) as [sb|] eqn:E; try discriminate;
      cbn [option_map] in Hs; injection Hs as <-; rewrite (H1 f2 sb E); reflexivity.
  - (* matches *)
    rewrite (eval_matches _ _ _ _ _ _ Hn).
    eapply ok_res_sem; [intros f2; apply (sem_matches _ _ _ _ _ Hn)|].
    destruct (lookup id (c_utils c)) as [ur|] eqn:El.
    + exact (IH (QRule ur n) e (Hutils id ur El)).
    + cbn [fst ok_res]. intros f2 b Hs. now injection Hs as <-.
Qed.

Lemma main_spec : forall f, IHf f.
Proof.
  induction f as [|f IH]; intros q e.
  - cbn [eval fst]. destruct q; cbn [spec]; intros; exact I.
  - destruct q as [r n|rs n|rs n orig|r fk stop cands|r sr cands|r cands acc].
    + apply step_rule; exact IH.
    + apply step_all; exact IH.
    + apply step_any; exact IH.
    + apply step_find; exact IH.
    + apply step_hasrule; exact IH.
    + apply step_nthof; exact IH.
Qed.

End Main.

(* ================================================================== the theorem *)

Lemma C05_eval_iff_sem_closed : C05_eval_iff_sem_closed_stmt.
Proof.
  intros c r n e fuel1 fuel2 res e' b Hcl Hccl Hdoc Hev Hsem.
  pose proof Hdoc as (Hwf & Hnz & Hids & Hfields).
  pose proof (goodc_intro c r Hccl Hdoc) as Hutils.
  assert (Hg : goodr c r).
  { split; [assumption|]. intros f Hf. apply Hfields. apply in_or_app. now left. }
  pose proof (main_spec c Hwf Hnz Hids Hutils fuel1 (QRule r n) e Hg) as H.
  rewrite Hev in H. cbn [fst ok_res] in H. exact (H fuel2 b Hsem).
Qed.
Print Assumptions C05_eval_iff_sem_closed.
Print Assumptions C05_ofrule_relational_example.

(* ================================================================== C19 (proved in Rule/SemNav.v) *)

Lemma C19_next_all : C19_next_all_stmt.
Proof. exact SemNav.C19_next_all. Qed.
Print Assumptions C19_next_all.
