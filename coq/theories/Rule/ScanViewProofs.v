(* C14 — both views of a scan result report the same findings (proofs about Rule/ScanView.v). *)
From Coq Require Import List NArith Bool Permutation Sorted Lia.
From AG Require Import Base.Val Base.Sort Tree.Tree Rule.Scan Rule.ScanView.
Import ListNotations.

Lemma insert_by_perm : forall A (key : A -> N) x l, Permutation (insert_by key x l) (x :: l).
Proof.
  intros A key x l. induction l as [|y ys IH]; cbn [insert_by]; [apply Permutation_refl|].
  destruct (N.leb (key x) (key y)); [apply Permutation_refl|].
  eapply Permutation_trans; [apply perm_skip; exact IH | apply perm_swap].
Qed.

Lemma sort_by_perm : forall A (key : A -> N) l, Permutation (sort_by key l) l.
Proof.
  intros A key l. induction l as [|x xs IH]; cbn [sort_by fold_right]; [apply Permutation_refl|].
  eapply Permutation_trans; [apply insert_by_perm | apply perm_skip; exact IH].
Qed.

Definition key_sorted {A} (key : A -> N) (l : list A) : Prop := LocallySorted N.le (map key l).

Lemma insert_by_sorted : forall A (key : A -> N) x l, key_sorted key l -> key_sorted key (insert_by key x l).
Proof.
  intros A key x l. unfold key_sorted. induction l as [|y ys IH]; intros Hs; cbn [insert_by map].
  - constructor.
  - destruct (N.leb (key x) (key y)) eqn:E.
    + cbn [map]. constructor; [exact Hs | apply N.leb_le; exact E].
    + apply N.leb_gt in E. cbn [map].
      assert (Hys : LocallySorted N.le (map key ys)) by (cbn [map] in Hs; inversion Hs; [constructor | assumption]).
      specialize (IH Hys).
      destruct ys as [|z zs]; cbn [insert_by map] in *.
      * constructor; [constructor | lia].
      * destruct (N.leb (key x) (key z)) eqn:E2; cbn [map] in *.
        -- constructor; [exact IH | lia].
        -- constructor; [exact IH | inversion Hs; assumption].
Qed.

Lemma sort_by_sorted : forall A (key : A -> N) l, key_sorted key (sort_by key l).
Proof.
  intros A key l. induction l as [|x xs IH]; cbn [sort_by fold_right]; [constructor|].
  apply insert_by_sorted. exact IH.
Qed.

Lemma filter_partition_perm : forall A (f : A -> bool) l,
  Permutation (filter (fun p => negb (f p)) l ++ filter f l) l.
Proof.
  intros A f l. induction l as [|x xs IH]; cbn [filter]; [apply Permutation_refl|].
  destruct (f x); cbn [negb app].
  - eapply Permutation_trans; [apply Permutation_sym, Permutation_middle | apply perm_skip; exact IH].
  - apply perm_skip. exact IH.
Qed.

(* every finding and every unused suppression of the scan is delivered exactly once, in either view *)
Theorem view_complete : forall root rules sep res,
  Permutation (view_all (into_view root rules sep res)) (reported res).
Proof.
  intros root rules sep res. unfold view_all, reported, into_view.
  destruct sep; cbn [v_matches v_diffs].
  - eapply Permutation_trans.
    + apply Permutation_app_head. apply sort_by_perm.
    + rewrite app_assoc. apply Permutation_app_tail. apply filter_partition_perm.
  - rewrite app_nil_r. apply Permutation_app_tail.
    assert (H : forall l : list (str * N), filter (fun p => negb (is_diff rules false p)) l = l).
    { induction l as [|x xs IH]; cbn [filter]; [reflexivity|]. unfold is_diff at 1. cbn [andb negb]. f_equal. exact IH. }
    rewrite H. apply Permutation_refl.
Qed.

(* so the two views report the same things *)
Theorem view_same : forall root rules res,
  Permutation (view_all (into_view root rules true res)) (view_all (into_view root rules false res)).
Proof.
  intros root rules res. eapply Permutation_trans; [apply view_complete | apply Permutation_sym, view_complete].
Qed.

(* the diffs of the separated view are ordered by start offset; the plain view has none *)
Theorem view_diffs_sorted : forall root rules res,
  key_sorted (fun p => start_of_id root (snd p)) (v_diffs (into_view root rules true res)) /\
  v_diffs (into_view root rules false res) = [].
Proof. intros root rules res. split; [apply sort_by_sorted | reflexivity]. Qed.

(* what is a diff: exactly the findings of rules carrying a fix, and the unused suppressions *)
Theorem view_diffs_are : forall root rules res p,
  In p (v_diffs (into_view root rules true res)) <->
  (In p (res_found res) /\ has_fix rules (fst p) = true) \/ (exists u, In u (res_unused res) /\ p = (UNUSED_ID, u)).
Proof.
  intros root rules res p. unfold into_view. cbn [v_diffs].
  split.
  - intros H. apply (Permutation_in _ (sort_by_perm _ _ _)) in H. apply in_app_or in H as [H|H].
    + apply filter_In in H as [H1 H2]. left. split; [exact H1 | exact H2].
    + apply in_map_iff in H as (u & E & Hu). right. exists u. split; [exact Hu | symmetry; exact E].
  - intros H. apply (Permutation_in _ (Permutation_sym (sort_by_perm _ _ _))). apply in_or_app.
    destruct H as [[H1 H2]|(u & Hu & E)].
    + left. apply filter_In. split; [exact H1 | exact H2].
    + right. apply in_map_iff. exists u. split; [symmetry; exact E | exact Hu].
Qed.
