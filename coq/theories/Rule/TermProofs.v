(* C11: evaluation of a rule terminates when no utility can reach itself through any operator
   (C11_eval_terminates), and the loader's own, weaker check does not guarantee it
   (C11_eval_terminates_refuted). *)
From Coq Require Import List NArith ZArith Bool Arith Lia.
From AG Require Import Base.Val Base.Sort Str.MetaVar Str.AnB Tree.Tree Match.MatchNode Rule.Rule Rule.Kinds
  Rule.Eval Rule.Sem Rule.EvalSpec Rule.SemNav Rule.SemProofs Rewrite.Template Front.Load Front.LoadSpec.
Import ListNotations.

(* ================================================================== association lists *)

Lemma seqb_refl : forall a, str_eqb a a = true.
Proof. induction a as [|x a IH]; [reflexivity|]. cbn [str_eqb]. rewrite N.eqb_refl, IH. reflexivity. Qed.

Lemma seqb_eq : forall a b, str_eqb a b = true -> a = b.
Proof.
  induction a as [|x a IH]; intros [|y b] H; cbn [str_eqb] in H; try discriminate; [reflexivity|].
  apply andb_true_iff in H. destruct H as [H1 H2]. apply N.eqb_eq in H1. apply IH in H2. congruence.
Qed.

Lemma lookup_upsert : forall A k (v : A) l x,
  lookup x (upsert k v l) = if str_eqb x k then Some v else lookup x l.
Proof.
  intros A k v l x. induction l as [|[k' v'] l IH].
  - reflexivity.
  - cbn [upsert]. destruct (str_eqb k k') eqn:E.
    + apply seqb_eq in E. subst k'. cbn [lookup]. destruct (str_eqb x k); reflexivity.
    + cbn [lookup]. rewrite IH. destruct (str_eqb x k') eqn:E1; [|reflexivity].
      destruct (str_eqb x k) eqn:E2; [|reflexivity].
      apply seqb_eq in E1. apply seqb_eq in E2. subst. rewrite seqb_refl in E. discriminate.
Qed.

Lemma lookup_in_keys : forall A k (l : list (str * A)) v, lookup k l = Some v -> In k (map fst l).
Proof.
  intros A k l v. induction l as [|[k' v'] l IH]; intros H; cbn [lookup] in H; [discriminate|].
  cbn [map fst]. destruct (str_eqb k k') eqn:E.
  - apply seqb_eq in E. left. symmetry. exact E.
  - right. apply IH. exact H.
Qed.

Lemma smem_In : forall k l, In k l -> smem k l = true.
Proof.
  intros k l H. unfold smem. apply existsb_exists. exists k. split; [exact H | apply seqb_refl].
Qed.

Lemma smem_In' : forall k l, smem k l = true -> In k l.
Proof.
  intros k l H. unfold smem in H. apply existsb_exists in H. destruct H as [x [H1 H2]].
  apply seqb_eq in H2. subst. exact H1.
Qed.

(* ================================================================== the order found by the sort *)

Section Topo.
Variable m : depmap.

(* every key stands after the keys it depends on (the list is the reversed order) *)
Inductive good : list str -> Prop :=
| good_nil : good []
| good_cons : forall k ord, good ord ->
    (forall ds b, lookup k m = Some ds -> In b ds -> lookup b m <> None -> In b ord) ->
    good (k :: ord).

Definition tinv (seen : list (str * bool)) (ord : list str) : Prop :=
  good ord /\ forall x, lookup x seen = Some true -> In x ord.
Definition tmono (seen seen' : list (str * bool)) : Prop :=
  forall x, lookup x seen = Some true -> lookup x seen' = Some true.
Definition tdone (seen : list (str * bool)) (k : str) : Prop :=
  lookup k m <> None -> lookup k seen = Some true.

Lemma tvisit_spec : forall fuel q seen ord seen' ord',
  tvisit fuel m q seen ord = TOk seen' ord' -> tinv seen ord ->
  tinv seen' ord' /\ tmono seen seen' /\
  match q with
  | TVisit k => tdone seen' k
  | TVisitAll ks => forall k, In k ks -> tdone seen' k
  end.
Proof.
  induction fuel as [|f IH]; intros q seen ord seen' ord' H Hinv; cbn [tvisit] in H; [discriminate|].
  destruct q as [k|ks].
  - destruct (lookup k seen) as [[|]|] eqn:Ek.
    + injection H as <- <-. split; [exact Hinv|]. split; [intros x Hx; exact Hx|]. intros _. exact Ek.
    + discriminate.
    + destruct (lookup k m) as [ds|] eqn:Em.
      * destruct (tvisit f m (TVisitAll ds) (upsert k false seen) ord) as [s1 o1| |] eqn:Ev; try discriminate.
        injection H as <- <-.
        destruct Hinv as [G0 I0].
        assert (Hinv1 : tinv (upsert k false seen) ord).
        { split; [exact G0|]. intros x Hx. rewrite lookup_upsert in Hx.
          destruct (str_eqb x k); [discriminate|]. apply I0. exact Hx. }
        destruct (IH _ _ _ _ _ Ev Hinv1) as [[G1 I1] [M1 D1]].
        split; [split|split].
        -- apply good_cons; [exact G1|]. intros ds' b Hl Hb Hbm.
           assert (ds' = ds) by congruence. subst ds'.
           apply I1. apply (D1 b Hb). exact Hbm.
        -- intros x Hx. rewrite lookup_upsert in Hx. destruct (str_eqb x k) eqn:E.
           ++ apply seqb_eq in E. left. symmetry. exact E.
           ++ right. apply I1. exact Hx.
        -- intros x Hx. rewrite lookup_upsert. destruct (str_eqb x k) eqn:E; [reflexivity|].
           apply M1. rewrite lookup_upsert, E. exact Hx.
        -- intros _. rewrite lookup_upsert, seqb_refl. reflexivity.
      * injection H as <- <-. split; [exact Hinv|]. split; [intros x Hx; exact Hx|].
        intros Hc. elim Hc. exact Em.
  - destruct ks as [|k r].
    + injection H as <- <-. split; [exact Hinv|]. split; [intros x Hx; exact Hx|].
      intros k [].
    + destruct (tvisit f m (TVisit k) seen ord) as [s1 o1| |] eqn:E1; try discriminate.
      destruct (IH _ _ _ _ _ E1 Hinv) as [Hinv1 [M1 D1]].
      destruct (IH _ _ _ _ _ H Hinv1) as [Hinv2 [M2 D2]].
      split; [exact Hinv2|]. split.
      * intros x Hx. apply M2. apply M1. exact Hx.
      * intros k0 [<-|Hk0].
        -- intros Hm. apply M2. apply D1. exact Hm.
        -- apply D2. exact Hk0.
Qed.

Fixpoint rk (ord : list str) (k : str) : nat :=
  match ord with
  | [] => 0
  | _ :: r => if smem k r then rk r k else S (length r)
  end.

Lemma rk_le : forall ord k, rk ord k <= length ord.
Proof.
  induction ord as [|x r IH]; intros k; cbn [rk length]; [lia|].
  destruct (smem k r); [specialize (IH k)|]; lia.
Qed.

Lemma rk_good : forall ord, good ord -> forall a ds b,
  In a ord -> lookup a m = Some ds -> In b ds -> lookup b m <> None ->
  In b ord /\ rk ord b < rk ord a.
Proof.
  induction 1 as [|x r G IH Hd]; intros a ds b Ha Hl Hb Hbm; [contradiction|].
  cbn [rk]. destruct (smem a r) eqn:Ea.
  - apply smem_In' in Ea. destruct (IH _ _ _ Ea Hl Hb Hbm) as [Hbr Hlt].
    split; [right; exact Hbr|]. rewrite (smem_In _ _ Hbr). exact Hlt.
  - destruct Ha as [<-|Ha]; [|rewrite (smem_In _ _ Ha) in Ea; discriminate].
    pose proof (Hd _ _ Hl Hb Hbm) as Hbr.
    split; [right; exact Hbr|]. rewrite (smem_In _ _ Hbr). pose proof (rk_le r b). lia.
Qed.

Lemma topo_rank : forall ord, get_order m = OrderOk ord ->
  exists rank : str -> nat,
    forall a ds b, lookup a m = Some ds -> In b ds -> lookup b m <> None -> rank b < rank a.
Proof.
  intros ord H. unfold get_order in H.
  destruct (tvisit (topo_fuel m) m (TVisitAll (map fst m)) [] []) as [s o| |] eqn:E; try discriminate.
  assert (Hinv0 : tinv [] []).
  { split; [constructor|]. intros x Hx. discriminate. }
  destruct (tvisit_spec _ _ _ _ _ _ E Hinv0) as [[G I] [_ D]].
  exists (rk o). intros a ds b Hl Hb Hbm.
  assert (Ha : In a o).
  { apply I. apply D; [eapply lookup_in_keys; exact Hl | congruence]. }
  apply (rk_good _ G _ _ _ Ha Hl Hb Hbm).
Qed.
End Topo.

Lemma lookup_full_depmap : forall utils a,
  lookup a (full_depmap utils) =
  match lookup a utils with Some r => Some (rule_refs r) | None => None end.
Proof.
  intros utils a. induction utils as [|[k r] l IH]; [reflexivity|].
  cbn [full_depmap map lookup fst snd]. destruct (str_eqb a k); [reflexivity|]. exact IH.
Qed.

Lemma acyclic_rank : forall utils, fully_acyclic utils = true ->
  exists rank : str -> nat,
    forall a ur b ub, lookup a utils = Some ur -> In b (rule_refs ur) -> lookup b utils = Some ub ->
      rank b < rank a.
Proof.
  intros utils H. unfold fully_acyclic in H.
  destruct (get_order (full_depmap utils)) as [ord| |] eqn:E; try discriminate.
  destruct (topo_rank _ _ E) as [rank Hr]. exists rank.
  intros a ur b ub Ha Hb Hbl. apply (Hr a (rule_refs ur) b).
  - rewrite lookup_full_depmap, Ha. reflexivity.
  - exact Hb.
  - rewrite lookup_full_depmap, Hbl. discriminate.
Qed.

(* ================================================================== sizes *)

Fixpoint rsize (r : rule) : nat :=
  let ssize (s : stopby) : nat := match s with SRule r' => rsize r' | _ => 0 end in
  match r with
  | RNth _ _ _ (Some r') => S (rsize r')
  | RInside r' s _ | RHas r' s _ | RPrecedes r' s | RFollows r' s => S (rsize r' + ssize s)
  | RAll rs | RAny rs => S ((fix sl (l : list rule) : nat := match l with [] => 0 | x :: t => rsize x + sl t end) rs)
  | RNot r' => S (rsize r')
  | _ => 1
  end.

Definition rsizel (l : list rule) : nat := fold_right (fun x a => rsize x + a) 0 l.

Lemma rsize_all : forall rs, rsize (RAll rs) = S (rsizel rs).
Proof. reflexivity. Qed.
Lemma rsize_any : forall rs, rsize (RAny rs) = S (rsizel rs).
Proof. reflexivity. Qed.

Lemma rsizel_in : forall r rs, In r rs -> rsize r <= rsizel rs.
Proof.
  intros r rs. induction rs as [|x l IH]; intros H; [contradiction|].
  cbn [rsizel fold_right]. destruct H as [<-|H]; [lia|]. specialize (IH H). unfold rsizel in IH. lia.
Qed.

Lemma refs_in_flat : forall r rs id, In r rs -> In id (rule_refs r) -> In id (flat_map rule_refs rs).
Proof. intros r rs id H1 H2. apply in_flat_map. exists r. split; assumption. Qed.

Definition wt (root : tree) (l : loc) : nat := match get root l with Some t => size t | None => 0 end.

Lemma child_wt : forall root p l, In l (child_locs root p) -> wt root l < wt root p.
Proof.
  intros root p l H. unfold child_locs in H. unfold wt at 2.
  destruct (get root p) as [t|] eqn:E; [|contradiction].
  apply in_map_iff in H. destruct H as [i [<- Hi]]. apply in_seq in Hi.
  unfold wt. rewrite get_snoc, E.
  destruct (nth_error (children t) i) as [ch|] eqn:En.
  - pose proof (sizel_nth _ _ _ En). destruct t as [ti cs]. rewrite size_unfold. cbn [children] in *. lia.
  - apply nth_error_None in En. lia.
Qed.

(* ================================================================== enough fuel exists *)

Definition isf (x : eres) : Prop := match x with EFound _ => True | _ => False end.
Definition isi (x : eres) : Prop := match x with EIds _ => True | _ => False end.

Lemma eval_all_nil : forall f c n e, eval (S f) c (QAll [] n) e = (EFound (Some n), e).
Proof. reflexivity. Qed.
Lemma eval_all_cons : forall f c r rest n e,
  eval (S f) c (QAll (r :: rest) n) e =
  match eval f c (QRule r n) e with
  | (EFound (Some _), e') => eval f c (QAll rest n) e'
  | other => other
  end.
Proof. reflexivity. Qed.
Lemma eval_any_nil : forall f c n orig e, eval (S f) c (QAny [] n orig) e = (EFound None, orig).
Proof. reflexivity. Qed.
Lemma eval_any_cons : forall f c r rest n orig e,
  eval (S f) c (QAny (r :: rest) n orig) e =
  match eval f c (QRule r n) orig with
  | (EFound (Some _), e') => (EFound (Some n), e')
  | (EFound None, _) => eval f c (QAny rest n orig) orig
  | (o, _) => (o, orig)
  end.
Proof. reflexivity. Qed.
Lemma eval_find_nil : forall f c r fk stop e, eval (S f) c (QFind r fk stop []) e = (EFound None, e).
Proof. reflexivity. Qed.
Lemma eval_hasrule_nil : forall f c r sr e, eval (S f) c (QHasRule r sr []) e = (EFound None, e).
Proof. reflexivity. Qed.
Lemma eval_nthof_nil : forall f c r acc e, eval (S f) c (QNthOf r [] acc) e = (EIds (rev acc), e).
Proof. reflexivity. Qed.

Section Term.
Variable c : ctx.
Hypothesis PM : forall src p t e, pattern_match src p t e <> OutOfFuel.
Variable rank : str -> nat.
Hypothesis rank_ok : forall a ur b ub,
  lookup a (c_utils c) = Some ur -> In b (rule_refs ur) -> lookup b (c_utils c) = Some ub -> rank b < rank a.

Definition tq (q : ereq) : Prop :=
  exists N, forall fuel, N <= fuel -> forall e, isf (fst (eval fuel c q e)).
Definition tR (r : rule) : Prop := forall n, tq (QRule r n).

(* one step of case analysis on a sub-evaluation known to terminate *)
Ltac step H f :=
  match goal with
  | |- context [eval f c ?q ?e] =>
      let X := fresh "X" in
      pose proof (H f ltac:(lia) e) as X;
      destruct (eval f c q e) as [[[?m|]|?l|] ?e1];
      cbn [fst isf isi] in X |- *; try contradiction; try exact I
  end.

Lemma L_all : forall n rs, (forall r, In r rs -> tq (QRule r n)) -> tq (QAll rs n).
Proof.
  intros n rs. induction rs as [|a rs IH]; intros H.
  - exists 1. intros [|f] Hf e; [lia|]. rewrite eval_all_nil. exact I.
  - destruct (H a (or_introl eq_refl)) as [N1 H1].
    destruct (IH (fun r Hr => H r (or_intror Hr))) as [N2 H2].
    exists (S (max N1 N2)). intros [|f] Hf e; [lia|]. rewrite eval_all_cons.
    step H1 f. apply H2. lia.
Qed.

Lemma L_any : forall n rs, (forall r, In r rs -> tq (QRule r n)) ->
  exists N, forall fuel, N <= fuel -> forall orig e, isf (fst (eval fuel c (QAny rs n orig) e)).
Proof.
  intros n rs. induction rs as [|a rs IH]; intros H.
  - exists 1. intros [|f] Hf orig e; [lia|]. rewrite eval_any_nil. exact I.
  - destruct (H a (or_introl eq_refl)) as [N1 H1].
    destruct (IH (fun r Hr => H r (or_intror Hr))) as [N2 H2].
    exists (S (max N1 N2)). intros [|f] Hf orig e; [lia|]. rewrite eval_any_cons.
    step H1 f. apply H2. lia.
Qed.

Lemma L_nthof : forall r, tR r -> forall cands,
  exists N, forall fuel, N <= fuel -> forall acc e, isi (fst (eval fuel c (QNthOf r cands acc) e)).
Proof.
  intros r Hr cands. induction cands as [|cand rest IH].
  - exists 1. intros [|f] Hf acc e; [lia|]. rewrite eval_nthof_nil. exact I.
  - destruct (Hr cand) as [N1 H1]. destruct IH as [N2 H2].
    exists (S (max N1 N2)). intros [|f] Hf acc e; [lia|]. rewrite eval_nthof_cons.
    step H1 f; apply H2; lia.
Qed.

Lemma L_fresh : forall f r n N,
  (forall fuel, N <= fuel -> forall e, isf (fst (eval fuel c (QRule r n) e))) -> N <= f ->
  exists b, SemProofs.matches_fresh f c r n = Some b.
Proof.
  intros f r n N H Hf. unfold SemProofs.matches_fresh.
  pose proof (H f Hf empty_env) as X.
  destruct (eval f c (QRule r n) empty_env) as [[o|l|] e1]; cbn [fst isf] in X; try contradiction.
  eexists. reflexivity.
Qed.

Lemma L_find : forall r stop, tR r -> (forall sr, stop = Some sr -> tR sr) -> forall cands,
  exists N, forall fuel, N <= fuel -> forall fk e, isf (fst (eval fuel c (QFind r fk stop cands) e)).
Proof.
  intros r stop Hr Hs cands. induction cands as [|cand rest IH].
  - exists 1. intros [|f] Hf fk e; [lia|]. rewrite eval_find_nil. exact I.
  - destruct (Hr cand) as [N1 H1]. destruct IH as [N2 H2].
    assert (Hstop : exists N3, forall f, N3 <= f ->
              exists sh, match stop with None => Some false | Some sr => SemProofs.matches_fresh f c sr cand end = Some sh).
    { destruct stop as [sr|].
      - destruct (Hs sr eq_refl cand) as [N3 H3]. exists N3. intros f Hf. eapply L_fresh; eassumption.
      - exists 0. intros f _. eexists. reflexivity. }
    destruct Hstop as [N3 H3].
    exists (S (max N1 (max N2 N3))). intros [|f] Hf fk e; [lia|]. rewrite eval_find_cons.
    destruct (H3 f ltac:(lia)) as [sh ->].
    destruct fk as [|fl last_id].
    + cbn [fst snd]. step H1 f. destruct sh; [exact I|]. apply H2. lia.
    + cbv zeta. destruct (child_by_field (c_root c) cand fl) as [ch|].
      * destruct (N.eqb (loc_id c ch) last_id).
        -- step H1 f. destruct sh; [exact I|]. apply H2. lia.
        -- cbn [fst isf]. destruct sh; [exact I|]. apply H2. lia.
      * cbn [fst isf]. destruct sh; [exact I|]. apply H2. lia.
Qed.

Lemma L_hasrule : forall r sr, tR r -> tR sr -> forall s cands,
  (forall l, In l cands -> wt (c_root c) l < s) -> tq (QHasRule r sr cands).
Proof.
  intros r sr Hr Hsr. induction s as [|s IHs]; intros cands H.
  - destruct cands as [|x rest]; [|specialize (H x (or_introl eq_refl)); lia].
    exists 1. intros [|f] Hf e; [lia|]. rewrite eval_hasrule_nil. exact I.
  - induction cands as [|cand rest IHc].
    + exists 1. intros [|f] Hf e; [lia|]. rewrite eval_hasrule_nil. exact I.
    + destruct (IHc (fun l Hl => H l (or_intror Hl))) as [N1 H1].
      assert (Hch : forall l, In l (child_locs (c_root c) cand) -> wt (c_root c) l < s).
      { intros l Hl. apply child_wt in Hl. specialize (H cand (or_introl eq_refl)). lia. }
      destruct (IHs _ Hch) as [N2 H2].
      destruct (Hr cand) as [N3 H3]. destruct (Hsr cand) as [N4 H4].
      exists (S (max (max N1 N2) (max N3 N4))). intros [|f] Hf e; [lia|]. rewrite eval_hasrule_cons.
      step H3 f.
      destruct (L_fresh f sr cand N4 H4 ltac:(lia)) as [[|] ->].
      * apply H1. lia.
      * step H2 f. apply H1. lia.
Qed.

Definition refs_ok (k : nat) (r : rule) : Prop :=
  forall id ur, In id (rule_refs r) -> lookup id (c_utils c) = Some ur -> rank id < k.

Ltac triv1 := exists 1; intros [|?f] ?Hf ?e; [lia|].

Lemma main : forall k r, refs_ok k r -> tR r.
Proof.
  induction k as [k IHk] using lt_wf_ind.
  intros r. remember (rsize r) as s eqn:Es. revert r Es.
  induction s as [s IHs] using lt_wf_ind. intros r Es Hok n. subst s.
  assert (IHr : forall r', rsize r' < rsize r ->
                  (forall id, In id (rule_refs r') -> In id (rule_refs r)) -> tR r').
  { intros r' Hlt Hsub. apply (IHs (rsize r') Hlt r' eq_refl).
    intros id ur Hi Hl. apply (Hok id ur); auto. }
  clear IHs.
  destruct (node_at c n) as [t|] eqn:En.
  2:{ triv1. rewrite eval_none by assumption. exact I. }
  destruct r as [p|kd|hits|a b rv of_rule|sl sc el ec|r' stop fld|r' stop fld|r' stop|r' stop|rs|rs|r'|id].
  - (* RPattern *)
    triv1. cbn [eval]. rewrite En. pose proof (PM (c_src c) p t e) as X.
    destruct (pattern_match (c_src c) p t e); cbn [fst isf]; try exact I. congruence.
  - triv1. cbn [eval]. rewrite En. exact I.
  - triv1. cbn [eval]. rewrite En. exact I.
  - (* RNth *)
    destruct of_rule as [r'|].
    + assert (Hr' : tR r').
      { apply IHr; [cbn [rsize]; lia | intros id Hi; exact Hi]. }
      destruct (parent_loc n) as [pp|] eqn:Ep.
      * destruct (L_nthof r' Hr' (named_child_locs c pp)) as [N1 H1].
        destruct (Hr' n) as [N2 H2].
        exists (S (max N1 N2)). intros [|f] Hf e; [lia|].
        rewrite (eval_nth_some _ _ _ _ _ _ _ t) by assumption. rewrite Ep.
        pose proof (H1 f ltac:(lia) [] e) as X.
        destruct (eval f c (QNthOf r' (named_child_locs c pp) []) e) as [[o|l|] e1];
          cbn [fst isi] in X; try contradiction.
        destruct (index_of (tid t) (if rv then rev l else l) 0) as [i|]; [|exact I].
        destruct (is_matched a b (Z.of_nat i)) as [[|]|]; try exact I.
        step H2 f.
      * triv1. rewrite (eval_nth_some _ _ _ _ _ _ _ t) by assumption. rewrite Ep. exact I.
    + triv1. rewrite (eval_nth_none _ _ _ _ _ _ t) by assumption.
      destruct (parent_loc n) as [pp|]; [|exact I]. cbv zeta.
      destruct (index_of _ _ 0) as [i|]; [|exact I].
      destruct (is_matched a b (Z.of_nat i)) as [[|]|]; exact I.
  - (* RRange *)
    triv1. cbn [eval]. rewrite En.
    destruct (position (c_src c) (tstart t)) as [l1 c1]. destruct (position (c_src c) (tend t)) as [l2 c2].
    exact I.
  - (* RInside *)
    assert (Hr' : tR r').
    { apply IHr; [cbn [rsize]; lia | intros id Hi; cbn [rule_refs]; apply in_or_app; left; exact Hi]. }
    assert (Hs : forall sr, stop = SRule sr -> tR sr).
    { intros sr ->. apply IHr; [cbn [rsize]; lia | intros id Hi; cbn [rule_refs]; apply in_or_app; right; exact Hi]. }
    destruct stop as [| |sr].
    + destruct (parent_loc n) as [pp|] eqn:Ep.
      * destruct (L_find r' None Hr' ltac:(discriminate) [pp]) as [N1 H1].
        exists (S N1). intros [|f] Hf e; [lia|].
        rewrite (eval_inside _ _ _ _ _ _ t) by assumption. rewrite fst_relabel, Ep. apply H1. lia.
      * triv1. rewrite (eval_inside _ _ _ _ _ _ t) by assumption. rewrite fst_relabel, Ep. exact I.
    + destruct (L_find r' None Hr' ltac:(discriminate) (ancestors n)) as [N1 H1].
      exists (S N1). intros [|f] Hf e; [lia|].
      rewrite (eval_inside _ _ _ _ _ _ t) by assumption. rewrite fst_relabel. apply H1. lia.
    + specialize (Hs sr eq_refl).
      assert (Hs' : forall x, Some sr = Some x -> tR x) by (intros x Hx; injection Hx as <-; exact Hs).
      destruct (L_find r' (Some sr) Hr' Hs' (ancestors n)) as [N1 H1].
      exists (S N1). intros [|f] Hf e; [lia|].
      rewrite (eval_inside _ _ _ _ _ _ t) by assumption. rewrite fst_relabel. apply H1. lia.
  - (* RHas *)
    assert (Hr' : tR r').
    { apply IHr; [cbn [rsize]; lia | intros id Hi; cbn [rule_refs]; apply in_or_app; left; exact Hi]. }
    assert (Hs : forall sr, stop = SRule sr -> tR sr).
    { intros sr ->. apply IHr; [cbn [rsize]; lia | intros id Hi; cbn [rule_refs]; apply in_or_app; right; exact Hi]. }
    destruct fld as [fl|].
    + destruct (child_by_field (c_root c) n fl) as [nd|] eqn:Ec.
      2:{ triv1. rewrite (eval_has _ _ _ _ _ _ t) by assumption. rewrite fst_relabel, Ec. exact I. }
      destruct stop as [| |sr].
      * destruct (Hr' nd) as [N1 H1]. exists (S N1). intros [|f] Hf e; [lia|].
        rewrite (eval_has _ _ _ _ _ _ t) by assumption. rewrite fst_relabel, Ec. apply H1. lia.
      * destruct (L_find r' None Hr' ltac:(discriminate) (pre_locs (c_root c) nd)) as [N1 H1].
        exists (S N1). intros [|f] Hf e; [lia|].
        rewrite (eval_has _ _ _ _ _ _ t) by assumption. rewrite fst_relabel, Ec. apply H1. lia.
      * specialize (Hs sr eq_refl).
        destruct (Hr' nd) as [N1 H1]. destruct (Hs nd) as [N2 H2].
        destruct (L_hasrule r' sr Hr' Hs (S (wt (c_root c) nd)) (child_locs (c_root c) nd)) as [N3 H3].
        { intros l Hl. apply child_wt in Hl. lia. }
        exists (S (max N1 (max N2 N3))). intros [|f] Hf e; [lia|].
        rewrite (eval_has _ _ _ _ _ _ t) by assumption. rewrite fst_relabel, Ec.
        step H1 f.
        destruct (L_fresh f sr nd N2 H2 ltac:(lia)) as [[|] ->]; [exact I|].
        apply H3. lia.
    + destruct stop as [| |sr].
      * destruct (L_find r' None Hr' ltac:(discriminate) (child_locs (c_root c) n)) as [N1 H1].
        exists (S N1). intros [|f] Hf e; [lia|].
        rewrite (eval_has _ _ _ _ _ _ t) by assumption. rewrite fst_relabel. apply H1. lia.
      * destruct (L_find r' None Hr' ltac:(discriminate) (tl (pre_locs (c_root c) n))) as [N1 H1].
        exists (S N1). intros [|f] Hf e; [lia|].
        rewrite (eval_has _ _ _ _ _ _ t) by assumption. rewrite fst_relabel. apply H1. lia.
      * specialize (Hs sr eq_refl).
        destruct (L_hasrule r' sr Hr' Hs (S (wt (c_root c) n)) (child_locs (c_root c) n)) as [N3 H3].
        { intros l Hl. apply child_wt in Hl. lia. }
        exists (S N3). intros [|f] Hf e; [lia|].
        rewrite (eval_has _ _ _ _ _ _ t) by assumption. rewrite fst_relabel. apply H3. lia.
  - (* RPrecedes *)
    assert (Hr' : tR r').
    { apply IHr; [cbn [rsize]; lia | intros id Hi; cbn [rule_refs]; apply in_or_app; left; exact Hi]. }
    assert (Hs : forall sr, stop = SRule sr -> tR sr).
    { intros sr ->. apply IHr; [cbn [rsize]; lia | intros id Hi; cbn [rule_refs]; apply in_or_app; right; exact Hi]. }
    destruct stop as [| |sr].
    + destruct (next_loc (c_root c) n) as [m|] eqn:Ep.
      * destruct (L_find r' None Hr' ltac:(discriminate) [m]) as [N1 H1].
        exists (S N1). intros [|f] Hf e; [lia|].
        rewrite (eval_precedes _ _ _ _ _ t) by assumption. rewrite fst_relabel, Ep. apply H1. lia.
      * triv1. rewrite (eval_precedes _ _ _ _ _ t) by assumption. rewrite fst_relabel, Ep. exact I.
    + destruct (L_find r' None Hr' ltac:(discriminate) (next_all (c_root c) n)) as [N1 H1].
      exists (S N1). intros [|f] Hf e; [lia|].
      rewrite (eval_precedes _ _ _ _ _ t) by assumption. rewrite fst_relabel. apply H1. lia.
    + specialize (Hs sr eq_refl).
      assert (Hs' : forall x, Some sr = Some x -> tR x) by (intros x Hx; injection Hx as <-; exact Hs).
      destruct (L_find r' (Some sr) Hr' Hs' (next_all (c_root c) n)) as [N1 H1].
      exists (S N1). intros [|f] Hf e; [lia|].
      rewrite (eval_precedes _ _ _ _ _ t) by assumption. rewrite fst_relabel. apply H1. lia.
  - (* RFollows *)
    assert (Hr' : tR r').
    { apply IHr; [cbn [rsize]; lia | intros id Hi; cbn [rule_refs]; apply in_or_app; left; exact Hi]. }
    assert (Hs : forall sr, stop = SRule sr -> tR sr).
    { intros sr ->. apply IHr; [cbn [rsize]; lia | intros id Hi; cbn [rule_refs]; apply in_or_app; right; exact Hi]. }
    destruct stop as [| |sr].
    + destruct (prev_loc (c_root c) n) as [m|] eqn:Ep.
      * destruct (L_find r' None Hr' ltac:(discriminate) [m]) as [N1 H1].
        exists (S N1). intros [|f] Hf e; [lia|].
        rewrite (eval_follows _ _ _ _ _ t) by assumption. rewrite fst_relabel, Ep. apply H1. lia.
      * triv1. rewrite (eval_follows _ _ _ _ _ t) by assumption. rewrite fst_relabel, Ep. exact I.
    + destruct (L_find r' None Hr' ltac:(discriminate) (prev_all (c_root c) n)) as [N1 H1].
      exists (S N1). intros [|f] Hf e; [lia|].
      rewrite (eval_follows _ _ _ _ _ t) by assumption. rewrite fst_relabel. apply H1. lia.
    + specialize (Hs sr eq_refl).
      assert (Hs' : forall x, Some sr = Some x -> tR x) by (intros x Hx; injection Hx as <-; exact Hs).
      destruct (L_find r' (Some sr) Hr' Hs' (prev_all (c_root c) n)) as [N1 H1].
      exists (S N1). intros [|f] Hf e; [lia|].
      rewrite (eval_follows _ _ _ _ _ t) by assumption. rewrite fst_relabel. apply H1. lia.
  - (* RAll *)
    assert (Hrs : forall r, In r rs -> tq (QRule r n)).
    { intros r Hr. apply IHr.
      - rewrite rsize_all. pose proof (rsizel_in _ _ Hr). lia.
      - intros id Hi. cbn [rule_refs]. eapply refs_in_flat; eassumption. }
    destruct (L_all n rs Hrs) as [N1 H1].
    exists (S N1). intros [|f] Hf e; [lia|].
    rewrite (eval_all _ _ _ _ t) by assumption. step H1 f.
  - (* RAny *)
    assert (Hrs : forall r, In r rs -> tq (QRule r n)).
    { intros r Hr. apply IHr.
      - rewrite rsize_any. pose proof (rsizel_in _ _ Hr). lia.
      - intros id Hi. cbn [rule_refs]. eapply refs_in_flat; eassumption. }
    destruct (L_any n rs Hrs) as [N1 H1].
    exists (S N1). intros [|f] Hf e; [lia|].
    rewrite (eval_any _ _ _ _ t) by assumption. apply H1. lia.
  - (* RNot *)
    assert (Hr' : tR r').
    { apply IHr; [cbn [rsize]; lia | intros id Hi; exact Hi]. }
    destruct (Hr' n) as [N1 H1].
    exists (S N1). intros [|f] Hf e; [lia|].
    rewrite (eval_not _ _ _ _ t) by assumption. step H1 f.
  - (* RMatches *)
    destruct (lookup id (c_utils c)) as [ur|] eqn:El.
    + assert (Hlt : rank id < k). { apply (Hok id ur); [left; reflexivity | exact El]. }
      assert (Hur : tR ur).
      { apply (IHk (rank id) Hlt). intros id' ur' Hi Hl. eapply rank_ok; eassumption. }
      destruct (Hur n) as [N1 H1].
      exists (S N1). intros [|f] Hf e; [lia|].
      rewrite (eval_matches _ _ _ _ t) by assumption. rewrite El. apply H1. lia.
    + triv1. rewrite (eval_matches _ _ _ _ t) by assumption. rewrite El. exact I.
Qed.

Lemma refs_ok_exists : forall r, exists k, refs_ok k r.
Proof.
  intros r. exists (S (list_max (map rank (rule_refs r)))). intros id ur Hi _.
  pose proof (proj1 (list_max_le (map rank (rule_refs r)) _) (le_n _)) as HF.
  rewrite Forall_forall in HF. specialize (HF (rank id) (in_map rank _ _ Hi)). lia.
Qed.

Lemma terminates : forall r n, tq (QRule r n).
Proof. intros r n. destruct (refs_ok_exists r) as [k Hk]. exact (main k r Hk n). Qed.
End Term.

Lemma C11_eval_terminates : C11_eval_terminates_stmt.
Proof.
  intros PM c r n e Hac.
  destruct (acyclic_rank _ Hac) as [rank Hr].
  destruct (terminates c PM rank Hr r n) as [N HN].
  exists N. intros fuel Hf Hc. specialize (HN fuel Hf e). rewrite Hc in HN. exact HN.
Qed.
Print Assumptions C11_eval_terminates.

(* ================================================================== the loader's check is weaker *)

Definition cyc_ni (i : N) : ninfo :=
  {| nid := i; nkind := 1; nnamed := true; ncomment := false; nmissing := false; nfld := 0; ns := 0; ne := 1 |}.
Definition cyc_ctx : ctx :=
  {| c_src := [97]%N; c_root := T (cyc_ni 0) [T (cyc_ni 1) []]; c_utils := rel_cycle_utils |}.

Definition cyc_A : str := [65]%N.
Definition cyc_B : str := [66]%N.
Definition cq1 : ereq := QRule (RMatches cyc_A) [0].
Definition cq2 : ereq := QRule (RInside (RMatches cyc_B) SEnd None) [0].
Definition cq3 : ereq := QFind (RMatches cyc_B) FPlain None [[]].
Definition cq4 : ereq := QRule (RMatches cyc_B) [].
Definition cq5 : ereq := QRule (RHas (RMatches cyc_A) SEnd None) [].
Definition cq6 : ereq := QFind (RMatches cyc_A) FPlain None [[0]].

Lemma cyc_s1 : forall f e, eval (S f) cyc_ctx cq1 e = eval f cyc_ctx cq2 e.
Proof. reflexivity. Qed.
Lemma cyc_s2 : forall f e, eval (S f) cyc_ctx cq2 e = relabel cyc_ctx (eval f cyc_ctx cq3 e).
Proof. reflexivity. Qed.
Lemma cyc_s3 : forall f e, fst (eval f cyc_ctx cq4 e) = EFuel -> fst (eval (S f) cyc_ctx cq3 e) = EFuel.
Proof.
  intros f e H. unfold cq3. rewrite eval_find_cons. unfold cq4 in H. cbv beta iota zeta.
  destruct (eval f cyc_ctx (QRule (RMatches cyc_B) []) e) as [[[m|]|l|] e1]; cbn [fst] in H |- *;
    try discriminate; reflexivity.
Qed.
Lemma cyc_s4 : forall f e, eval (S f) cyc_ctx cq4 e = eval f cyc_ctx cq5 e.
Proof. reflexivity. Qed.
Lemma cyc_s5 : forall f e, eval (S f) cyc_ctx cq5 e = relabel cyc_ctx (eval f cyc_ctx cq6 e).
Proof. reflexivity. Qed.
Lemma cyc_s6 : forall f e, fst (eval f cyc_ctx cq1 e) = EFuel -> fst (eval (S f) cyc_ctx cq6 e) = EFuel.
Proof.
  intros f e H. unfold cq6. rewrite eval_find_cons. unfold cq1 in H. cbv beta iota zeta.
  destruct (eval f cyc_ctx (QRule (RMatches cyc_A) [0]) e) as [[[m|]|l|] e1]; cbn [fst] in H |- *;
    try discriminate; reflexivity.
Qed.

Lemma cyc_loop : forall f,
  (forall e, fst (eval f cyc_ctx cq1 e) = EFuel) /\
  (forall e, fst (eval f cyc_ctx cq2 e) = EFuel) /\
  (forall e, fst (eval f cyc_ctx cq3 e) = EFuel) /\
  (forall e, fst (eval f cyc_ctx cq4 e) = EFuel) /\
  (forall e, fst (eval f cyc_ctx cq5 e) = EFuel) /\
  (forall e, fst (eval f cyc_ctx cq6 e) = EFuel).
Proof.
  induction f as [|f (H1 & H2 & H3 & H4 & H5 & H6)].
  - repeat split; intros e; reflexivity.
  - repeat split; intros e.
    + rewrite cyc_s1. apply H2.
    + rewrite cyc_s2, fst_relabel. apply H3.
    + apply cyc_s3. apply H4.
    + rewrite cyc_s4. apply H5.
    + rewrite cyc_s5, fst_relabel. apply H6.
    + apply cyc_s6. apply H1.
Qed.

Lemma C11_eval_terminates_refuted : C11_eval_terminates_refuted_stmt.
Proof.
  exists cyc_ctx, (RMatches cyc_A), [0]. split; [reflexivity|]. split.
  - eexists. vm_compute. reflexivity.
  - intros fuel. exact (proj1 (cyc_loop fuel) empty_env).
Qed.
Print Assumptions C11_eval_terminates_refuted.

(* the witness is rejected by the stronger check, as it must be *)
Lemma rel_cycle_not_fully_acyclic : fully_acyclic rel_cycle_utils = false.
Proof. vm_compute. reflexivity. Qed.
