(* Model of crates/config/src/combined.rs: CombinedScan::new (rules sorted by (has fix, id), grouped
   by potential kind), CombinedScan::scan (suppression collection pass, matching pass, used /
   unused suppressions) and parse_suppression_set.  A rule enters as its id, whether it has a fix,
   its potential kinds and the set of nodes its matcher matches when tried on each node
   individually ([sr_hits]) — "scan = every rule on every node" is exactly what is to be shown. *)
From Coq Require Import List NArith ZArith Bool Arith.
From AG Require Import Base.Val Base.Sort Tree.Tree Rule.Rule Rule.Traversal.
Import ListNotations.

(* ---- byte-string helpers (str::contains / trim / split_once / split) ---- *)
Fixpoint prefixb (p s : str) : bool :=
  match p, s with
  | [], _ => true
  | a :: p', b :: s' => N.eqb a b && prefixb p' s'
  | _ :: _, [] => false
  end.
(* first occurrence of [pat] in [s]: (before, after) *)
Fixpoint split_once (pat s : str) : option (str * str) :=
  if prefixb pat s then Some ([], skipn (length pat) s)
  else match s with
       | [] => None
       | b :: r => match split_once pat r with
                   | Some (x, y) => Some (b :: x, y)
                   | None => None
                   end
       end.
Definition containsb (pat s : str) : bool := match split_once pat s with Some _ => true | None => false end.
(* ASCII white space (str::trim also strips the other Unicode White_Space characters: not modelled) *)
Definition is_ws (b : N) : bool := N.eqb b 32 || (N.leb 9 b && N.leb b 13).
Fixpoint trim_start (s : str) : str :=
  match s with b :: r => if is_ws b then trim_start r else s | [] => [] end.
Definition trim (s : str) : str := rev (trim_start (rev (trim_start s))).
Fixpoint split_on (sep : N) (s cur : str) : list str :=
  match s with
  | [] => [cur]
  | b :: r => if N.eqb b sep then cur :: split_on sep r [] else split_on sep r (cur ++ [b])
  end.

Definition IGNORE_TEXT : str := [97;115;116;45;103;114;101;112;45;105;103;110;111;114;101]%N.   (* "ast-grep-ignore" *)

(* parse_suppression_set: None = suppress all *)
Definition parse_suppression_set (text : str) : option (list str) :=
  match split_once IGNORE_TEXT (trim text) with
  | None => None
  | Some (_, after) =>
      let after := trim after in
      match after with
      | [] => None
      | _ => match split_once [58%N] after with          (* ':' *)
             | None => None
             | Some (_, rules) => Some (map trim (split_on 44 rules []))   (* ',' *)
             end
      end
  end.

(* ---- rules ---- *)
Record srule := { sr_id : str; sr_fix : bool; sr_kinds : option (list N); sr_hits : list N }.

(* sort_unstable_by_key(|r| (r.fix.is_some(), &r.id)); ids are assumed distinct *)
Definition rule_leb (a b : srule) : bool :=
  match sr_fix a, sr_fix b with
  | false, true => true
  | true, false => false
  | _, _ => str_leb (sr_id a) (sr_id b)
  end.
Fixpoint insert_rule (r : srule) (l : list srule) : list srule :=
  match l with
  | [] => [r]
  | x :: t => if rule_leb r x then r :: l else x :: insert_rule r t
  end.
Definition sort_rules (l : list srule) : list srule := fold_right insert_rule [] l.

(* kind_rule_mapping[kind]: the sorted rules whose potential kinds contain it; a rule without
   potential kinds is skipped ("must have kind") *)
Definition rules_for_kind (rules : list srule) (k : N) : list srule :=
  filter (fun r => match sr_kinds r with Some ks => existsb (N.eqb k) ks | None => false end) rules.

(* ---- suppressions ---- *)
Record supp := { su_set : option (list str); su_node : N }.
Definition table := list (N * list supp).      (* governed line -> comments, in collection order *)

Fixpoint table_push (line : N) (x : supp) (t : table) : table :=
  match t with
  | [] => [(line, [x])]
  | (l, xs) :: r => if N.eqb l line then (l, xs ++ [x]) :: r else (l, xs) :: table_push line x r
  end.
Fixpoint table_get (line : N) (t : table) : list supp :=
  match t with
  | [] => []
  | (l, xs) :: r => if N.eqb l line then xs else table_get line r
  end.

Definition start_line (src : str) (t : tree) : N := fst (position src (tstart t)).

(* Suppressions::collect on one node *)
Definition collect_one (src : str) (root : tree) (tb : table) (l : loc) : table :=
  match get root l with
  | None => tb
  | Some t =>
      if is_comment t && containsb IGNORE_TEXT (text_of src t) then
        let line := start_line src t in
        let own_line :=
          match prev_loc root l with
          | Some pl => match get root pl with
                       | Some pt => negb (N.eqb (start_line src pt) line)
                       | None => true
                       end
          | None => true
          end in
        let key := if own_line then (line + 1)%N else line in
        table_push key {| su_set := parse_suppression_set (text_of src t); su_node := tid t |} tb
      else tb
  end.

Definition silences (rule_id : str) (s : supp) : bool :=
  match su_set s with
  | None => true
  | Some ids => existsb (str_eqb rule_id) ids
  end.

Record scan_out := {
  so_found : list (str * N);        (* (rule id, node id) of every reported finding, in discovery order *)
  so_used : list N                  (* suppression comments that silenced something *)
}.

(* the matching pass on one node *)
Definition scan_node (src : str) (root : tree) (rules : list srule) (tb : table) (acc : scan_out) (l : loc) : scan_out :=
  match get root l with
  | None => acc
  | Some t =>
      let sups := table_get (start_line src t) tb in
      fold_left (fun (a : scan_out) (r : srule) =>
                   if existsb (N.eqb (tid t)) (sr_hits r) then
                     let hit := filter (silences (sr_id r)) sups in
                     match hit with
                     | [] => {| so_found := so_found a ++ [(sr_id r, tid t)]; so_used := so_used a |}
                     | _ => {| so_found := so_found a; so_used := so_used a ++ map su_node hit |}
                     end
                   else a)
                (rules_for_kind rules (kind t)) acc
  end.

Record scan_res := {
  res_found : list (str * N);
  res_unused : list N               (* unused suppression comments, in document order *)
}.

Definition scan (src : str) (root : tree) (rules0 : list srule) : scan_res :=
  let rules := sort_rules rules0 in
  let order := dfs root in
  let tb := fold_left (collect_one src root) order [] in
  let out := fold_left (scan_node src root rules tb) order {| so_found := []; so_used := [] |} in
  let all_sups := flat_map (fun e => map su_node (snd e)) tb in
  let unused := filter (fun id => negb (existsb (N.eqb id) (so_used out))) all_sups in
  (* reported sorted by start offset = document order of the comment nodes *)
  let unused_doc := filter (fun id => existsb (N.eqb id) unused)
                           (map (fun l => match get root l with Some t => tid t | None => 0%N end) order) in
  {| res_found := so_found out; res_unused := unused_doc |}.

(* the findings of one rule *)
Definition found_of (rid : str) (l : list (str * N)) : list N :=
  map snd (filter (fun p => str_eqb (fst p) rid) l).
