(* C01 — kind dispatch is sound: whatever a rule matches has one of its potential kinds. *)
From Coq Require Import List NArith ZArith Bool Arith Lia.
From AG Require Import Base.Val Base.Sort Str.MetaVar Tree.Tree Match.MatchNode Rule.Rule Rule.Kinds
  Rule.Eval Rule.KindsSpec.
Import ListNotations.

(* ---------- membership in kind sets ---------- *)
Lemma mem_In : forall (k : N) (l : list N), existsb (N.eqb k) l = true <-> In k l.
Proof.
  intros k l. rewrite existsb_exists. split.
  - intros [x [Hin Heq]]. apply N.eqb_eq in Heq. subst. exact Hin.
  - intros Hin. exists k. split; [exact Hin|apply N.eqb_refl].
Qed.

Lemma mem_inter : forall k a b,
  existsb (N.eqb k) a = true -> existsb (N.eqb k) b = true -> existsb (N.eqb k) (inter a b) = true.
Proof.
  intros k a b Ha Hb. apply mem_In. unfold inter. apply filter_In. split.
  - apply mem_In. exact Ha.
  - exact Hb.
Qed.

Lemma mem_union_l : forall k a b,
  existsb (N.eqb k) a = true -> existsb (N.eqb k) (union a b) = true.
Proof.
  intros k a b Ha. apply mem_In. unfold union. apply in_or_app. left. apply mem_In. exact Ha.
Qed.

Lemma mem_union_r : forall k a b,
  existsb (N.eqb k) b = true -> existsb (N.eqb k) (union a b) = true.
Proof.
  intros k a b Hb. destruct (existsb (N.eqb k) a) eqn:Ha.
  - apply mem_union_l. exact Ha.
  - apply mem_In. unfold union. apply in_or_app. right. apply filter_In. split.
    + apply mem_In. exact Hb.
    + rewrite Ha. reflexivity.
Qed.

(* ---------- the two folds of pk ---------- *)
Definition all_step (f : nat) (utils : list (str * rule)) (acc : option (list N)) (x : rule) : option (list N) :=
  match pk f utils x with
  | None => acc
  | Some ks => match acc with Some a => Some (inter a ks) | None => Some ks end
  end.

Definition any_step (f : nat) (utils : list (str * rule)) (acc : option (list N)) (x : rule) : option (list N) :=
  match acc, pk f utils x with
  | Some a, Some ks => Some (union a ks)
  | _, _ => None
  end.

Lemma all_fold : forall f utils k rs acc,
  (forall x, In x rs -> kind_in k (pk f utils x) = true) ->
  kind_in k acc = true ->
  kind_in k (fold_left (all_step f utils) rs acc) = true.
Proof.
  intros f utils k rs. induction rs as [|y rest IHr]; intros acc Hall Hacc.
  - exact Hacc.
  - cbn [fold_left]. apply IHr.
    + intros x Hx. apply Hall. right. exact Hx.
    + assert (Hy : kind_in k (pk f utils y) = true) by (apply Hall; left; reflexivity).
      unfold all_step. destruct (pk f utils y) as [ks|] eqn:Epk.
      * destruct acc as [a|].
        -- cbn [kind_in] in *. apply mem_inter; assumption.
        -- exact Hy.
      * exact Hacc.
Qed.

Lemma any_fold : forall f utils k rs acc,
  kind_in k acc = true \/ (exists x, In x rs /\ kind_in k (pk f utils x) = true) ->
  kind_in k (fold_left (any_step f utils) rs acc) = true.
Proof.
  intros f utils k rs. induction rs as [|y rest IHr]; intros acc H.
  - cbn [fold_left]. destruct H as [H|[x [[] _]]]. exact H.
  - cbn [fold_left]. apply IHr.
    destruct H as [Hacc|[x [[Hx|Hx] Hk]]].
    + left. unfold any_step. destruct acc as [a|]; [|reflexivity].
      destruct (pk f utils y) as [ks|]; [|reflexivity].
      cbn [kind_in] in *. apply mem_union_l. exact Hacc.
    + subst x. left. unfold any_step. destruct acc as [a|]; [|reflexivity].
      destruct (pk f utils y) as [ks|]; [|reflexivity].
      cbn [kind_in] in *. apply mem_union_r. exact Hk.
    + right. exists x. split; assumption.
Qed.

(* ---------- patterns ---------- *)
Lemma terminal_matched_kinds : forall s src nm text k c,
  st_match_terminal s src nm text k c = MatchedBoth -> kinds_matching k (kind c) = true.
Proof.
  intros s src nm text k c H. unfold st_match_terminal, skip_comment_or_unnamed in H.
  destruct (kinds_matching k (kind c)); [reflexivity|].
  cbn [andb] in H.
  destruct s, nm, (named c), (is_comment c); cbn in H; discriminate.
Qed.

Definition root_kind_ok (g : pnode) (c : tree) : Prop :=
  match g with
  | PTerm _ _ k => kinds_matching k (kind c) = true
  | PInt k _ => kinds_matching k (kind c) = true
  | PMeta _ => True
  end.

Lemma run_node_matched_kinds : forall fuel s src g c a a',
  run fuel s src (RNode g c) a = (ROne MatchedBoth, a') -> root_kind_ok g c.
Proof.
  intros fuel s src g c a a' H. destruct fuel as [|f]; [cbn [run] in H; discriminate|].
  cbn [run] in H. destruct g as [mv|text nm k|k gcs]; cbn [root_kind_ok].
  - exact I.
  - destruct (st_match_terminal s src nm text k c) eqn:E; try discriminate.
    apply terminal_matched_kinds in E. exact E.
  - destruct (kinds_matching k (kind c)); [reflexivity|discriminate].
Qed.

Lemma pattern_match_run : forall src p t e e',
  pattern_match src p t e = Matched e' ->
  (match p_root_kind p with Some k => N.eqb (kind t) k = true | None => True end) /\
  exists a', run (match_fuel (p_node p) t) (p_strict p) src (RNode (p_node p) t) (AEnv e) = (ROne MatchedBoth, a').
Proof.
  intros src p t e e' H. unfold pattern_match in H.
  destruct (p_root_kind p) as [k|].
  - destruct (N.eqb (kind t) k); cbn [negb] in H; [|discriminate].
    split; [reflexivity|].
    destruct (run (match_fuel (p_node p) t) (p_strict p) src (RNode (p_node p) t) (AEnv e)) as [rs a] eqn:E.
    destruct rs as [o|b|]; try discriminate.
    destruct o; try discriminate. exists a. reflexivity.
  - split; [exact I|].
    destruct (run (match_fuel (p_node p) t) (p_strict p) src (RNode (p_node p) t) (AEnv e)) as [rs a] eqn:E.
    destruct rs as [o|b|]; try discriminate.
    destruct o; try discriminate. exists a. reflexivity.
Qed.

Lemma pattern_kinds_sound : forall src p t e e',
  pattern_match src p t e = Matched e' ->
  kind_in (kind t) (pk_pattern p) = true.
Proof.
  intros src p t e e' H.
  apply pattern_match_run in H as [Hroot [a' Hrun]].
  apply run_node_matched_kinds in Hrun.
  unfold pk_pattern.
  destruct (p_node p) as [mv|text nm k|k gcs]; cbn [root_kind_ok] in Hrun.
  - destruct (p_root_kind p) as [k|]; cbn [option_map kind_in]; [|reflexivity].
    cbn [existsb]. rewrite Hroot. reflexivity.
  - destruct (is_error_kind k) eqn:Eerr; [reflexivity|].
    unfold kinds_matching in Hrun. rewrite Eerr, orb_false_r in Hrun.
    cbn [kind_in existsb]. apply N.eqb_eq in Hrun. subst k. rewrite N.eqb_refl. reflexivity.
  - destruct (is_error_kind k) eqn:Eerr; [reflexivity|].
    unfold kinds_matching in Hrun. rewrite Eerr, orb_false_r in Hrun.
    cbn [kind_in existsb]. apply N.eqb_eq in Hrun. subst k. rewrite N.eqb_refl. reflexivity.
Qed.

(* ---------- the generalised invariant, per request kind ---------- *)
Definition kinds_inv (c : ctx) (q : ereq) : Prop :=
  match q with
  | QRule r n =>
      forall t, node_at c n = Some t ->
      forall fuel2, kind_in (kind t) (pk fuel2 (c_utils c) r) = true
  | QAll rs n =>
      forall t, node_at c n = Some t ->
      forall x, In x rs -> forall fuel2, kind_in (kind t) (pk fuel2 (c_utils c) x) = true
  | QAny rs n _ =>
      forall t, node_at c n = Some t ->
      exists x, In x rs /\ forall fuel2, kind_in (kind t) (pk fuel2 (c_utils c) x) = true
  | _ => True
  end.

(* innermost scrutinee of a tower of matches *)
Ltac scrut T :=
  lazymatch T with
  | match ?X with _ => _ end => scrut X
  | _ => T
  end.

Ltac step :=
  lazymatch goal with
  | |- (?L = _) -> _ =>
    lazymatch L with
    | match ?X with _ => _ end =>
        let Y := scrut X in
        destruct Y eqn:?; cbn [negb]
    end
  end.
Ltac steps H := revert H; repeat step; intro H.

Lemma pk_all_unfold : forall f utils rs,
  pk (S f) utils (RAll rs) = fold_left (all_step f utils) rs None.
Proof. reflexivity. Qed.

Lemma pk_any_unfold : forall f utils rs,
  pk (S f) utils (RAny rs) = fold_left (any_step f utils) rs (Some []).
Proof. reflexivity. Qed.

Lemma eval_kinds : forall fuel c q e m e',
  eval fuel c q e = (EFound (Some m), e') -> kinds_inv c q.
Proof.
  induction fuel as [|f IH]; intros c q e m e' H.
  - cbn [eval] in H. discriminate.
  - destruct q as [r n|rs n|rs n orig|r fk stop cands|r sr cands|r cands acc];
      cbn [kinds_inv]; try exact I.
    + (* QRule *)
      intros t Ht fuel2.
      destruct r as [p|k|hits|a b rv o|sl sc el ec|r' s fld|r' s fld|r' s|r' s|rs|rs|r'|id];
        try (destruct fuel2; reflexivity).
      * (* RPattern *)
        cbn [eval] in H. rewrite Ht in H.
        destruct (pattern_match (c_src c) p t e) eqn:E; try discriminate.
        destruct fuel2 as [|f2]; [reflexivity|]. cbn [pk].
        eapply pattern_kinds_sound; eassumption.
      * (* RKind *)
        cbn [eval] in H. rewrite Ht in H.
        destruct fuel2 as [|f2]; [reflexivity|]. cbn [pk kind_in existsb].
        destruct (N.eqb (kind t) k); [reflexivity|discriminate].
      * (* RNth *)
        destruct o as [r'|]; [|destruct fuel2; reflexivity].
        destruct fuel2 as [|f2]; [reflexivity|]. cbn [pk].
        cbn [eval] in H. rewrite Ht in H.
        steps H; try discriminate.
        match goal with
        | E : eval f c (QRule r' n) _ = (EFound (Some _), _) |- _ =>
            exact (IH c _ _ _ _ E t Ht f2)
        end.
      * (* RAll *)
        destruct fuel2 as [|f2]; [reflexivity|]. rewrite pk_all_unfold.
        cbn [eval] in H. rewrite Ht in H.
        steps H; try discriminate.
        match goal with
        | E : eval f c (QAll rs n) _ = (EFound (Some _), _) |- _ =>
            pose proof (IH c _ _ _ _ E t Ht) as Hall
        end.
        apply all_fold; [|reflexivity].
        intros x Hx. apply Hall. exact Hx.
      * (* RAny *)
        destruct fuel2 as [|f2]; [reflexivity|]. rewrite pk_any_unfold.
        cbn [eval] in H. rewrite Ht in H.
        destruct (IH c _ _ _ _ H t Ht) as [x [Hx Hk]].
        apply any_fold. right. exists x. split; [exact Hx|apply Hk].
      * (* RMatches *)
        destruct fuel2 as [|f2]; [reflexivity|]. cbn [pk].
        cbn [eval] in H. rewrite Ht in H.
        destruct (lookup id (c_utils c)) as [ur|] eqn:El; [|discriminate].
        exact (IH c _ _ _ _ H t Ht f2).
    + (* QAll *)
      intros t Ht x Hx fuel2.
      destruct rs as [|r rest]; [destruct Hx|].
      cbn [eval] in H. steps H; try discriminate.
      destruct Hx as [Hx|Hx].
      * subst x.
        match goal with
        | E : eval f c (QRule r n) _ = (EFound (Some _), _) |- _ =>
            exact (IH c _ _ _ _ E t Ht fuel2)
        end.
      * exact (IH c _ _ _ _ H t Ht x Hx fuel2).
    + (* QAny *)
      intros t Ht.
      destruct rs as [|r rest]; [cbn [eval] in H; discriminate|].
      cbn [eval] in H. steps H; try discriminate.
      * exists r. split; [left; reflexivity|].
        match goal with
        | E : eval f c (QRule r n) _ = (EFound (Some _), _) |- _ =>
            exact (IH c _ _ _ _ E t Ht)
        end.
      * destruct (IH c _ _ _ _ H t Ht) as [x [Hx Hk]].
        exists x. split; [right; exact Hx|exact Hk].
Qed.

(* ---------- the stated theorems ---------- *)
Lemma C01_kinds_sound : C01_kinds_sound_stmt.
Proof.
  unfold C01_kinds_sound_stmt. intros fuel fuel2 c r n e m e' t H Ht.
  exact (eval_kinds fuel c _ _ _ _ H t Ht fuel2).
Qed.
Print Assumptions C01_kinds_sound.

Lemma C01_core_kinds : C01_core_kinds_stmt.
Proof.
  unfold C01_core_kinds_stmt, core_kinds. intros c r n m e' t H Ht.
  exact (C01_kinds_sound _ (eval_fuel c) _ _ _ _ _ _ _ H Ht).
Qed.
Print Assumptions C01_core_kinds.
