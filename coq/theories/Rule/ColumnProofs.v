(* C19 / C16 — the column reported for an offset is the number of CHARACTERS between the start of its line and
   the offset, for every text whose line is the UTF-8 encoding of scalar values (1 to 4 bytes each). *)
From Coq Require Import List NArith ZArith Bool Arith Lia.
From AG Require Import Base.Val Rule.Rule Rule.Traversal Rule.TraversalSpec Rule.TraversalProofs Rewrite.Splice Str.Utf8.
Import ListNotations.

Definition no_nl (cps : list N) : bool := forallb (fun c => negb (N.eqb c 10)) cps.

(* on the first line *)
Theorem column_counts_characters_first_line : forall cps post,
  forallb scalar cps = true -> no_nl cps = true ->
  get_char_column (encode cps ++ post) (length (encode cps)) = N.of_nat (length cps).
Proof.
  intros cps post Hs Hn.
  destruct (C19_positions (encode cps ++ post) (length (encode cps))) as [H _]. rewrite H.
  rewrite firstn_app_exact. rewrite (after_last_nl_no_nl _ [] (encode_no_nl cps Hs Hn)). cbn [app].
  apply count_chars_encode. exact Hs.
Qed.

(* on any later line: [pre] is everything before the line (any bytes), the line starts after a newline *)
Theorem column_counts_characters : forall pre cps post,
  forallb scalar cps = true -> no_nl cps = true ->
  get_char_column (pre ++ 10%N :: encode cps ++ post) (length (pre ++ 10%N :: encode cps)) = N.of_nat (length cps).
Proof.
  intros pre cps post Hs Hn.
  destruct (C19_positions (pre ++ 10%N :: encode cps ++ post) (length (pre ++ 10%N :: encode cps))) as [H _]. rewrite H.
  replace (pre ++ 10%N :: encode cps ++ post) with ((pre ++ 10%N :: encode cps) ++ post)
    by (rewrite <- app_assoc; reflexivity).
  rewrite firstn_app_exact. rewrite after_last_nl_app_nl.
  rewrite (after_last_nl_no_nl _ [] (encode_no_nl cps Hs Hn)). cbn [app].
  apply count_chars_encode. exact Hs.
Qed.

(* and the line number is the number of newlines before the offset, whatever the bytes are *)
Theorem line_counts_newlines : forall src off,
  fst (position src (N.of_nat off)) = count_nl (firstn off src).
Proof. intros src off. destruct (C19_positions src off) as [_ H]. rewrite H. reflexivity. Qed.
