(* C01 (scan part) / C14 — statements about CombinedScan (proved in Rule/ScanProofs.v, restated
   verbatim in Props/C01.v and Props/C14.v). *)
From Coq Require Import List NArith ZArith Bool Arith.
From AG Require Import Base.Val Base.Sort Tree.Tree Tree.Wf Rule.Rule Rule.Traversal Rule.Scan.
Import ListNotations.

(* kind dispatch is sound for a rule: whatever it matches has one of its potential kinds *)
Definition kinds_sound (root : tree) (r : srule) : Prop :=
  forall t, In t (preorder root) -> In (tid t) (sr_hits r) ->
    exists ks, sr_kinds r = Some ks /\ existsb (N.eqb (kind t)) ks = true.

Definition hit (r : srule) (t : tree) : bool := existsb (N.eqb (tid t)) (sr_hits r).

(* ---- the declarative side of C14: which comments govern which line ---- *)
Definition is_supp_comment (src : str) (t : tree) : bool :=
  is_comment t && containsb IGNORE_TEXT (text_of src t).

(* the comment at location l stands on its own line iff it has no previous sibling or the previous
   sibling starts on another line *)
Definition own_line (src : str) (root : tree) (l : loc) : bool :=
  match get root l with
  | None => true
  | Some t =>
      match prev_loc root l with
      | Some pl => match get root pl with
                   | Some pt => negb (N.eqb (start_line src pt) (start_line src t))
                   | None => true
                   end
      | None => true
      end
  end.
Definition governed_line (src : str) (root : tree) (l : loc) : N :=
  match get root l with
  | None => 0%N
  | Some t => if own_line src root l then (start_line src t + 1)%N else start_line src t
  end.

(* some suppression comment governs the line where t starts and lists the rule id or lists nothing *)
Definition silenced (src : str) (root : tree) (rid : str) (t : tree) : bool :=
  existsb (fun l =>
             match get root l with
             | Some c => is_supp_comment src c
                         && N.eqb (governed_line src root l) (start_line src t)
                         && silences rid {| su_set := parse_suppression_set (text_of src c); su_node := tid c |}
             | None => false
             end) (pre_locs_t root []).

(* C01 + C14: the findings attributed to a rule are exactly the nodes it matches individually, in
   document order, minus the silenced ones — whatever other rules are scanned together with it *)
Definition C01_scan_stmt : Prop :=
  forall src root rules r,
    ids_unique root -> NoDup (map sr_id rules) -> In r rules -> kinds_sound root r ->
    found_of (sr_id r) (res_found (scan src root rules)) =
    map tid (filter (fun t => hit r t && negb (silenced src root (sr_id r) t)) (preorder root)).

(* corollary shape of C14: a finding is suppressed iff a governing comment silences it *)
Definition C14_iff_stmt : Prop :=
  forall src root rules r t,
    ids_unique root -> NoDup (map sr_id rules) -> In r rules -> kinds_sound root r ->
    In t (preorder root) -> hit r t = true ->
    (In (sr_id r, tid t) (res_found (scan src root rules)) <-> silenced src root (sr_id r) t = false).

(* a suppression comment is reported unused exactly when it silenced nothing *)
Definition C14_unused_stmt : Prop :=
  forall src root rules c l,
    ids_unique root -> NoDup (map sr_id rules) -> (forall r, In r rules -> kinds_sound root r) ->
    get root l = Some c ->
    (In (tid c) (res_unused (scan src root rules)) <->
     is_supp_comment src c = true /\
     ~ exists r t, In r rules /\ In t (preorder root) /\ hit r t = true /\
                   N.eqb (governed_line src root l) (start_line src t) = true /\
                   silences (sr_id r) {| su_set := parse_suppression_set (text_of src c); su_node := tid c |} = true).

(* the id list: marker, colon, comma separated ids with optional blanks *)
Definition clean_id (s : str) : Prop :=
  s <> [] /\ (forall b, In b s -> is_ws b = false /\ b <> 44%N).
Fixpoint join_ids (ids : list str) : str :=
  match ids with
  | [] => []
  | [x] => x
  | x :: r => x ++ [44; 32]%N ++ join_ids r
  end.
Definition C14_ids_stmt : Prop :=
  (forall pre ids,
      containsb IGNORE_TEXT pre = false -> (forall k, prefixb IGNORE_TEXT (skipn k (pre ++ IGNORE_TEXT)) = true -> k = length pre) ->
      ids <> [] -> (forall x, In x ids -> clean_id x) ->
      parse_suppression_set (pre ++ IGNORE_TEXT ++ [58; 32]%N ++ join_ids ids) = Some ids) /\
  (forall pre, containsb IGNORE_TEXT pre = false ->
      (forall k, prefixb IGNORE_TEXT (skipn k (pre ++ IGNORE_TEXT)) = true -> k = length pre) ->
      parse_suppression_set (pre ++ IGNORE_TEXT) = None).
